// instr rewrites Go source files of the repository under test so that every
// source of scheduling nondeterminism goes through the vs scheduler:
//
//	import "sync" / "sync/atomic" / "time" / "context" / "math/rand/v2"  ->  shim packages
//	go f(a...)            ->  vs.Go(...)
//	ch <- v, <-ch, close  ->  vs.Snd(ch).Send(v), vs.Recv(ch), vs.Close(ch)
//	select {...}          ->  switch vs.Select(cases...) {...}
//
// The rewrite is a text splice driven by the AST: untouched code keeps its
// bytes and its line numbers. Output files are written to -out and an overlay
// fragment (JSON map original path -> rewritten path, stock tests -> "") to
// -map. The repository is never written.
package main

import (
	"encoding/json"
	"flag"
	"fmt"
	"go/ast"
	"go/parser"
	"go/token"
	"os"
	"path/filepath"
	"sort"
	"strconv"
	"strings"
)

const vsPath = "github.com/IrineSistiana/mosdns/v5/zz_verif/vs"
const shimBase = "github.com/IrineSistiana/mosdns/v5/zz_verif/"

var shims = map[string][2]string{ // std path -> (default identifier, shim dir)
	"sync":         {"sync", "vsync"},
	"sync/atomic":  {"atomic", "vatomic"},
	"time":         {"time", "vtime"},
	"context":      {"context", "vctx"},
	"math/rand/v2": {"rand", "vrand"},
}

type rewriter struct {
	fset    *token.FileSet
	src     []byte
	file    *ast.File
	targets []ast.Node // nodes with a rewrite, sorted by position (pre-order)
	usedVs  bool
	extra   map[string]string // import path -> replacement path (adoption)
	mapNames map[string]bool  // identifiers / field names declared with a map type in this package
	fieldWr  map[ast.Node]bool // map-typed field selectors that are assigned to
	fieldNames map[string]bool // all struct field names of the package (race_fields packages only)
	plainField map[ast.Node]bool // selector instrumented as a plain (non-map) field
	skipSel map[ast.Node]bool // comm statements handled by their select
	recv2   map[ast.Node]bool // unary recv expressions in a 2-value context
	importNames map[string]bool
}

func (r *rewriter) off(p token.Pos) int { return r.fset.Position(p).Offset }

func (r *rewriter) text(from, to token.Pos) string { return string(r.src[r.off(from):r.off(to)]) }

func (r *rewriter) collect() {
	r.skipSel = map[ast.Node]bool{}
	r.recv2 = map[ast.Node]bool{}
	r.importNames = map[string]bool{}
	for _, im := range r.file.Imports {
		p, _ := strconv.Unquote(im.Path.Value)
		name := p[strings.LastIndex(p, "/")+1:]
		if im.Name != nil {
			name = im.Name.Name
		}
		r.importNames[name] = true
	}
	r.fieldWr = map[ast.Node]bool{}
	r.plainField = map[ast.Node]bool{}
	var stack []ast.Node
	ast.Inspect(r.file, func(n ast.Node) bool {
		if n == nil {
			stack = stack[:len(stack)-1]
			return true
		}
		stack = append(stack, n)
		var parent ast.Node
		if len(stack) >= 2 {
			parent = stack[len(stack)-2]
		}
		switch n := n.(type) {
		case *ast.SelectorExpr:
			isMap := r.mapNames[n.Sel.Name]
			isField := !isMap && r.fieldNames[n.Sel.Name]
			if isMap || isField {
				if _, isPkg := n.X.(*ast.Ident); isPkg && r.importNames[n.X.(*ast.Ident).Name] {
					break
				}
				skip := false
				switch p := parent.(type) {
				case *ast.AssignStmt:
					for _, l := range p.Lhs {
						if l == ast.Expr(n) {
							r.fieldWr[n] = true
						}
					}
				case *ast.IncDecStmt:
					r.fieldWr[n] = true
				case *ast.UnaryExpr:
					skip = p.Op == token.AND
				case *ast.SelectorExpr:
					skip = isMap && p.X == ast.Expr(n) // X.f.g: f is not the map itself
				case *ast.KeyValueExpr:
					skip = p.Key == ast.Expr(n)
				case *ast.CallExpr:
					skip = isField && p.Fun == ast.Expr(n) // method value / func-typed field call
				}
				if isField && !addressableRoot(n.X) {
					skip = true
				}
				if !skip {
					if isField {
						r.plainField[n] = true
					}
					r.targets = append(r.targets, n)
				}
			}
		case *ast.ImportSpec:
			p, _ := strconv.Unquote(n.Path.Value)
			if _, ok := shims[p]; ok {
				if n.Name == nil || (n.Name.Name != "_" && n.Name.Name != ".") {
					r.targets = append(r.targets, n)
				}
			} else if _, ok := r.extra[p]; ok {
				r.targets = append(r.targets, n)
			}
		case *ast.GoStmt, *ast.SendStmt, *ast.SelectStmt:
			r.targets = append(r.targets, n)
		case *ast.UnaryExpr:
			if n.Op == token.ARROW {
				r.targets = append(r.targets, n)
			}
		case *ast.CallExpr:
			if id, ok := n.Fun.(*ast.Ident); ok && id.Name == "close" && len(n.Args) == 1 {
				r.targets = append(r.targets, n)
			}
			if id, ok := n.Fun.(*ast.Ident); ok && id.Name == "delete" && len(n.Args) == 2 && r.isMapExpr(n.Args[0]) {
				r.targets = append(r.targets, n)
			}
		case *ast.RangeStmt:
			if r.isMapExpr(n.X) || isChanExpr(n.X) {
				r.targets = append(r.targets, n)
			}
		case *ast.AssignStmt:
			if len(n.Lhs) == 1 && len(n.Rhs) == 1 && n.Tok == token.ASSIGN {
				if ix, ok := n.Lhs[0].(*ast.IndexExpr); ok && r.isMapExpr(ix.X) {
					r.targets = append(r.targets, n)
				}
			}
			if len(n.Lhs) == 2 && len(n.Rhs) == 1 {
				if u, ok := n.Rhs[0].(*ast.UnaryExpr); ok && u.Op == token.ARROW {
					r.recv2[u] = true
				}
			}
		case *ast.ValueSpec:
			if len(n.Names) == 2 && len(n.Values) == 1 {
				if u, ok := n.Values[0].(*ast.UnaryExpr); ok && u.Op == token.ARROW {
					r.recv2[u] = true
				}
			}
		}
		return true
	})
	sort.SliceStable(r.targets, func(i, j int) bool { return r.targets[i].Pos() < r.targets[j].Pos() })
}

// render emits the source text of [from,to) with the rewrites of every target
// that lies inside that range and is not nested in another target of the range.
func (r *rewriter) render(from, to token.Pos) string {
	var b strings.Builder
	pos := from
	for _, t := range r.targets {
		if t.Pos() < pos || t.End() > to || t.Pos() < from {
			continue
		}
		if t.Pos() == from && t.End() == to {
			// the range is exactly a target that the caller is rewriting itself
			// (cannot happen with the call patterns below); fall through
		}
		b.WriteString(r.text(pos, t.Pos()))
		b.WriteString(r.rewrite(t))
		pos = t.End()
	}
	b.WriteString(r.text(pos, to))
	return b.String()
}

func (r *rewriter) node(n ast.Node) string { return r.render(n.Pos(), n.End()) }

// inner renders the inside of a node that is itself a target (skips itself).
func (r *rewriter) inner(from, to token.Pos, self ast.Node) string {
	var b strings.Builder
	pos := from
	for _, t := range r.targets {
		if t == self || t.Pos() < pos || t.End() > to {
			continue
		}
		b.WriteString(r.text(pos, t.Pos()))
		b.WriteString(r.rewrite(t))
		pos = t.End()
	}
	b.WriteString(r.text(pos, to))
	return b.String()
}

func (r *rewriter) rewrite(n ast.Node) string {
	switch n := n.(type) {
	case *ast.ImportSpec:
		p, _ := strconv.Unquote(n.Path.Value)
		if s, ok := shims[p]; ok {
			name := s[0]
			if n.Name != nil {
				name = n.Name.Name
			}
			return fmt.Sprintf("%s %q", name, shimBase+s[1])
		}
		np := r.extra[p]
		name := filepath.Base(p)
		if n.Name != nil {
			name = n.Name.Name
		}
		return fmt.Sprintf("%s %q", name, np)
	case *ast.SendStmt:
		r.usedVs = true
		return "__vs.Snd(" + r.node(n.Chan) + ").Send(" + r.node(n.Value) + ")"
	case *ast.UnaryExpr:
		r.usedVs = true
		f := "__vs.Recv("
		if r.recv2[n] {
			f = "__vs.Recv2("
		}
		return f + r.node(n.X) + ")"
	case *ast.CallExpr: // close(x) / delete(m, k)
		r.usedVs = true
		if n.Fun.(*ast.Ident).Name == "delete" {
			return "__vs.MapDel(" + r.node(n.Args[0]) + ", " + r.node(n.Args[1]) + ")"
		}
		return "__vs.Close(" + r.node(n.Args[0]) + ")"
	case *ast.SelectorExpr: // map-typed field: record the access for the race detector
		r.usedVs = true
		inner := r.inner(n.Pos(), n.End(), n)
		if r.plainField[n] {
			if r.fieldWr[n] {
				return "*__vs.Wr(&" + inner + ")"
			}
			return "(*__vs.Rd(&" + inner + "))"
		}
		if r.fieldWr[n] {
			return "*__vs.WrM(&" + inner + ")"
		}
		return "(*__vs.RdM(&" + inner + "))"
	case *ast.GoStmt:
		r.usedVs = true
		c := n.Call
		if fl, ok := c.Fun.(*ast.FuncLit); ok && len(c.Args) == 0 {
			return "__vs.Go(" + r.node(fl) + ")"
		}
		var b strings.Builder
		fn := "__f"
		if id, ok := c.Fun.(*ast.Ident); ok {
			// plain identifier (function name or builtin such as panic): call it by name
			fn = id.Name
			b.WriteString("{ ")
		} else {
			b.WriteString("{ __f := " + r.node(c.Fun) + "; ")
		}
		var args []string
		for i, a := range c.Args {
			if _, lit := a.(*ast.BasicLit); lit {
				args = append(args, r.node(a))
				continue
			}
			v := fmt.Sprintf("__a%d", i)
			b.WriteString(v + " := " + r.node(a) + "; ")
			args = append(args, v)
		}
		call := fn + "(" + strings.Join(args, ", ")
		if c.Ellipsis.IsValid() {
			call += "..."
		}
		call += ")"
		b.WriteString("__vs.Go(func() { " + call + " }) }")
		return b.String()
	case *ast.SelectStmt:
		r.usedVs = true
		return r.rewriteSelect(n)
	case *ast.AssignStmt: // m[k] = v on a known map: register the key (deterministic iteration order)
		r.usedVs = true
		ix := n.Lhs[0].(*ast.IndexExpr)
		return "__vs.MapSet(" + r.node(ix.X) + ", " + r.node(ix.Index) + ", " + r.node(n.Rhs[0]) + ")"
	case *ast.RangeStmt:
		r.usedVs = true
		if isChanExpr(n.X) && !r.isMapExpr(n.X) {
			// for v := range ch  ->  for { v, ok := Recv2(ch); if !ok { break }; ... }
			recv := "__vs.Recv2(" + r.node(n.X) + ")"
			hdr := "_, __rok := " + recv
			if n.Key != nil {
				if id, ok := n.Key.(*ast.Ident); !ok || id.Name != "_" {
					if n.Tok == token.DEFINE {
						hdr = r.node(n.Key) + ", __rok := " + recv
					} else {
						hdr = "var __rok bool; " + r.node(n.Key) + ", __rok = " + recv
					}
				}
			}
			return "for {" + hdr + "; if !__rok { break };" + r.inner(n.Body.Lbrace+1, n.Body.End(), nil)
		}
		m := r.node(n.X)
		key := "__mk"
		pre := ""
		if id, ok := n.Key.(*ast.Ident); ok && n.Key != nil && id.Name != "_" {
			if n.Tok == token.DEFINE {
				key = id.Name
			} else {
				pre += " " + id.Name + " = __mk;"
			}
		} else if n.Key != nil {
			if _, ok := n.Key.(*ast.Ident); !ok {
				pre += " " + r.node(n.Key) + " = __mk;"
			}
		}
		if n.Value != nil {
			if id, ok := n.Value.(*ast.Ident); !ok || id.Name != "_" {
				op := ":="
				if n.Tok != token.DEFINE {
					op = "="
				}
				if op == ":=" {
					pre += " " + r.node(n.Value) + ", __ok := (" + m + ")[" + key + "]; if !__ok { continue };"
				} else {
					pre += " if __v, __ok := (" + m + ")[" + key + "]; !__ok { continue } else { " + r.node(n.Value) + " = __v };"
				}
			}
		}
		if pre == "" || n.Value == nil {
			pre += " if _, __ok := (" + m + ")[" + key + "]; !__ok { continue };"
		}
		return "for _, " + key + " := range __vs.MapKeys(" + m + ") {" + pre + r.inner(n.Body.Lbrace+1, n.Body.End(), nil)
	}
	panic("unexpected target")
}

func (r *rewriter) rewriteSelect(n *ast.SelectStmt) string {
	var inits, names []string
	type cl struct {
		c      *ast.CommClause
		prefix string
	}
	var cls []cl
	for i, st := range n.Body.List {
		c := st.(*ast.CommClause)
		k := fmt.Sprintf("__k%d", i)
		prefix := ""
		switch comm := c.Comm.(type) {
		case nil:
			names = append(names, "__vs.Default()")
			cls = append(cls, cl{c, ""})
			continue
		case *ast.SendStmt:
			inits = append(inits, "__vs.Snd("+r.node(comm.Chan)+").Case("+r.node(comm.Value)+")")
		case *ast.ExprStmt:
			u := unparen(comm.X).(*ast.UnaryExpr)
			inits = append(inits, "__vs.RecvCase("+r.node(u.X)+")")
		case *ast.AssignStmt:
			u := unparen(comm.Rhs[0]).(*ast.UnaryExpr)
			inits = append(inits, "__vs.RecvCase("+r.node(u.X)+")")
			var lhs []string
			for _, l := range comm.Lhs {
				lhs = append(lhs, r.node(l))
			}
			rhs := k + ".V"
			if len(comm.Lhs) == 2 {
				rhs += ", " + k + ".OK"
			}
			prefix = " " + strings.Join(lhs, ", ") + " " + comm.Tok.String() + " " + rhs + ";"
		default:
			panic("unexpected comm clause")
		}
		names = append(names, k)
		cls = append(cls, cl{c, prefix})
	}
	var b strings.Builder
	b.WriteString("switch ")
	var ks []string
	for i, nm := range names {
		if nm != "__vs.Default()" {
			ks = append(ks, fmt.Sprintf("__k%d", i))
		}
	}
	if len(ks) > 0 {
		b.WriteString(strings.Join(ks, ", ") + " := " + strings.Join(inits, ", ") + "; ")
	}
	b.WriteString("__vs.Select(" + strings.Join(names, ", ") + ") {")
	pos := n.Body.Lbrace + 1
	for i, c := range cls {
		b.WriteString(r.text(pos, c.c.Pos()))
		b.WriteString(fmt.Sprintf("case %d:%s", i, c.prefix))
		b.WriteString(r.inner(c.c.Colon+1, c.c.End(), nil))
		pos = c.c.End()
	}
	b.WriteString(r.text(pos, n.Body.Rbrace))
	b.WriteString("default: panic(\"vs: select index\") }")
	return b.String()
}

// addressableRoot: the selector chain starts at a plain identifier (possibly
// through pointer dereferences), so taking the address of the field is legal.
func addressableRoot(e ast.Expr) bool {
	for {
		switch x := e.(type) {
		case *ast.Ident:
			return true
		case *ast.ParenExpr:
			e = x.X
		case *ast.StarExpr:
			e = x.X
		case *ast.SelectorExpr:
			e = x.X
		default:
			return false
		}
	}
}

// collectFieldNames gathers the field names of every struct type declared in f.
func collectFieldNames(f *ast.File, out map[string]bool) {
	ast.Inspect(f, func(n ast.Node) bool {
		if st, ok := n.(*ast.StructType); ok && st.Fields != nil {
			for _, fl := range st.Fields.List {
				if _, isFunc := fl.Type.(*ast.FuncType); isFunc {
					continue
				}
				for _, id := range fl.Names {
					out[id.Name] = true
				}
			}
		}
		return true
	})
}

func (r *rewriter) isMapExpr(e ast.Expr) bool {
	switch x := unparen(e).(type) {
	case *ast.Ident:
		return r.mapNames[x.Name]
	case *ast.SelectorExpr:
		return r.mapNames[x.Sel.Name]
	}
	return false
}

// curChanNames: identifiers / field names declared with a channel type in the
// package being instrumented (range over a channel is recognised by name, like
// maps: the rewriter has no type information).
var curChanNames = map[string]bool{}

func isChanExpr(e ast.Expr) bool {
	switch x := unparen(e).(type) {
	case *ast.Ident:
		return curChanNames[x.Name]
	case *ast.SelectorExpr:
		return curChanNames[x.Sel.Name]
	}
	return false
}

func collectChanNames(f *ast.File, out map[string]bool) {
	isChan := func(t ast.Expr) bool { _, ok := t.(*ast.ChanType); return ok }
	isMakeChan := func(e ast.Expr) bool {
		if c, ok := e.(*ast.CallExpr); ok {
			if id, ok := c.Fun.(*ast.Ident); ok && id.Name == "make" && len(c.Args) > 0 {
				return isChan(c.Args[0])
			}
		}
		return false
	}
	ast.Inspect(f, func(n ast.Node) bool {
		switch n := n.(type) {
		case *ast.Field:
			if n.Type != nil && isChan(n.Type) {
				for _, id := range n.Names {
					out[id.Name] = true
				}
			}
		case *ast.ValueSpec:
			for i, id := range n.Names {
				if (n.Type != nil && isChan(n.Type)) || (i < len(n.Values) && isMakeChan(n.Values[i])) {
					out[id.Name] = true
				}
			}
		case *ast.AssignStmt:
			if n.Tok == token.DEFINE {
				for i, v := range n.Rhs {
					if i < len(n.Lhs) && isMakeChan(v) {
						if id, ok := n.Lhs[i].(*ast.Ident); ok {
							out[id.Name] = true
						}
					}
				}
			}
		}
		return true
	})
}

// collectMapNames gathers (syntactically) the names declared with a map type
// in a parsed file: struct fields, variables, parameters, make(map...) locals.
func collectMapNames(f *ast.File, out map[string]bool) {
	isMap := func(t ast.Expr) bool { _, ok := t.(*ast.MapType); return ok }
	ast.Inspect(f, func(n ast.Node) bool {
		switch n := n.(type) {
		case *ast.Field:
			if n.Type != nil && isMap(n.Type) {
				for _, id := range n.Names {
					out[id.Name] = true
				}
			}
		case *ast.ValueSpec:
			if n.Type != nil && isMap(n.Type) {
				for _, id := range n.Names {
					out[id.Name] = true
				}
			}
			for i, v := range n.Values {
				if i < len(n.Names) && isMakeMap(v) {
					out[n.Names[i].Name] = true
				}
			}
		case *ast.AssignStmt:
			if n.Tok == token.DEFINE {
				for i, v := range n.Rhs {
					if i < len(n.Lhs) && isMakeMap(v) {
						if id, ok := n.Lhs[i].(*ast.Ident); ok {
							out[id.Name] = true
						}
					}
				}
			}
		}
		return true
	})
}

func isMakeMap(e ast.Expr) bool {
	switch v := e.(type) {
	case *ast.CallExpr:
		if id, ok := v.Fun.(*ast.Ident); ok && id.Name == "make" && len(v.Args) > 0 {
			_, ok := v.Args[0].(*ast.MapType)
			return ok
		}
	case *ast.CompositeLit:
		_, ok := v.Type.(*ast.MapType)
		return ok
	}
	return false
}

func unparen(e ast.Expr) ast.Expr {
	for {
		p, ok := e.(*ast.ParenExpr)
		if !ok {
			return e
		}
		e = p.X
	}
}

func instrumentFile(path string, extra map[string]string, mapNames, fieldNames map[string]bool) ([]byte, error) {
	src, err := os.ReadFile(path)
	if err != nil {
		return nil, err
	}
	fset := token.NewFileSet()
	f, err := parser.ParseFile(fset, path, src, parser.ParseComments|parser.SkipObjectResolution)
	if err != nil {
		return nil, err
	}
	r := &rewriter{fset: fset, src: src, file: f, extra: extra, mapNames: mapNames, fieldNames: fieldNames}
	r.collect()
	// comm statements of select clauses are rewritten by their select: drop the
	// nested targets that are exactly those statements.
	drop := map[ast.Node]bool{}
	ast.Inspect(f, func(n ast.Node) bool {
		if c, ok := n.(*ast.CommClause); ok && c.Comm != nil {
			switch comm := c.Comm.(type) {
			case *ast.SendStmt:
				drop[comm] = true
			case *ast.ExprStmt:
				drop[unparen(comm.X)] = true
			case *ast.AssignStmt:
				drop[unparen(comm.Rhs[0])] = true
			}
		}
		return true
	})
	var ts []ast.Node
	for _, t := range r.targets {
		if !drop[t] {
			ts = append(ts, t)
		}
	}
	r.targets = ts
	body := r.render(f.Package, f.End())
	head := string(src[:r.off(f.Package)])
	if r.usedVs {
		// same line as the package clause: line numbers stay unchanged
		nameEnd := f.Name.End()
		pk := r.text(f.Package, nameEnd)
		rest := body[len(pk):]
		body = pk + "; import __vs " + strconv.Quote(vsPath) + rest
	}
	return []byte(head + body + string(src[r.off(f.End()):])), nil
}

func main() {
	repo := flag.String("repo", "/repo", "repository root")
	out := flag.String("out", "", "output directory for rewritten files")
	pkgs := flag.String("pkgs", "", "comma separated package directories relative to repo")
	adopt := flag.String("adopt", "", "comma separated importpath=dir=relTarget: copy an external package dir into repo/relTarget (instrumented) and redirect imports")
	mapOut := flag.String("map", "", "where to write the overlay fragment (JSON)")
	rebind := flag.String("rebind", "", "comma separated import=relTarget@pkg+pkg: bind an import to a mounted shim package in the listed package dirs only")
	raceFields := flag.String("race", "", "comma separated package dirs whose struct field accesses are all recorded for the race detector")
	flag.Parse()
	frag := map[string]string{}
	extra := map[string]string{}
	type job struct{ srcDir, relDir string }
	var jobs []job
	if *adopt != "" {
		for _, a := range strings.Split(*adopt, ",") {
			p := strings.Split(a, "=")
			extra[p[0]] = "github.com/IrineSistiana/mosdns/v5/" + p[2]
			jobs = append(jobs, job{p[1], p[2]})
		}
	}
	for _, p := range strings.Split(*pkgs, ",") {
		if p = strings.TrimSpace(p); p != "" {
			jobs = append(jobs, job{filepath.Join(*repo, p), p})
		}
	}
	rebinds := map[string]map[string]string{} // relDir -> import -> new path
	if *rebind != "" {
		for _, rb := range strings.Split(*rebind, ",") {
			at := strings.Split(rb, "@")
			kv := strings.Split(at[0], "=")
			for _, pk := range strings.Split(at[1], "+") {
				if rebinds[pk] == nil {
					rebinds[pk] = map[string]string{}
				}
				rebinds[pk][kv[0]] = "github.com/IrineSistiana/mosdns/v5/" + kv[1]
			}
		}
	}
	for _, j := range jobs {
		ex := extra
		if rb := rebinds[j.relDir]; rb != nil {
			ex = map[string]string{}
			for k, v := range extra {
				ex[k] = v
			}
			for k, v := range rb {
				ex[k] = v
			}
		}
		ents, err := os.ReadDir(j.srcDir)
		if err != nil {
			fmt.Fprintf(os.Stderr, "INFRA: instr: %v\n", err)
			os.Exit(2)
		}
		mapNames := map[string]bool{}
		curChanNames = map[string]bool{}
		fieldNames := map[string]bool{}
		wantFields := false
		for _, rp := range strings.Split(*raceFields, ",") {
			if rp != "" && rp == j.relDir {
				wantFields = true
			}
		}
		for _, e := range ents {
			name := e.Name()
			if e.IsDir() || !strings.HasSuffix(name, ".go") || strings.HasSuffix(name, "_test.go") {
				continue
			}
			if pf, err := parser.ParseFile(token.NewFileSet(), filepath.Join(j.srcDir, name), nil, parser.SkipObjectResolution); err == nil {
				collectMapNames(pf, mapNames)
				collectChanNames(pf, curChanNames)
				if wantFields {
					collectFieldNames(pf, fieldNames)
				}
			}
		}
		for _, e := range ents {
			name := e.Name()
			if e.IsDir() || !strings.HasSuffix(name, ".go") {
				continue
			}
			orig := filepath.Join(*repo, j.relDir, name)
			if strings.HasSuffix(name, "_test.go") {
				if j.srcDir == filepath.Join(*repo, j.relDir) {
					frag[orig] = ""
				}
				continue
			}
			data, err := instrumentFile(filepath.Join(j.srcDir, name), ex, mapNames, fieldNames)
			if err != nil {
				fmt.Fprintf(os.Stderr, "INFRA: instr: %s: %v\n", name, err)
				os.Exit(2)
			}
			dst := filepath.Join(*out, j.relDir, name)
			os.MkdirAll(filepath.Dir(dst), 0o755)
			if err := os.WriteFile(dst, data, 0o644); err != nil {
				fmt.Fprintf(os.Stderr, "INFRA: instr: %v\n", err)
				os.Exit(2)
			}
			frag[orig] = dst
		}
	}
	data, _ := json.MarshalIndent(frag, "", " ")
	if err := os.WriteFile(*mapOut, data, 0o644); err != nil {
		fmt.Fprintf(os.Stderr, "INFRA: instr: %v\n", err)
		os.Exit(2)
	}
}
