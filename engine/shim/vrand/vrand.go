// Package vrand is bound to the identifier "rand" (math/rand/v2) in instrumented files.
package vrand

import (
	stdrand2 "math/rand/v2"

	"github.com/IrineSistiana/mosdns/v5/zz_verif/vs"
)

// IntN is an environment choice inside an execution: every value is explored.
func IntN(n int) int {
	if vs.Active() {
		return vs.Choose(n)
	}
	return stdrand2.IntN(n)
}

func N[Int interface {
	~int | ~int8 | ~int16 | ~int32 | ~int64 | ~uint | ~uint8 | ~uint16 | ~uint32 | ~uint64 | ~uintptr
}](n Int) Int {
	if vs.Active() {
		return Int(vs.Choose(int(n)))
	}
	return stdrand2.N(n)
}
