// Package vtime is bound to the identifier "time" in instrumented files.
package vtime

import "github.com/IrineSistiana/mosdns/v5/zz_verif/vs"

type Timer = vs.Timer
type Ticker = vs.Ticker

var (
	Now       = vs.Now
	Since     = vs.Since
	Until     = vs.Until
	Sleep     = vs.Sleep
	After     = vs.After
	AfterFunc = vs.AfterFunc
	NewTimer  = vs.NewTimer
	NewTicker = vs.NewTicker
	Tick      = vs.Tick
)
