// Package vsync is bound to the identifier "sync" in instrumented files.
package vsync

import (
	stdsync "sync"

	"github.com/IrineSistiana/mosdns/v5/zz_verif/vs"
)

type Mutex = vs.Mutex
type RWMutex = vs.RWMutex
type WaitGroup = vs.WaitGroup
type Once = vs.Once
type Pool = vs.Pool

func OnceFunc(f func()) func()                         { return stdsync.OnceFunc(f) }
func OnceValue[T any](f func() T) func() T             { return stdsync.OnceValue(f) }
func OnceValues[T1, T2 any](f func() (T1, T2)) func() (T1, T2) { return stdsync.OnceValues(f) }
