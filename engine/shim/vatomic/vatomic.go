// Package vatomic is bound to the identifier "atomic" in instrumented files.
package vatomic

import "github.com/IrineSistiana/mosdns/v5/zz_verif/vs"

type Bool = vs.Bool
type Int32 = vs.Int32
type Int64 = vs.Int64
type Uint32 = vs.Uint32
type Uint64 = vs.Uint64
type Uintptr = vs.Uintptr
type Value = vs.Value
type Pointer[T any] struct{ vs.Pointer[T] }

var (
	AddInt32              = vs.AddInt32
	AddInt64              = vs.AddInt64
	AddUint32             = vs.AddUint32
	AddUint64             = vs.AddUint64
	LoadInt32             = vs.LoadInt32
	LoadInt64             = vs.LoadInt64
	LoadUint32            = vs.LoadUint32
	LoadUint64            = vs.LoadUint64
	StoreInt32            = vs.StoreInt32
	StoreInt64            = vs.StoreInt64
	StoreUint32           = vs.StoreUint32
	StoreUint64           = vs.StoreUint64
	CompareAndSwapInt32   = vs.CompareAndSwapInt32
	CompareAndSwapInt64   = vs.CompareAndSwapInt64
	CompareAndSwapUint32  = vs.CompareAndSwapUint32
	CompareAndSwapUint64  = vs.CompareAndSwapUint64
)
