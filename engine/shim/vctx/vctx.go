// Package vctx is bound to the identifier "context" in instrumented files.
package vctx

import "github.com/IrineSistiana/mosdns/v5/zz_verif/vs"

var (
	WithCancel        = vs.WithCancel
	WithCancelCause   = vs.WithCancelCause
	WithDeadline      = vs.WithDeadline
	WithDeadlineCause = vs.WithDeadlineCause
	WithTimeout       = vs.WithTimeout
	WithTimeoutCause  = vs.WithTimeoutCause
	Cause             = vs.Cause
	AfterFunc         = vs.CtxAfterFunc
	WithoutCancel     = vs.WithoutCancel
)
