module verif/engine

go 1.22.0
