// Package vr is the result/replay protocol between harness test binaries and
// the vcheck driver (mounted at zz_verif/vr).
package vr

import (
	"encoding/json"
	"fmt"
	"os"
	"sort"
	"strconv"
	"strings"
	"time"

	"github.com/IrineSistiana/mosdns/v5/zz_verif/vs"
)

type Violation struct {
	Sig    string `json:"sig"`
	Desc   string `json:"desc"`
	Replay any    `json:"replay"`
	Cost   int    `json:"cost"`
}

type ScenarioStat struct {
	Name       string           `json:"name"`
	P          int              `json:"P"`
	T          int              `json:"T"`
	N          int              `json:"N"`
	D          int              `json:"D"`
	Execs      int64            `json:"executions"`
	Events     int64            `json:"transitions"`
	States     int64            `json:"states"`
	MaxPoints  int              `json:"max_choice_points"`
	Exhaustive bool             `json:"exhaustive_within_bound"`
	Outcomes   map[string]int64 `json:"outcomes"`
	WallS      float64          `json:"wall_s"`
	// Level is the offset of this pass's deviation bounds from the bounds the
	// harness states for the tier (iterative bounding, thorough tier only);
	// Required passes decide the check's "exhaustive" flag.
	Level    int  `json:"level"`
	Required bool `json:"required"`
}

type Result struct {
	Property    string           `json:"property"`
	Tier        string           `json:"tier"`
	Shard       int              `json:"shard"`
	Shards      int              `json:"shards"`
	Evaluations int64            `json:"evaluations"`
	States      int64            `json:"states"`
	Transitions int64            `json:"transitions"`
	Outcomes    map[string]int64 `json:"outcomes"`
	Rule        string           `json:"rule"`
	Samples     []any            `json:"samples"`
	Violations  []Violation      `json:"violations"`
	Exhaustive  bool             `json:"exhaustive"`
	Bounds      map[string]any   `json:"bounds"`
	Scenarios   []ScenarioStat   `json:"scenarios"`
	Notes       []string         `json:"notes"`
	Infra       string           `json:"infra"`
	StateHashes []uint64         `json:"-"`
}

type Env struct {
	Tier     string
	Shard    int
	Shards   int
	Seed     int64
	Deadline time.Time // wall-clock budget end (zero: none)
	Replay   string    // path of a replay file (empty: explore)
	Out      string
}

func GetEnv() Env {
	e := Env{Tier: os.Getenv("VERIF_TIER"), Shards: 1, Out: os.Getenv("VERIF_OUT"), Replay: os.Getenv("VERIF_REPLAY")}
	if e.Tier == "" {
		e.Tier = "quick"
	}
	if v, err := strconv.Atoi(os.Getenv("VERIF_SHARD")); err == nil {
		e.Shard = v
	}
	if v, err := strconv.Atoi(os.Getenv("VERIF_SHARDS")); err == nil && v > 0 {
		e.Shards = v
	}
	if v, err := strconv.ParseInt(os.Getenv("VERIF_SEED"), 10, 64); err == nil {
		e.Seed = v
	}
	if v, err := strconv.ParseFloat(os.Getenv("VERIF_BUDGET_S"), 64); err == nil && v > 0 {
		e.Deadline = time.Now().Add(time.Duration(v * float64(time.Second)))
	}
	return e
}

func New(prop string, e Env) *Result {
	return &Result{Property: prop, Tier: e.Tier, Shard: e.Shard, Shards: e.Shards, Outcomes: map[string]int64{},
		Exhaustive: true, Bounds: map[string]any{}}
}

func (r *Result) Outcome(key string) { r.Outcomes[key]++ }

func (r *Result) Sample(v any) {
	if len(r.Samples) < 6 {
		r.Samples = append(r.Samples, v)
	}
}

func (r *Result) Violate(sig, desc string, replay any) {
	for i := range r.Violations {
		if r.Violations[i].Sig == sig {
			return
		}
	}
	r.Violations = append(r.Violations, Violation{Sig: sig, Desc: desc, Replay: replay})
}

func (r *Result) Write(e Env) {
	if e.Out == "" {
		b, _ := json.MarshalIndent(r, "", " ")
		fmt.Println(string(b))
		return
	}
	b, err := json.Marshal(r)
	if err != nil {
		panic(err)
	}
	if err := os.WriteFile(e.Out, b, 0o644); err != nil {
		panic(err)
	}
	if len(r.StateHashes) > 0 && len(r.StateHashes) <= 4_000_000 {
		var sb strings.Builder
		for _, h := range r.StateHashes {
			sb.WriteString(strconv.FormatUint(h, 36))
			sb.WriteByte('\n')
		}
		os.WriteFile(e.Out+".states", []byte(sb.String()), 0o644)
	}
}

// Scenario is one closed system explored by the vs engine.
type Scenario struct {
	Name       string
	P, T       int
	N, D       int // see vs.Config
	Horizon    time.Duration
	Race       bool
	SharedOnly bool
	// Body builds fresh objects and runs the system; Check classifies the
	// finished execution (outcome key, optional violation). Both share state
	// through the closure that created the scenario.
	Body   func()
	Check  func(x *vs.Exec) (string, *vs.Violation)
	Params any // recorded in replay files
}

type ReplayFile struct {
	Property string `json:"property"`
	Scenario string `json:"scenario"`
	Params   any    `json:"params,omitempty"`
	Choices  []int  `json:"choices"`
	Sig      string `json:"sig"`
	Desc     string `json:"desc"`
	Input    any    `json:"input,omitempty"`
	Level    int    `json:"level,omitempty"`
}

// RunScenarios explores (or replays) the scenarios and writes the shard result.
// It returns false when the test should fail (replay mode mismatch only).
func RunScenarios(prop string, scs []Scenario) {
	e := GetEnv()
	if e.Replay != "" {
		replay(prop, e, scs)
		return
	}
	res := New(prop, e)
	res.Rule = "one evaluation = one complete execution of the real code under the vs scheduler; outcome classes are the distinct observation keys returned by the scenario oracle"
	start := time.Now()
	// Iterative bounding. Quick tier: one required pass at the stated bounds.
	// Thorough tier: a required pass one deviation below the stated bounds
	// (these are the quick-tier bounds), then the stated bounds and, with what
	// is left of the budget, one deviation above; the passes that hit the
	// budget are reported as partial and do not count as covered.
	type pass struct {
		level    int
		required bool
	}
	passes := []pass{{0, true}}
	if e.Tier == "thorough" && !e.Deadline.IsZero() {
		passes = []pass{{-1, true}, {0, false}, {1, false}}
	}
	complete := map[string]int{} // scenario -> deepest level completed in this shard
	for _, ps := range passes {
		var todo []Scenario
		for _, sc := range scs {
			if ps.level == -1 && sc.P == 0 && sc.D == 0 {
				continue // nothing below
			}
			if ps.level == 1 {
				if l, ok := complete[sc.Name]; !ok || l < 0 {
					continue
				}
			}
			todo = append(todo, sc)
		}
		if ps.level == 1 && !e.Deadline.IsZero() && time.Until(e.Deadline) < 20*time.Second {
			break
		}
		for i, sc := range todo {
			lsc := levelled(sc, ps.level)
			cfg := vs.Config{P: lsc.P, T: lsc.T, N: lsc.N, D: lsc.D, Horizon: sc.Horizon, Shard: e.Shard, Shards: e.Shards, CountStates: true, Race: sc.Race, SharedOnly: sc.SharedOnly}
			if !e.Deadline.IsZero() {
				remain := time.Until(e.Deadline)
				share := remain / time.Duration(len(todo)-i)
				// a scenario may use what the later ones are unlikely to need: all but one second each
				if alt := remain - time.Duration(len(todo)-i-1)*time.Second; alt > share {
					share = alt
				}
				if ps.level == -1 {
					// the required pass may use whatever it needs
					share = remain
				}
				if share < time.Second {
					share = time.Second
				}
				cfg.Deadline = time.Now().Add(share)
			}
			t0 := time.Now()
			rep := vs.Explore(cfg, sc.Body, sc.Check)
			name := sc.Name
			if ps.level != 0 {
				name = fmt.Sprintf("%s [bounds%+d]", sc.Name, ps.level)
			}
			st := ScenarioStat{Name: name, P: lsc.P, T: lsc.T, N: lsc.N, D: lsc.D, Execs: rep.Execs, Events: rep.Events, States: rep.States,
				MaxPoints: rep.MaxPoints, Exhaustive: !rep.Capped, Outcomes: rep.Outcomes, WallS: time.Since(t0).Seconds(), Level: ps.level, Required: ps.required}
			res.Scenarios = append(res.Scenarios, st)
			res.Evaluations += rep.Execs
			res.Transitions += rep.Events
			res.States += rep.States
			if rep.Capped {
				if ps.required {
					res.Exhaustive = false
				}
				res.Notes = append(res.Notes, fmt.Sprintf("scenario %s: budget hit after %d executions in this shard (pass not counted as covered)", name, rep.Execs))
			} else if l, ok := complete[sc.Name]; !ok || ps.level > l {
				complete[sc.Name] = ps.level
			}
			if rep.Infra != "" {
				res.Infra = name + ": " + rep.Infra
				break
			}
			for k, n := range rep.Outcomes {
				res.Outcomes[sc.Name+"/"+k] += n
			}
			var sigs []string
			for s := range rep.Found {
				sigs = append(sigs, s)
			}
			sort.Strings(sigs)
			for _, s := range sigs {
				f := rep.Found[s]
				// confirm: the schedule must fail again 5/5 with the same signature
				ok := true
				for k := 0; k < 5; k++ {
					x := vs.Run1Choices(cfg, f.Choices, sc.Body)
					_, v := sc.Check(x)
					if v == nil || v.Sig != f.Sig {
						ok = false
					}
				}
				if !ok {
					res.Infra = fmt.Sprintf("%s: violation %q did not reproduce 5/5 from its schedule (nondeterminism)", name, s)
					break
				}
				dup := false
				for _, have := range res.Violations {
					if have.Sig == f.Sig {
						dup = true
					}
				}
				if dup {
					continue
				}
				res.Violations = append(res.Violations, Violation{Sig: f.Sig, Desc: f.Desc, Cost: f.Preemptions + f.EarlyTimers + f.Switches,
					Replay: ReplayFile{Property: prop, Scenario: sc.Name, Params: sc.Params, Choices: f.Choices, Sig: f.Sig, Desc: f.Desc, Level: ps.level}})
			}
			if len(rep.FirstChoices) > 0 && len(res.Samples) < 6 && ps.level == passes[0].level {
				res.Samples = append(res.Samples, map[string]any{"scenario": sc.Name, "schedule_choices": rep.FirstChoices[len(rep.FirstChoices)-1], "params": sc.Params})
			}
		}
		if res.Infra != "" || len(res.Violations) > 0 {
			break // a violation is decisive: do not spend the budget on deeper passes
		}
	}
	res.Bounds["wall_s"] = time.Since(start).Seconds()
	res.Write(e)
}

// levelled returns sc with its deviation bounds shifted by level.
func levelled(sc Scenario, level int) Scenario {
	if level == 0 {
		return sc
	}
	adj := func(v int) int {
		if v+level < 0 {
			return 0
		}
		return v + level
	}
	// P and D move together (D bounds P+N; D == 0 means no joint bound);
	// T and N keep their stated values
	if sc.D > 0 {
		if sc.D+level <= 0 {
			sc.P, sc.N, sc.D = 0, -1, 0 // no deviation at all
			return sc
		}
		sc.D += level
	}
	sc.P = adj(sc.P)
	return sc
}

func replay(prop string, e Env, scs []Scenario) {
	b, err := os.ReadFile(e.Replay)
	if err != nil {
		fmt.Println("INFRA: cannot read replay file:", err)
		os.Exit(2)
	}
	var rf ReplayFile
	if err := json.Unmarshal(b, &rf); err != nil {
		fmt.Println("INFRA: bad replay file:", err)
		os.Exit(2)
	}
	for _, sc := range scs {
		if sc.Name != rf.Scenario {
			continue
		}
		sc = levelled(sc, rf.Level)
		cfg := vs.Config{P: sc.P, T: sc.T, N: sc.N, D: sc.D, Horizon: sc.Horizon, Race: sc.Race, SharedOnly: sc.SharedOnly}
		x := vs.Replay(cfg, rf.Choices, sc.Body)
		for _, ev := range x.Trace {
			fmt.Printf("%4d %-10s %-24s alt=%d %-28s t=%s\n", ev.N, ev.Thread, ev.Kind, ev.Alt, ev.Site, ev.Now)
		}
		for _, n := range x.Notes {
			fmt.Println("note:", n)
		}
		if len(x.Blocked) > 0 {
			fmt.Println("parked at end:", x.Blocked)
		}
		if x.Panic != "" {
			fmt.Println("panic:", x.Panic)
		}
		key, v := sc.Check(x)
		fmt.Println("outcome:", key)
		if v != nil {
			fmt.Printf("REPLAY-VIOLATION property=%s sig=%s\n  %s\n", prop, v.Sig, v.Desc)
		} else {
			fmt.Println("REPLAY-OK: this schedule does not violate the property on the current tree")
		}
		return
	}
	fmt.Println("INFRA: replay scenario not found:", rf.Scenario)
	os.Exit(2)
}

// ---------------------------------------------------------------------------
// helpers for sequential bounded-exhaustive enumerators (engine E2)

// ReplayInput returns the "input" member of the replay file when the test was
// started in replay mode (VERIF_REPLAY set).
func ReplayInput() (json.RawMessage, bool) {
	p := os.Getenv("VERIF_REPLAY")
	if p == "" {
		return nil, false
	}
	b, err := os.ReadFile(p)
	if err != nil {
		fmt.Println("INFRA: cannot read replay file:", err)
		os.Exit(2)
	}
	var rf struct {
		Input json.RawMessage `json:"input"`
	}
	if err := json.Unmarshal(b, &rf); err != nil {
		fmt.Println("INFRA: bad replay file:", err)
		os.Exit(2)
	}
	return rf.Input, true
}

// ViolateInput records a violation found by an enumerator; input is stored in
// the replay file (it must be enough to re-run the single case).
func (r *Result) ViolateInput(sig, desc string, input any) {
	r.Violate(sig, desc, ReplayFile{Property: r.Property, Sig: sig, Desc: desc, Input: input})
}

// Mine reports whether work unit i belongs to this shard.
func (e Env) Mine(i int64) bool { return e.Shards <= 1 || int(i%int64(e.Shards)) == e.Shard }

// Expired reports whether the wall-clock budget is used up (the enumerator must
// then stop, set Exhaustive=false and name the last completed bound in Notes).
func (e Env) Expired() bool { return !e.Deadline.IsZero() && time.Now().After(e.Deadline) }
