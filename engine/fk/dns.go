package fk

import (
	"encoding/binary"
	"fmt"

	"github.com/miekg/dns"
)

// Query packs a query with the given ID for "<name>" (fully qualified) / qtype.
func Query(id uint16, name string, qtype uint16) []byte {
	m := new(dns.Msg)
	m.SetQuestion(name, qtype)
	m.Id = id
	b, err := m.Pack()
	if err != nil {
		panic(err)
	}
	return b
}

// Answer builds the server's reply to the packed query q: same wire ID and
// question, one TXT record carrying nonce so that every produced answer is
// distinguishable from every other one.
func Answer(q []byte, nonce uint32) []byte {
	qm := new(dns.Msg)
	if err := qm.Unpack(q); err != nil {
		panic(err)
	}
	r := new(dns.Msg)
	r.SetReply(qm)
	r.Answer = append(r.Answer, &dns.TXT{
		Hdr: dns.RR_Header{Name: qm.Question[0].Name, Rrtype: dns.TypeTXT, Class: dns.ClassINET, Ttl: 60},
		Txt: []string{fmt.Sprintf("nonce=%d", nonce)},
	})
	b, err := r.Pack()
	if err != nil {
		panic(err)
	}
	return b
}

// WithID returns a copy of msg with its first two bytes set to id.
func WithID(msg []byte, id uint16) []byte {
	b := append([]byte(nil), msg...)
	binary.BigEndian.PutUint16(b, id)
	return b
}

func ID(msg []byte) uint16 { return binary.BigEndian.Uint16(msg) }

// Frame prepends the two-byte length header.
func Frame(msg []byte) []byte {
	b := make([]byte, 2+len(msg))
	binary.BigEndian.PutUint16(b, uint16(len(msg)))
	copy(b[2:], msg)
	return b
}

// Unframe parses as many complete frames as stream holds (independent framer).
func Unframe(stream []byte) (msgs [][]byte, rest []byte) {
	for len(stream) >= 2 {
		n := int(stream[0])<<8 | int(stream[1])
		if len(stream) < 2+n {
			break
		}
		msgs = append(msgs, append([]byte(nil), stream[2:2+n]...))
		stream = stream[2+n:]
	}
	return msgs, stream
}

// QName returns the first question name of a packed message ("" if unparsable).
func QName(msg []byte) string {
	m := new(dns.Msg)
	if err := m.Unpack(msg); err != nil || len(m.Question) == 0 {
		return ""
	}
	return m.Question[0].Name
}
