package fk

import (
	"math/bits"
	"sync"

	"github.com/IrineSistiana/mosdns/v5/pkg/pool"
	"github.com/IrineSistiana/mosdns/v5/zz_verif/vs"
)

var poisonOnce sync.Once

// PoisonOnRelease: overwrite released buffers with 0xDD (default). A harness may
// switch it off for a scenario to model the other legal behaviour of a pool - a
// released buffer keeps its bytes until its next user overwrites them - under
// which a use-after-release sends / returns stale but well-formed data.
var PoisonOnRelease = true

// PoisonPool replaces pkg/pool's allocator (go-bytes-pool over the runtime's
// sync.Pool, whose reuse pattern depends on the GC and on earlier executions)
// by a deterministic one the harness owns:
//
//   - ReleaseBuf checks the capacity class like the original (same panic),
//     overwrites the buffer with 0xDD and puts it on a LIFO free list of its
//     class that lives for the current execution only;
//   - GetBuf hands out the most recently released buffer of the class, else a
//     fresh one filled with 0xDD (the real pool hands out buffers with
//     arbitrary old contents, so code may not rely on what is in there).
//
// A buffer that is read after its release, or used without being written, shows
// 0xDD or - once somebody else got it - that user's bytes; releasing a buffer
// that is still on the free list panics (the real pool would hand it to two
// users from then on); and an execution never depends on what an earlier one
// left in the pool.
func PoisonPool() {
	poisonOnce.Do(func() {
		const bitLen = 20            // pkg/pool: bytesPool.NewPool(20)
		var free [bitLen + 2]vs.Pool // per execution (vs.Pool forgets its items when a new execution starts)
		pool.GetBuf = func(size int) *[]byte {
			if size < 0 {
				panic("bytesPool: negative buffer size")
			}
			bit := bits.Len(uint(size))
			if bit <= bitLen {
				if bp, ok := free[bit].Get().(*[]byte); ok {
					*bp = (*bp)[:size]
					return bp
				}
			}
			var b []byte
			if bit > bitLen {
				b = make([]byte, size)
			} else {
				b = make([]byte, size, (1<<bit)-1)
			}
			s := b[:cap(b)]
			for i := range s {
				s[i] = 0xDD
			}
			return &b
		}
		pool.ReleaseBuf = func(b *[]byte) {
			c := cap(*b) // nil: same nil dereference as the original
			bit := bits.Len(uint(c))
			if bit > bitLen {
				return
			}
			if c != (1<<bit)-1 {
				panic("bytesPool: invalid buf")
			}
			if free[bit].Contains(b) {
				// the real pool would hand this buffer to two users from now on: whatever one of
				// them receives or sends is overwritten by the other. Reported at the cause.
				panic("bytesPool: buffer released twice (it is still on the free list from its first release)")
			}
			if PoisonOnRelease {
				s := (*b)[:c]
				for i := range s {
					s[i] = 0xDD
				}
			}
			free[bit].Put(b)
		}
	})
}
