package fk

import (
	"math/bits"
	"sync"

	"github.com/IrineSistiana/mosdns/v5/pkg/pool"
)

var poisonOnce sync.Once

// PoisonPool replaces pkg/pool's allocator (go-bytes-pool over the runtime's
// sync.Pool, whose reuse pattern depends on the GC and on earlier executions)
// by a deterministic one the harness owns:
//
//   - GetBuf returns a fresh buffer of the same length and capacity class as
//     the original, filled with 0xDD (the real pool hands out buffers with
//     arbitrary old contents, so code may not rely on what is in there);
//   - ReleaseBuf checks the capacity class like the original (same panic),
//     overwrites the buffer with 0xDD and never hands it out again.
//
// A buffer that is read after its release, released twice or used without
// being written therefore shows up as 0xDD garbage in every execution, and an
// execution never depends on what an earlier one left in the pool.
func PoisonPool() {
	poisonOnce.Do(func() {
		const bitLen = 20 // pkg/pool: bytesPool.NewPool(20)
		pool.GetBuf = func(size int) *[]byte {
			if size < 0 {
				panic("bytesPool: negative buffer size")
			}
			bit := bits.Len(uint(size))
			var b []byte
			if bit > bitLen {
				b = make([]byte, size)
			} else {
				b = make([]byte, size, (1<<bit)-1)
			}
			s := b[:cap(b)]
			for i := range s {
				s[i] = 0xDD
			}
			return &b
		}
		pool.ReleaseBuf = func(b *[]byte) {
			c := cap(*b) // nil: same nil dereference as the original
			bit := bits.Len(uint(c))
			if bit > bitLen {
				return
			}
			if c != (1<<bit)-1 {
				panic("bytesPool: invalid buf")
			}
			s := (*b)[:c]
			for i := range s {
				s[i] = 0xDD
			}
		}
	})
}
