package fk

import (
	"sync"

	"github.com/IrineSistiana/mosdns/v5/pkg/pool"
)

var poisonOnce sync.Once

// PoisonPool makes pool.ReleaseBuf overwrite every released buffer with 0xDD:
// a buffer that is released while somebody still reads it shows up as garbage.
func PoisonPool() {
	poisonOnce.Do(func() {
		orig := pool.ReleaseBuf
		pool.ReleaseBuf = func(b *[]byte) {
			if b != nil {
				s := (*b)[:cap(*b)]
				for i := range s {
					s[i] = 0xDD
				}
			}
			orig(b)
		}
	})
}
