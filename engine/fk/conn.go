// Package fk holds the environment models (fake connections, servers) used by
// the harnesses. Everything blocks through the vs scheduler; nothing here uses
// real sockets, real time or native goroutines.
package fk

import (
	"errors"
	"io"
	"net"
	"os"
	"time"
	"unsafe"

	"github.com/IrineSistiana/mosdns/v5/zz_verif/vs"
)

type timeoutErr struct{}

func (timeoutErr) Error() string   { return "i/o timeout" }
func (timeoutErr) Timeout() bool   { return true }
func (timeoutErr) Temporary() bool { return true }
func (timeoutErr) Is(t error) bool { return t == os.ErrDeadlineExceeded }

var ErrTimeout error = &net.OpError{Op: "read", Net: "fake", Err: timeoutErr{}}
var ErrInjected = errors.New("injected connection fault")

type record struct {
	b   []byte
	id  int
	off int
}

// Conn is one end of an in-memory connection. Stream mode behaves like TCP
// (byte stream, reads may be chunked), datagram mode like a connected UDP
// socket (one record per Read, excess truncated).
type Conn struct {
	Name     string
	peer     *Conn
	Datagram bool
	in       []*record
	nextRec  int
	closed   bool  // this end was closed locally
	eof      bool  // peer closed / half-closed: EOF after draining
	rdErr    error // injected: returned by the next Read once the queue is drained
	rdErrNow bool  // injected error is returned even if data is queued

	rdDeadline time.Time
	rdExpired  bool
	rdCancel   func()

	// SendWindow > 0: at most this many bytes may sit unread at the peer (stream
	// mode, no WriteHook); a Write that does not fit hands over what fits and
	// blocks until the peer reads, this end is closed or the write deadline
	// expires - then it returns the number of bytes accepted so far and a
	// timeout error (a partial write), as a kernel socket with a full send
	// buffer does. 0: writes never block.
	SendWindow int
	wrExpired  bool
	wrCancel   func()

	// WriteHook runs inside Write (after the bytes were handed to the peer
	// queue unless it returns an error): synchronous server model and write
	// fault injection. It runs on the writer's thread.
	WriteHook func(c *Conn, b []byte, nth int) error
	// ChunkChoice: Read sizes are environment choices (1 byte / header / all).
	ChunkChoice bool
	// OnConsumed is called when the last byte of record id has been read.
	OnConsumed func(id int)

	Writes       [][]byte
	WriteAt      []time.Duration
	ReadCalls    int
	CloseCalls   int
	DeadlineSets int
}

// NewPipe returns the two ends of a fresh connection.
func NewPipe(name string, datagram bool) (a, b *Conn) {
	a = &Conn{Name: name + ".client", Datagram: datagram}
	b = &Conn{Name: name + ".server", Datagram: datagram}
	a.peer, b.peer = b, a
	return
}

func (c *Conn) key() unsafe.Pointer { return unsafe.Pointer(c) }

func (c *Conn) readable() bool {
	return c.closed || c.rdExpired || c.rdErrNow || len(c.in) > 0 || c.eof || c.rdErr != nil
}

func (c *Conn) Read(p []byte) (int, error) {
	if len(p) == 0 && !c.closed {
		// like the net package: a zero-byte read returns at once, consumes
		// nothing and never looks at the deadline
		vs.Point("conn.read0", c.key())
		return 0, nil
	}
	vs.Block("conn.read", c.key(), c.readable)
	c.ReadCalls++
	switch {
	case c.closed:
		return 0, net.ErrClosed
	case c.rdErrNow:
		return 0, c.rdErr
	case c.rdExpired:
		return 0, ErrTimeout
	case len(c.in) > 0:
		r := c.in[0]
		avail := r.b[r.off:]
		n := len(avail)
		if n > len(p) {
			n = len(p)
		}
		if c.ChunkChoice && !c.Datagram && n > 1 {
			switch vs.Choose(3) {
			case 1:
				n = 1
			case 2:
				if n > 2 {
					n = n / 2
				}
			}
		}
		copy(p, avail[:n])
		r.off += n
		short := n < len(avail) // the reader's buffer (or the chunk choice) ended this read
		if c.Datagram || r.off == len(r.b) {
			c.in = c.in[1:]
			if c.OnConsumed != nil {
				c.OnConsumed(r.id)
			}
		}
		// a byte stream has no message boundaries: what the peer wrote in
		// several writes and is already here is handed over in one read, as far
		// as the reader's buffer goes (TCP coalescing)
		for !c.Datagram && !short && n < len(p) && len(c.in) > 0 {
			r = c.in[0]
			avail = r.b[r.off:]
			m := copy(p[n:], avail)
			n += m
			r.off += m
			if r.off < len(r.b) {
				break
			}
			c.in = c.in[1:]
			if c.OnConsumed != nil {
				c.OnConsumed(r.id)
			}
		}
		return n, nil
	case c.rdErr != nil:
		return 0, c.rdErr
	default:
		return 0, io.EOF
	}
}

func (c *Conn) Write(p []byte) (int, error) {
	vs.Point("conn.write", c.key())
	if c.closed {
		return 0, net.ErrClosed
	}
	if c.SendWindow > 0 && c.WriteHook == nil && !c.Datagram {
		return c.writeWindowed(p)
	}
	b := append([]byte(nil), p...)
	nth := len(c.Writes)
	c.Writes = append(c.Writes, b)
	c.WriteAt = append(c.WriteAt, vs.Elapsed())
	if c.WriteHook != nil {
		if err := c.WriteHook(c, b, nth); err != nil {
			return 0, err
		}
		return len(p), nil
	}
	c.peer.Deliver(b)
	return len(p), nil
}

// Deliver queues b for reading on c and returns the record id (harness side:
// no scheduling point of its own, it is part of the caller's current step).
func (c *Conn) Deliver(b []byte) int {
	id := c.nextRec
	c.nextRec++
	if c.closed {
		return id
	}
	c.in = append(c.in, &record{b: b, id: id})
	return id
}

func (c *Conn) Close() error {
	vs.Point("conn.close", c.key())
	c.CloseCalls++
	if c.closed {
		return net.ErrClosed
	}
	c.closed = true
	if c.rdCancel != nil {
		c.rdCancel()
		c.rdCancel = nil
	}
	c.peer.eof = true
	return nil
}

// PeerClose makes the other side observe EOF after the queued data (harness
// step executed by the server actor).
func (c *Conn) ShutdownPeer() { c.peer.eof = true }

// InjectReadErr makes the peer's reads fail with err: after draining queued
// data (now=false) or immediately (now=true).
func (c *Conn) InjectPeerReadErr(err error, now bool) {
	c.peer.rdErr = err
	c.peer.rdErrNow = now
}

func (c *Conn) Closed() bool { return c.closed }
func (c *Conn) Pending() int { return len(c.in) }
func (c *Conn) Peer() *Conn  { return c.peer }

func (c *Conn) LocalAddr() net.Addr  { return fakeAddr(c.Name) }
func (c *Conn) RemoteAddr() net.Addr { return fakeAddr(c.peer.Name) }

type fakeAddr string

func (a fakeAddr) Network() string { return "fake" }
func (a fakeAddr) String() string  { return string(a) }

func (c *Conn) SetDeadline(t time.Time) error {
	c.SetReadDeadline(t)
	c.SetWriteDeadline(t)
	return nil
}

func (c *Conn) SetWriteDeadline(t time.Time) error {
	if c.SendWindow == 0 {
		return nil // writes never block on this connection
	}
	vs.Point("conn.setwdl", c.key())
	if c.closed {
		return net.ErrClosed
	}
	if c.wrCancel != nil {
		c.wrCancel()
		c.wrCancel = nil
	}
	c.wrExpired = false
	if t.IsZero() || !vs.Active() {
		return nil
	}
	if !t.After(vs.Now()) {
		c.wrExpired = true
		return nil
	}
	c.wrCancel = vs.NewDeadline(t, "conn.wdl", func() { c.wrExpired = true; c.wrCancel = nil })
	return nil
}

func (c *Conn) unreadAtPeer() int {
	n := 0
	for _, r := range c.peer.in {
		n += len(r.b) - r.off
	}
	return n
}

// writeWindowed is Write under a bounded send window (see SendWindow).
func (c *Conn) writeWindowed(p []byte) (int, error) {
	sent := 0
	record := func() {
		if sent > 0 {
			c.Writes = append(c.Writes, append([]byte(nil), p[:sent]...))
			c.WriteAt = append(c.WriteAt, vs.Elapsed())
		}
	}
	for sent < len(p) {
		if space := c.SendWindow - c.unreadAtPeer(); space > 0 {
			n := min(space, len(p)-sent)
			c.peer.Deliver(append([]byte(nil), p[sent:sent+n]...))
			sent += n
			continue
		}
		vs.Block("conn.write.full", c.key(), func() bool {
			return c.closed || c.wrExpired || c.peer.closed || c.unreadAtPeer() < c.SendWindow
		})
		switch {
		case c.closed:
			record()
			return sent, net.ErrClosed
		case c.peer.closed:
			record()
			return sent, ErrInjected
		case c.wrExpired:
			record()
			return sent, ErrTimeout
		}
	}
	record()
	return sent, nil
}

func (c *Conn) SetReadDeadline(t time.Time) error {
	vs.Point("conn.setrdl", c.key())
	c.DeadlineSets++
	if c.closed {
		return net.ErrClosed
	}
	if c.rdCancel != nil {
		c.rdCancel()
		c.rdCancel = nil
	}
	c.rdDeadline = t
	c.rdExpired = false
	if t.IsZero() {
		return nil
	}
	if !vs.Active() {
		return nil
	}
	if !t.After(vs.Now()) {
		c.rdExpired = true
		return nil
	}
	c.rdCancel = vs.NewDeadline(t, "conn.rdl", func() { c.rdExpired = true; c.rdCancel = nil })
	return nil
}

// Take blocks until a record written by the peer is available and removes it
// (server actor side).
func (c *Conn) Take() ([]byte, bool) {
	vs.Block("srv.take", c.key(), func() bool { return len(c.in) > 0 || c.eof || c.closed })
	if len(c.in) == 0 {
		return nil, false
	}
	r := c.in[0]
	c.in = c.in[1:]
	return r.b, true
}

// TryTake removes a queued record without blocking (no scheduling point).
func (c *Conn) TryTake() ([]byte, bool) {
	if len(c.in) == 0 {
		return nil, false
	}
	r := c.in[0]
	c.in = c.in[1:]
	return r.b, true
}
