package vs

import (
	"time"
	"unsafe"
)

// Virtual time. Inside an execution the clock only moves when the scheduler
// fires a timer (at quiescence, or early as a bounded deviation) or when the
// harness calls Advance/SetNow.

func Now() time.Time {
	if S == nil {
		return time.Now()
	}
	return Epoch.Add(time.Duration(S.now))
}

// Elapsed is the virtual time since the start of the execution.
func Elapsed() time.Duration {
	if S == nil {
		return 0
	}
	return time.Duration(S.now)
}

// Advance moves the virtual clock forward by d, firing every timer that becomes
// due on the way (in deadline order). Harness use (sequential enumerators).
func Advance(d time.Duration) {
	s := S
	if s == nil {
		panic("vs.Advance outside of an execution")
	}
	target := s.now + int64(d)
	for {
		tm := s.earliestTimer()
		if tm == nil || tm.when > target {
			break
		}
		cur := s.cur
		s.fireTimer(tm, false)
		s.cur = cur
	}
	s.now = target
	s.clockH = mix(s.clockH, uint64(target))
}

func Since(t time.Time) time.Duration { return Now().Sub(t) }
func Until(t time.Time) time.Duration { return t.Sub(Now()) }

func (s *sched) addTimer(d time.Duration, label string, fire func()) *timer {
	if d < 0 {
		d = 0
	}
	tm := &timer{when: s.now + int64(d), seq: s.tseq, fire: fire, active: true, label: label}
	s.tseq++
	if s.cur != nil {
		s.cur.h = mix(s.cur.h, 0x7e)
		tm.h = s.cur.h
		if s.race != nil {
			tm.vc = s.cur.vc.clone()
		}
	}
	s.timers = append(s.timers, tm)
	return tm
}

// Timer is the scheduler-aware time.Timer.
type Timer struct {
	C  <-chan time.Time
	c  chan time.Time
	n  *time.Timer
	tm *timer
	f  func()
}

func (t *Timer) arm(d time.Duration) {
	s := S
	if t.f != nil {
		f := t.f
		t.tm = s.addTimer(d, "afterfunc", func() { GoNamed("", f) })
		return
	}
	c := t.c
	t.tm = s.addTimer(d, "timer", func() {
		select {
		case c <- Epoch.Add(time.Duration(S.now)):
		default:
		}
	})
}

func NewTimer(d time.Duration) *Timer {
	if S == nil {
		n := time.NewTimer(d)
		return &Timer{C: n.C, n: n}
	}
	Point("newtimer", nil)
	c := make(chan time.Time, 1)
	t := &Timer{C: c, c: c}
	if !S.abort {
		t.arm(d)
	}
	return t
}

func AfterFunc(d time.Duration, f func()) *Timer {
	if S == nil {
		return &Timer{n: time.AfterFunc(d, f)}
	}
	Point("afterfunc", nil)
	t := &Timer{f: f}
	if !S.abort {
		t.arm(d)
	}
	return t
}

func After(d time.Duration) <-chan time.Time { return NewTimer(d).C }

func (t *Timer) Stop() bool {
	if t.n != nil {
		return t.n.Stop()
	}
	if S == nil || S.abort {
		return false
	}
	Point("timerstop", unsafe.Pointer(t))
	was := t.tm != nil && t.tm.active
	if t.tm != nil {
		t.tm.active = false
	}
	return was
}

func (t *Timer) Reset(d time.Duration) bool {
	if t.n != nil {
		return t.n.Reset(d)
	}
	if S == nil || S.abort {
		return false
	}
	Point("timerreset", unsafe.Pointer(t))
	was := t.tm != nil && t.tm.active
	if t.tm != nil {
		t.tm.active = false
	}
	t.arm(d)
	return was
}

// Ticker is the scheduler-aware time.Ticker.
type Ticker struct {
	C  <-chan time.Time
	c  chan time.Time
	n  *time.Ticker
	tm *timer
	d  time.Duration
	stopped bool
}

func (t *Ticker) arm() {
	s := S
	t.tm = s.addTimer(t.d, "ticker", func() {
		select {
		case t.c <- Epoch.Add(time.Duration(S.now)):
		default:
		}
		if !t.stopped {
			t.arm()
		}
	})
}

func NewTicker(d time.Duration) *Ticker {
	if d <= 0 {
		panic("non-positive interval for NewTicker")
	}
	if S == nil {
		n := time.NewTicker(d)
		return &Ticker{C: n.C, n: n}
	}
	Point("newticker", nil)
	c := make(chan time.Time, 1)
	t := &Ticker{C: c, c: c, d: d}
	if !S.abort {
		t.arm()
	}
	return t
}

func (t *Ticker) Stop() {
	if t.n != nil {
		t.n.Stop()
		return
	}
	if S == nil || S.abort {
		return
	}
	Point("tickerstop", unsafe.Pointer(t))
	t.stopped = true
	if t.tm != nil {
		t.tm.active = false
	}
}

func (t *Ticker) Reset(d time.Duration) {
	if t.n != nil {
		t.n.Reset(d)
		return
	}
	if S == nil || S.abort {
		return
	}
	Point("tickerreset", unsafe.Pointer(t))
	if t.tm != nil {
		t.tm.active = false
	}
	t.d = d
	t.stopped = false
	t.arm()
}

func Tick(d time.Duration) <-chan time.Time { return NewTicker(d).C }

func Sleep(d time.Duration) {
	if S == nil {
		time.Sleep(d)
		return
	}
	if S.abort {
		return
	}
	if d <= 0 {
		Point("sleep0", nil)
		return
	}
	woke := false
	S.addTimer(d, "sleep", func() { woke = true })
	Block("sleep", nil, func() bool { return woke })
}

// NewDeadline arms a harness timer (fake connection deadlines): fire runs in the
// scheduler when virtual time reaches t. The returned cancel disarms it.
func NewDeadline(t time.Time, label string, fire func()) (cancel func()) {
	s := S
	if s == nil {
		panic("vs.NewDeadline outside of an execution")
	}
	tm := s.addTimer(t.Sub(Now()), label, fire)
	return func() { tm.active = false }
}
