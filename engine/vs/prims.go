package vs

import (
	"os"
	"sort"
	"sync"
	"sync/atomic"
	"time"
	"unsafe"
)

var osExit = os.Exit

func nativeBackoff() { time.Sleep(50 * time.Microsecond) }

// ---------------------------------------------------------------------------
// sync

// Mutex is the scheduler-aware sync.Mutex (native outside of an execution).
type Mutex struct {
	n sync.Mutex
	w bool
}

func (m *Mutex) Lock() {
	if S == nil {
		m.n.Lock()
		return
	}
	if S.abort {
		return
	}
	Atomic("lock", unsafe.Pointer(m), func() bool { return !m.w })
	m.w = true
}

func (m *Mutex) TryLock() bool {
	if S == nil {
		return m.n.TryLock()
	}
	if S.abort {
		return true
	}
	Point("trylock", unsafe.Pointer(m))
	if m.w {
		return false
	}
	m.w = true
	return true
}

func (m *Mutex) Unlock() {
	if S == nil {
		m.n.Unlock()
		return
	}
	if S.abort {
		return
	}
	Point("unlock", unsafe.Pointer(m))
	if !m.w {
		panic("sync: unlock of unlocked mutex")
	}
	m.w = false
}

// RWMutex is the scheduler-aware sync.RWMutex.
type RWMutex struct {
	n sync.RWMutex
	w bool
	r int
}

func (m *RWMutex) Lock() {
	if S == nil {
		m.n.Lock()
		return
	}
	if S.abort {
		return
	}
	Atomic("lock", unsafe.Pointer(m), func() bool { return !m.w && m.r == 0 })
	m.w = true
}

func (m *RWMutex) TryLock() bool {
	if S == nil {
		return m.n.TryLock()
	}
	if S.abort {
		return true
	}
	Point("trylock", unsafe.Pointer(m))
	if m.w || m.r > 0 {
		return false
	}
	m.w = true
	return true
}

func (m *RWMutex) Unlock() {
	if S == nil {
		m.n.Unlock()
		return
	}
	if S.abort {
		return
	}
	Point("unlock", unsafe.Pointer(m))
	if !m.w {
		panic("sync: Unlock of unlocked RWMutex")
	}
	m.w = false
}

func (m *RWMutex) RLock() {
	if S == nil {
		m.n.RLock()
		return
	}
	if S.abort {
		return
	}
	Atomic("rlock", unsafe.Pointer(m), func() bool { return !m.w })
	m.r++
}

func (m *RWMutex) TryRLock() bool {
	if S == nil {
		return m.n.TryRLock()
	}
	if S.abort {
		return true
	}
	Point("tryrlock", unsafe.Pointer(m))
	if m.w {
		return false
	}
	m.r++
	return true
}

func (m *RWMutex) RUnlock() {
	if S == nil {
		m.n.RUnlock()
		return
	}
	if S.abort {
		return
	}
	Point("runlock", unsafe.Pointer(m))
	if m.r <= 0 {
		panic("sync: RUnlock of unlocked RWMutex")
	}
	m.r--
}

type rlocker RWMutex

func (r *rlocker) Lock()   { (*RWMutex)(r).RLock() }
func (r *rlocker) Unlock() { (*RWMutex)(r).RUnlock() }

func (m *RWMutex) RLocker() sync.Locker { return (*rlocker)(m) }

// WaitGroup is the scheduler-aware sync.WaitGroup.
type WaitGroup struct {
	n sync.WaitGroup
	c int
}

func (w *WaitGroup) Add(d int) {
	if S == nil {
		w.n.Add(d)
		return
	}
	if S.abort {
		return
	}
	Point("wgadd", unsafe.Pointer(w))
	w.c += d
	if w.c < 0 {
		panic("sync: negative WaitGroup counter")
	}
}

func (w *WaitGroup) Done() { w.Add(-1) }

func (w *WaitGroup) Wait() {
	if S == nil {
		w.n.Wait()
		return
	}
	if S.abort {
		return
	}
	Atomic("wgwait", unsafe.Pointer(w), func() bool { return w.c == 0 })
}

// Once is the scheduler-aware sync.Once.
type Once struct {
	n       sync.Once
	state   int // 0 fresh, 1 running, 2 done
}

func (o *Once) Do(f func()) {
	if S == nil {
		o.n.Do(f)
		return
	}
	if S.abort {
		return
	}
	// a caller blocks while another thread is running f
	Atomic("once", unsafe.Pointer(o), func() bool { return o.state != 1 })
	if o.state == 2 {
		return
	}
	o.state = 1
	defer func() {
		o.state = 2
		if S != nil && !S.abort {
			Point("oncedone", unsafe.Pointer(o))
		}
	}()
	f()
}

// Pool is a deterministic LIFO sync.Pool (no scheduling point: a pool hit or
// miss must never change behaviour; poisoning of pooled objects is the job of
// the harness).
type Pool struct {
	New   func() any
	items []any
	mu    sync.Mutex
	epoch uint64
}

// pooled objects never survive into the next execution (a pooled timer of a
// finished execution belongs to a dead scheduler).
func (p *Pool) sync() {
	if e := execEpoch; p.epoch != e {
		p.epoch = e
		p.items = nil
	}
}

func (p *Pool) Get() any {
	p.mu.Lock()
	p.sync()
	if n := len(p.items); n > 0 {
		v := p.items[n-1]
		p.items = p.items[:n-1]
		p.mu.Unlock()
		return v
	}
	p.mu.Unlock()
	if p.New != nil {
		return p.New()
	}
	return nil
}

func (p *Pool) Put(v any) {
	if v == nil {
		return
	}
	p.mu.Lock()
	p.sync()
	if len(p.items) < 64 {
		p.items = append(p.items, v)
	}
	p.mu.Unlock()
}

// Contains reports whether v (compared by identity) is waiting in the pool.
func (p *Pool) Contains(v any) bool {
	p.mu.Lock()
	defer p.mu.Unlock()
	p.sync()
	for _, x := range p.items {
		if x == v {
			return true
		}
	}
	return false
}

// Reset drops pooled items (between executions; harness use).
func (p *Pool) Reset() { p.mu.Lock(); p.items = nil; p.mu.Unlock() }

// ---------------------------------------------------------------------------
// atomics: every method is a visible step followed by the native operation

type Bool struct{ v atomic.Bool }

func (b *Bool) Load() bool      { Point("aload", unsafe.Pointer(b)); return b.v.Load() }
func (b *Bool) Store(x bool)    { Point("astore", unsafe.Pointer(b)); b.v.Store(x) }
func (b *Bool) Swap(x bool) bool { Point("aswap", unsafe.Pointer(b)); return b.v.Swap(x) }
func (b *Bool) CompareAndSwap(o, n bool) bool {
	Point("acas", unsafe.Pointer(b))
	return b.v.CompareAndSwap(o, n)
}

type Int32 struct{ v atomic.Int32 }

func (b *Int32) Load() int32       { Point("aload", unsafe.Pointer(b)); return b.v.Load() }
func (b *Int32) Store(x int32)     { Point("astore", unsafe.Pointer(b)); b.v.Store(x) }
func (b *Int32) Swap(x int32) int32 { Point("aswap", unsafe.Pointer(b)); return b.v.Swap(x) }
func (b *Int32) Add(x int32) int32 { Point("aadd", unsafe.Pointer(b)); return b.v.Add(x) }
func (b *Int32) CompareAndSwap(o, n int32) bool {
	Point("acas", unsafe.Pointer(b))
	return b.v.CompareAndSwap(o, n)
}

type Int64 struct{ v atomic.Int64 }

func (b *Int64) Load() int64       { Point("aload", unsafe.Pointer(b)); return b.v.Load() }
func (b *Int64) Store(x int64)     { Point("astore", unsafe.Pointer(b)); b.v.Store(x) }
func (b *Int64) Swap(x int64) int64 { Point("aswap", unsafe.Pointer(b)); return b.v.Swap(x) }
func (b *Int64) Add(x int64) int64 { Point("aadd", unsafe.Pointer(b)); return b.v.Add(x) }
func (b *Int64) CompareAndSwap(o, n int64) bool {
	Point("acas", unsafe.Pointer(b))
	return b.v.CompareAndSwap(o, n)
}

type Uint32 struct{ v atomic.Uint32 }

func (b *Uint32) Load() uint32        { Point("aload", unsafe.Pointer(b)); return b.v.Load() }
func (b *Uint32) Store(x uint32)      { Point("astore", unsafe.Pointer(b)); b.v.Store(x) }
func (b *Uint32) Swap(x uint32) uint32 { Point("aswap", unsafe.Pointer(b)); return b.v.Swap(x) }
func (b *Uint32) Add(x uint32) uint32 { Point("aadd", unsafe.Pointer(b)); return b.v.Add(x) }
func (b *Uint32) CompareAndSwap(o, n uint32) bool {
	Point("acas", unsafe.Pointer(b))
	return b.v.CompareAndSwap(o, n)
}

type Uint64 struct{ v atomic.Uint64 }

func (b *Uint64) Load() uint64        { Point("aload", unsafe.Pointer(b)); return b.v.Load() }
func (b *Uint64) Store(x uint64)      { Point("astore", unsafe.Pointer(b)); b.v.Store(x) }
func (b *Uint64) Swap(x uint64) uint64 { Point("aswap", unsafe.Pointer(b)); return b.v.Swap(x) }
func (b *Uint64) Add(x uint64) uint64 { Point("aadd", unsafe.Pointer(b)); return b.v.Add(x) }
func (b *Uint64) CompareAndSwap(o, n uint64) bool {
	Point("acas", unsafe.Pointer(b))
	return b.v.CompareAndSwap(o, n)
}

type Uintptr struct{ v atomic.Uintptr }

func (b *Uintptr) Load() uintptr   { Point("aload", unsafe.Pointer(b)); return b.v.Load() }
func (b *Uintptr) Store(x uintptr) { Point("astore", unsafe.Pointer(b)); b.v.Store(x) }

type Pointer[T any] struct{ v atomic.Pointer[T] }

func (b *Pointer[T]) Load() *T     { Point("aload", unsafe.Pointer(b)); return b.v.Load() }
func (b *Pointer[T]) Store(x *T)   { Point("astore", unsafe.Pointer(b)); b.v.Store(x) }
func (b *Pointer[T]) Swap(x *T) *T { Point("aswap", unsafe.Pointer(b)); return b.v.Swap(x) }
func (b *Pointer[T]) CompareAndSwap(o, n *T) bool {
	Point("acas", unsafe.Pointer(b))
	return b.v.CompareAndSwap(o, n)
}

type Value struct{ v atomic.Value }

func (b *Value) Load() any   { Point("aload", unsafe.Pointer(b)); return b.v.Load() }
func (b *Value) Store(x any) { Point("astore", unsafe.Pointer(b)); b.v.Store(x) }

// function forms
func AddInt32(p *int32, d int32) int32    { Point("aadd", unsafe.Pointer(p)); return atomic.AddInt32(p, d) }
func AddInt64(p *int64, d int64) int64    { Point("aadd", unsafe.Pointer(p)); return atomic.AddInt64(p, d) }
func AddUint32(p *uint32, d uint32) uint32 { Point("aadd", unsafe.Pointer(p)); return atomic.AddUint32(p, d) }
func AddUint64(p *uint64, d uint64) uint64 { Point("aadd", unsafe.Pointer(p)); return atomic.AddUint64(p, d) }
func LoadInt32(p *int32) int32            { Point("aload", unsafe.Pointer(p)); return atomic.LoadInt32(p) }
func LoadInt64(p *int64) int64            { Point("aload", unsafe.Pointer(p)); return atomic.LoadInt64(p) }
func LoadUint32(p *uint32) uint32         { Point("aload", unsafe.Pointer(p)); return atomic.LoadUint32(p) }
func LoadUint64(p *uint64) uint64         { Point("aload", unsafe.Pointer(p)); return atomic.LoadUint64(p) }
func StoreInt32(p *int32, v int32)        { Point("astore", unsafe.Pointer(p)); atomic.StoreInt32(p, v) }
func StoreInt64(p *int64, v int64)        { Point("astore", unsafe.Pointer(p)); atomic.StoreInt64(p, v) }
func StoreUint32(p *uint32, v uint32)     { Point("astore", unsafe.Pointer(p)); atomic.StoreUint32(p, v) }
func StoreUint64(p *uint64, v uint64)     { Point("astore", unsafe.Pointer(p)); atomic.StoreUint64(p, v) }
func CompareAndSwapInt32(p *int32, o, n int32) bool {
	Point("acas", unsafe.Pointer(p))
	return atomic.CompareAndSwapInt32(p, o, n)
}
func CompareAndSwapInt64(p *int64, o, n int64) bool {
	Point("acas", unsafe.Pointer(p))
	return atomic.CompareAndSwapInt64(p, o, n)
}
func CompareAndSwapUint32(p *uint32, o, n uint32) bool {
	Point("acas", unsafe.Pointer(p))
	return atomic.CompareAndSwapUint32(p, o, n)
}
func CompareAndSwapUint64(p *uint64, o, n uint64) bool {
	Point("acas", unsafe.Pointer(p))
	return atomic.CompareAndSwapUint64(p, o, n)
}

// ---------------------------------------------------------------------------
// maps: Go leaves the iteration order of a map unspecified (and randomises
// it). Inside an execution the order must be owned: keys get an identity in
// insertion order (MapSet), MapKeys lists them in that order rotated by an
// explorer choice, so that every element can come first.

func (s *sched) keyRank(k any) int {
	if s.keyIdent == nil {
		s.keyIdent = map[any]int{}
	}
	r, ok := s.keyIdent[k]
	if !ok {
		r = len(s.keyIdent)
		s.keyIdent[k] = r
	}
	return r
}

// MapSet is the instrumented form of m[k] = v.
func MapSet[K comparable, V any](m map[K]V, k K, v V) {
	if s := S; s != nil && !s.abort {
		s.keyRank(any(k))
		if s.race != nil {
			if o := mapObj(m); o != nil {
				raceAccess(o, true)
			}
		}
	}
	m[k] = v
}

// MapKeys is used by the instrumented form of `for k := range m`.
func MapKeys[K comparable, V any](m map[K]V) []K {
	keys := make([]K, 0, len(m))
	for k := range m {
		keys = append(keys, k)
	}
	s := S
	if s == nil || s.abort || len(keys) < 2 {
		return keys
	}
	unknown := 0
	for _, k := range keys {
		if _, ok := s.keyIdent[any(k)]; !ok {
			unknown++
		}
	}
	if unknown > 1 {
		panic("vs: map iterated with several keys that were not inserted through instrumented code: iteration order is not owned")
	}
	sort.Slice(keys, func(i, j int) bool { return s.keyRank(any(keys[i])) < s.keyRank(any(keys[j])) })
	if r := Choose(len(keys)); r > 0 {
		keys = append(append([]K{}, keys[r:]...), keys[:r]...)
	}
	return keys
}
