package vs

// Self-tests of the explorer and of the primitive semantics. They run natively
// (`go test ./vs` in /verif/engine, also part of `vcheck.py setup`): no mosdns
// code involved.

import (
	"context"
	"fmt"
	"sort"
	"strings"
	"testing"
	"time"
)

func explore(t *testing.T, cfg Config, body func(), check func(x *Exec) (string, *Violation)) *Report {
	t.Helper()
	cfg.NoSpawnPoint = true
	rep := Explore(cfg, body, check)
	if rep.Infra != "" {
		t.Fatalf("infra: %s", rep.Infra)
	}
	return rep
}

// two threads x n independent steps, unbounded preemptions: exactly C(2n,n)
// distinct complete interleavings are produced.
func TestCountInterleavings(t *testing.T) {
	for n := 1; n <= 4; n++ {
		var cur []byte
		seen := map[string]bool{}
		body := func() {
			cur = cur[:0]
			var wg WaitGroup
			wg.Add(2)
			for _, name := range []byte("AB") {
				name := name
				GoNamed(string(name), func() {
					for i := 0; i < n; i++ {
						Point("step", nil)
						cur = append(cur, name)
					}
					wg.Done()
				})
			}
			wg.Wait()
		}
		explore(t, Config{P: 100}, body, func(x *Exec) (string, *Violation) { seen[string(cur)] = true; return "x", nil })
		if want := binom(2*n, n); len(seen) != want {
			t.Fatalf("n=%d: %d distinct interleavings, want C(%d,%d)=%d", n, len(seen), 2*n, n, want)
		}
	}
}

func binom(n, k int) int {
	r := 1
	for i := 1; i <= k; i++ {
		r = r * (n - k + i) / i
	}
	return r
}

// every order of the steps of two threads is actually produced.
func TestAllOrdersProduced(t *testing.T) {
	seen := map[string]bool{}
	var cur []string
	body := func() {
		cur = nil
		var wg WaitGroup
		wg.Add(2)
		for _, name := range []string{"a", "b"} {
			name := name
			GoNamed(name, func() {
				for i := 0; i < 2; i++ {
					Point("step", nil)
					cur = append(cur, fmt.Sprintf("%s%d", name, i))
				}
				wg.Done()
			})
		}
		wg.Wait()
	}
	explore(t, Config{P: 100}, body, func(x *Exec) (string, *Violation) {
		seen[strings.Join(cur, "")] = true
		return strings.Join(cur, ""), nil
	})
	if len(seen) != binom(4, 2) {
		var ks []string
		for k := range seen {
			ks = append(ks, k)
		}
		sort.Strings(ks)
		t.Fatalf("saw %d distinct orders, want 6: %v", len(seen), ks)
	}
}

// lost update (check-then-act on a counter): found with one preemption, not with zero.
func TestLostUpdate(t *testing.T) {
	var counter int
	body := func() {
		counter = 0
		var wg WaitGroup
		wg.Add(2)
		for i := 0; i < 2; i++ {
			Go(func() {
				Point("read", nil)
				v := counter
				Point("write", nil)
				counter = v + 1
				wg.Done()
			})
		}
		wg.Wait()
	}
	check := func(x *Exec) (string, *Violation) {
		if counter != 2 {
			return "lost", &Violation{Sig: "lost-update", Desc: "counter != 2"}
		}
		return "ok", nil
	}
	if rep := explore(t, Config{P: 0}, body, check); len(rep.Found) != 0 {
		t.Fatalf("P=0 must not find the lost update (default schedule runs threads to completion)")
	}
	rep := explore(t, Config{P: 1}, body, check)
	if f := rep.Found["lost-update"]; f == nil || f.Preemptions != 1 {
		t.Fatalf("P=1 must find the lost update with exactly one preemption: %+v", rep.Found)
	}
	// with a mutex around read+write it is gone at any bound
	var mu Mutex
	fixed := func() {
		counter = 0
		var wg WaitGroup
		wg.Add(2)
		for i := 0; i < 2; i++ {
			Go(func() {
				mu.Lock()
				Point("read", nil)
				v := counter
				Point("write", nil)
				counter = v + 1
				mu.Unlock()
				wg.Done()
			})
		}
		wg.Wait()
	}
	if rep := explore(t, Config{P: 3}, fixed, check); len(rep.Found) != 0 {
		t.Fatalf("fixed version reported: %+v", rep.Found)
	}
}

// AB/BA lock order: deadlock is reported as parked threads at quiescence.
func TestDeadlock(t *testing.T) {
	body := func() {
		var a, b Mutex
		var wg WaitGroup
		wg.Add(2)
		Go(func() { a.Lock(); b.Lock(); b.Unlock(); a.Unlock(); wg.Done() })
		Go(func() { b.Lock(); a.Lock(); a.Unlock(); b.Unlock(); wg.Done() })
		wg.Wait()
	}
	rep := explore(t, Config{P: 1}, body, func(x *Exec) (string, *Violation) {
		if len(x.Blocked) > 0 {
			return "deadlock", &Violation{Sig: "deadlock", Desc: fmt.Sprint(x.Blocked)}
		}
		return "ok", nil
	})
	if rep.Found["deadlock"] == nil {
		t.Fatal("AB/BA deadlock not found at P=1")
	}
}

// unbuffered hand-over with select/default: the value is lost if the receiver has
// not parked yet (the shape of the TraditionalDnsConn defect), kept with a buffer.
func TestLostHandOver(t *testing.T) {
	for _, buf := range []int{0, 1} {
		var got bool
		body := func() {
			got = false
			ch := make(chan int, buf)
			done := make(chan struct{})
			Go(func() { // reader loop hands over without blocking
				if Select(Snd(ch).Case(7), Default()) == 0 {
				}
				Close(done)
			})
			Recv(done)
			if Select(RecvCase(ch), Default()) == 0 {
				got = true
			}
		}
		rep := explore(t, Config{P: 2}, body, func(x *Exec) (string, *Violation) {
			if !got {
				return "lost", &Violation{Sig: "lost", Desc: "value dropped"}
			}
			return "ok", nil
		})
		if buf == 0 && rep.Found["lost"] == nil {
			t.Fatal("unbuffered: the dropped hand-over was not found")
		}
		if buf == 1 && rep.Found["lost"] != nil {
			t.Fatal("buffered: false alarm")
		}
	}
}

// a select with two ready cases: both are explored without any preemption.
func TestSelectBothReady(t *testing.T) {
	seen := map[int]bool{}
	var pick int
	body := func() {
		a, b := make(chan int, 1), make(chan int, 1)
		a <- 1
		b <- 2
		ka, kb := RecvCase(a), RecvCase(b)
		pick = Select(ka, kb)
	}
	explore(t, Config{P: 0}, body, func(x *Exec) (string, *Violation) { seen[pick] = true; return fmt.Sprint(pick), nil })
	if !seen[0] || !seen[1] {
		t.Fatalf("select explored %v, want both cases", seen)
	}
}

// channel semantics: closed channel yields zero values, nil channel blocks, close wakes receivers.
func TestChannelSemantics(t *testing.T) {
	x := Run1(Config{}, func() {
		c := make(chan int, 2)
		Snd(c).Send(5)
		Close(c)
		if v, ok := Recv2(c); v != 5 || !ok {
			panic("buffered value lost after close")
		}
		if v, ok := Recv2(c); v != 0 || ok {
			panic("closed channel must yield zero,false")
		}
		var nilc chan int
		if Select(RecvCase(nilc), Default()) != 1 {
			panic("nil channel must never be ready")
		}
		u := make(chan int)
		done := make(chan int, 1)
		Go(func() { v := Recv(u); Snd(done).Send(v + 1) })
		Snd(u).Send(41)
		if Recv(done) != 42 {
			panic("rendezvous value")
		}
	})
	if x.Panic != "" || len(x.Blocked) != 0 {
		t.Fatalf("panic=%q blocked=%v", x.Panic, x.Blocked)
	}
}

// virtual time: timers fire in deadline order, only at quiescence; Stop/Reset results; context deadline.
func TestVirtualTime(t *testing.T) {
	x := Run1(Config{}, func() {
		t1, t2 := NewTimer(2*time.Second), NewTimer(time.Second)
		k1, k2 := RecvCase(t1.C), RecvCase(t2.C)
		if Select(k1, k2) != 1 || Elapsed() != time.Second {
			panic(fmt.Sprintf("earlier timer must fire first, at 1s (now %v)", Elapsed()))
		}
		if !t1.Stop() {
			panic("Stop of a pending timer must return true")
		}
		if t2.Stop() {
			panic("Stop of a fired timer must return false")
		}
		if t1.Reset(time.Second) {
			panic("Reset of a stopped timer must return false")
		}
		Recv(t1.C)
		if Elapsed() != 2*time.Second {
			panic("reset timer must fire at 2s")
		}
		ctx, cancel := WithTimeout(bgCtx(), 3*time.Second)
		defer cancel()
		Recv(ctx.Done())
		if Elapsed() != 5*time.Second || ctx.Err() == nil {
			panic(fmt.Sprintf("context deadline at 5s, now %v", Elapsed()))
		}
		start := Now()
		Sleep(1500 * time.Millisecond)
		if Since(start) != 1500*time.Millisecond {
			panic("sleep")
		}
		tk := NewTicker(time.Second)
		Recv(tk.C)
		Recv(tk.C)
		tk.Stop()
		if Elapsed() != 8500*time.Millisecond {
			panic(fmt.Sprintf("ticker: now %v", Elapsed()))
		}
	})
	if x.Panic != "" {
		t.Fatal(x.Panic)
	}
}

// early timer firing is a bounded deviation: with T=1 a deadline can expire
// although the worker could still run.
func TestEarlyTimer(t *testing.T) {
	var timedOut bool
	body := func() {
		timedOut = false
		res := make(chan int, 1)
		Go(func() { Point("work", nil); Snd(res).Send(1) })
		tm := NewTimer(time.Second)
		if Select(RecvCase(res), RecvCase(tm.C)) == 1 {
			timedOut = true
		}
	}
	count := func(T int) (timeouts int64) {
		rep := explore(t, Config{P: 1, T: T}, body, func(x *Exec) (string, *Violation) {
			if timedOut {
				return "timeout", nil
			}
			return "result", nil
		})
		return rep.Outcomes["timeout"]
	}
	if count(0) != 0 {
		t.Fatal("T=0: the timer must only fire at quiescence")
	}
	if count(1) == 0 {
		t.Fatal("T=1: the early timeout was not explored")
	}
}

// RWMutex: readers do not order each other, so a write under RLock races; under Lock it does not.
func TestRaceDetector(t *testing.T) {
	type box struct{ v int }
	for _, exclusive := range []bool{false, true} {
		body := func() {
			var mu RWMutex
			b := &box{}
			var wg WaitGroup
			wg.Add(2)
			Go(func() {
				mu.RLock()
				_ = *Rd(&b.v)
				mu.RUnlock()
				wg.Done()
			})
			Go(func() {
				if exclusive {
					mu.Lock()
					*Wr(&b.v) = 1
					mu.Unlock()
				} else {
					mu.RLock()
					*Wr(&b.v) = 1
					mu.RUnlock()
				}
				wg.Done()
			})
			wg.Wait()
		}
		raced := false
		explore(t, Config{P: 0, Race: true}, body, func(x *Exec) (string, *Violation) {
			if len(x.Races) > 0 {
				raced = true
			}
			return "x", nil
		})
		if raced == exclusive {
			t.Fatalf("exclusive=%v raced=%v", exclusive, raced)
		}
	}
}

// map iteration order is owned: every key can come first, replay is deterministic.
func TestMapOrderOwned(t *testing.T) {
	first := map[string]bool{}
	var f string
	body := func() {
		m := map[string]int{}
		MapSet(m, "a", 1)
		MapSet(m, "b", 2)
		MapSet(m, "c", 3)
		f = MapKeys(m)[0]
	}
	explore(t, Config{P: 0}, body, func(x *Exec) (string, *Violation) { first[f] = true; return f, nil })
	if len(first) != 3 {
		t.Fatalf("first keys seen: %v", first)
	}
}

// a recorded schedule replays to the same events.
func TestReplayDeterminism(t *testing.T) {
	var order []int
	body := func() {
		order = nil
		var wg WaitGroup
		wg.Add(3)
		for i := 0; i < 3; i++ {
			i := i
			Go(func() { Point("p", nil); order = append(order, i); Point("q", nil); wg.Done() })
		}
		wg.Wait()
	}
	var schedules [][]int
	var orders []string
	explore(t, Config{P: 2}, body, func(x *Exec) (string, *Violation) {
		if len(schedules) < 50 {
			schedules = append(schedules, append([]int{}, x.Choices...))
			orders = append(orders, fmt.Sprint(order))
		}
		return fmt.Sprint(order), nil
	})
	for i, ch := range schedules {
		cfg := Config{NoSpawnPoint: true}
		run(&cfg, ch, body, false)
		if fmt.Sprint(order) != orders[i] {
			t.Fatalf("schedule %d replays to %v, recorded %s", i, order, orders[i])
		}
	}
}

func bgCtx() interface {
	Deadline() (time.Time, bool)
	Done() <-chan struct{}
	Err() error
	Value(any) any
} {
	return backgroundCtx
}

func TestWithoutCancelCutsCancellation(t *testing.T) {
	var derivedErr, parentErr error
	var at time.Duration
	Run1(Config{}, func() {
		parent, cancel := WithTimeout(context.Background(), time.Second)
		defer cancel()
		derived, cancel2 := WithTimeout(WithoutCancel(parent), 3*time.Second)
		defer cancel2()
		Recv(derived.Done())
		at = Elapsed()
		derivedErr, parentErr = derived.Err(), parent.Err()
	})
	if at != 3*time.Second || derivedErr == nil || parentErr == nil {
		t.Fatalf("a context derived from WithoutCancel(parent) ended at %v (want 3s): derived=%v parent=%v", at, derivedErr, parentErr)
	}
}
