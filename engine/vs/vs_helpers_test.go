package vs

import "context"

var backgroundCtx = context.Background()
