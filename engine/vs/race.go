package vs

import (
	"fmt"
	"runtime"
	"sort"
	"strings"
	"unsafe"
)

// In-explorer happens-before race detection (vector clocks). The cooperative
// scheduler makes Go's -race blind, so instrumented accesses (vs.Rd / vs.Wr)
// are checked here: two accesses to the same address, one of them a write, not
// ordered by the synchronisation the scheduler has seen, in any explored
// execution = a data race.

type vclock []uint32

func (v vclock) clone() vclock { return append(vclock(nil), v...) }

func (v vclock) join(o vclock) vclock {
	r := v
	if len(o) > len(r) {
		r = append(r.clone(), make(vclock, len(o)-len(r))...)
	} else {
		r = r.clone()
	}
	for i, x := range o {
		if x > r[i] {
			r[i] = x
		}
	}
	return r
}

func (v vclock) get(i int) uint32 {
	if i < len(v) {
		return v[i]
	}
	return 0
}

func (v vclock) tick(i int) vclock {
	r := v
	if i >= len(r) {
		r = append(r.clone(), make(vclock, i+1-len(r))...)
	} else {
		r = r.clone()
	}
	r[i]++
	return r
}

// fork: the child starts with the parent's knowledge; the parent ticks.
func (v vclock) fork(parent int) vclock {
	if S != nil && S.race != nil && S.cur != nil {
		c := v.clone()
		S.cur.vc = v.tick(parent)
		return c
	}
	return nil
}

type objClock struct{ w, r vclock }

type shadow struct {
	wT    int
	wC    uint32
	wSite string
	reads map[int]uint32
	rSite map[int]string
}

type raceState struct {
	mem   map[unsafe.Pointer]*shadow
	found map[string]struct{}
}

func newRaceState() *raceState {
	return &raceState{mem: map[unsafe.Pointer]*shadow{}, found: map[string]struct{}{}}
}

func (r *raceState) reports() []string {
	out := make([]string, 0, len(r.found))
	for k := range r.found {
		out = append(out, k)
	}
	sort.Strings(out)
	return out
}

func (s *sched) raceSync(t *thread, o *op, a int) {
	t.vc = t.vc.join(s.clockVC)
	if o.obj == nil {
		t.vc = t.vc.tick(t.id)
		return
	}
	oc := s.objVC[o.obj]
	if oc == nil {
		oc = &objClock{}
		s.objVC[o.obj] = oc
	}
	switch o.kind {
	case "rlock", "tryrlock":
		t.vc = t.vc.join(oc.w)
	case "runlock":
		oc.r = oc.r.join(t.vc)
	case "lock", "trylock":
		t.vc = t.vc.join(oc.w).join(oc.r)
	case "unlock":
		oc.w = t.vc.clone()
	default:
		t.vc = t.vc.join(oc.w)
		oc.w = t.vc.clone()
	}
	for _, ob := range o.objs { // select: the observed channels are acquired
		if oc2 := s.objVC[ob]; oc2 != nil {
			t.vc = t.vc.join(oc2.w)
		}
	}
	t.vc = t.vc.tick(t.id)
}

func accessSite() string {
	var pcs [12]uintptr
	n := runtime.Callers(3, pcs[:])
	fr := runtime.CallersFrames(pcs[:n])
	f, more := fr.Next()
	for more && (strings.Contains(f.File, "/zz_verif/vs/") || strings.Contains(f.File, "/engine/vs/")) {
		f, more = fr.Next()
	}
	file := f.File
	if i := strings.LastIndex(file, "/"); i >= 0 {
		file = file[i+1:]
	}
	return fmt.Sprintf("%s:%d", file, f.Line)
}

func raceAccess(p unsafe.Pointer, write bool) {
	s := S
	if s == nil || s.race == nil || s.abort || s.cur == nil {
		return
	}
	t := s.cur
	sh := s.race.mem[p]
	if sh == nil {
		sh = &shadow{wT: -1}
		s.race.mem[p] = sh
	}
	site := accessSite()
	if sh.wT >= 0 && sh.wT != t.id && sh.wC > t.vc.get(sh.wT) {
		k := "write " + sh.wSite + " / "
		if write {
			k += "write " + site
		} else {
			k += "read " + site
		}
		s.race.found[k] = struct{}{}
	}
	if write {
		for rt, rc := range sh.reads {
			if rt != t.id && rc > t.vc.get(rt) {
				s.race.found["read "+sh.rSite[rt]+" / write "+site] = struct{}{}
			}
		}
		sh.wT, sh.wC, sh.wSite = t.id, t.vc.get(t.id), site
		sh.reads, sh.rSite = nil, nil
	} else {
		if sh.reads == nil {
			sh.reads, sh.rSite = map[int]uint32{}, map[int]string{}
		}
		sh.reads[t.id] = t.vc.get(t.id)
		sh.rSite[t.id] = site
	}
}

// Rd records a read of *p and returns p (emitted by the instrumenter).
func Rd[T any](p *T) *T { raceAccess(unsafe.Pointer(p), false); return p }

// Wr records a write of *p and returns p.
func Wr[T any](p *T) *T { raceAccess(unsafe.Pointer(p), true); return p }

func mapObj[K comparable, V any](m map[K]V) unsafe.Pointer {
	return *(*unsafe.Pointer)(unsafe.Pointer(&m))
}

// RdM records a read of the map-typed field *p and of the map it holds.
func RdM[K comparable, V any](p *map[K]V) *map[K]V {
	if s := S; s != nil && s.race != nil {
		raceAccess(unsafe.Pointer(p), false)
		if o := mapObj(*p); o != nil {
			raceAccess(o, false)
		}
	}
	return p
}

// WrM records a write of the map-typed field *p (assignment of a new map).
func WrM[K comparable, V any](p *map[K]V) *map[K]V {
	if s := S; s != nil && s.race != nil {
		raceAccess(unsafe.Pointer(p), true)
	}
	return p
}

// MapDel is the instrumented delete(m, k).
func MapDel[K comparable, V any](m map[K]V, k K) {
	if s := S; s != nil && s.race != nil {
		if o := mapObj(m); o != nil {
			raceAccess(o, true)
		}
	}
	delete(m, k)
}
