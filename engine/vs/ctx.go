package vs

import (
	"context"
	"errors"
	"time"
	"unsafe"
)

// Scheduler-aware contexts. Context stays the std interface; cancellation closes
// a native done channel inside a visible step, deadlines are virtual timers.

type cctx struct {
	parent   context.Context
	done     chan struct{}
	err      error
	cause    error
	deadline time.Time
	hasDL    bool
	children map[*cctx]struct{}
	tm       *timer
}

type ctxKey struct{}

var cctxKey ctxKey

func (c *cctx) Deadline() (time.Time, bool) {
	if c.hasDL {
		return c.deadline, true
	}
	return c.parent.Deadline()
}
func (c *cctx) Done() <-chan struct{} { return c.done }
func (c *cctx) Err() error {
	// reading the error is ordered after the cancel step through the done channel
	return c.err
}
func (c *cctx) Value(key any) any {
	if key == any(&cctxKey) {
		return c
	}
	return c.parent.Value(key)
}

func (c *cctx) cancel(err, cause error, removeFromParent bool) {
	if c.err != nil {
		return
	}
	c.err = err
	if cause == nil {
		cause = err
	}
	c.cause = cause
	if S != nil {
		S.closed[*(*unsafe.Pointer)(unsafe.Pointer(&c.done))] = true
	}
	close(c.done)
	if c.tm != nil {
		c.tm.active = false
	}
	for ch := range c.children {
		ch.cancel(err, cause, false)
	}
	c.children = nil
	if removeFromParent {
		if p, ok := c.parent.Value(&cctxKey).(*cctx); ok && p.children != nil {
			delete(p.children, c)
		}
	}
}

func newCctx(parent context.Context) *cctx {
	if parent == nil {
		panic("cannot create context from nil parent")
	}
	c := &cctx{parent: parent, done: make(chan struct{})}
	if p, ok := parent.Value(&cctxKey).(*cctx); ok {
		if p.err != nil {
			c.cancel(p.err, p.cause, false)
		} else {
			if p.children == nil {
				p.children = map[*cctx]struct{}{}
			}
			p.children[c] = struct{}{}
		}
	} else if pd := parent.Done(); pd != nil {
		// foreign cancellable parent: watch it from a vs thread
		GoNamed("ctxwatch", func() {
			kp, kc := RecvCase(pd), RecvCase((<-chan struct{})(c.done))
			if Select(kp, kc) == 0 {
				Point("ctxcancel", unsafe.Pointer(c))
				c.cancel(parent.Err(), context.Cause(parent), false)
			}
		})
	}
	return c
}

// noCancel is context.WithoutCancel for scheduler-owned contexts: values of the
// parent stay visible, its cancellation and deadline do not - including for
// contexts derived from it (the lookup of the nearest vs context stops here).
type noCancel struct{ parent context.Context }

func (noCancel) Deadline() (time.Time, bool) { return time.Time{}, false }
func (noCancel) Done() <-chan struct{}       { return nil }
func (noCancel) Err() error                  { return nil }
func (n noCancel) Value(key any) any {
	if key == any(&cctxKey) {
		return nil
	}
	return n.parent.Value(key)
}

func WithoutCancel(parent context.Context) context.Context {
	if parent == nil {
		panic("cannot create context from nil parent")
	}
	return noCancel{parent}
}

func stepCancel(c *cctx, err, cause error) {
	if S != nil && !S.abort {
		Point("ctxcancel", *(*unsafe.Pointer)(unsafe.Pointer(&c.done)))
	}
	c.cancel(err, cause, true)
}

func WithCancel(parent context.Context) (context.Context, context.CancelFunc) {
	if S == nil {
		return context.WithCancel(parent)
	}
	c := newCctx(parent)
	return c, func() { stepCancel(c, context.Canceled, nil) }
}

func WithCancelCause(parent context.Context) (context.Context, context.CancelCauseFunc) {
	if S == nil {
		return context.WithCancelCause(parent)
	}
	c := newCctx(parent)
	return c, func(cause error) { stepCancel(c, context.Canceled, cause) }
}

func WithDeadlineCause(parent context.Context, d time.Time, cause error) (context.Context, context.CancelFunc) {
	if S == nil {
		return context.WithDeadlineCause(parent, d, cause)
	}
	if cur, ok := parent.Deadline(); ok && cur.Before(d) {
		return WithCancel(parent)
	}
	c := newCctx(parent)
	c.deadline, c.hasDL = d, true
	if c.err == nil {
		if S.abort {
			return c, func() {}
		}
		dur := d.Sub(Now())
		if dur <= 0 {
			c.cancel(context.DeadlineExceeded, cause, true)
			return c, func() {}
		}
		Point("ctxdeadline", nil)
		c.tm = S.addTimer(dur, "ctxdeadline", func() { c.cancel(context.DeadlineExceeded, cause, true) })
	}
	return c, func() { stepCancel(c, context.Canceled, nil) }
}

func WithDeadline(parent context.Context, d time.Time) (context.Context, context.CancelFunc) {
	return WithDeadlineCause(parent, d, nil)
}

func WithTimeout(parent context.Context, d time.Duration) (context.Context, context.CancelFunc) {
	if S == nil {
		return context.WithTimeout(parent, d)
	}
	return WithDeadlineCause(parent, Now().Add(d), nil)
}

func WithTimeoutCause(parent context.Context, d time.Duration, cause error) (context.Context, context.CancelFunc) {
	if S == nil {
		return context.WithTimeoutCause(parent, d, cause)
	}
	return WithDeadlineCause(parent, Now().Add(d), cause)
}

func Cause(c context.Context) error {
	if cc, ok := c.Value(&cctxKey).(*cctx); ok {
		// the nearest vs context decides; a std cancelCtx cannot sit below it
		// un-noticed because all constructors of instrumented code come from here
		return cc.cause
	}
	return context.Cause(c)
}

type afterStop struct{ stopped, ran bool }

func CtxAfterFunc(ctx context.Context, f func()) (stop func() bool) {
	if S == nil {
		return context.AfterFunc(ctx, f)
	}
	st := &afterStop{}
	d := ctx.Done()
	stopCh := make(chan struct{})
	GoNamed("ctxafterfunc", func() {
		if Select(RecvCase(d), RecvCase((<-chan struct{})(stopCh))) == 0 && !st.stopped {
			st.ran = true
			f()
		}
	})
	return func() bool {
		Point("afterstop", unsafe.Pointer(st))
		if st.ran || st.stopped {
			return false
		}
		st.stopped = true
		close(stopCh)
		MarkClosed(stopCh)
		return true
	}
}

var ErrNotVs = errors.New("not a vs context")
