// Package vs is a stateless model checker for real Go code: a cooperative
// scheduler that owns goroutine scheduling, select-case choice, virtual time and
// environment choices, plus a depth-first explorer that enumerates every
// execution within a deviation bound (P preemptions, T early timer firings).
//
// Instrumented code reaches this package through the shim packages
// (vsync, vatomic, vtime, vctx, vrand) and through the rewritten channel
// operations (vs.Send/Recv/Select/Go...). Outside of an execution (S == nil)
// every primitive falls back to native behaviour.
package vs

import (
	"fmt"
	"runtime"
	"sort"
	"strings"
	"sync"
	"time"
	"unsafe"
)

// ---------------------------------------------------------------------------
// threads, operations

type op struct {
	kind  string
	obj   unsafe.Pointer
	objs  []unsafe.Pointer // further objects observed (select cases)
	ready func() []int     // alternatives currently enabled (nil/empty = blocked)
	fire  func(a int)      // applied by the scheduler when alternative a is taken
	cases []Case           // channel cases (for partner matching)
	local bool             // commutes with every other thread (Choose): no switch offered
	site  string
}

type thread struct {
	id      int
	parent  int
	name    string
	wake    chan struct{}
	pending *op
	done    bool
	result  int
	h       uint64 // happens-before chain head
	vc      vclock
	started bool
}

type timer struct {
	when   int64
	seq    int
	fire   func()
	active bool
	label  string
	h      uint64
	vc     vclock
}

type point struct {
	nalts     int
	curAlts   int  // alternatives that belong to the running thread (0: blocked / finished)
	defAlts   int  // alternatives of the default thread (running thread, else lowest id): free
	timerAlt  bool // last alternative is "earliest timer fires now"
	preBefore int
	earlyBefore int
	ndBefore  int
	curObjs   []unsafe.Pointer // objects of the running thread's pending operation
	curShared bool             // one of them is touched by more than one thread in this execution
}

// Event is one scheduler transition (only recorded in trace mode).
type Event struct {
	N      int    `json:"n"`
	Thread string `json:"thread"`
	Kind   string `json:"kind"`
	Alt    int    `json:"alt"`
	Site   string `json:"site,omitempty"`
	Now    string `json:"now"`
}

type sched struct {
	cfg     *Config
	frozen  bool // vs.Freeze was called: no scheduling alternatives are offered any more
	threads []*thread
	cur     *thread
	parked  chan *thread
	abort   bool
	wg      sync.WaitGroup

	prefix  []int
	choices []int
	points  []point
	events  int
	panicV  string

	now     int64 // virtual ns since Epoch
	timers  []*timer
	tseq    int
	clockH  uint64
	clockVC vclock

	keyIdent map[any]int
	objOwner map[unsafe.Pointer]int
	closed map[unsafe.Pointer]bool
	objH   map[unsafe.Pointer]uint64
	objVC  map[unsafe.Pointer]*objClock
	race   *raceState

	traceOn bool
	trace   []Event
	thash   uint64
	notes   []string

	watch chan struct{}
	states map[uint64]struct{}
}

var execEpoch uint64

// S is the running execution (nil outside of one).
var S *sched

// Active reports whether an execution is running.
func Active() bool { return S != nil && !S.abort }

// Epoch is virtual time zero.
var Epoch = time.Date(2025, 1, 1, 0, 0, 0, 0, time.UTC)

func mix(a, b uint64) uint64 {
	x := a*0x9E3779B97F4A7C15 ^ (b + 0x7F4A7C15D3B1E9A3 + (a << 6) + (a >> 2))
	x ^= x >> 31
	x *= 0xBF58476D1CE4E5B9
	x ^= x >> 29
	return x
}

func hstr(s string) uint64 {
	var h uint64 = 1469598103934665603
	for i := 0; i < len(s); i++ {
		h ^= uint64(s[i])
		h *= 1099511628211
	}
	return h
}

func yield(o *op) int {
	s := S
	if s == nil {
		panic("vs: operation outside of an execution")
	}
	if s.abort {
		return 0
	}
	t := s.cur
	if s.traceOn || s.cfg.Sites {
		o.site = callerSite()
	}
	t.pending = o
	s.parked <- t
	<-t.wake
	if s.abort {
		runtime.Goexit()
	}
	return t.result
}

func callerSite() string {
	var pcs [24]uintptr
	n := runtime.Callers(3, pcs[:])
	fr := runtime.CallersFrames(pcs[:n])
	for {
		f, more := fr.Next()
		if !strings.Contains(f.File, "/zz_verif/") && !strings.Contains(f.File, "/engine/vs/") && !strings.Contains(f.File, "/engine/shim/") && f.File != "" {
			file := f.File
			if i := strings.LastIndex(file, "/"); i >= 0 {
				file = file[i+1:]
			}
			return fmt.Sprintf("%s:%d", file, f.Line)
		}
		if !more {
			return ""
		}
	}
}

// Go starts f as a new vs thread (instrumented form of the go statement).
func Go(f func()) { GoNamed("", f) }

// GoNamed is Go with a thread name used in traces and deadlock reports.
func GoNamed(name string, f func()) {
	s := S
	if s == nil {
		go f()
		return
	}
	if s.abort {
		return
	}
	t := &thread{id: len(s.threads), wake: make(chan struct{}), name: name, parent: -1}
	if s.cur != nil {
		t.parent = s.cur.id
	}
	if name == "" {
		t.name = fmt.Sprintf("t%d", t.id)
		if s.traceOn || s.cfg.Sites {
			t.name += "@" + callerSiteN(2)
		}
	}
	if s.cur != nil {
		// spawn is a local step of the parent: child's chain starts from parent's head
		s.cur.h = mix(s.cur.h, 0x5a)
		t.h = mix(s.cur.h, 0xc1)
		t.vc = s.cur.vc.fork(s.cur.id)
		if s.race != nil {
			t.vc = t.vc.tick(t.id)
		}
	} else {
		t.h = mix(s.clockH, 0x1234567+uint64(len(s.threads)))
		if s.race != nil {
			t.vc = s.clockVC.clone().tick(t.id)
		}
	}
	t.pending = &op{kind: "start", ready: ready0, fire: nil}
	s.threads = append(s.threads, t)
	s.wg.Add(1)
	go func() {
		defer s.wg.Done()
		defer func() {
			if r := recover(); r != nil {
				if s.panicV == "" && !s.abort {
					buf := make([]byte, 8192)
					s.panicV = fmt.Sprintf("panic in %s: %v\n%s", t.name, r, buf[:runtime.Stack(buf, false)])
				}
			}
			t.done = true
			if !s.abort {
				s.parked <- t
			}
		}()
		<-t.wake
		if s.abort {
			return
		}
		f()
	}()
	if s.cur != nil && !s.cfg.NoSpawnPoint {
		// thread creation is a scheduling point: the child may run before the
		// parent's next step (costs a preemption)
		yield(&op{kind: "go", ready: ready0})
	}
}

func callerSiteN(skip int) string {
	var pcs [24]uintptr
	n := runtime.Callers(skip+1, pcs[:])
	fr := runtime.CallersFrames(pcs[:n])
	for {
		f, more := fr.Next()
		if !strings.Contains(f.File, "/engine/vs/") && !strings.Contains(f.File, "/zz_verif/vs/") && f.File != "" {
			file := f.File
			if i := strings.LastIndex(file, "/"); i >= 0 {
				file = file[i+1:]
			}
			return fmt.Sprintf("%s:%d", file, f.Line)
		}
		if !more {
			return ""
		}
	}
}

var ready0 = func() []int { return []int{0} }

// ---------------------------------------------------------------------------
// one execution

// Exec describes one complete execution.
type Exec struct {
	Choices     []int
	Events      int
	Quiescent   bool     // no enabled thread and no timer left
	Blocked     []string // threads still parked at the end ("name:kind@site")
	HorizonHit  bool
	Livelock    bool
	Panic       string
	Preemptions int
	EarlyTimers int
	Switches    int // non-default thread choices at points where the running thread was blocked
	Elapsed     time.Duration // virtual time at the end
	TraceHash   uint64
	Trace       []Event
	Notes       []string
	Races       []string
	points      []point
}

type alt struct {
	t *thread
	a int
}

func (s *sched) earliestTimer() *timer {
	var best *timer
	for _, tm := range s.timers {
		if !tm.active {
			continue
		}
		if best == nil || tm.when < best.when || (tm.when == best.when && tm.seq < best.seq) {
			best = tm
		}
	}
	return best
}

func (s *sched) gcTimers() {
	if len(s.timers) < 64 {
		return
	}
	j := 0
	for _, tm := range s.timers {
		if tm.active {
			s.timers[j] = tm
			j++
		}
	}
	for k := j; k < len(s.timers); k++ {
		s.timers[k] = nil
	}
	s.timers = s.timers[:j]
}

func (s *sched) fireTimer(tm *timer, early bool) {
	if tm.when > s.now {
		s.now = tm.when
	}
	tm.active = false
	s.clockH = mix(mix(s.clockH, tm.h), 0x71)
	if s.race != nil {
		s.clockVC = s.clockVC.join(tm.vc)
	}
	if s.traceOn {
		k := "timer:" + tm.label
		if early {
			k = "EARLY-" + k
		}
		s.trace = append(s.trace, Event{N: s.events, Thread: "clock", Kind: k, Now: time.Duration(s.now).String()})
	}
	s.thash = mix(s.thash, mix(hstr(tm.label), 77))
	s.events++
	s.cur = nil // a timer firing is not a step of any thread
	tm.fire()
	s.gcTimers()
}

func run(cfg *Config, prefix []int, body func(), trace bool) *Exec {
	s := &sched{cfg: cfg, parked: make(chan *thread), prefix: prefix, traceOn: trace,
		closed: map[unsafe.Pointer]bool{}, objH: map[unsafe.Pointer]uint64{}}
	if cfg.Race {
		s.race = newRaceState()
		s.objVC = map[unsafe.Pointer]*objClock{}
	}
	if cfg.stateSet != nil {
		s.states = cfg.stateSet
	}
	S = s
	execEpoch++
	horizon := int64(cfg.Horizon)
	if horizon == 0 {
		horizon = int64(time.Hour)
	}
	maxEvents := cfg.MaxEvents
	if maxEvents == 0 {
		maxEvents = 100000
	}
	GoNamed("main", body)
	x := &Exec{}
	pre, early, nd := 0, 0, 0
	var alts []alt
	for {
		alts = alts[:0]
		curAlts := 0
		restrict := false
		if c := s.cur; c != nil && !c.done && c.pending != nil {
			for _, a := range c.pending.ready() {
				alts = append(alts, alt{c, a})
				curAlts++
			}
			if c.pending.local && curAlts > 0 {
				restrict = true
			}
		}
		if !restrict {
			for _, t := range s.threads {
				if t == s.cur || t.done || t.pending == nil {
					continue
				}
				for _, a := range t.pending.ready() {
					alts = append(alts, alt{t, a})
				}
			}
		}
		tm := s.earliestTimer()
		if len(alts) == 0 {
			if tm == nil {
				x.Quiescent = true
				break
			}
			if tm.when > horizon {
				x.HorizonHit = true
				break
			}
			s.fireTimer(tm, false)
			if s.events > maxEvents {
				x.Livelock = true
				break
			}
			continue
		}
		if s.frozen && len(alts) > 1 {
			// measurement phase (vs.Freeze): default thread only, its own free
			// choices (select case, rendezvous partner, Choose) stay
			k := 1
			for k < len(alts) && alts[k].t == alts[0].t {
				k++
			}
			alts = alts[:k]
		}
		nalts := len(alts)
		timerAlt := false
		if cfg.T > 0 && tm != nil && !restrict && tm.when <= horizon && !s.frozen {
			timerAlt = true
			nalts++
		}
		ci := 0
		if nalts > 1 {
			i := len(s.choices)
			if i < len(prefix) {
				ci = prefix[i]
				if ci >= nalts {
					panic(fmt.Sprintf("vs: replay divergence at choice %d: want alt %d of %d", i, ci, nalts))
				}
			}
			defAlts := curAlts
			if defAlts == 0 {
				for _, a := range alts {
					if a.t != alts[0].t {
						break
					}
					defAlts++
				}
			}
			s.choices = append(s.choices, ci)
			var curObjs []unsafe.Pointer
			if cfg.SharedOnly && curAlts > 0 {
				po := s.cur.pending
				if po.obj != nil {
					curObjs = append(curObjs, po.obj)
				}
				curObjs = append(curObjs, po.objs...)
			}
			s.points = append(s.points, point{nalts: nalts, curAlts: curAlts, defAlts: defAlts, timerAlt: timerAlt, preBefore: pre, earlyBefore: early, ndBefore: nd, curObjs: curObjs})
			if timerAlt && ci == nalts-1 {
				early++
			} else if curAlts > 0 && ci >= curAlts {
				pre++
			} else if curAlts == 0 && ci >= defAlts {
				nd++
			}
		}
		if timerAlt && ci == nalts-1 {
			s.fireTimer(tm, true)
			if s.events > maxEvents {
				x.Livelock = true
				break
			}
			continue
		}
		c := alts[ci]
		o := c.t.pending
		// happens-before chain
		h := mix(mix(c.t.h, hstr(o.kind)), uint64(c.a)+1)
		if o.obj != nil {
			h = mix(h, s.objH[o.obj])
		}
		for _, ob := range o.objs {
			if ob != nil {
				h = mix(h, s.objH[ob]+3)
			}
		}
		h = mix(h, s.clockH)
		if cfg.SharedOnly {
			s.touch(o.obj, c.t.id)
			for _, ob := range o.objs {
				s.touch(ob, c.t.id)
			}
		}
		if o.fire != nil {
			o.fire(c.a) // may hand values to a partner and change its chain
		}
		c.t.h = mix(c.t.h, h)
		if o.obj != nil {
			s.objH[o.obj] = c.t.h
		}
		if s.race != nil {
			s.raceSync(c.t, o, c.a)
		}
		if s.states != nil {
			var sig uint64
			for _, t := range s.threads {
				sig += mix(t.h, 0x51)
			}
			s.states[sig] = struct{}{}
		}
		if trace {
			s.trace = append(s.trace, Event{N: s.events, Thread: c.t.name, Kind: o.kind, Alt: c.a, Site: o.site, Now: time.Duration(s.now).String()})
		}
		s.thash = mix(s.thash, mix(uint64(c.t.id)<<8|uint64(c.a), hstr(o.kind)))
		c.t.result = c.a
		c.t.pending = nil
		s.cur = c.t
		s.events++
		s.armWatchdog()
		c.t.wake <- struct{}{}
		<-s.parked // the running thread parks again or exits
		s.disarmWatchdog()
		if s.panicV != "" {
			x.Panic = s.panicV
			break
		}
		if s.events > maxEvents {
			x.Livelock = true
			break
		}
	}
	for _, t := range s.threads {
		if !t.done {
			k := "running"
			if t.pending != nil {
				k = t.pending.kind
				if t.pending.site != "" {
					k += "@" + t.pending.site
				}
			}
			x.Blocked = append(x.Blocked, t.name+":"+k)
		}
	}
	// teardown
	s.abort = true
	for _, t := range s.threads {
		if !t.done {
			close(t.wake)
		}
	}
	s.wg.Wait()
	WatchdogIdle() // nothing of the program under test runs between executions
	S = nil
	if cfg.SharedOnly {
		for i := range s.points {
			for _, ob := range s.points[i].curObjs {
				if s.objOwner[ob] == -2 {
					s.points[i].curShared = true
				}
			}
			s.points[i].curObjs = nil
		}
	}
	x.Choices = s.choices
	x.points = s.points
	x.Events = s.events
	x.Preemptions = pre
	x.EarlyTimers = early
	x.Switches = nd
	x.Elapsed = time.Duration(s.now)
	x.TraceHash = s.thash
	x.Trace = s.trace
	x.Notes = s.notes
	if s.race != nil {
		x.Races = s.race.reports()
	}
	return x
}

func (s *sched) touch(ob unsafe.Pointer, tid int) {
	if ob == nil || tid == 0 {
		// the main thread only acts before it starts / after it joined the
		// workers (fork/join ordered): its accesses never conflict with theirs
		return
	}
	if s.objOwner == nil {
		s.objOwner = map[unsafe.Pointer]int{}
	}
	if o, ok := s.objOwner[ob]; !ok {
		s.objOwner[ob] = tid
	} else if o != tid {
		s.objOwner[ob] = -2
	}
}

// watchdog: a thread that blocks natively (uninstrumented blocking) never parks
// again; detect that by wall clock and abort the whole process with an INFRA
// message. This is an infrastructure guard, never a property oracle.
var watchdogOnce sync.Once
var watchdogTick = make(chan int64, 1)
var watchdogArmed int64
var watchdogMu sync.Mutex

func (s *sched) armWatchdog() {
	if s.cfg.NoWatchdog {
		return
	}
	watchdogOnce.Do(func() {
		go func() {
			for {
				time.Sleep(2 * time.Second)
				watchdogMu.Lock()
				a := watchdogArmed
				watchdogMu.Unlock()
				if a != 0 && time.Now().UnixNano()-a > int64(20*time.Second) {
					buf := make([]byte, 1<<20)
					n := runtime.Stack(buf, true)
					fmt.Printf("INFRA: uninstrumented blocking (a vs thread did not reach its next operation within 20s)\n%s\n", buf[:n])
					exitFunc(2)
				}
			}
		}()
	})
	if s.events&0x3ff == 0 { // cheap: refresh the stamp every 1024 events
		watchdogMu.Lock()
		watchdogArmed = time.Now().UnixNano()
		watchdogMu.Unlock()
	}
}

func (s *sched) disarmWatchdog() {}

// WatchdogIdle must be called when no execution is running for a long time
// (between explorations) so that the watchdog does not fire.
func WatchdogIdle() {
	watchdogMu.Lock()
	watchdogArmed = 0
	watchdogMu.Unlock()
}

// ---------------------------------------------------------------------------
// explorer

// livelockBranchWindow: number of choice points after the replayed prefix at
// which deviations of a livelocked (event budget exhausted) execution are tried.
const livelockBranchWindow = 256

// Config bounds one exploration.
type Config struct {
	P          int           // preemption bound
	T          int           // early-timer bound
	N          int           // bound on non-default thread choices when the running thread blocks (0: unbounded, -1: none allowed)
	D          int           // bound on P+N together (0: none)
	Horizon    time.Duration // virtual horizon (default 1h)
	MaxEvents  int           // per execution (livelock guard, default 100000)
	Shard      int
	Shards     int
	MaxExecs   int64         // cap (0 = none)
	Deadline   time.Time     // wall-clock cap (zero = none)
	Sites      bool          // record call sites of parked operations (slower)
	Race       bool          // vector-clock race detection on vs.Rd/vs.Wr accesses
	NoWatchdog bool
	LivelockOK bool // Run1: return an execution that exhausted its event budget (Exec.Livelock) instead of refusing it
	NoSpawnPoint bool // do not make thread creation a scheduling point
	// SharedOnly: a preemption is only tried before an operation on an object
	// that more than one thread touches in the parent execution (operations on
	// thread-private objects commute with everything the other threads do there).
	SharedOnly bool
	CountStates bool
	stateSet   map[uint64]struct{}
}

// Violation is what a check callback reports for one execution.
type Violation struct {
	Sig  string // stable signature (scenario + oracle + site); known-findings match on it
	Desc string
}

// Found is a violation with the cheapest execution that shows it.
type Found struct {
	Violation
	Choices     []int
	Preemptions int
	EarlyTimers int
	Switches    int
	Count       int64
}

// Report summarises an exploration.
type Report struct {
	Execs      int64
	Events     int64
	States     int64
	Points     int64
	MaxPoints  int
	Capped     bool // MaxExecs or Deadline hit: not exhaustive within the bound
	Outcomes   map[string]int64
	Found      map[string]*Found
	FirstChoices [][]int
	Infra      string
}

// Explore enumerates every execution of body whose deviation cost is within
// (cfg.P, cfg.T), depth-first, re-executing from scratch. check classifies each
// execution: an outcome key (counted) and an optional violation.
func Explore(cfg Config, body func(), check func(x *Exec) (string, *Violation)) *Report {
	rep := &Report{Outcomes: map[string]int64{}, Found: map[string]*Found{}}
	if cfg.Shards <= 0 {
		cfg.Shards = 1
	}
	if cfg.CountStates {
		cfg.stateSet = map[uint64]struct{}{}
	}
	unit := 0
	var firstHash uint64
	var rec func(prefix []int, depth int, mine bool)
	rec = func(prefix []int, depth int, mine bool) {
		if rep.Capped || rep.Infra != "" {
			return
		}
		if cfg.MaxExecs > 0 && rep.Execs >= cfg.MaxExecs || (!cfg.Deadline.IsZero() && rep.Execs&0xff == 0 && time.Now().After(cfg.Deadline)) {
			rep.Capped = true
			return
		}
		// sharding: nodes at depth 2 are work units dealt round-robin; nodes above
		// are executed by every shard but only counted by shard 0.
		if depth == 2 && cfg.Shards > 1 {
			mine = unit%cfg.Shards == cfg.Shard
			unit++
			if !mine {
				return
			}
		}
		x := run(&cfg, prefix, body, false)
		count := mine
		if depth < 2 && cfg.Shards > 1 {
			count = cfg.Shard == 0
		}
		if count {
			if rep.Execs == 0 {
				firstHash = x.TraceHash
				// replay determinism self-check on the first execution
				y := run(&cfg, x.Choices, body, false)
				if y.TraceHash != firstHash || y.Events != x.Events {
					rep.Infra = fmt.Sprintf("nondeterminism: replay of first execution differs (events %d vs %d)", x.Events, y.Events)
					return
				}
			}
			rep.Execs++
			rep.Events += int64(x.Events)
			rep.Points += int64(len(x.points))
			if len(x.points) > rep.MaxPoints {
				rep.MaxPoints = len(x.points)
			}
			if len(rep.FirstChoices) < 3 {
				rep.FirstChoices = append(rep.FirstChoices, append([]int{}, x.Choices...))
			}
			key, v := check(x)
			rep.Outcomes[key]++
			if v != nil {
				f := rep.Found[v.Sig]
				if f == nil || x.Preemptions+x.EarlyTimers+x.Switches < f.Preemptions+f.EarlyTimers+f.Switches {
					n := int64(0)
					if f != nil {
						n = f.Count
					}
					f = &Found{Violation: *v, Choices: append([]int{}, x.Choices...), Preemptions: x.Preemptions, EarlyTimers: x.EarlyTimers, Switches: x.Switches, Count: n}
					rep.Found[v.Sig] = f
				}
				f.Count++
			}
			if rep.Execs == 1000 {
				// second determinism self-check in the middle of the run
				y := run(&cfg, x.Choices, body, false)
				if y.TraceHash != x.TraceHash {
					rep.Infra = "nondeterminism: replay of execution #1000 differs"
					return
				}
			}
		}
		limit := len(x.points)
		if x.Livelock && limit > len(prefix)+livelockBranchWindow {
			// a spinning execution has as many choice points as its event budget: its
			// schedule space is cyclic. The livelock itself has been handed to the
			// check; deviations are tried only in a window after the prefix.
			limit = len(prefix) + livelockBranchWindow
		}
		for i := len(prefix); i < limit; i++ {
			p := x.points[i]
			for a := 1; a < p.nalts; a++ {
				pc, tc, nc := p.preBefore, p.earlyBefore, p.ndBefore
				if p.timerAlt && a == p.nalts-1 {
					tc++
				} else if p.curAlts > 0 && a >= p.curAlts {
					pc++
				} else if p.curAlts == 0 && a >= p.defAlts {
					nc++
				}
				if pc > cfg.P || tc > cfg.T {
					continue
				}
				if cfg.SharedOnly && pc > p.preBefore && !p.curShared {
					continue
				}
				if cfg.N > 0 && nc > cfg.N || cfg.N < 0 && nc > 0 {
					continue
				}
				if cfg.D > 0 && pc+nc > cfg.D {
					continue
				}
				np := make([]int, i+1)
				copy(np, x.Choices[:i])
				np[i] = a
				rec(np, depth+1, mine)
			}
		}
	}
	rec(nil, 0, true)
	if cfg.stateSet != nil {
		rep.States = int64(len(cfg.stateSet))
	}
	WatchdogIdle()
	return rep
}

// Replay runs one recorded schedule with tracing on.
func Replay(cfg Config, choices []int, body func()) *Exec {
	cfg.Sites = true
	x := run(&cfg, choices, body, true)
	WatchdogIdle()
	return x
}

// Run1 runs body once on the default schedule (used by sequential enumerators
// that only need virtual time and deterministic goroutines).
func Run1(cfg Config, body func()) *Exec {
	if cfg.MaxEvents == 0 {
		cfg.MaxEvents = 50_000_000
	}
	x := run(&cfg, nil, body, false)
	WatchdogIdle()
	if x.Livelock && !cfg.LivelockOK {
		// never truncate an enumerator's case silently
		panic(fmt.Sprintf("INFRA: vs.Run1: the body exceeded the event budget of %d scheduler events", cfg.MaxEvents))
	}
	return x
}

// StateHashes returns the set of happens-before prefix signatures (if counted).
func (c *Config) StateHashes() []uint64 {
	out := make([]uint64, 0, len(c.stateSet))
	for k := range c.stateSet {
		out = append(out, k)
	}
	sort.Slice(out, func(i, j int) bool { return out[i] < out[j] })
	return out
}

// ---------------------------------------------------------------------------
// generic primitives for harness code and shims

// Point is a visible, always-enabled step on obj.
func Point(kind string, obj unsafe.Pointer) {
	if S == nil {
		return
	}
	yield(&op{kind: kind, obj: obj, ready: ready0})
}

// Freeze ends the explored part of an execution: from here on the scheduler
// follows its deterministic default (no preemptions, no non-default thread
// choices, no early timers are offered to the explorer). Harnesses call it
// before a measurement phase that is an instrument, not part of the system
// whose schedules are explored.
func Freeze() {
	if S != nil {
		S.frozen = true
	}
}

// Unfreeze ends a frozen phase (a prologue that only builds the state the
// explored part starts from).
func Unfreeze() {
	if S != nil {
		S.frozen = false
	}
}

// Atomic is a visible step that is enabled when en() holds (en == nil: always);
// the caller performs the effect right after it returns (no other thread runs
// in between).
func Atomic(kind string, obj unsafe.Pointer, en func() bool) {
	if S == nil {
		if en != nil && !en() {
			panic("vs: blocking operation outside of an execution: " + kind)
		}
		return
	}
	if en == nil {
		yield(&op{kind: kind, obj: obj, ready: ready0})
		return
	}
	yield(&op{kind: kind, obj: obj, ready: func() []int {
		if en() {
			return []int{0}
		}
		return nil
	}})
}

// Block parks the calling thread until pred holds (evaluated by the scheduler).
func Block(kind string, obj unsafe.Pointer, pred func() bool) { Atomic(kind, obj, pred) }

// Choose is an environment choice: all n values are explored. It commutes with
// every other thread, so no thread switch is offered at it.
func Choose(n int) int {
	if S == nil {
		return 0
	}
	if n <= 1 {
		return 0
	}
	return yield(&op{kind: "choose", local: true, ready: func() []int {
		r := make([]int, n)
		for i := range r {
			r[i] = i
		}
		return r
	}})
}

// Note records an observation in the execution.
func Note(format string, a ...any) {
	if S != nil && !S.abort {
		S.notes = append(S.notes, fmt.Sprintf(format, a...))
	}
}

// Ancestors returns the names of the running thread and of its ancestors
// (nearest first), so that a harness can tell on whose behalf a goroutine runs.
func Ancestors() []string {
	var r []string
	if S == nil || S.cur == nil {
		return r
	}
	for t := S.cur; t != nil; {
		r = append(r, t.name)
		if t.parent < 0 {
			break
		}
		t = S.threads[t.parent]
	}
	return r
}

// CurThread returns the running vs thread's id and name (-1 outside).
func CurThread() (int, string) {
	if S == nil || S.cur == nil {
		return -1, ""
	}
	return S.cur.id, S.cur.name
}

var exitFunc = func(code int) { osExit(code) }

// Run1Choices re-executes one recorded schedule without tracing.
func Run1Choices(cfg Config, choices []int, body func()) *Exec {
	x := run(&cfg, choices, body, false)
	WatchdogIdle()
	return x
}
