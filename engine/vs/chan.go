package vs

import (
	"unsafe"
)

// Channels stay native Go channels. The scheduler decides readiness from
// len/cap/closedness and from the complementary operations parked on the same
// channel; buffered transfers are executed natively once known not to block,
// an unbuffered rendezvous is executed by hand-off between the two parked ops.

// Case is one communication clause of a select.
type Case interface {
	dir() int // 0 recv, 1 send, 2 default
	chp() unsafe.Pointer
	rdy() bool           // can complete natively without blocking (buffer / closed)
	doNative()           // complete natively
	take(from Case)      // recv side: take the value of a parked sender
	setZero()
}

// RecvK is a receive clause; V and OK hold the result after Select returned its index.
type RecvK[T any] struct {
	ch <-chan T
	V  T
	OK bool
}

// SendK is a send clause.
type SendK[T any] struct {
	ch chan<- T
	v  T
}

type defaultK struct{}

func RecvCase[T any](ch <-chan T) *RecvK[T]      { return &RecvK[T]{ch: ch} }
func SendCase[T any](ch chan<- T, v T) *SendK[T] { return &SendK[T]{ch: ch, v: v} }
func Default() Case                              { return defaultK{} }

func (defaultK) dir() int            { return 2 }
func (defaultK) chp() unsafe.Pointer { return nil }
func (defaultK) rdy() bool           { return false }
func (defaultK) doNative()           {}
func (defaultK) take(Case)           {}
func (defaultK) setZero()            {}

func (k *RecvK[T]) dir() int            { return 0 }
func (k *RecvK[T]) chp() unsafe.Pointer { return *(*unsafe.Pointer)(unsafe.Pointer(&k.ch)) }
func (k *RecvK[T]) rdy() bool {
	if k.ch == nil {
		return false
	}
	return len(k.ch) > 0 || isClosed(k.chp(), k.ch)
}
func (k *RecvK[T]) doNative()  { k.V, k.OK = <-k.ch }
func (k *RecvK[T]) take(from Case) {
	k.V = from.(*SendK[T]).v
	k.OK = true
}
func (k *RecvK[T]) setZero() { var z T; k.V = z; k.OK = false }

func (k *SendK[T]) dir() int            { return 1 }
func (k *SendK[T]) chp() unsafe.Pointer { return *(*unsafe.Pointer)(unsafe.Pointer(&k.ch)) }
func (k *SendK[T]) rdy() bool {
	if k.ch == nil {
		return false
	}
	return S.closed[k.chp()] || len(k.ch) < cap(k.ch)
}
func (k *SendK[T]) doNative() { k.ch <- k.v } // panics like Go when the channel is closed
func (k *SendK[T]) take(Case) {}
func (k *SendK[T]) setZero()  {}

// isClosed probes closedness without consuming a value: with an empty buffer a
// non-blocking receive succeeds only on a closed channel (no native sender is
// ever parked on a channel, all sends go through the scheduler).
func isClosed[T any](p unsafe.Pointer, ch <-chan T) bool {
	if S.closed[p] {
		return true
	}
	if len(ch) > 0 {
		return false
	}
	select {
	case _, ok := <-ch:
		if ok {
			panic("vs: closedness probe consumed a value (a native goroutine sends on an instrumented channel)")
		}
		S.closed[p] = true
		return true
	default:
		return false
	}
}

// findPartners lists the parked threads offering the complementary operation on
// ch (ascending thread id). The language does not say which parked partner a
// rendezvous picks, so each one is a separate alternative.
func findPartners(self *thread, ch unsafe.Pointer, wantSend bool) (ts []*thread, idx []int) {
	if ch == nil {
		return
	}
	for _, t := range S.threads {
		if t == self || t.done || t.pending == nil || t.pending.cases == nil {
			continue
		}
		for i, c := range t.pending.cases {
			if c.chp() != ch {
				continue
			}
			if wantSend && c.dir() == 1 || !wantSend && c.dir() == 0 {
				ts = append(ts, t)
				idx = append(idx, i)
				break
			}
		}
	}
	return
}

// Select is the instrumented select statement: it returns the index of the
// clause that fired. Which ready clause fires is an explorer choice.
func Select(cases ...Case) int {
	if S == nil {
		return nativeSelect(cases)
	}
	if S.abort {
		for _, c := range cases {
			c.setZero()
		}
		return 0
	}
	self := S.cur
	n := len(cases)
	if n == 0 {
		n = 1
	}
	o := &op{kind: "select", cases: cases}
	def := -1
	for i, c := range cases {
		if c.dir() == 2 {
			def = i
		} else if p := c.chp(); p != nil {
			if o.obj == nil {
				o.obj = p
			} else {
				o.objs = append(o.objs, p)
			}
		}
	}
	if len(cases) == 1 {
		if cases[0].dir() == 0 {
			o.kind = "recv"
		} else if cases[0].dir() == 1 {
			o.kind = "send"
		}
	}
	o.ready = func() []int {
		var r []int
		for i, c := range cases {
			switch c.dir() {
			case 0, 1:
				if c.rdy() {
					r = append(r, i)
				} else {
					ps, _ := findPartners(self, c.chp(), c.dir() == 0)
					for j := range ps {
						r = append(r, i+j*n)
					}
				}
			}
		}
		if len(r) == 0 && def >= 0 {
			r = append(r, def)
		}
		return r
	}
	o.fire = func(a int) {
		pj := a / n
		c := cases[a%n]
		// the fired channel is the written object
		if p := c.chp(); p != nil && p != o.obj {
			for i, q := range o.objs {
				if q == p {
					o.objs[i] = o.obj
					o.obj = p
					break
				}
			}
		}
		switch c.dir() {
		case 0:
			if c.rdy() {
				c.doNative()
			} else {
				ps, pis := findPartners(self, c.chp(), true)
				c.take(ps[pj].pending.cases[pis[pj]])
				handOff(self, ps[pj], pis[pj])
			}
		case 1:
			if c.rdy() {
				c.doNative()
			} else {
				ps, pis := findPartners(self, c.chp(), false)
				ps[pj].pending.cases[pis[pj]].take(c)
				handOff(self, ps[pj], pis[pj])
			}
		}
	}
	return yield(o) % n
}

// handOff completes the partner's parked operation: it becomes runnable with
// result = its clause index, and its chain now depends on the firing thread.
func handOff(self, p *thread, idx int) {
	p.h = mix(p.h, mix(self.h, 0xab))
	if S.race != nil {
		// rendezvous synchronises both ways
		j := p.vc.join(self.vc)
		p.vc = j
		self.vc = j.clone()
	}
	p.pending = &op{kind: "resume", ready: func() []int { return []int{idx} }}
}

func nativeSelect(cases []Case) int {
	// outside of an execution: poll fairly; only used by package-level code paths
	// that run without the explorer (should be rare).
	def := -1
	for {
		for i, c := range cases {
			switch c.dir() {
			case 2:
				def = i
			case 0, 1:
				if nativeTry(c) {
					return i
				}
			}
		}
		if def >= 0 {
			return def
		}
		nativeBackoff()
	}
}

func nativeTry(c Case) bool {
	type tryer interface{ tryNative() bool }
	return c.(tryer).tryNative()
}

func (k *RecvK[T]) tryNative() bool {
	if k.ch == nil {
		return false
	}
	select {
	case k.V, k.OK = <-k.ch:
		return true
	default:
		return false
	}
}

func (k *SendK[T]) tryNative() bool {
	if k.ch == nil {
		return false
	}
	select {
	case k.ch <- k.v:
		return true
	default:
		return false
	}
}

// SendEnd is the method form used for sends (element types that are interfaces
// do not unify in a function form).
type SendEnd[T any] struct{ ch chan<- T }

func Snd[T any](ch chan<- T) SendEnd[T] { return SendEnd[T]{ch} }

func (s SendEnd[T]) Case(v T) *SendK[T] { return &SendK[T]{ch: s.ch, v: v} }

func (s SendEnd[T]) Send(v T) {
	if S == nil {
		s.ch <- v
		return
	}
	Select(SendCase(s.ch, v))
}

// Close is the instrumented close().
func Close[T any](ch chan<- T) {
	if S == nil {
		close(ch)
		return
	}
	p := *(*unsafe.Pointer)(unsafe.Pointer(&ch))
	Point("close", p)
	if S != nil && !S.abort {
		S.closed[p] = true
		// wake parked receivers: they observe closedness through rdy()
	}
	if S != nil && S.abort {
		// during teardown closing twice must not panic
		defer func() { recover() }()
	}
	close(ch)
}

// MarkClosed registers a channel closed natively by a shim (context done channels).
func MarkClosed[T any](ch chan T) {
	if S != nil {
		S.closed[*(*unsafe.Pointer)(unsafe.Pointer(&ch))] = true
	}
}

func Recv[T any](ch <-chan T) T {
	if S == nil {
		return <-ch
	}
	k := RecvCase(ch)
	Select(k)
	return k.V
}

func Recv2[T any](ch <-chan T) (T, bool) {
	if S == nil {
		v, ok := <-ch
		return v, ok
	}
	k := RecvCase(ch)
	Select(k)
	return k.V, k.OK
}

// ChanID returns the scheduler's object key of a channel (harness use).
func ChanID[T any](ch chan T) unsafe.Pointer { return *(*unsafe.Pointer)(unsafe.Pointer(&ch)) }
