#!/usr/bin/env python3
"""Regenerates MANIFEST.json from harness/*/check.json (single source of truth for commands)."""
import json, glob, os
V = os.path.dirname(os.path.abspath(__file__))
props = [json.loads(l) for l in open(os.path.join(V, "properties.jsonl"))]
checks, na = [], []
enabled = set(open(os.path.join(V, "harness", "ENABLED")).read().split())
for p in props:
    pid = p["id"]
    cj = os.path.join(V, "harness", pid, "check.json")
    if pid not in enabled or not os.path.exists(cj):
        na.append({"property_id": pid, "reason": "check not built yet (planned in DESIGN.md section 5; model checking applies)"})
        continue
    c = json.load(open(cj))
    m = c.get("manifest", {})
    checks.append({
        "property_id": pid,
        "quick_cmd": "python3 /verif/vcheck.py run %s --tier quick" % pid,
        "thorough_cmd": "python3 /verif/vcheck.py run %s --tier thorough" % pid,
        "evidence_file": "/verif/evidence/%s.json" % pid,
        "replay_cmd_template": "python3 /verif/vcheck.py replay {path}",
        "engine": c.get("engine", "vs"),
        "level_claimed": {"category": c.get("level", "model_checking"), "text": m.get("text", ""), "design_ref": m.get("design_ref", "DESIGN.md §5 " + pid)},
        "level_note": m.get("note", "; ".join(c.get("assumptions", []))),
        "technique": m.get("technique", ""),
    })
man = {
    "version": 1,
    "setup_cmd": "python3 /verif/vcheck.py setup",
    "hooks": {
        "guard": "verif-overlay",
        "enable": "no in-tree hooks: every check re-instruments the current /repo working tree into a scratch dir (engine/instr) and builds with `go test -overlay`, mounting the vs scheduler/shim packages and harness files virtually; /repo is never written",
        "baseline_off_cmd": "cd /repo && GOFLAGS=-mod=mod GOPROXY=off GOSUMDB=off GOTOOLCHAIN=local go test -json -vet=off -count=1 -timeout 25m ./...",
        "source_commits": [],
        "add_only": True,
    },
    "engines": [
        {"name": "vs", "path": "/verif/engine/vs", "serves_properties": [c["property_id"] for c in checks if c["engine"] == "vs"],
         "kind_free_text": "hand-written stateless model checker for real Go code: cooperative scheduler owning goroutine scheduling, select choice, virtual time and environment choices; DFS over all executions within a preemption / early-timer bound; injected by source rewriting + go build -overlay"},
        {"name": "enum", "path": "/verif/engine/vr", "serves_properties": [c["property_id"] for c in checks if c["engine"] == "enum"],
         "kind_free_text": "bounded-exhaustive enumeration (complete products / BFS over operation sequences with canonical state keys) on the real code against independent reference models; virtual clock through the vs time shim"},
    ],
    "checks": checks,
    "not_applicable": na,
    "notes": "See DESIGN.md. Exit codes: 0 held, 1 VIOLATION, 2 INFRA (machinery could not decide). known_findings.json lists genuine defects (fixed by 'fix:' commits in /repo).",
}
json.dump(man, open(os.path.join(V, "MANIFEST.json"), "w"), indent=1)
print("checks:", [c["property_id"] for c in checks], "n/a:", len(na))
