#!/usr/bin/env python3
"""vcheck - driver of the mosdns model-checking checks.

  vcheck.py run <ID> [--tier quick|thorough]     instrument -> build (overlay) -> shards -> merge -> evidence
  vcheck.py replay <path>                        re-execute one recorded schedule / input and print its trace
  vcheck.py setup                                build tools, pre-warm the Go build cache

Exit codes: 0 property held on everything explored (known findings are printed as KNOWN-FINDING lines),
1 + "VIOLATION property=<id> replay=<path>" for a violation not listed in known_findings.json,
2 + "INFRA: ..." when the machinery itself could not decide.
"""
import sys, os, json, subprocess, tempfile, shutil, time, hashlib, glob, signal

VERIF = os.path.dirname(os.path.abspath(__file__))
REPO = os.environ.get("VERIF_REPO", "/repo")
MOD = "github.com/IrineSistiana/mosdns/v5"
GOENV = dict(os.environ, GOFLAGS="-mod=mod", GOPROXY="off", GOSUMDB="off", GOTOOLCHAIN="local")
NCPU = os.cpu_count() or 4


def infra(msg, code=2):
    print("INFRA: " + msg, flush=True)
    sys.exit(code)


def load_check(pid):
    p = os.path.join(VERIF, "harness", pid, "check.json")
    if not os.path.exists(p):
        infra("no such check: " + pid)
    return json.load(open(p))


def ensure_tools():
    b = os.path.join(VERIF, "bin", "instr")
    src = os.path.join(VERIF, "engine", "instr", "main.go")
    if not os.path.exists(b) or os.path.getmtime(b) < os.path.getmtime(src):
        os.makedirs(os.path.join(VERIF, "bin"), exist_ok=True)
        r = subprocess.run(["go", "build", "-o", b, "./instr"], cwd=os.path.join(VERIF, "engine"), env=GOENV,
                           capture_output=True, text=True)
        if r.returncode != 0:
            infra("cannot build instrumenter:\n" + r.stderr)
    return b


DEFAULT_ADOPT = [
    {"import": "golang.org/x/sync/singleflight", "dir": "golang.org/x/sync@v0.10.0/singleflight", "target": "zz_verif/singleflight"},
    {"import": "golang.org/x/sync/errgroup", "dir": "golang.org/x/sync@v0.10.0/errgroup", "target": "zz_verif/errgroup"},
    {"import": "golang.org/x/sync/semaphore", "dir": "golang.org/x/sync@v0.10.0/semaphore", "target": "zz_verif/semaphore"},
]


def build_overlay(chk, scratch):
    """Returns path of overlay.json. Nothing is written under REPO."""
    ov = {}
    # engine packages, mounted as virtual packages of the repo module
    for name, src in (("vs", "engine/vs"), ("vr", "engine/vr"), ("fk", "engine/fk"), ("vsync", "engine/shim/vsync"),
                      ("vatomic", "engine/shim/vatomic"), ("vtime", "engine/shim/vtime"),
                      ("vctx", "engine/shim/vctx"), ("vrand", "engine/shim/vrand")):
        for f in glob.glob(os.path.join(VERIF, src, "*.go")):
            if f.endswith("_test.go"):
                continue
            ov[os.path.join(REPO, "zz_verif", name, os.path.basename(f))] = f
    instr = chk.get("instrument", [])
    adopt = chk.get("adopt", [])
    if instr:
        # helper libraries that start goroutines / block on their own: instrumented whenever an
        # instrumented package imports them (a native goroutine inside the scheduler's world hangs)
        have = {a["import"] for a in adopt}
        adopt = adopt + [a for a in DEFAULT_ADOPT if a["import"] not in have]
    if instr or adopt:
        tool = ensure_tools()
        frag = os.path.join(scratch, "frag.json")
        cmd = [tool, "-repo", REPO, "-out", os.path.join(scratch, "src"), "-pkgs", ",".join(instr), "-map", frag]
        if adopt:
            gomod = subprocess.run(["go", "env", "GOMODCACHE"], env=GOENV, capture_output=True, text=True).stdout.strip()
            cmd += ["-adopt", ",".join("%s=%s=%s" % (a["import"], os.path.join(gomod, a["dir"]), a["target"]) for a in adopt)]
        if chk.get("race_access"):
            cmd += ["-race", ",".join(chk["race_access"])]
        if chk.get("rebind"):
            cmd += ["-rebind", ",".join("%s=%s@%s" % (rb["import"], rb["to"], "+".join(rb["pkgs"])) for rb in chk["rebind"])]
        r = subprocess.run(cmd, capture_output=True, text=True)
        if r.returncode != 0:
            infra("instrumenter failed: " + r.stderr + r.stdout)
        ov.update(json.load(open(frag)))
    for src, dst in chk.get("mounts", {}).items():
        s = os.path.join(VERIF, src)
        if not os.path.exists(s):
            infra("mount source missing: " + s)
        if os.path.isdir(s):
            for f in glob.glob(os.path.join(s, "*.go")):
                ov[os.path.join(REPO, dst, os.path.basename(f))] = f
        else:
            ov[os.path.join(REPO, dst)] = s
    for dst in chk.get("drop", []):
        ov[os.path.join(REPO, dst)] = ""
    p = os.path.join(scratch, "overlay.json")
    json.dump({"Replace": ov}, open(p, "w"), indent=1)
    return p


def build_test(chk, scratch, overlay):
    binp = os.path.join(scratch, "t.bin")
    cmd = ["go", "test", "-c", "-overlay", overlay, "-vet=off", "-o", binp]
    if chk.get("go_race"):
        cmd.append("-race")
    cmd.append(chk["package"])
    t0 = time.time()
    r = subprocess.run(cmd, cwd=REPO, env=GOENV, capture_output=True, text=True)
    if r.returncode != 0 or not os.path.exists(binp):
        infra("build of the harness against the current tree failed:\n" + (r.stderr + r.stdout)[-6000:])
    return binp, time.time() - t0


def known_findings():
    p = os.path.join(VERIF, "known_findings.json")
    if not os.path.exists(p):
        return []
    return json.load(open(p)).get("findings", [])


def run_part(pid, chk, part, pi, tier, seed, scratch):
    procs = []
    try:
        pscratch = os.path.join(scratch, "p%d" % pi)
        os.makedirs(pscratch)
        overlay = build_overlay(part, pscratch)
        binp, build_s = build_test(part, pscratch, overlay)
        sh = part.get("shards", chk.get("shards", NCPU))
        shards = int(sh.get(tier, NCPU) if isinstance(sh, dict) else sh)
        shards = max(1, min(shards, int(os.environ.get("VERIF_MAX_SHARDS", "64"))))
        budget = part.get("budget_s", chk.get("budget_s", {})).get(tier, 120 if tier == "quick" else 900)
        env = dict(os.environ, VERIF_TIER=tier, VERIF_SHARDS=str(shards), VERIF_SEED=str(seed), VERIF_BUDGET_S=str(budget),
                   VERIF_REPO=REPO, VERIF_DIR=VERIF)
        gmp = part.get("gomaxprocs", chk.get("gomaxprocs"))
        if gmp:
            env["GOMAXPROCS"] = str(gmp)
        env.pop("VERIF_REPLAY", None)
        cwd = os.path.join(REPO, part["package"]) if os.path.isdir(os.path.join(REPO, part["package"])) else REPO
        for i in range(shards):
            e = dict(env, VERIF_SHARD=str(i), VERIF_OUT=os.path.join(pscratch, "out_%d.json" % i))
            lf = open(os.path.join(pscratch, "log_%d.txt" % i), "w")
            p = subprocess.Popen([binp, "-test.run", "^%s$" % part["test"], "-test.timeout", "%ds" % int(budget * 3 + 600), "-test.v"],
                                 cwd=cwd, env=e, stdout=lf, stderr=subprocess.STDOUT)
            procs.append((p, lf))
        hard = time.time() + budget * 3 + 660
        results = []
        for i, (p, lf) in enumerate(procs):
            try:
                p.wait(timeout=max(1, hard - time.time()))
            except subprocess.TimeoutExpired:
                p.kill()
                infra("shard %d of %s did not finish within its hard limit" % (i, pid))
            lf.close()
            log = open(os.path.join(pscratch, "log_%d.txt" % i)).read()
            outp = os.path.join(pscratch, "out_%d.json" % i)
            if p.returncode != 0 or not os.path.exists(outp):
                tail = log[-5000:]
                if "INFRA:" in log:
                    tail = log[log.index("INFRA:"):][:5000]
                infra("shard %d of %s (part %d) exited with %s without a result:\n%s" % (i, pid, pi, p.returncode, tail))
            r = json.load(open(outp))
            r["_part"] = pi
            results.append(r)
        procs = []
        return results, build_s, shards
    finally:
        for p, lf in procs:
            try:
                p.kill()
            except Exception:
                pass


def parts_of(chk):
    return chk.get("parts") or [chk]


def run_check(pid, tier, seed):
    chk = load_check(pid)
    t_start = time.time()
    scratch = tempfile.mkdtemp(prefix="vchk_%s_" % pid, dir=os.environ.get("VERIF_SCRATCH", "/tmp"))
    try:
        results, build_s, shards = [], 0.0, 0
        for pi, part in enumerate(parts_of(chk)):
            if tier not in part.get("tiers", ["quick", "thorough"]):
                continue
            r, b, sh = run_part(pid, chk, part, pi, tier, seed, scratch)
            results += r
            build_s += b
            shards = max(shards, sh)
        return merge(pid, chk, tier, seed, results, scratch, t_start, build_s, shards)
    finally:
        if os.environ.get("VERIF_KEEP"):
            print("scratch kept:", scratch)
        else:
            shutil.rmtree(scratch, ignore_errors=True)


def merge(pid, chk, tier, seed, results, scratch, t_start, build_s, shards):
    ev = {"evaluations": 0, "states": 0, "transitions": 0}
    outcomes, samples, notes, violations, scen = {}, [], [], {}, {}
    exhaustive = True
    bounds = {}
    rule = ""
    infra_msgs = []
    for r in results:
        if r.get("infra"):
            # a shard could not decide: keep going, a violation found elsewhere is still a violation
            if r["infra"] not in infra_msgs:
                infra_msgs.append(r["infra"])
            exhaustive = False
        ev["evaluations"] += r.get("evaluations", 0)
        ev["states"] += r.get("states", 0)
        ev["transitions"] += r.get("transitions", 0)
        for k, n in (r.get("outcomes") or {}).items():
            outcomes[k] = outcomes.get(k, 0) + n
        for s in (r.get("samples") or []):
            if len(samples) < 8 and s not in samples:
                samples.append(s)
        for n in (r.get("notes") or []):
            if n not in notes and len(notes) < 40:
                notes.append(n)
        exhaustive = exhaustive and r.get("exhaustive", False)
        rule = r.get("rule") or rule
        for k, v in (r.get("bounds") or {}).items():
            if k != "wall_s":
                bounds[k] = v
        for s in (r.get("scenarios") or []):
            a = scen.setdefault(s["name"], {"name": s["name"], "P": s.get("P"), "T": s.get("T"), "N": s.get("N"), "D": s.get("D"), "executions": 0, "transitions": 0,
                                            "states": 0, "exhaustive_within_bound": True, "distinct_outcomes": set(), "max_choice_points": 0,
                                            "level": s.get("level", 0), "required": s.get("required", True)})
            a["executions"] += s["executions"]
            a["transitions"] += s["transitions"]
            a["states"] += s["states"]
            a["max_choice_points"] = max(a["max_choice_points"], s.get("max_choice_points", 0))
            a["exhaustive_within_bound"] = a["exhaustive_within_bound"] and s["exhaustive_within_bound"]
            a["distinct_outcomes"].update((s.get("outcomes") or {}).keys())
        for v in (r.get("violations") or []):
            if isinstance(v.get("replay"), dict):
                v["replay"]["part"] = r.get("_part", 0)
            cur = violations.get(v["sig"])
            if cur is None or v.get("cost", 0) < cur.get("cost", 0):
                violations[v["sig"]] = v
    # union of state hashes when shards exported them
    sfiles = glob.glob(os.path.join(scratch, "p*", "out_*.json.states"))
    if sfiles and len(sfiles) == len(results):
        u = set()
        for f in sfiles:
            u.update(open(f).read().split())
        ev["states"] = len(u)
    for a in scen.values():
        a["distinct_outcomes"] = len(a["distinct_outcomes"])
    if any(a.get("level", 0) != 0 for a in scen.values()):
        # iterative bounding: per scenario, the deepest pass every shard completed
        deepest = {}
        for a in sorted(scen.values(), key=lambda a: a.get("level", 0)):
            base = a["name"].split(" [bounds")[0]
            d = deepest.setdefault(base, {"completed": None, "partial": []})
            b = {"P": a["P"], "T": a["T"], "N": a.get("N"), "D": a.get("D"), "executions": a["executions"]}
            if a["exhaustive_within_bound"]:
                d["completed"] = b
            else:
                d["partial"].append(b)
        bounds["iterative_bounding"] = deepest
        notes.insert(0, "iterative bounding: 'exhaustive' refers to the required pass of every scenario (one deviation below the stated thorough bounds); "
                        "bounds.iterative_bounding lists the deepest pass completed in every shard and the passes cut by the budget, which are not counted as covered")
    kf = known_findings()
    known = {f["sig"]: f for f in kf if f.get("property") == pid and f.get("status") == "known"}
    new, known_hit = [], []
    for sig, v in sorted(violations.items()):
        if sig in known:
            known_hit.append((sig, v))
        else:
            new.append((sig, v))
    lines = []
    rdir = os.path.join(VERIF, "replays", pid)
    for sig, v in known_hit:
        lines.append("KNOWN-FINDING: property=%s %s" % (pid, known[sig].get("text", sig)))
    for sig, v in new:
        os.makedirs(rdir, exist_ok=True)
        path = os.path.join(rdir, hashlib.sha1(sig.encode()).hexdigest()[:12] + ".json")
        rp = v.get("replay") or {}
        if isinstance(rp, dict):
            rp.setdefault("property", pid)
            rp.setdefault("sig", sig)
            rp.setdefault("desc", v.get("desc", ""))
        json.dump(rp, open(path, "w"), indent=1)
        lines.append("VIOLATION property=%s replay=%s" % (pid, path))
        lines.append("  sig: %s" % sig)
        lines.append("  " + v.get("desc", "").replace("\n", "\n  ")[:3000])
    states = max(ev["states"], 1) if chk.get("level", "model_checking") == "model_checking" else ev["states"]
    cov = {
        "states": states,
        "transitions": max(ev["transitions"], 1),
        "traces_validated_against_impl": ev["evaluations"],
        "evaluations": ev["evaluations"],
        "distinct_nontrivial": len(outcomes),
        "rule": rule,
        "samples": samples or [{"note": "no sample recorded"}],
        "exhaustive": bool(exhaustive),
        "outcome_classes": dict(sorted(outcomes.items())[:400]),
        "scenarios": sorted(scen.values(), key=lambda a: a["name"]),
        "bounds": bounds,
        "notes": notes,
        "shards": shards,
        "build_s": round(build_s, 1),
        "known_findings_hit": [s for s, _ in known_hit],
        "explanation": chk.get("explanation", ""),
    }
    evd = {
        "property_id": pid, "tier": tier, "seed": seed, "level": chk.get("level", "model_checking"),
        "coverage": cov,
        "assumptions": chk.get("assumptions", []),
        "wall_s": round(time.time() - t_start, 2),
        "violations": len(new),
    }
    os.makedirs(os.path.join(VERIF, "evidence"), exist_ok=True)
    json.dump(evd, open(os.path.join(VERIF, "evidence", pid + ".json"), "w"), indent=1)
    print("%s tier=%s executions=%d states=%d transitions=%d outcome_classes=%d exhaustive=%s wall=%.1fs (build %.1fs)" % (
        pid, tier, ev["evaluations"], ev["states"], ev["transitions"], len(outcomes), exhaustive, time.time() - t_start, build_s))
    for a in cov["scenarios"]:
        print("  scenario %-40s P=%s T=%s N=%s D=%s execs=%-9d outcomes=%-4d %s" % (a["name"], a["P"], a["T"], a.get("N"), a.get("D"), a["executions"], a["distinct_outcomes"],
              "exhaustive" if a["exhaustive_within_bound"] else ("PARTIAL (budget)" + ("" if a.get("required", True) else ", optional deeper pass"))))
    for l in lines:
        print(l)
    sys.stdout.flush()
    if new:
        for m in infra_msgs:
            print("note: INFRA in another shard/part: %s: %s" % (pid, m))
        return 1
    if infra_msgs:
        infra("%s: %s" % (pid, "; ".join(infra_msgs)))
    return 0


def replay(path):
    rf = json.load(open(path))
    pid = rf["property"]
    chk = load_check(pid)
    part = parts_of(chk)[int(rf.get("part", 0))]
    scratch = tempfile.mkdtemp(prefix="vrep_%s_" % pid, dir=os.environ.get("VERIF_SCRATCH", "/tmp"))
    try:
        overlay = build_overlay(part, scratch)
        binp, _ = build_test(part, scratch, overlay)
        env = dict(os.environ, VERIF_REPLAY=os.path.abspath(path), VERIF_TIER="quick", VERIF_REPO=REPO, VERIF_DIR=VERIF)
        if part.get("gomaxprocs", chk.get("gomaxprocs")):
            env["GOMAXPROCS"] = str(part.get("gomaxprocs", chk.get("gomaxprocs")))
        cwd = os.path.join(REPO, part["package"]) if os.path.isdir(os.path.join(REPO, part["package"])) else REPO
        r = subprocess.run([binp, "-test.run", "^%s$" % part["test"], "-test.v"], cwd=cwd, env=env)
        return 1 if r.returncode else 0
    finally:
        shutil.rmtree(scratch, ignore_errors=True)


def setup():
    ensure_tools()
    # engine self-tests (scheduler, primitives, explorer): a broken engine must not go unnoticed
    r = subprocess.run(["go", "test", "-count=1", "./vs"], cwd=os.path.join(VERIF, "engine"), env=GOENV, capture_output=True, text=True)
    print("setup: engine self-tests:", r.stdout.strip().splitlines()[-1] if r.stdout.strip() else r.stderr[-300:], flush=True)
    if r.returncode != 0:
        infra("engine self-tests failed:\n" + (r.stdout + r.stderr)[-3000:])
    # pre-warm the build cache: compile every harness once (no run)
    enabled = set(open(os.path.join(VERIF, "harness", "ENABLED")).read().split())
    ids = sorted(os.path.basename(os.path.dirname(p)) for p in glob.glob(os.path.join(VERIF, "harness", "*", "check.json")))
    ids = [i for i in ids if i in enabled]
    ok = True
    for pid in ids:
        chk = load_check(pid)
        for pi, part in enumerate(parts_of(chk)):
            scratch = tempfile.mkdtemp(prefix="vsetup_", dir=os.environ.get("VERIF_SCRATCH", "/tmp"))
            try:
                t0 = time.time()
                overlay = build_overlay(part, scratch)
                build_test(part, scratch, overlay)
                print("setup: built %s part %d in %.1fs" % (pid, pi, time.time() - t0), flush=True)
            finally:
                shutil.rmtree(scratch, ignore_errors=True)
    return 0 if ok else 2


def main():
    a = sys.argv[1:]
    if not a:
        print(__doc__)
        return 2
    if a[0] == "run":
        pid = a[1]
        tier = os.environ.get("VERIF_TIER") or "quick"
        if "--tier" in a:
            tier = a[a.index("--tier") + 1]
        seed = int(os.environ.get("VERIF_SEED", "0") or 0)
        return run_check(pid, tier, seed)
    if a[0] == "replay":
        return replay(a[1])
    if a[0] == "setup":
        return setup()
    print(__doc__)
    return 2


if __name__ == "__main__":
    sys.exit(main())
