#!/bin/bash
# evaluates the round-3 seeds (/tmp/seed3-<ID>/SEED) -> /verif/seeded/<ID>-5, -6
cd /verif
LOG=/tmp/seedr3.log
declare -A EXTRA=( [C02-1]="C02,C16" [C03-1]="C03,C16" [C04-2]="C04,C03" [C05-1]="C05,C11" [C07-1]="C07,C16" [C07-2]="C07,C17" [C11-2]="C11,C05" [C15-1]="C15,C03" [C15-2]="C15,C03" [C16-1]="C16,C08,C01" [C16-2]="C16,C03" [C17-1]="C17,C08,C16" [C17-2]="C17,C18" [C08-1]="C08,C16" )
for id in "$@"; do
 for n in 1 2; do
  [ -f /tmp/seed3-$id/SEED/change$n.diff ] || { echo "$id $n: no seed" >> $LOG; continue; }
  chk=${EXTRA[$id-$n]:-$id}
  python3 tools/seedeval.py $id $n --round 3 --checks $chk >> $LOG 2>&1
 done
done
echo "DONE $*" >> $LOG
