#!/bin/bash
# evaluates the round-8 seeds (/tmp/seed8-<ID>/SEED) -> /verif/seeded/<ID>-13
cd /verif
LOG=/tmp/seedr8.log
declare -A EXTRA=( )
for id in "$@"; do
 for n in 1; do
  [ -f /tmp/seed8-$id/SEED/change$n.diff ] || { echo "$id $n: no seed" >> $LOG; continue; }
  chk=${EXTRA[$id-$n]:-$id}
  python3 tools/seedeval.py $id $n --round 8 --checks $chk >> $LOG 2>&1
 done
done
echo "DONE $*" >> $LOG
