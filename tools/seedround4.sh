#!/bin/bash
# evaluates the round-4 seeds (/tmp/seed4-<ID>/SEED) -> /verif/seeded/<ID>-7, -8
cd /verif
LOG=/tmp/seedr4.log
declare -A EXTRA=( [C02-1]="C02,C01" [C02-2]="C02,C01" [C04-1]="C04,C10" [C04-2]="C04,C19" [C05-1]="C05,C19" [C09-2]="C09,C07" [C15-2]="C15,C03" [C17-1]="C17,C01,C09" [C20-1]="C20" [C03-2]="C03,C10" [C07-1]="C07,C17" )
for id in "$@"; do
 for n in 1 2; do
  [ -f /tmp/seed4-$id/SEED/change$n.diff ] || { echo "$id $n: no seed" >> $LOG; continue; }
  chk=${EXTRA[$id-$n]:-$id}
  python3 tools/seedeval.py $id $n --round 4 --checks $chk >> $LOG 2>&1
 done
done
echo "DONE $*" >> $LOG
