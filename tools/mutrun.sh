#!/bin/bash
# usage: tools/mutrun.sh <ID> <tier> <python-snippet-file | patch.diff>   - runs check ID against a scratch worktree with a mutation applied
set -u
ID=$1; TIER=$2; MUT=$3
WT=$(mktemp -d /tmp/wtmut.XXXX); rmdir $WT
git -C /repo worktree add --detach $WT HEAD -q || exit 3
cleanup(){ git -C /repo worktree remove --force $WT >/dev/null 2>&1; rm -rf $WT; }
trap cleanup EXIT
case "$MUT" in
 *.diff|*.patch) git -C $WT apply "$MUT" || { echo "PATCH FAILED"; exit 3; } ;;
 *) (cd $WT && python3 "$MUT") || { echo "MUT FAILED"; exit 3; } ;;
esac
(cd $WT && GOFLAGS=-mod=mod GOPROXY=off GOSUMDB=off GOTOOLCHAIN=local go build ./... ) || { echo "MUTANT DOES NOT COMPILE"; exit 3; }
cp /verif/evidence/$ID.json /tmp/ev_$ID.bak 2>/dev/null
VERIF_REPO=$WT python3 /verif/vcheck.py run $ID --tier $TIER 2>&1 | grep -E "^(VIOLATION|  sig|KNOWN|INFRA|$ID tier)" | head -${4:-12}
rc=${PIPESTATUS[0]}
cp /tmp/ev_$ID.bak /verif/evidence/$ID.json 2>/dev/null; rm -f /tmp/ev_$ID.bak
exit $rc
