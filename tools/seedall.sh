#!/bin/bash
# re-evaluates every stored seed against the current checks (quick tier).
#   tools/seedall.sh            all seeds sequentially, then writes seeded/SUMMARY.txt
#   tools/seedall.sh K N        stream K of N (run N of them in parallel), log /tmp/seedall.K.log
#   tools/seedall.sh summary    builds seeded/SUMMARY.txt from /tmp/seedall.*.log
cd /verif
declare -A EXTRA=( [C01-12]="C01,C16" [C01-4]="C01,C17" [C02-7]="C02,C01" [C02-8]="C02,C01" [C03-1]="C03,C10" [C03-3]="C03,C16" [C03-8]="C03,C10" [C03-9]="C03,C19" [C04-1]="C04,C05,C10" [C04-3]="C04,C19" [C04-4]="C04,C03,C05" [C04-7]="C04,C10" [C04-8]="C04,C19" [C05-4]="C05,C10" [C05-7]="C05,C19" [C07-7]="C07,C17" [C08-12]="C08,C09" [C09-8]="C09,C07" [C15-8]="C15,C03" [C17-7]="C17,C01,C09" )
if [ "$1" = summary ]; then
  cat /tmp/seedall.*.log | grep -E "^C[0-9]+ [0-9]|check" > /tmp/seedall.sum
  python3 - <<'P'
import re
blocks=[];cur=None
for l in open("/tmp/seedall.sum"):
    if re.match(r"^C\d+ \d", l): cur=[l]; blocks.append(cur)
    elif cur is not None: cur.append(l)
blocks.sort(key=lambda b:(b[0].split()[0], int(b[0].split()[1])))
open("/verif/seeded/SUMMARY.txt","w").write("".join("".join(b) for b in blocks))
print(len(blocks),"seeds")
P
  rm -f /tmp/seedeval_* /tmp/seedall.sum
  exit 0
fi
K=${1:-0}; N=${2:-1}
LOG=/tmp/seedall.$K.log
: > $LOG
i=0
for d in seeded/C*-*; do
  i=$((i+1))
  [ $((i % N)) -eq $K ] || continue
  b=$(basename $d); id=${b%-*}; n=${b#*-}
  chk=${EXTRA[$b]:-$id}
  python3 tools/seedeval.py $id $n --checks $chk >> $LOG 2>&1
done
echo "STREAM-DONE $K" >> $LOG
[ $N -eq 1 ] && exec "$0" summary
