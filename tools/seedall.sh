#!/bin/bash
# re-evaluates every stored seed against the current checks (quick tier); writes /verif/seeded/SUMMARY.txt
cd /verif
: > /tmp/seedall.log
declare -A EXTRA=( [C03-1]="C03,C10" [C04-1]="C04,C05,C10" [C01-4]="C01,C17" [C03-3]="C03,C16" [C04-3]="C04,C19" [C04-4]="C04,C03" [C05-4]="C05,C10" )
for d in seeded/C*-*; do
  b=$(basename $d); id=${b%-*}; n=${b#*-}
  chk=${EXTRA[$b]:-$id}
  python3 tools/seedeval.py $id $n --checks $chk >> /tmp/seedall.log 2>&1
done
grep -E "^C[0-9]+ [0-9]|check" /tmp/seedall.log > seeded/SUMMARY.txt
rm -f /tmp/seedeval_*
