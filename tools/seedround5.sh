#!/bin/bash
# evaluates the round-5 seeds (/tmp/seed5-<ID>/SEED) -> /verif/seeded/<ID>-9, -10
cd /verif
LOG=/tmp/seedr5.log
declare -A EXTRA=( )
for id in "$@"; do
 for n in 1 2; do
  [ -f /tmp/seed5-$id/SEED/change$n.diff ] || { echo "$id $n: no seed" >> $LOG; continue; }
  chk=${EXTRA[$id-$n]:-$id}
  python3 tools/seedeval.py $id $n --round 5 --checks $chk >> $LOG 2>&1
 done
done
echo "DONE $*" >> $LOG
