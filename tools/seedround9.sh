#!/bin/bash
# evaluates the round-9 seeds (/tmp/seed9-<ID>/SEED) -> /verif/seeded/<ID>-14
cd /verif
LOG=/tmp/seedr9.log
declare -A EXTRA=( )
for id in "$@"; do
 for n in 1; do
  [ -f /tmp/seed9-$id/SEED/change$n.diff ] || { echo "$id $n: no seed" >> $LOG; continue; }
  chk=${EXTRA[$id-$n]:-$id}
  python3 tools/seedeval.py $id $n --round 9 --checks $chk >> $LOG 2>&1
 done
done
echo "DONE $*" >> $LOG
