#!/bin/bash
# re-evaluates the seeds listed in a file (one <ID>-<n> per line): tools/seedredo.sh <file> K N  -> log /tmp/seedredo.K.log
cd /verif
eval "$(grep '^declare -A EXTRA' tools/seedall.sh)"
F=$1; K=${2:-0}; N=${3:-1}
LOG=/tmp/seedredo.$K.log
: > $LOG
i=0
for b in $(cat $F); do
  i=$((i+1))
  [ $((i % N)) -eq $K ] || continue
  id=${b%-*}; n=${b#*-}
  chk=${EXTRA[$b]:-$id}
  python3 tools/seedeval.py $id $n --checks $chk >> $LOG 2>&1
done
echo "STREAM-DONE $K" >> $LOG
