#!/bin/bash
# evaluates the round-6 seeds (/tmp/seed6-<ID>/SEED) -> /verif/seeded/<ID>-11
cd /verif
LOG=/tmp/seedr6.log
declare -A EXTRA=( )
for id in "$@"; do
 for n in 1; do
  [ -f /tmp/seed6-$id/SEED/change$n.diff ] || { echo "$id $n: no seed" >> $LOG; continue; }
  chk=${EXTRA[$id-$n]:-$id}
  python3 tools/seedeval.py $id $n --round 6 --checks $chk >> $LOG 2>&1
 done
done
echo "DONE $*" >> $LOG
