#!/bin/bash
# evaluates the round-7 seeds (/tmp/seed7-<ID>/SEED) -> /verif/seeded/<ID>-12
cd /verif
LOG=/tmp/seedr7.log
declare -A EXTRA=( [C08-1]="C08,C09" [C01-1]="C01,C16" )
for id in "$@"; do
 for n in 1; do
  [ -f /tmp/seed7-$id/SEED/change$n.diff ] || { echo "$id $n: no seed" >> $LOG; continue; }
  chk=${EXTRA[$id-$n]:-$id}
  python3 tools/seedeval.py $id $n --round 7 --checks $chk >> $LOG 2>&1
 done
done
echo "DONE $*" >> $LOG
