#!/bin/bash
# runs every enabled check at the given tier against /repo, prints one line per check, non-zero if any fails
tier=${1:-quick}
cd "$(dirname "$0")/.."
rc=0
for id in $(cat harness/ENABLED | sort); do
  out=$(python3 vcheck.py run $id --tier $tier 2>&1); r=$?
  echo "$out" | grep -E "^($id tier|VIOLATION|KNOWN-FINDING|INFRA)" | cut -c1-220
  [ $r -ne 0 ] && { rc=1; echo "  -> $id exit $r"; }
done
exit $rc
