#!/usr/bin/env python3
"""Writes /verif/seeded/SUMMARY.txt from the meta.json of every stored seed (last evaluation of each)."""
import json, glob, re
rows = []
for f in glob.glob("/verif/seeded/C*-*/meta.json"):
    m = json.load(open(f)); sid = f.split("/")[-2]
    prop, n = sid.split("-")
    rows.append((prop, int(n), sid, m))
rows.sort()
out = []
tot = own = anyd = 0
for prop, n, sid, m in rows:
    tot += 1
    chk = m.get("checks", {})
    o = chk.get(prop, {}).get("detected", False)
    a = any(v.get("detected") for v in chk.values())
    own += o; anyd += a
    flags = " ".join("%s=%s" % (k[:18], m.get(k)) for k in ("applies", "builds", "suite_green_with_change", "demo_fails_with_change", "demo_passes_without_change"))
    out.append("%s  %s%s" % (sid, flags, "  (see suite_note/demo_note in meta.json)" if m.get("suite_note") or m.get("demo_note") else ""))
    for c, v in chk.items():
        out.append("   check %s %s %s" % (c, "detected" if v.get("detected") else "MISSED(exit %s)" % v.get("exit"), v.get("signatures", [])[:4]))
out.insert(0, "%d seeded changes; reported by at least one check: %d; by the check of their own property: %d (quick tier)\n" % (tot, anyd, own))
open("/verif/seeded/SUMMARY.txt", "w").write("\n".join(out) + "\n")
print(out[0])
