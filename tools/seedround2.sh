#!/bin/bash
cd /verif
: > /tmp/seedr2.log
declare -A EXTRA=( [C01-2]="C01,C17" [C03-1]="C03,C16" [C03-2]="C03,C15" [C04-1]="C04,C19" [C04-2]="C04,C10,C05" [C05-2]="C05,C10" [C10-1]="C10,C05" [C15-1]="C15,C03" [C15-2]="C15,C03" [C16-2]="C16,C07,C01" [C07-1]="C07" [C08-2]="C08,C07" [C09-2]="C09,C01" [C19-2]="C19,C05" )
for id in C01 C02 C03 C04 C05 C06 C07 C08 C09 C10 C11 C12 C13 C14 C15 C16 C17 C18 C19 C20; do
 for n in 1 2; do
  [ -f /tmp/seed2-$id/SEED/change$n.diff ] || { echo "$id $n: no seed" >> /tmp/seedr2.log; continue; }
  chk=${EXTRA[$id-$n]:-$id}
  python3 tools/seedeval.py $id $n --round 2 --checks $chk >> /tmp/seedr2.log 2>&1
 done
done
echo ALLDONE >> /tmp/seedr2.log
