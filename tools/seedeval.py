#!/usr/bin/env python3
"""seedeval.py <ID> <n> [--checks C03,C10] [--tier quick]
Confirms a seeded change from /tmp/seed-<ID>/SEED (changeN.diff + demoN_test.go) in a scratch worktree:
compiles, existing suite green, demo fails with / passes without; runs the checks against it; stores
/verif/seeded/<ID>-<n>/{patch.diff,demo_test.go,meta.json}."""
import sys, os, re, json, subprocess, shutil, tempfile, time
ID, n = sys.argv[1], sys.argv[2]
checks = [ID]
tier = "quick"
if "--checks" in sys.argv:
    checks = sys.argv[sys.argv.index("--checks") + 1].split(",")
if "--tier" in sys.argv:
    tier = sys.argv[sys.argv.index("--tier") + 1]
seed = "/tmp/seed-%s/SEED" % ID
store_n = n
if "--round" in sys.argv:
    rnd = int(sys.argv[sys.argv.index("--round") + 1])
    seed = "/tmp/seed%d-%s/SEED" % (rnd, ID)
    store_n = str(int(n) + 2 * (rnd - 1)) if rnd <= 5 else str(10 + (rnd - 5))  # rounds 6+: one change per property
env = dict(os.environ, GOFLAGS="-mod=mod", GOPROXY="off", GOSUMDB="off", GOTOOLCHAIN="local")
def sh(cmd, cwd=None, timeout=3000, e=None):
    r = subprocess.run(cmd, shell=True, cwd=cwd, env=e or env, capture_output=True, text=True, timeout=timeout)
    return r.returncode, r.stdout + r.stderr
patch = os.path.join(seed, "change%s.diff" % n)
demo = os.path.join(seed, "demo%s_test.go" % n)
stored = "/verif/seeded/%s-%s" % (ID, store_n)
if not os.path.exists(patch) and os.path.exists(os.path.join(stored, "patch.diff")):
    # re-evaluation from the stored copy
    shutil.copy(os.path.join(stored, "patch.diff"), "/tmp/seedeval_%s_%s.diff" % (ID, n))
    shutil.copy(os.path.join(stored, "demo_test.go.txt"), "/tmp/seedeval_%s_%s_test.go" % (ID, n))
    patch, demo = "/tmp/seedeval_%s_%s.diff" % (ID, n), "/tmp/seedeval_%s_%s_test.go" % (ID, n)
src = open(demo).read()
m = re.search(r"//\s*package dir:\s*(\S+)", src)
pkgdir = m.group(1).strip("./") if m else None
tests = re.findall(r"^func (Test\w+)\(", src, re.M)
wt = tempfile.mkdtemp(prefix="seedwt_", dir="/tmp"); os.rmdir(wt)
meta = {"property": ID, "n": n, "package_dir": pkgdir, "demo_tests": tests}
old_meta = {}
if os.path.exists(os.path.join(stored, "meta.json")):
    old_meta = json.load(open(os.path.join(stored, "meta.json")))
    for k in ("suite_note",):
        if k in old_meta:
            meta[k] = old_meta[k]
try:
    rc, out = sh("git -C /repo worktree add --detach %s HEAD -q" % wt)
    assert rc == 0, out
    rc, out = sh("git apply %s" % patch, cwd=wt)
    meta["applies"] = rc == 0
    assert rc == 0, "patch does not apply: " + out
    rc, out = sh("go build ./...", cwd=wt)
    meta["builds"] = rc == 0
    assert rc == 0, out[-2000:]
    rc, out = sh("go test -vet=off -count=1 ./... 2>&1 | grep -v 'no test files' | grep -v '^ok' | head -30", cwd=wt)
    fails = [l for l in out.splitlines() if l.startswith("FAIL") or l.startswith("--- FAIL")]
    meta["suite_green_with_change"] = not fails
    meta["suite_output"] = out[-1500:]
    dst = os.path.join(wt, pkgdir, "zz_seed_%s_test.go" % n)
    shutil.copy(demo, dst)
    rx = "^(%s)$" % "|".join(tests)
    rc1, out1 = sh("go test -vet=off -count=1 -run '%s' ./%s/" % (rx, pkgdir), cwd=wt)
    meta["demo_fails_with_change"] = rc1 != 0
    meta["demo_output_with_change"] = out1[-1200:]
    sh("git apply -R %s" % patch, cwd=wt)
    rc2, out2 = sh("go test -vet=off -count=1 -run '%s' ./%s/" % (rx, pkgdir), cwd=wt)
    meta["demo_passes_without_change"] = rc2 == 0
    os.remove(dst)
    sh("git apply %s" % patch, cwd=wt)
    meta["checks"] = {}
    for c in checks:
        ev = "/verif/evidence/%s.json" % c
        bak = ev + ".seedbak"
        if os.path.exists(ev):
            shutil.copy(ev, bak)
        t0 = time.time()
        rc, out = sh("python3 /verif/vcheck.py run %s --tier %s" % (c, tier), e=dict(env, VERIF_REPO=wt), timeout=6000)
        sigs = re.findall(r"^  sig: (.*)$", out, re.M)
        meta["checks"][c] = {"tier": tier, "exit": rc, "detected": rc == 1, "signatures": sigs[:12], "wall_s": round(time.time() - t0, 1),
                             "infra": out[out.index("INFRA"):][:600] if "INFRA" in out else ""}
        if os.path.exists(bak):
            shutil.move(bak, ev)
        # drop replay files written for the mutant
        rd = "/verif/replays/%s" % c
        if os.path.isdir(rd):
            shutil.rmtree(rd)
    out_dir = "/verif/seeded/%s-%s" % (ID, store_n)
    os.makedirs(out_dir, exist_ok=True)
    if os.path.abspath(patch) != os.path.abspath(os.path.join(out_dir, "patch.diff")):
        shutil.copy(patch, os.path.join(out_dir, "patch.diff"))
        shutil.copy(demo, os.path.join(out_dir, "demo_test.go.txt"))
    notes = os.path.join(seed, "notes.md")
    if os.path.exists(notes):
        shutil.copy(notes, os.path.join(out_dir, "notes.md"))
    meta["what_i_ran"] = ["git apply patch.diff (scratch worktree of /repo HEAD)", "go build ./...", "go test -vet=off -count=1 ./...",
                          "go test -run <demo tests> with and without the change", "VERIF_REPO=<worktree> python3 /verif/vcheck.py run <check> --tier " + tier]
    json.dump(meta, open(os.path.join(out_dir, "meta.json"), "w"), indent=1)
    brief = {k: meta[k] for k in ("applies", "builds", "suite_green_with_change", "demo_fails_with_change", "demo_passes_without_change")}
    print(ID, store_n, brief)
    for c, v in meta["checks"].items():
        print("   check", c, "detected" if v["detected"] else "MISSED(exit %s)" % v["exit"], v["signatures"][:4], v["infra"][:200])
finally:
    sh("git -C /repo worktree remove --force %s" % wt)
    shutil.rmtree(wt, ignore_errors=True)
