package h_c03

import (
	"fmt"
	"strings"
	"testing"
	"time"

	hpipe "github.com/IrineSistiana/mosdns/v5/zz_verif/h_pipe"
	"github.com/IrineSistiana/mosdns/v5/zz_verif/vr"
	"github.com/IrineSistiana/mosdns/v5/zz_verif/vs"
	"github.com/miekg/dns"
)

// C03 part b: concurrent clients. Two (three) queries for the SAME question
// with different IDs arrive at the same time at a pipeline whose plugins keep
// shared state (cache fresh / lazy, redirect, hosts, dual-stack selector,
// fallback). All interleavings within the deviation bound of the handler
// threads and of the goroutines the plugins start are explored; every query
// must get exactly one reply with its OWN ID and question, QR and RA set.

func c03bScenario(name string, chain []string, nq int, warm bool, age time.Duration, d int) vr.Scenario {
	type obs struct {
		id   uint16
		rep  hpipe.Reply
		done bool
	}
	var got []*obs
	var finished bool
	var buildErr error
	qs := func(id uint16) hpipe.QSpec {
		return hpipe.QSpec{ID: id, Name: "MiXed.Example.", Type: dns.TypeA, Class: dns.ClassINET, RD: true, Opt: 1232}
	}
	body := func() {
		finished, got, buildErr = false, nil, nil
		env, err := hpipe.Build(chain, true)
		if err != nil {
			buildErr = err
			return
		}
		env.Up.Script = hpipe.UpOutcome{Kind: "answer", NRec: 2}
		if warm {
			env.Arrive("udp", qs(7).Wire())
			if age > 0 {
				vs.Sleep(age)
			}
		}
		var wg vs.WaitGroup
		for i := 0; i < nq; i++ {
			o := &obs{id: uint16(0x1111 * (i + 1))}
			got = append(got, o)
			wg.Add(1)
			vs.GoNamed(fmt.Sprintf("client%d", i), func() {
				defer wg.Done()
				o.rep = env.Arrive("udp", qs(o.id).Wire())
				o.done = true
			})
		}
		wg.Wait()
		// a later client, after every background goroutine (lazy refresh, ...) has finished
		vs.Sleep(10 * time.Second)
		late := &obs{id: 0x7777}
		late.rep = env.Arrive("udp", qs(late.id).Wire())
		late.done = true
		got = append(got, late)
		finished = true
		env.Close()
	}
	check := func(x *vs.Exec) (string, *vs.Violation) {
		V := func(oracle, why string) (string, *vs.Violation) {
			return oracle, &vs.Violation{Sig: name + "/" + oracle, Desc: why + fmt.Sprintf("\nchain=%v", chain)}
		}
		if buildErr != nil {
			return V("build", buildErr.Error())
		}
		if x.Panic != "" {
			return V("panic", x.Panic)
		}
		if !finished {
			return V("stuck", fmt.Sprintf("did not finish; parked %v", x.Blocked))
		}
		var key []string
		want := qs(0).Msg()
		canon := ""
		for _, o := range got {
			if o.rep.Count != 1 {
				return V("one-reply", fmt.Sprintf("query %#x got %d replies", o.id, o.rep.Count))
			}
			r := new(dns.Msg)
			if err := r.Unpack(o.rep.Wire); err != nil {
				return V("reply-unparsable", fmt.Sprintf("query %#x: %v", o.id, err))
			}
			if r.Id != o.id {
				return V("id", fmt.Sprintf("query %#x got a reply with ID %#x", o.id, r.Id))
			}
			if len(r.Question) != 1 || r.Question[0] != want.Question[0] {
				return V("question", fmt.Sprintf("query %#x: reply question %v, want %v", o.id, r.Question, want.Question))
			}
			if !r.Response || !r.RecursionAvailable {
				return V("qr-ra", fmt.Sprintf("query %#x: QR=%v RA=%v", o.id, r.Response, r.RecursionAvailable))
			}
			n := 0
			for _, rr := range r.Extra {
				if rr.Header().Rrtype == dns.TypeOPT {
					n++
				}
			}
			if n != 1 {
				return V("opt-count", fmt.Sprintf("query %#x (with OPT): reply carries %d OPT records", o.id, n))
			}
			// differential: the upstream is deterministic, so every client asking this question
			// through this pipeline gets the same records (owner, type, data) whatever served it
			var recs []string
			for _, rr := range r.Answer {
				h := *rr.Header()
				h.Ttl = 0
				c := dns.Copy(rr)
				c.Header().Ttl = 0
				recs = append(recs, c.String())
			}
			cs := fmt.Sprintf("rc%d %v", r.Rcode, recs)
			if canon == "" {
				canon = cs
			} else if cs != canon {
				return V("answer-differs-between-clients", fmt.Sprintf("query %#x got %s, an earlier client got %s", o.id, cs, canon))
			}
			key = append(key, fmt.Sprintf("rc%d/an%d", r.Rcode, len(r.Answer)))
		}
		return strings.Join(key, ","), nil
	}
	return vr.Scenario{Name: name, P: d, D: d, Horizon: 3 * time.Hour, Body: body, Check: check, Params: map[string]any{"chain": chain, "queries": nq, "warm": warm, "age": age.String()}}
}

func TestVerifC03b(t *testing.T) {
	e := vr.GetEnv()
	d := 3
	if e.Tier == "thorough" {
		d = 5
	}
	scs := []vr.Scenario{
		c03bScenario("cache-fresh-hit-x2", []string{"cache"}, 2, true, 0, d),
		c03bScenario("cache-aged-hit-x2", []string{"cache"}, 2, true, 2 * time.Second, d),
		c03bScenario("cache-cold-x2", []string{"cache"}, 2, false, 0, d-1),
		c03bScenario("cache-lazy-stale-x2", []string{"cache_lazy"}, 2, true, 1000 * time.Second, d-1),
		c03bScenario("redirect-cache-lazy-stale-x2", []string{"redirect_hit", "cache_lazy"}, 2, true, 1000 * time.Second, d-1),
		c03bScenario("redirect-cache-x2", []string{"redirect_hit", "cache"}, 2, true, 0, d-1),
		c03bScenario("prefer-ipv4-x2", []string{"prefer_ipv4"}, 2, false, 0, d-1),
		c03bScenario("fallback-cache-x2", []string{"cache", "fallback"}, 2, false, 0, d-1),
	}
	if e.Tier == "thorough" {
		scs = append(scs, c03bScenario("cache-fresh-hit-x3", []string{"cache"}, 3, true, 0, 2),
			c03bScenario("ttl-cache-x2", []string{"ttl5", "cache"}, 2, true, 0, 2))
	}
	vr.RunScenarios("C03", scs)
}
