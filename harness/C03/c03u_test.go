package server_handler

import (
	"context"
	"encoding/binary"
	"encoding/json"
	"errors"
	"fmt"
	"net"
	"testing"
	"time"

	"github.com/IrineSistiana/mosdns/v5/pkg/query_context"
	"github.com/IrineSistiana/mosdns/v5/pkg/server"
	"github.com/IrineSistiana/mosdns/v5/plugin/executable/sequence"
	"github.com/IrineSistiana/mosdns/v5/zz_verif/vr"
	"github.com/miekg/dns"
)

// C03 part u: the UDP server loop itself. The real ServeUDP on a loopback
// socket in front of the real EntryHandler; the client sends histories of
// datagrams: for every kind of datagram that gets no reply (the malformed
// shapes of the statement, unparsable bytes, an empty datagram) and for the
// valid kinds, k datagrams of that kind, and after EVERY one of them a
// well-formed query that must get exactly one reply with its own ID and
// question, QR and RA set and the expected rcode. At the end of a history
// nothing else may be waiting on the socket (malformed queries get no reply,
// valid ones no second reply). Native goroutines and the kernel's loopback: an
// enumeration of histories, not of schedules; a missing reply only counts
// after three tries of 5 s each.

type c03uKind struct {
	name  string
	build func(id uint16) []byte
	reply bool // a valid query: gets a reply itself
}

func c03uHeader(id uint16, flags uint16, qd, an, ns, ar uint16) []byte {
	b := make([]byte, 12)
	binary.BigEndian.PutUint16(b, id)
	binary.BigEndian.PutUint16(b[2:], flags)
	binary.BigEndian.PutUint16(b[4:], qd)
	binary.BigEndian.PutUint16(b[6:], an)
	binary.BigEndian.PutUint16(b[8:], ns)
	binary.BigEndian.PutUint16(b[10:], ar)
	return b
}

var c03uQ = []byte{1, 'u', 4, 't', 'e', 's', 't', 0, 0, 1, 0, 1}              // u.test. A IN
var c03uRR = []byte{1, 'u', 4, 't', 'e', 's', 't', 0, 0, 1, 0, 1, 0, 0, 0, 9, 0, 4, 192, 0, 2, 9} // u.test. 9 IN A 192.0.2.9
var c03uOPT = []byte{0, 0, 41, 4, 208, 0, 0, 0, 0, 0, 0}

func c03uCat(parts ...[]byte) []byte {
	var b []byte
	for _, p := range parts {
		b = append(b, p...)
	}
	return b
}

func c03uName(n string) []byte {
	b := []byte{byte(len(n))}
	b = append(b, n...)
	return append(b, 4, 't', 'e', 's', 't', 0, 0, 1, 0, 1)
}

var c03uKinds = []c03uKind{
	{"valid", func(id uint16) []byte { return c03uCat(c03uHeader(id, 0x0100, 1, 0, 0, 0), c03uQ) }, true},
	{"valid-no-answer(refused)", func(id uint16) []byte { return c03uCat(c03uHeader(id, 0x0100, 1, 0, 0, 0), c03uName("none")) }, true},
	{"valid-chain-error(servfail)", func(id uint16) []byte { return c03uCat(c03uHeader(id, 0x0100, 1, 0, 0, 0), c03uName("err")) }, true},
	{"qr=1", func(id uint16) []byte { return c03uCat(c03uHeader(id, 0x8100, 1, 0, 0, 0), c03uQ) }, false},
	{"no-question", func(id uint16) []byte { return c03uHeader(id, 0x0100, 0, 0, 0, 0) }, false},
	{"two-questions", func(id uint16) []byte { return c03uCat(c03uHeader(id, 0x0100, 2, 0, 0, 0), c03uQ, c03uQ) }, false},
	{"answer-present", func(id uint16) []byte { return c03uCat(c03uHeader(id, 0x0100, 1, 1, 0, 0), c03uQ, c03uRR) }, false},
	{"authority-present", func(id uint16) []byte { return c03uCat(c03uHeader(id, 0x0100, 1, 0, 1, 0), c03uQ, c03uRR) }, false},
	{"two-additionals", func(id uint16) []byte { return c03uCat(c03uHeader(id, 0x0100, 1, 0, 0, 2), c03uQ, c03uOPT, c03uRR) }, false},
	{"unparsable", func(id uint16) []byte { return []byte{byte(id >> 8), byte(id), 1, 0, 0} }, false},
	{"truncated-question", func(id uint16) []byte { return c03uCat(c03uHeader(id, 0x0100, 1, 0, 0, 0), c03uQ[:5]) }, false},
	{"empty-datagram", func(id uint16) []byte { return []byte{} }, false},
}

var c03uSlowEntered = make(chan struct{}, 16)
var c03uRelease = make(chan struct{}, 16)

type c03uPeer struct {
	srv  *net.UDPConn
	cli  *net.UDPConn
	done chan struct{}
}

func c03uStart() (*c03uPeer, error) {
	entry := sequence.ExecutableFunc(func(_ context.Context, qCtx *query_context.Context) error {
		q := qCtx.Q()
		switch q.Question[0].Name {
		case "none.test.":
			return nil
		case "err.test.":
			return errors.New("c03u: chain error")
		case "slow.test.":
			// held until a query of another client has entered the handler (or 5 s)
			c03uSlowEntered <- struct{}{}
			select {
			case <-c03uRelease:
			case <-time.After(5 * time.Second):
			}
		case "fast.test.":
			select {
			case c03uRelease <- struct{}{}:
			default:
			}
		}
		r := new(dns.Msg)
		r.SetReply(q)
		r.Answer = append(r.Answer, &dns.A{Hdr: dns.RR_Header{Name: q.Question[0].Name, Rrtype: dns.TypeA, Class: dns.ClassINET, Ttl: 30}, A: net.IPv4(192, 0, 2, 33)})
		qCtx.SetResponse(r)
		return nil
	})
	h := NewEntryHandler(EntryHandlerOpts{Entry: entry})
	srv, err := net.ListenUDP("udp", &net.UDPAddr{IP: net.IPv4(127, 0, 0, 1)})
	if err != nil {
		return nil, err
	}
	cli, err := net.DialUDP("udp", nil, srv.LocalAddr().(*net.UDPAddr))
	if err != nil {
		srv.Close()
		return nil, err
	}
	p := &c03uPeer{srv: srv, cli: cli, done: make(chan struct{})}
	go func() {
		defer close(p.done)
		server.ServeUDP(srv, h, server.UDPServerOpts{})
	}()
	return p, nil
}

func (p *c03uPeer) stop() {
	p.cli.Close()
	p.srv.Close()
	select {
	case <-p.done:
	case <-time.After(10 * time.Second):
	}
}

// ask sends one valid query and checks its reply. "" = as the statement says.
func (p *c03uPeer) ask(kind c03uKind, id *uint16, extra *[]string) (string, string) {
	buf := make([]byte, 65535)
	for try := 0; try < 3; try++ {
		*id++
		q := kind.build(*id)
		if _, err := p.cli.Write(q); err != nil {
			return "infra-write", err.Error()
		}
		p.cli.SetReadDeadline(time.Now().Add(5 * time.Second))
		for {
			n, err := p.cli.Read(buf)
			if err != nil {
				break // no reply within 5 s: try again (a datagram may be lost, three in a row are not)
			}
			m := new(dns.Msg)
			if err := m.Unpack(buf[:n]); err != nil {
				return "reply-unparsable", fmt.Sprintf("%d bytes: %v", n, err)
			}
			if m.Id != *id {
				// a reply nobody is waiting for: to a datagram that gets none, or a second reply to an earlier query
				*extra = append(*extra, fmt.Sprintf("reply with ID %#04x rcode %d while waiting for ID %#04x", m.Id, m.Rcode, *id))
				continue
			}
			qm := new(dns.Msg)
			qm.Unpack(q)
			want := dns.RcodeSuccess
			switch qm.Question[0].Name {
			case "none.test.":
				want = dns.RcodeRefused
			case "err.test.":
				want = dns.RcodeServerFailure
			}
			switch {
			case !m.Response || !m.RecursionAvailable:
				return "reply-flags", fmt.Sprintf("QR=%v RA=%v", m.Response, m.RecursionAvailable)
			case len(m.Question) != 1 || m.Question[0] != qm.Question[0]:
				return "reply-question", fmt.Sprintf("question %v, asked %v", m.Question, qm.Question)
			case m.Rcode != want:
				return "reply-rcode", fmt.Sprintf("rcode %d, expected %d", m.Rcode, want)
			}
			return "", ""
		}
	}
	return "no-reply", "three tries of 5 s each"
}

type c03uInput struct {
	Kind string `json:"kind"`
	K    int    `json:"k"`
}

func TestVerifC03u(t *testing.T) {
	e := vr.GetEnv()
	res := vr.New("C03", e)
	res.Rule = "u: one evaluation = one well-formed query sent to the real ServeUDP (loopback socket, real EntryHandler) after a history of k datagrams of one kind (interleaved with the earlier well-formed queries); outcome classes: history kind x verdict"
	maxK := 700
	if e.Tier == "thorough" {
		maxK = 6000
	}
	only, onlyK := "", -1
	if raw, ok := vr.ReplayInput(); ok {
		var in c03uInput
		if err := json.Unmarshal(raw, &in); err != nil {
			t.Fatal(err)
		}
		only, onlyK = in.Kind, in.K
		maxK = in.K + 1
	}
	var kn []string
	for _, k := range c03uKinds {
		kn = append(kn, k.name)
	}
	res.Bounds["u.history_kinds"] = append(kn, "round-robin over all kinds")
	res.Bounds["u.history_length"] = fmt.Sprintf("every k in 0..%d: a well-formed query after each datagram of the history", maxK)
	kinds := append([]c03uKind{}, c03uKinds...)
	kinds = append(kinds, c03uKind{name: "round-robin"})
	for ki, hk := range kinds {
		if !e.Mine(int64(ki)) || (only != "" && only != hk.name) {
			continue
		}
		if e.Expired() {
			res.Exhaustive = false
			res.Notes = append(res.Notes, "u: budget expired before history kind "+hk.name)
			break
		}
		p, err := c03uStart()
		if err != nil {
			res.Infra = "u: cannot open loopback UDP sockets: " + err.Error()
			break
		}
		var id uint16 = uint16(ki) << 12
		var extra []string
		failed := false
		for k := 0; k <= maxK && !failed; k++ {
			if k > 0 {
				d := hk
				if hk.build == nil {
					d = c03uKinds[k%len(c03uKinds)]
				}
				if d.reply {
					// a valid datagram of the history: sent and judged like any other well-formed query
					if obs, detail := p.ask(d, &id, &extra); obs != "" {
						res.ViolateInput("udp-server/"+obs+"/after:"+hk.name, fmt.Sprintf("a well-formed query (%s), datagram %d of a history of kind %q: %s", d.name, k, hk.name, detail), c03uInput{Kind: hk.name, K: k})
						failed = true
						break
					}
				} else {
					id++
					if _, err := p.cli.Write(d.build(id)); err != nil {
						res.Infra = "u: write failed: " + err.Error()
						break
					}
				}
			}
			probe := c03uKinds[k%3] // the three valid kinds in turn
			obs, detail := p.ask(probe, &id, &extra)
			res.Evaluations++
			res.States++
			res.Transitions++
			switch {
			case obs == "":
				if onlyK < 0 || k == onlyK {
					res.Outcome("u/" + hk.name + "/ok")
				}
			case len(obs) > 5 && obs[:5] == "infra":
				res.Infra = "u: " + obs + ": " + detail
				failed = true
			default:
				res.Outcome("u/" + hk.name + "/" + obs)
				res.ViolateInput("udp-server/"+obs+"/after:"+hk.name, fmt.Sprintf("a well-formed query (%s) sent to ServeUDP after a history of %d datagram(s) of kind %q: %s", probe.name, k, hk.name, detail), c03uInput{Kind: hk.name, K: k})
				failed = true
			}
		}
		if !failed && res.Infra == "" {
			// nothing else may arrive: replies to datagrams that get none, second replies
			p.cli.SetReadDeadline(time.Now().Add(300 * time.Millisecond))
			buf := make([]byte, 65535)
			for {
				n, err := p.cli.Read(buf)
				if err != nil {
					break
				}
				m := new(dns.Msg)
				if m.Unpack(buf[:n]) == nil {
					extra = append(extra, fmt.Sprintf("reply with ID %#04x rcode %d after the history ended", m.Id, m.Rcode))
				} else {
					extra = append(extra, fmt.Sprintf("%d unparsable bytes after the history ended", n))
				}
			}
			if len(extra) > 0 {
				res.Outcome("u/" + hk.name + "/unexpected-reply")
				res.ViolateInput("udp-server/unexpected-reply/"+hk.name, fmt.Sprintf("history of kind %q: %d datagram(s) arrived that no well-formed query was waiting for (malformed queries get no reply, valid ones exactly one); first: %s", hk.name, len(extra), extra[0]), c03uInput{Kind: hk.name, K: maxK})
			}
		}
		p.stop()
		if res.Infra != "" {
			break
		}
	}
	// ---- two clients: a query of client A is still being handled when a datagram of client B
	// arrives; each client gets exactly one reply, its own
	if only == "" || only == "two-clients" {
		rounds := 40
		if e.Tier == "thorough" {
			rounds = 400
		}
		res.Bounds["u.two_clients"] = fmt.Sprintf("%d rounds: A's query is held in the handler until B's query (another socket) has entered it", rounds)
		if e.Mine(int64(len(kinds))) && res.Infra == "" {
			if v := c03uTwoClients(rounds, res); v != "" {
				res.Outcome("u/two-clients/" + v)
			}
		}
	}
	if only != "" {
		for _, v := range res.Violations {
			fmt.Printf("REPLAY-VIOLATION property=C03 sig=%s\n  %s\n", v.Sig, v.Desc)
		}
		if len(res.Violations) == 0 && res.Infra == "" {
			fmt.Println("REPLAY-OK: every well-formed query of this history got its reply")
		}
	}
	res.Write(e)
}

func c03uTwoClients(rounds int, res *vr.Result) string {
	p, err := c03uStart()
	if err != nil {
		res.Infra = "u: cannot open loopback UDP sockets: " + err.Error()
		return ""
	}
	defer p.stop()
	cliB, err := net.DialUDP("udp", nil, p.srv.LocalAddr().(*net.UDPAddr))
	if err != nil {
		res.Infra = "u: cannot open a second client socket: " + err.Error()
		return ""
	}
	defer cliB.Close()
	read := func(c *net.UDPConn, d time.Duration) (*dns.Msg, bool) {
		buf := make([]byte, 65535)
		c.SetReadDeadline(time.Now().Add(d))
		n, err := c.Read(buf)
		if err != nil {
			return nil, false
		}
		m := new(dns.Msg)
		if m.Unpack(buf[:n]) != nil {
			return nil, true
		}
		return m, true
	}
	slowQ := func(id uint16) []byte { return c03uCat(c03uHeader(id, 0x0100, 1, 0, 0, 0), c03uName("slow")) }
	fastQ := func(id uint16) []byte { return c03uCat(c03uHeader(id, 0x0100, 1, 0, 0, 0), c03uName("fast")) }
	for r := 0; r < rounds; r++ {
		incomplete := 0
		for try := 0; try < 3; try++ {
			for len(c03uSlowEntered) > 0 {
				<-c03uSlowEntered
			}
			for len(c03uRelease) > 0 {
				<-c03uRelease
			}
			idA, idB := uint16(0xA000+r*4+try), uint16(0xB000+r*4+try)
			p.cli.Write(slowQ(idA))
			select {
			case <-c03uSlowEntered:
			case <-time.After(5 * time.Second):
				incomplete++
				continue // A's datagram lost?
			}
			cliB.Write(fastQ(idB))
			ma, okA := read(p.cli, 8*time.Second)
			mb, okB := read(cliB, 8*time.Second)
			res.Evaluations += 2
			res.States++
			bad := func(who string, m *dns.Msg, want uint16, wantName string) string {
				if m == nil {
					return ""
				}
				if m.Id != want || len(m.Question) != 1 || m.Question[0].Name != wantName {
					return fmt.Sprintf("client %s received a reply with ID %#04x question %v: its own query has ID %#04x question %s", who, m.Id, m.Question, want, wantName)
				}
				return ""
			}
			if d := bad("A", ma, idA, "slow.test."); d != "" {
				res.ViolateInput("udp-server/reply-to-another-client", d+" (round "+fmt.Sprint(r)+": A's query was still being handled when B's datagram arrived)", c03uInput{Kind: "two-clients", K: r})
				return "reply-to-another-client"
			}
			if d := bad("B", mb, idB, "fast.test."); d != "" {
				res.ViolateInput("udp-server/reply-to-another-client", d+" (round "+fmt.Sprint(r)+": A's query was still being handled when B's datagram arrived)", c03uInput{Kind: "two-clients", K: r})
				return "reply-to-another-client"
			}
			// a second datagram for either client?
			if m2, ok := read(cliB, 50*time.Millisecond); ok {
				id := uint16(0)
				if m2 != nil {
					id = m2.Id
				}
				res.ViolateInput("udp-server/second-reply", fmt.Sprintf("client B received a second datagram (ID %#04x) in round %d; client A got a reply: %v", id, r, okA), c03uInput{Kind: "two-clients", K: r})
				return "second-reply"
			}
			if okA && okB {
				incomplete = -1
				break
			}
			incomplete++
		}
		if incomplete >= 3 {
			res.ViolateInput("udp-server/no-reply/two-clients", fmt.Sprintf("round %d: three times in a row a client got no reply while another client's datagram arrived during the handling of its query", r), c03uInput{Kind: "two-clients", K: r})
			return "no-reply"
		}
	}
	return "ok"
}
