package cache

// Harness-only accessor (mounted by the verification overlay): the messages
// currently stored in the cache backend, for inspection by C15.

import (
	"time"

	"github.com/miekg/dns"
)

func (c *Cache) VerifStored() []*dns.Msg {
	var out []*dns.Msg
	_ = c.backend.Range(func(k key, v *item, _ time.Time) error {
		out = append(out, v.resp)
		return nil
	})
	return out
}
