package h_c03

// C03 - every valid query gets one reply with its own ID and question.
//
// Bounded-exhaustive enumeration of (plugin chain x query x upstream outcome x
// transport of arrival) on the real pipeline: server entry (ServeTCP /
// HttpHandler.ServeHTTP / the body of ServeUDP) -> EntryHandler.Handle ->
// sequence built from rule text -> real built-in plugins -> real forward plugin
// -> scripted fake upstream that echoes the question. Every case runs inside
// one vs execution (virtual clock, deterministic goroutines). The oracle is
// written from the property text; "the plugins' answer" is what a probe placed
// as the first rule of the sequence saw when the rest of the chain returned.

import (
	"bytes"
	"encoding/json"
	"fmt"
	"sort"
	"strings"
	"testing"
	"time"

	"github.com/IrineSistiana/mosdns/v5/zz_verif/h_pipe"
	"github.com/IrineSistiana/mosdns/v5/zz_verif/vr"
	"github.com/IrineSistiana/mosdns/v5/zz_verif/vs"
	"github.com/miekg/dns"
)

type Case struct {
	Chain   []string        `json:"chain"`
	Trail   bool            `json:"trailing_forward"`
	Q       hpipe.QSpec     `json:"query"`
	Up      hpipe.UpOutcome `json:"upstream"`
	Arrival string          `json:"arrival"`
}

func (c Case) chainLabel() string {
	s := "[" + strings.Join(c.Chain, ",") + "]"
	if c.Trail {
		s += "+forward"
	}
	return s
}

func (c Case) chainLen() int {
	n := len(c.Chain)
	if c.Trail {
		n++
	}
	return n
}

// one delivery of the query (stateful chains get three: miss, hit, expired)
type obs struct {
	Run      int
	At       time.Duration
	Query    []byte
	Reply    hpipe.Reply
	Probe    hpipe.Probe
	UpCalls  int
	UpSkip   bool
}

type caseRun struct {
	Obs      []obs
	BuildErr error
	Panic    string
	Blocked  []string
	Horizon  bool
}

var runNames = []string{"first", "repeat+2s(other letter case)", "repeat+1000s", "then-another-question(the redirect target)"}

func swapCase(s string) string {
	b := []byte(s)
	for i, c := range b {
		switch {
		case 'a' <= c && c <= 'z':
			b[i] = c - 32
		case 'A' <= c && c <= 'Z':
			b[i] = c + 32
		}
	}
	return string(b)
}

func runCase(c Case) caseRun {
	var cr caseRun
	x := vs.Run1(vs.Config{NoWatchdog: true, Horizon: 2 * time.Hour}, func() {
		env, err := hpipe.Build(c.Chain, c.Trail)
		if err != nil {
			cr.BuildErr = err
			return
		}
		defer env.Close()
		env.Up.Script = c.Up
		stateful, _ := hpipe.ChainInfo(c.Chain, c.Trail)
		runs := 1
		if stateful {
			runs = 4
		}
		for i := 0; i < runs; i++ {
			q := c.Q
			switch i {
			case 0:
				if runs > 1 {
					q.ID = c.Q.ID ^ 0x5A5A // the entry a later hit is served from was stored under another ID
				}
			case 1:
				vs.Advance(2 * time.Second)
				// the repeat spells the name in the other letter case (dns-0x20 clients do):
				// whatever is served must carry THIS query's question bytes
				q.Name = swapCase(q.QName())
			case 2:
				vs.Advance(1000 * time.Second) // answers have expired (lazy cache: stale hit + background update)
				q.ID = c.Q.ID ^ 0x00FF
			case 3:
				// another question at the same pipeline: the name the redirect rules point to
				// (what earlier queries left behind must not be served for it)
				q.Name = hpipe.RedirectTo
				q.ID = c.Q.ID ^ 0x0F0F
			}
			wire := q.Wire()
			env.Probe.Reset()
			env.Up.ResetLog()
			rep := env.Arrive(c.Arrival, wire)
			cr.Obs = append(cr.Obs, obs{Run: i, At: vs.Elapsed(), Query: wire, Reply: rep, Probe: *env.Probe,
				UpCalls: len(env.Up.Received), UpSkip: env.Up.Skipped})
		}
	})
	cr.Panic = x.Panic
	cr.Blocked = x.Blocked
	cr.Horizon = x.HorizonHit || x.Livelock
	return cr
}

// ---------------------------------------------------------------------------
// oracle (from the property text)

type verdict struct {
	Kind   string // outcome class of this delivery
	Clause string // violated clause ("" = none)
	Desc   string
}

func rrStrings(rrs []dns.RR, skipOpt bool) []string {
	var out []string
	for _, rr := range rrs {
		if skipOpt && rr.Header().Rrtype == dns.TypeOPT {
			continue
		}
		out = append(out, rr.String())
	}
	return out
}

func isSubsequence(sub, full []string) bool {
	j := 0
	for _, s := range sub {
		for j < len(full) && full[j] != s {
			j++
		}
		if j == len(full) {
			return false
		}
		j++
	}
	return true
}

func equalStrings(a, b []string) bool {
	if len(a) != len(b) {
		return false
	}
	for i := range a {
		if a[i] != b[i] {
			return false
		}
	}
	return true
}

func judge(c Case, o obs) verdict {
	Q := new(dns.Msg)
	if err := Q.Unpack(o.Query); err != nil {
		return verdict{Kind: "harness-bad-query", Clause: "harness", Desc: "harness produced an unparsable query: " + err.Error()}
	}
	rep := o.Reply
	// "well-formed client query (QR=0, exactly one question, no answer/authority records, at most one additional record)"
	valid := !Q.Response && len(Q.Question) == 1 && len(Q.Answer)+len(Q.Ns) == 0 && len(Q.Extra) <= 1
	if !valid {
		if rep.Count != 0 || len(rep.Wire) != 0 {
			return verdict{Kind: "dropped", Clause: "malformed-answered", Desc: fmt.Sprintf("malformed query (shape %q) received %d DNS reply(ies)", c.Q.Shape, rep.Count)}
		}
		return verdict{Kind: "dropped"}
	}
	var clientOpt *dns.OPT
	if len(Q.Extra) == 1 {
		clientOpt, _ = Q.Extra[0].(*dns.OPT)
	}
	// what the plugins produced, as seen by the probe
	p := o.Probe
	var E *dns.Msg
	kind := "answer"
	switch {
	case p.Ran == 0:
		E = nil
	case p.Err != nil:
		kind = "servfail"
		E = new(dns.Msg)
		E.SetReply(Q)
		E.Rcode = dns.RcodeServerFailure
	case p.R == nil:
		kind = "refused"
		E = new(dns.Msg)
		E.SetReply(Q)
		E.Rcode = dns.RcodeRefused
	default:
		E = p.R.Copy()
	}
	if E != nil {
		E.RecursionAvailable = true
		if p.RespOpt != nil {
			E.Extra = append(E.Extra, dns.Copy(p.RespOpt))
		}
		// the quantifier: extended rcodes only when the client sent OPT, answers that fit 65535 bytes
		if E.Rcode > 0xF && clientOpt == nil {
			return verdict{Kind: "outside/ext-rcode-without-client-opt"}
		}
		if c.Arrival != "udp" {
			ec := E.Copy()
			ec.Compress = true
			if ec.Len() > dns.MaxMsgSize {
				return verdict{Kind: "outside/answer-over-65535"}
			}
			if E.Len() > dns.MaxMsgSize {
				kind = "answer-fits-only-compressed"
			}
		}
	}
	// exactly one reply
	if rep.Count != 1 || rep.Extra != 0 {
		cl := "one-reply"
		if kind == "answer-fits-only-compressed" {
			cl = "one-reply-compressible"
		}
		return verdict{Kind: kind, Clause: cl, Desc: fmt.Sprintf("valid query received %d replies (want exactly 1); probe ran=%d err=%v; http status=%d; %s",
			rep.Count+rep.Extra, p.Ran, p.Err, rep.Status, rep.Note)}
	}
	if E == nil {
		return verdict{Kind: kind, Clause: "one-reply", Desc: "a reply was sent although the plugin chain never ran"}
	}
	R := new(dns.Msg)
	if err := R.Unpack(rep.Wire); err != nil {
		return verdict{Kind: kind, Clause: "reply-unparsable", Desc: "reply does not unpack: " + err.Error()}
	}
	if R.Id != Q.Id {
		return verdict{Kind: kind, Clause: "id", Desc: fmt.Sprintf("reply ID %d, query ID %d", R.Id, Q.Id)}
	}
	qw, rw := hpipe.QuestionWire(o.Query), hpipe.QuestionWire(rep.Wire)
	if qw == nil || !bytes.Equal(qw, rw) || len(R.Question) != 1 {
		rq := "<none>"
		if len(R.Question) > 0 {
			rq = fmt.Sprintf("%s type %d class %d", R.Question[0].Name, R.Question[0].Qtype, R.Question[0].Qclass)
		}
		return verdict{Kind: kind, Clause: "question", Desc: fmt.Sprintf("reply question (%d entries, first %s) differs from query question %s type %d class %d",
			len(R.Question), rq, Q.Question[0].Name, Q.Question[0].Qtype, Q.Question[0].Qclass)}
	}
	if !R.Response || !R.RecursionAvailable {
		return verdict{Kind: kind, Clause: "qr-ra", Desc: fmt.Sprintf("QR=%v RA=%v", R.Response, R.RecursionAvailable)}
	}
	switch {
	case p.Err != nil:
		if R.Rcode != dns.RcodeServerFailure {
			return verdict{Kind: kind, Clause: "rcode-servfail", Desc: fmt.Sprintf("chain returned error %v but reply rcode is %d", p.Err, R.Rcode)}
		}
	case p.R == nil:
		if R.Rcode != dns.RcodeRefused {
			return verdict{Kind: kind, Clause: "rcode-refused", Desc: fmt.Sprintf("chain produced no response but reply rcode is %d", R.Rcode)}
		}
	default:
		if R.Rcode != p.R.Rcode {
			return verdict{Kind: kind, Clause: "rcode-answer", Desc: fmt.Sprintf("plugins' answer has rcode %d, reply has %d", p.R.Rcode, R.Rcode)}
		}
	}
	ea, en, ee := rrStrings(E.Answer, true), rrStrings(E.Ns, true), rrStrings(E.Extra, true)
	ra, rn, re := rrStrings(R.Answer, true), rrStrings(R.Ns, true), rrStrings(R.Extra, true)
	dropped := len(ra)+len(rn)+len(re) < len(ea)+len(en)+len(ee)
	if c.Arrival == "udp" {
		limit := 512
		if clientOpt != nil && int(clientOpt.UDPSize()) > limit {
			limit = int(clientOpt.UDPSize())
		}
		if len(rep.Wire) > limit {
			return verdict{Kind: kind, Clause: "udp-size", Desc: fmt.Sprintf("UDP reply of %d bytes exceeds max(512, advertised %v) = %d", len(rep.Wire), optSize(clientOpt), limit)}
		}
		if !isSubsequence(ra, ea) || !isSubsequence(rn, en) || !isSubsequence(re, ee) {
			return verdict{Kind: kind, Clause: "answer", Desc: "UDP reply carries records that are not in the plugins' answer"}
		}
		if dropped {
			kind += "-truncated"
			if !R.Truncated {
				return verdict{Kind: kind, Clause: "udp-tc", Desc: fmt.Sprintf("%d of %d records were dropped to fit %d bytes but TC is not set",
					len(ea)+len(en)+len(ee)-len(ra)-len(rn)-len(re), len(ea)+len(en)+len(ee), limit)}
			}
		}
	} else if !equalStrings(ra, ea) || !equalStrings(rn, en) || !equalStrings(re, ee) {
		return verdict{Kind: kind, Clause: "answer", Desc: fmt.Sprintf("reply sections (%d/%d/%d records) differ from the plugins' answer (%d/%d/%d)",
			len(ra), len(rn), len(re), len(ea), len(en), len(ee))}
	}
	return verdict{Kind: kind}
}

func optSize(o *dns.OPT) any {
	if o == nil {
		return "none"
	}
	return o.UDPSize()
}

// evalCase runs one case and returns the verdict of every delivery.
func evalCase(c Case) (caseRun, []verdict) {
	cr := runCase(c)
	var vs_ []verdict
	if cr.BuildErr != nil {
		return cr, []verdict{{Kind: "harness-build", Clause: "harness", Desc: "cannot build chain: " + cr.BuildErr.Error()}}
	}
	if cr.Panic != "" {
		return cr, []verdict{{Kind: "panic", Clause: "panic", Desc: "panic while serving the query: " + firstLines(cr.Panic, 12)}}
	}
	if cr.Horizon {
		return cr, []verdict{{Kind: "harness-horizon", Clause: "harness", Desc: "execution did not quiesce within the virtual horizon"}}
	}
	for _, o := range cr.Obs {
		vs_ = append(vs_, judge(c, o))
	}
	return cr, vs_
}

func firstLines(s string, n int) string {
	l := strings.Split(s, "\n")
	if len(l) > n {
		l = l[:n]
	}
	return strings.Join(l, "\n")
}

func firstViolation(vd []verdict) (int, *verdict) {
	for i := range vd {
		if vd[i].Clause != "" {
			return i, &vd[i]
		}
	}
	return -1, nil
}

// minimise removes chain elements as long as the same clause stays violated, so
// that the signature names the smallest plugin set that shows the violation.
func minimise(c Case, clause string) Case {
	for changed := true; changed; {
		changed = false
		var cands []Case
		for i := range c.Chain {
			d := c
			d.Chain = append(append([]string{}, c.Chain[:i]...), c.Chain[i+1:]...)
			cands = append(cands, d)
		}
		if c.Trail {
			d := c
			d.Trail = false
			cands = append(cands, d)
		}
		for _, d := range cands {
			_, vd := evalCase(d)
			if _, v := firstViolation(vd); v != nil && v.Clause == clause {
				c, changed = d, true
				break
			}
		}
	}
	return c
}

// responders only produce an answer; when a violation needs one of them plus a
// plugin that stores / rewrites answers, the signature names the latter.
var responders = map[string]bool{"forward": true, "hosts": true, "reject": true, "black_hole": true, "arbitrary": true, "fallback": true}

func families(c Case) string {
	set := map[string]bool{}
	for _, n := range c.Chain {
		set[hpipe.Instances[n].Plugin] = true
	}
	if c.Trail {
		set["forward"] = true
	}
	if len(set) == 0 {
		return "entry"
	}
	var l, nr []string
	for k := range set {
		l = append(l, k)
		if !responders[k] {
			nr = append(nr, k)
		}
	}
	if len(nr) > 0 {
		l = nr
	}
	sort.Strings(l)
	return strings.Join(l, "+")
}

// sigOf is the stable signature of a violation: oracle clause / arrival class /
// plugin families of the minimised chain.
func sigOf(clause string, m Case) string {
	if clause == "one-reply-compressible" {
		// one signature whatever plugin pushed the answer over the limit
		return "one-reply/" + arrivalClass(m.Arrival) + "/answer-fits-65535-only-compressed"
	}
	return clause + "/" + arrivalClass(m.Arrival) + "/" + families(m)
}

func arrivalClass(a string) string {
	switch a {
	case "udp":
		return "udp"
	case "tcp":
		return "tcp"
	}
	return "doh"
}

// ---------------------------------------------------------------------------
// the enumerated space

var (
	ids     = []uint16{0, 1, 0xFFFF}
	names   = []string{".", "a.", hpipe.NameMixed, "long"}
	types   = []uint16{dns.TypeA, dns.TypeAAAA, dns.TypeTXT, 257, 255}
	classes = []uint16{dns.ClassINET, dns.ClassCHAOS}
	optSizes = []int{-1, 0, 512, 1232, 4096, 65535}
	shapes  = []string{"qr", "noq", "2q", "ans", "ns", "2extra"}
)

type flagSet struct {
	RD, AD, CD, Z bool
	Opcode        int
}

func allFlags() []flagSet {
	var out []flagSet
	for op := 0; op <= 2; op += 2 {
		for b := 0; b < 16; b++ {
			out = append(out, flagSet{RD: b&1 != 0, AD: b&2 != 0, CD: b&4 != 0, Z: b&8 != 0, Opcode: op})
		}
	}
	return out
}

func coverFlags() []flagSet {
	return []flagSet{{}, {RD: true}, {AD: true}, {CD: true}, {Z: true}, {RD: true, Opcode: 2}, {RD: true, AD: true, CD: true, Z: true}}
}

type optV struct {
	Size int
	DO   bool
}

func allOpts() []optV {
	out := []optV{{Size: -1}}
	for _, s := range optSizes[1:] {
		out = append(out, optV{s, false}, optV{s, true})
	}
	return out
}

func chainsUpTo(alpha []string, k int) [][]string {
	out := [][]string{{}}
	level := [][]string{{}}
	for l := 1; l <= k; l++ {
		var next [][]string
		for _, c := range level {
			for _, a := range alpha {
				next = append(next, append(append([]string{}, c...), a))
			}
		}
		out = append(out, next...)
		level = next
	}
	return out
}

var ansSmall = hpipe.UpOutcome{Kind: "answer", NRec: 2}

func outcomesA() []hpipe.UpOutcome {
	return []hpipe.UpOutcome{ansSmall, {Kind: "answer", Size: 3000}, {Kind: "answer", Rcode: 3}, {Kind: "error"}}
}

func outcomesFull() []hpipe.UpOutcome {
	out := []hpipe.UpOutcome{{Kind: "answer", NRec: 0}, {Kind: "answer", NRec: 1}, ansSmall}
	for _, s := range []int{400, 500, 501, 511, 512, 513, 1220, 1221, 1231, 1232, 1233, 4084, 4085, 4095, 4096, 4097, 20000, 65523, 65524, 65534, 65535} {
		out = append(out, hpipe.UpOutcome{Kind: "answer", Size: s})
	}
	for rc := 1; rc <= 15; rc++ {
		out = append(out, hpipe.UpOutcome{Kind: "answer", Rcode: rc, NRec: 1})
	}
	for _, rc := range []int{16, 23, 4095} {
		out = append(out, hpipe.UpOutcome{Kind: "answer", Rcode: rc, NRec: 1})
	}
	out = append(out,
		hpipe.UpOutcome{Kind: "answer", NRec: 2, TC: true},
		hpipe.UpOutcome{Kind: "answer", Size: 3000, TC: true},
		hpipe.UpOutcome{Kind: "answer", NRec: 2, HasOpt: true, Options: []string{"padding"}},
		hpipe.UpOutcome{Kind: "answer", Compressible: 65535},
		hpipe.UpOutcome{Kind: "error"}, hpipe.UpOutcome{Kind: "garbage"}, hpipe.UpOutcome{Kind: "timeout"})
	return out
}

type chainT struct {
	Chain []string
	Trail bool
}

func TestVerifC03(t *testing.T) {
	e := vr.GetEnv()
	res := vr.New("C03", e)

	if in, ok := vr.ReplayInput(); ok {
		var c Case
		if err := json.Unmarshal(in, &c); err != nil {
			fmt.Println("INFRA: bad replay input:", err)
			t.Fatal(err)
		}
		replayCase(c)
		return
	}

	thorough := e.Tier == "thorough"
	alpha := hpipe.C03Alphabet()
	maxLen := 2
	if thorough {
		maxLen = 3
	}

	var unit int64
	distinct := int64(0)
	expired := false
	lastDone := "nothing"
	curPart := ""
	seenViol := map[string]bool{}

	do := func(c Case) {
		if expired {
			return
		}
		i := unit
		unit++
		if !e.Mine(i) {
			return
		}
		if distinct&0x3f == 0 && e.Expired() {
			expired = true
			return
		}
		distinct++
		cr, vd := evalCase(c)
		res.Evaluations++
		res.Transitions += int64(len(cr.Obs))
		for ri, v := range vd {
			res.Outcome(fmt.Sprintf("%s/chain%d/%s", c.Arrival, c.chainLen(), v.Kind))
			if len(cr.Obs) > 1 && v.Clause == "" {
				res.Outcome(fmt.Sprintf("stateful/%s/%s", runNames[ri], v.Kind))
			}
		}
		if len(cr.Blocked) > 0 {
			res.Outcome("note/threads-parked-at-end")
		}
		if ri, v := firstViolation(vd); v != nil {
			key := v.Clause + "/" + arrivalClass(c.Arrival) + "/" + families(c)
			if !seenViol[key] {
				seenViol[key] = true
				m := minimise(c, v.Clause)
				sig := sigOf(v.Clause, m)
				seenViol[v.Clause+"/"+arrivalClass(m.Arrival)+"/"+families(m)] = true
				_, mvd := evalCase(m)
				mi, mv := firstViolation(mvd)
				if mv == nil {
					mv, mi, m = v, ri, c
				}
				desc := fmt.Sprintf("%s\n  chain %s, arrival %s, query %s, upstream %s, delivery %d\n  (first seen with chain %s)",
					mv.Desc, m.chainLabel(), m.Arrival, m.Q.Label(), m.Up.Label(), mi, c.chainLabel())
				res.ViolateInput(sig, desc, m)
			}
		}
		if distinct <= 2 || (distinct%5000 == 1 && len(res.Samples) < 6) {
			s := map[string]any{"part": curPart, "chain": c.chainLabel(), "arrival": c.Arrival, "query": c.Q.Label(), "upstream": c.Up.Label()}
			var ks []string
			for _, v := range vd {
				ks = append(ks, v.Kind)
			}
			s["deliveries"] = ks
			res.Sample(s)
		}
	}

	baseQ := func(name string, typ uint16, opt int, do bool) hpipe.QSpec {
		return hpipe.QSpec{ID: 1, Name: name, Type: typ, Class: dns.ClassINET, RD: true, Opt: opt, DO: do}
	}

	// ---- part C: outcome-major -------------------------------------------------
	curPart = "C outcomes"
	chainsC := []chainT{{nil, true}, {[]string{"cache"}, true}, {[]string{"fallback"}, false},
		{[]string{"redirect_hit", "ttl5"}, true}, {[]string{"prefer_ipv4"}, true}, {[]string{"ecs_preset", "cache_lazy"}, true}}
	var queriesC []hpipe.QSpec
	for _, n := range []string{hpipe.NameMixed, "long"} {
		for _, ty := range []uint16{dns.TypeA, dns.TypeTXT} {
			for _, o := range optSizes {
				queriesC = append(queriesC, baseQ(n, ty, o, false))
			}
			queriesC = append(queriesC, baseQ(n, ty, 1232, true))
		}
	}
	outsC := outcomesFull()
	if !thorough {
		chainsC = chainsC[:4]
	}
	for _, ch := range chainsC {
		for _, q := range queriesC {
			for _, u := range outsC {
				for _, a := range hpipe.Arrivals {
					do(Case{Chain: ch.Chain, Trail: ch.Trail, Q: q, Up: u, Arrival: a})
				}
			}
		}
	}
	if !expired {
		lastDone = "part C (all upstream outcomes x base chains x base queries)"
	}

	// ---- part B: query-major ---------------------------------------------------
	curPart = "B queries"
	chainsB := []chainT{{nil, true}, {[]string{"cache"}, true}, {[]string{"redirect_hit"}, true},
		{[]string{"hosts_hit"}, true}, {[]string{"prefer_ipv4"}, true}, {[]string{"cache_lazy", "ttl5"}, true}}
	flags := coverFlags()
	if thorough {
		flags = allFlags()
	} else {
		chainsB = chainsB[:3]
	}
	nQueriesB := 0
	for _, ch := range chainsB {
		nQueriesB = 0
		for _, id := range ids {
			for _, n := range names {
				for _, ty := range types {
					for _, cl := range classes {
						for _, o := range allOpts() {
							for _, f := range flags {
								q := hpipe.QSpec{ID: id, Name: n, Type: ty, Class: cl, RD: f.RD, AD: f.AD, CD: f.CD, Z: f.Z, Opcode: f.Opcode, Opt: o.Size, DO: o.DO}
								nQueriesB++
								for _, a := range hpipe.Arrivals {
									do(Case{Chain: ch.Chain, Trail: ch.Trail, Q: q, Up: ansSmall, Arrival: a})
								}
							}
						}
					}
				}
			}
		}
		// malformed section counts (with and without OPT) and the one-additional-non-OPT shape
		for _, sh := range append(append([]string{}, shapes...), "extraA") {
			for _, o := range []int{-1, 1232} {
				if sh == "extraA" && o >= 0 {
					continue
				}
				for _, n := range []string{hpipe.NameMixed, "long"} {
					q := baseQ(n, dns.TypeA, o, false)
					q.Shape = sh
					nQueriesB++
					for _, a := range hpipe.Arrivals {
						do(Case{Chain: ch.Chain, Trail: ch.Trail, Q: q, Up: ansSmall, Arrival: a})
					}
				}
			}
		}
	}
	if !expired {
		lastDone = "parts C and B (query product x base chains)"
	}

	// ---- part A: chain-major ---------------------------------------------------
	curPart = "A chains"
	var queriesA []hpipe.QSpec
	for _, n := range []string{hpipe.NameMixed, "long"} {
		for _, ty := range []uint16{dns.TypeA, dns.TypeAAAA, dns.TypeTXT} {
			queriesA = append(queriesA, baseQ(n, ty, -1, false), baseQ(n, ty, 1232, true))
		}
	}
	qch := baseQ("a.", dns.TypeA, -1, false)
	qch.Class = dns.ClassCHAOS
	qany := baseQ(hpipe.NameMixed, 255, -1, false)
	qany.Opcode = 2
	queriesA = append(queriesA, qch, baseQ(".", dns.TypeTXT, 512, false), qany)
	nChains := 0
	for l := 0; l <= maxLen && !expired; l++ {
		for _, ch := range chainsUpTo(alpha, maxLen) {
			if len(ch) != l {
				continue
			}
			for _, trail := range []bool{false, true} {
				nChains++
				_, usesUp := hpipe.ChainInfo(ch, trail)
				outs := outcomesA()
				if !usesUp {
					outs = outs[:1]
				}
				for _, q := range queriesA {
					for _, u := range outs {
						for _, a := range hpipe.Arrivals {
							do(Case{Chain: ch, Trail: trail, Q: q, Up: u, Arrival: a})
						}
					}
				}
			}
		}
		if !expired {
			lastDone = fmt.Sprintf("parts C, B and part A for all chains of length <= %d (+ optional trailing forward)", l)
		}
	}

	// ---- part D: longer chains behind a pinned prefix ----------------------------
	// hosts -> redirect -> cache hands the cache a response that was made for another
	// question; every plugin (thorough: every pair) behind that prefix, in particular the
	// ones that swap the query context for a copy
	curPart = "D pinned prefix"
	prefix := []string{"hosts_hit", "redirect_hit", "cache"}
	tailMax := 1
	if thorough {
		tailMax = 2
	}
	nChainsD := 0
	for _, tail := range chainsUpTo(alpha, tailMax) {
		if len(tail) == 0 {
			continue
		}
		for _, trail := range []bool{false, true} {
			ch := append(append([]string{}, prefix...), tail...)
			if !trail {
				// second spelling of the same pipeline: no `accept` behind the cache, the forward
				// is guarded by !has_resp instead (so the plugins of the tail do run on a hit)
				ch = append(append([]string{"hosts_hit", "redirect_hit", "cache_plain"}, tail...), "forward_if_none")
			}
			nChainsD++
			_, usesUp := hpipe.ChainInfo(ch, trail)
			outs := outcomesA()
			if !usesUp {
				outs = outs[:1]
			}
			for _, q := range queriesA {
				for _, u := range outs {
					for _, a := range hpipe.Arrivals {
						do(Case{Chain: ch, Trail: trail, Q: q, Up: u, Arrival: a})
					}
				}
			}
		}
	}
	res.Bounds["D.chains"] = fmt.Sprintf("%d chains: hosts_hit, redirect_hit, cache + every chain of 1..%d plugins + forward, in two spellings (cache followed by `accept has_resp`; plain cache and a forward guarded by !has_resp)", nChainsD, tailMax)
	if !expired {
		lastDone += " and part D"
	}

	res.States = distinct
	res.Exhaustive = !expired
	if expired {
		res.Notes = append(res.Notes, "time budget expired; largest bound fully covered by this shard: "+lastDone)
	}
	res.Notes = append(res.Notes,
		"ServeUDP needs a kernel *net.UDPConn: in this part the UDP arrival is the body of ServeUDP (Unpack, Handle(FromUDP=true, pool.PackBuffer)), the server loop itself runs in part u on a loopback socket; TCP runs through the real ServeTCP on an in-memory listener/connection; DoH through HttpHandler.ServeHTTP on a recorder (no real listener, no net/http server); DoQ is not exercised")
	res.Rule = "covering design (no sampling), three complete sub-products, every case on a freshly built pipeline inside one vs execution: " +
		"(C) base chains x base queries {MiXed.Example., 255-octet name} x {A,TXT} x OPT {none,0,512,1232,4096,65535,1232+DO} x ALL upstream outcomes (answer sizes straddling 512/1232/4096/65535 with and without the 11-octet OPT, rcodes 0..15, extended rcodes 16/23/4095, TC set, OPT in answer, answer that fits 65535 only compressed, error, garbage, timeout) x 4 arrivals; " +
		"(B) base chains x the query product IDs x names x types x classes x OPT(size x DO) x flag sets (thorough: all 32 of RD/AD/CD/Z x opcode{0,2}; quick: 7 covering sets) plus malformed shapes {QR=1, 0 questions, 2 questions, answer present, authority present, 2 additionals} with/without OPT and the valid one-non-OPT-additional shape, x 4 arrivals; " +
		"(A) ALL chains (tuples with repetition) of length <= maxLen over the 14 configured plugin instances, each with and without a trailing forward(fake upstream), x 15 base queries x upstream outcomes {2 records, 3000-octet answer, NXDOMAIN, error} (1 outcome when the chain cannot reach the upstream) x 4 arrivals. " +
		"Chains containing a stateful plugin (cache, lazy cache, dual selector) deliver the query three times (other ID each time; +2 s: hit; +1000 s: expired / lazy stale hit with background update), every delivery is judged. " +
		"Outcome class = arrival x chain length x reply kind {answer, answer-truncated, servfail, refused, dropped, answer-fits-only-compressed, outside/*}; stateful/* classes split deliveries by repetition."
	res.Bounds["tier_max_chain_len"] = maxLen
	res.Bounds["plugin_instances"] = alpha
	res.Bounds["chains_partA"] = nChains
	res.Bounds["queries_partA"] = len(queriesA)
	res.Bounds["queries_partB_per_chain"] = nQueriesB
	res.Bounds["chains_partB"] = len(chainsB)
	res.Bounds["chains_partC"] = len(chainsC)
	res.Bounds["queries_partC"] = len(queriesC)
	res.Bounds["upstream_outcomes_partC"] = len(outsC)
	res.Bounds["arrivals"] = hpipe.Arrivals
	res.Bounds["ids"] = ids
	res.Bounds["names"] = []string{".", "a.", hpipe.NameMixed, "255-octet name"}
	res.Bounds["types"] = types
	res.Bounds["classes"] = classes
	res.Bounds["opt_sizes(-1=none)"] = optSizes
	res.Bounds["cases_total_all_shards"] = unit
	res.Write(e)
}

func replayCase(c Case) {
	fmt.Printf("replay: chain %s arrival %s query %s upstream %s\n", c.chainLabel(), c.Arrival, c.Q.Label(), c.Up.Label())
	cr, vd := evalCase(c)
	for i, o := range cr.Obs {
		fmt.Printf(" delivery %d (%s) at +%s: query %d bytes, replies %d, http %d, upstream calls %d, probe ran=%d err=%v\n",
			i, runNames[i], o.At, len(o.Query), o.Reply.Count+o.Reply.Extra, o.Reply.Status, o.UpCalls, o.Probe.Ran, o.Probe.Err)
		if o.Probe.R != nil {
			fmt.Printf("  plugins' answer: id=%d rcode=%d tc=%v question=%v answer=%d ns=%d extra=%d\n", o.Probe.R.Id, o.Probe.R.Rcode, o.Probe.R.Truncated, o.Probe.R.Question, len(o.Probe.R.Answer), len(o.Probe.R.Ns), len(o.Probe.R.Extra))
		}
		if len(o.Reply.Wire) > 0 {
			R := new(dns.Msg)
			if err := R.Unpack(o.Reply.Wire); err == nil {
				fmt.Printf("  reply: %d bytes id=%d qr=%v ra=%v tc=%v rcode=%d question=%v answer=%d ns=%d extra=%d\n", len(o.Reply.Wire), R.Id, R.Response, R.RecursionAvailable, R.Truncated, R.Rcode, R.Question, len(R.Answer), len(R.Ns), len(R.Extra))
			} else {
				fmt.Printf("  reply: %d bytes, unpack error %v\n", len(o.Reply.Wire), err)
			}
		}
	}
	if cr.Panic != "" {
		fmt.Println("panic:", cr.Panic)
	}
	for i, v := range vd {
		fmt.Printf(" verdict %d: kind=%s clause=%q %s\n", i, v.Kind, v.Clause, v.Desc)
	}
	if _, v := firstViolation(vd); v != nil {
		fmt.Printf("REPLAY-VIOLATION property=C03 sig=%s\n  %s\n", sigOf(v.Clause, c), v.Desc)
	} else {
		fmt.Println("REPLAY-OK: this input does not violate the property on the current tree")
	}
}
