package hpipe

import (
	"bytes"
	"io"
	"context"
	"encoding/base64"
	"fmt"
	"net"
	"net/http/httptest"
	"net/netip"
	"strings"
	"unsafe"

	"github.com/IrineSistiana/mosdns/v5/pkg/pool"
	"github.com/IrineSistiana/mosdns/v5/pkg/server"
	"github.com/IrineSistiana/mosdns/v5/zz_verif/fk"
	"github.com/IrineSistiana/mosdns/v5/zz_verif/vs"
	"github.com/miekg/dns"
)

// deterministic, poisoning buffer pool (see fk.PoisonPool): a reply packed into
// a buffer that was never written, or read after its release, is 0xDD garbage.
func init() { fk.PoisonPool() }

// QSpec describes one client query message.
type QSpec struct {
	ID     uint16 `json:"id"`
	Name   string `json:"name"` // "long" stands for the 255-octet name
	Type   uint16 `json:"type"`
	Class  uint16 `json:"class"`
	RD     bool   `json:"rd,omitempty"`
	AD     bool   `json:"ad,omitempty"`
	CD     bool   `json:"cd,omitempty"`
	Z      bool   `json:"z,omitempty"`
	Opcode int    `json:"opcode,omitempty"`
	// Opt < 0: no OPT record; otherwise the advertised UDP payload size.
	Opt     int      `json:"opt"`
	DO      bool     `json:"do,omitempty"`
	Version uint8    `json:"version,omitempty"`
	ZBits   uint16   `json:"zbits,omitempty"` // reserved EDNS flag bits (below DO) the client sets
	Options []string `json:"options,omitempty"`
	// Shape: "" well-formed; malformed shapes: qr, noq, 2q, ans, ns, 2extra;
	// "extraA" is well-formed with one non-OPT additional record.
	Shape string `json:"shape,omitempty"`
}

func (q QSpec) QName() string {
	if q.Name == "long" {
		return NameLong
	}
	return q.Name
}

func (q QSpec) Label() string {
	n := q.Name
	s := fmt.Sprintf("id%d/%s/t%d/c%d", q.ID, n, q.Type, q.Class)
	if q.Opt >= 0 {
		s += fmt.Sprintf("/opt%d", q.Opt)
		if q.DO {
			s += "+do"
		}
	}
	if q.Shape != "" {
		s += "/" + q.Shape
	}
	return s
}

// Msg builds the query message.
func (q QSpec) Msg() *dns.Msg {
	m := new(dns.Msg)
	m.Id = q.ID
	m.Opcode = q.Opcode
	m.RecursionDesired, m.AuthenticatedData, m.CheckingDisabled, m.Zero = q.RD, q.AD, q.CD, q.Z
	qu := dns.Question{Name: q.QName(), Qtype: q.Type, Qclass: q.Class}
	m.Question = []dns.Question{qu}
	if q.Opt >= 0 {
		o := &dns.OPT{Hdr: dns.RR_Header{Name: ".", Rrtype: dns.TypeOPT}}
		o.SetUDPSize(uint16(q.Opt))
		if q.DO {
			o.SetDo()
		}
		o.SetVersion(q.Version)
		o.Hdr.Ttl |= uint32(q.ZBits & 0x7FFF)
		for _, n := range q.Options {
			o.Option = append(o.Option, MkOption(n, false))
		}
		m.Extra = append(m.Extra, o)
	}
	extraA := &dns.A{Hdr: dns.RR_Header{Name: "extra.test.", Rrtype: dns.TypeA, Class: dns.ClassINET, Ttl: 1}, A: net.IPv4(192, 0, 2, 99).To4()}
	switch q.Shape {
	case "":
	case "qr":
		m.Response = true
	case "noq":
		m.Question = nil
	case "2q":
		m.Question = append(m.Question, dns.Question{Name: "second.test.", Qtype: dns.TypeA, Qclass: dns.ClassINET})
	case "ans":
		m.Answer = []dns.RR{extraA}
	case "ns":
		m.Ns = []dns.RR{&dns.NS{Hdr: dns.RR_Header{Name: "test.", Rrtype: dns.TypeNS, Class: dns.ClassINET, Ttl: 1}, Ns: "ns.test."}}
	case "2extra":
		m.Extra = append(m.Extra, extraA)
		if len(m.Extra) < 2 {
			m.Extra = append(m.Extra, dns.Copy(extraA))
		}
	case "2opt":
		// two OPT pseudo-records (malformed): the first carries the client's options
		if q.Opt < 0 {
			panic("2opt shape needs Opt>=0")
		}
		o2 := &dns.OPT{Hdr: dns.RR_Header{Name: ".", Rrtype: dns.TypeOPT}}
		o2.SetUDPSize(1232)
		m.Extra = append(m.Extra, o2)
	case "extraA":
		if q.Opt >= 0 {
			panic("extraA shape needs Opt<0")
		}
		m.Extra = []dns.RR{extraA}
	default:
		panic("unknown shape " + q.Shape)
	}
	return m
}

func (q QSpec) Wire() []byte {
	b, err := q.Msg().Pack()
	if err != nil {
		panic(fmt.Sprintf("harness: cannot pack query %+v: %v", q, err))
	}
	return b
}

// Reply is what one arrival of one query produced on the client side.
type Reply struct {
	Count  int    // number of DNS replies received
	Wire   []byte // first reply (DNS message, no framing)
	Extra  int    // further replies
	Status int    // HTTP status
	CType  string
	Note   string
}

var clientAddr = netip.MustParseAddr("198.51.100.7")

// Arrivals in enumeration order.
// "doh-post-chunked": a POST whose body length is not announced (HTTP/1.1 chunked
// transfer, HTTP/2 without content-length): req.ContentLength is -1.
var Arrivals = []string{"udp", "tcp", "doh-get", "doh-post", "doh-post-chunked"}

type fakeListener struct {
	conns  []net.Conn
	closed bool
}

func (l *fakeListener) Accept() (net.Conn, error) {
	vs.Block("listener.accept", unsafe.Pointer(l), func() bool { return len(l.conns) > 0 || l.closed })
	if len(l.conns) > 0 {
		c := l.conns[0]
		l.conns = l.conns[1:]
		return c, nil
	}
	return nil, net.ErrClosed
}
func (l *fakeListener) Close() error   { l.closed = true; return nil }
func (l *fakeListener) Addr() net.Addr { return &net.TCPAddr{IP: net.IPv4(127, 0, 0, 1), Port: 53} }

// Arrive delivers the wire query over the given transport of arrival and
// returns what the client got back. Must run on a vs thread.
func (e *Env) Arrive(kind string, wire []byte) Reply {
	switch kind {
	case "udp":
		// body of server.ServeUDP between ReadMsgUDPAddrPort and WriteMsgUDPAddrPort
		q := new(dns.Msg)
		if err := q.Unpack(wire); err != nil {
			return Reply{Note: "unpack: " + err.Error()}
		}
		p := e.Handler.Handle(context.Background(), q, server.QueryMeta{ClientAddr: clientAddr, FromUDP: true}, pool.PackBuffer)
		if p == nil {
			return Reply{}
		}
		out := append([]byte(nil), *p...)
		pool.ReleaseBuf(p)
		return Reply{Count: 1, Wire: out}
	case "tcp":
		a, b := fk.NewPipe("tcp", false)
		l := &fakeListener{conns: []net.Conn{b}}
		vs.GoNamed("servetcp", func() { _ = server.ServeTCP(l, e.Handler, server.TCPServerOpts{}) })
		if _, err := a.Write(fk.Frame(wire)); err != nil {
			return Reply{Note: "client write: " + err.Error()}
		}
		var stream []byte
		first, ok := a.Take() // the reply, or EOF when the server dropped the connection
		if ok {
			stream = append(stream, first...)
		}
		a.ShutdownPeer() // client is done: server sees EOF, must close its side
		vs.Block("await.server.close", unsafe.Pointer(b), func() bool { return b.Closed() })
		for {
			more, ok := a.TryTake()
			if !ok {
				break
			}
			stream = append(stream, more...)
		}
		l.Close()
		msgs, rest := fk.Unframe(stream)
		r := Reply{Count: len(msgs)}
		if len(rest) > 0 {
			r.Note = fmt.Sprintf("%d stray bytes after the last frame", len(rest))
		}
		if len(msgs) > 0 {
			r.Wire = msgs[0]
			r.Extra = len(msgs) - 1
		}
		return r
	case "doh-get", "doh-post", "doh-post-chunked":
		var rec = httptest.NewRecorder()
		if kind == "doh-get" {
			req := httptest.NewRequest("GET", "/dns-query?dns="+base64.RawURLEncoding.EncodeToString(wire), nil)
			req.Header.Set("Accept", "application/dns-message")
			req.RemoteAddr = "198.51.100.7:4242"
			e.HTTP.ServeHTTP(rec, req)
		} else if kind == "doh-post-chunked" {
			req := httptest.NewRequest("POST", "/dns-query", struct{ io.Reader }{bytes.NewReader(wire)})
			req.Header.Set("Content-Type", "application/dns-message")
			req.RemoteAddr = "198.51.100.7:4242"
			e.HTTP.ServeHTTP(rec, req)
		} else {
			req := httptest.NewRequest("POST", "/dns-query", bytes.NewReader(wire))
			req.Header.Set("Content-Type", "application/dns-message")
			req.RemoteAddr = "198.51.100.7:4242"
			e.HTTP.ServeHTTP(rec, req)
		}
		r := Reply{Status: rec.Code, CType: rec.Header().Get("Content-Type")}
		body := rec.Body.Bytes()
		if rec.Code == 200 && strings.HasPrefix(r.CType, "application/dns-message") {
			r.Count = 1
			r.Wire = append([]byte(nil), body...)
		} else if len(body) > 0 {
			r.Note = fmt.Sprintf("non-DNS body of %d bytes with status %d", len(body), rec.Code)
		}
		return r
	}
	panic("unknown arrival " + kind)
}

// QuestionWire returns the bytes of the first question entry of an
// uncompressed wire message (nil if there is none / it is damaged).
func QuestionWire(msg []byte) []byte {
	if len(msg) < 12 || int(msg[4])<<8|int(msg[5]) < 1 {
		return nil
	}
	i := 12
	for {
		if i >= len(msg) {
			return nil
		}
		l := int(msg[i])
		if l&0xC0 != 0 {
			return nil
		}
		i++
		if l == 0 {
			break
		}
		i += l
	}
	if i+4 > len(msg) {
		return nil
	}
	return msg[12 : i+4]
}
