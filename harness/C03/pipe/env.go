// Package hpipe is the shared pipeline harness of the checks C03 and C15:
// server entry handler -> sequence built from rule TEXT -> built-in plugins ->
// real forward plugin -> scripted fake upstream.
//
// Everything here is harness code mounted through the overlay (virtual package
// zz_verif/h_pipe); nothing is written to the repository. All objects must be
// built, used and closed inside one vs execution (vs.Run1): the plugins start
// goroutines and timers (cache sweeper, lazy update, fallback, dual selector,
// forward workers) which then run on the deterministic default schedule and on
// the virtual clock.
package hpipe

import (
	"unsafe"
	"context"
	"fmt"
	"io"
	"strings"

	"github.com/IrineSistiana/mosdns/v5/coremain"
	"github.com/IrineSistiana/mosdns/v5/pkg/query_context"
	"github.com/IrineSistiana/mosdns/v5/pkg/server"
	"github.com/IrineSistiana/mosdns/v5/pkg/server_handler"
	"github.com/IrineSistiana/mosdns/v5/pkg/upstream"
	"github.com/IrineSistiana/mosdns/v5/plugin/executable/arbitrary"
	_ "github.com/IrineSistiana/mosdns/v5/plugin/executable/black_hole"
	"github.com/IrineSistiana/mosdns/v5/plugin/executable/cache"
	_ "github.com/IrineSistiana/mosdns/v5/plugin/executable/dual_selector"
	"github.com/IrineSistiana/mosdns/v5/plugin/executable/ecs_handler"
	fastforward "github.com/IrineSistiana/mosdns/v5/plugin/executable/forward"
	_ "github.com/IrineSistiana/mosdns/v5/plugin/executable/forward_edns0opt"
	"github.com/IrineSistiana/mosdns/v5/plugin/executable/hosts"
	"github.com/IrineSistiana/mosdns/v5/plugin/executable/redirect"
	"github.com/IrineSistiana/mosdns/v5/plugin/executable/sequence"
	"github.com/IrineSistiana/mosdns/v5/plugin/executable/sequence/fallback"
	_ "github.com/IrineSistiana/mosdns/v5/plugin/executable/ttl"
	_ "github.com/IrineSistiana/mosdns/v5/plugin/matcher/has_resp"
	"github.com/miekg/dns"
)

// Names used by the configured plugin instances.
const (
	NameMixed  = "MiXed.Example."
	NameA      = "a."
	NameRoot   = "."
	RedirectTo = "Redir-Target.Test."
	PresetECS  = "192.0.2.0"
)

// NameLong is a 255-octet name (wire format: 63+63+63+61 label octets, four
// length octets and the root octet).
var NameLong = strings.Repeat("l", 63) + "." + strings.Repeat("M", 63) + "." + strings.Repeat("n", 63) + "." + strings.Repeat("O", 61) + "."

// Inst is one configured plugin instance: the rule text it contributes to the
// sequence plus the tagged plugins these rules refer to.
type Inst struct {
	Name        string
	Rules       []sequence.RuleArgs
	Setup       func(e *Env) error
	Stateful    bool // sees every query more than once (miss, hit, expired)
	UsesUp      bool // reaches the fake upstream by itself
	FwdCode     int  // forward_edns0opt: option code forwarded (C15), else 0
	FwdECS      bool // ecs_handler(forward)
	Plugin      string // plugin family (violation signatures are grouped by it)
}

func rule(exec string, matches ...string) sequence.RuleArgs {
	return sequence.RuleArgs{Exec: exec, Matches: matches}
}

// Instances is the alphabet of configured plugin instances (C03 uses the first
// 14, C15 the EDNS0 related ones). Order = enumeration order, simplest first.
var Instances = map[string]*Inst{}
var instOrder []string

func reg(i *Inst) {
	Instances[i.Name] = i
	instOrder = append(instOrder, i.Name)
}

func init() {
	// The canonical cache configuration: cache, then stop when it produced a hit.
	reg(&Inst{Name: "cache", Plugin: "cache", Stateful: true,
		Rules: []sequence.RuleArgs{rule("cache 1024"), rule("accept", "has_resp")}})
	reg(&Inst{Name: "cache_lazy", Plugin: "cache", Stateful: true,
		Rules: []sequence.RuleArgs{rule("$cache_lazy"), rule("accept", "has_resp")},
		Setup: func(e *Env) error {
			return e.NewPlugin("cache_lazy", "cache", &cache.Args{Size: 1024, LazyCacheTTL: 86400})
		}})
	reg(&Inst{Name: "redirect_hit", Plugin: "redirect",
		Rules: []sequence.RuleArgs{rule("$redirect_hit")},
		Setup: func(e *Env) error {
			return e.NewPlugin("redirect_hit", "redirect", &redirect.Args{Rules: []string{
				"mixed.example " + RedirectTo, "a " + RedirectTo, strings.ToLower(NameLong) + " " + RedirectTo}})
		}})
	reg(&Inst{Name: "redirect_miss", Plugin: "redirect",
		Rules: []sequence.RuleArgs{rule("$redirect_miss")},
		Setup: func(e *Env) error {
			return e.NewPlugin("redirect_miss", "redirect", &redirect.Args{Rules: []string{"no-such-name.test other.test"}})
		}})
	reg(&Inst{Name: "hosts_hit", Plugin: "hosts",
		Rules: []sequence.RuleArgs{rule("$hosts_hit")},
		Setup: func(e *Env) error {
			return e.NewPlugin("hosts_hit", "hosts", &hosts.Args{Entries: []string{
				"mixed.example 192.0.2.10 2001:db8::10", "a 192.0.2.11",
				strings.ToLower(NameLong) + " 192.0.2.12 2001:db8::12", strings.ToLower(RedirectTo) + " 192.0.2.13"}})
		}})
	reg(&Inst{Name: "black_hole", Plugin: "black_hole",
		Rules: []sequence.RuleArgs{rule("black_hole 192.0.2.1 2001:db8::1")}})
	reg(&Inst{Name: "arbitrary_hit", Plugin: "arbitrary",
		Rules: []sequence.RuleArgs{rule("$arbitrary_hit")},
		Setup: func(e *Env) error {
			return e.NewPlugin("arbitrary_hit", "arbitrary", &arbitrary.Args{Rules: []string{
				"mixed.example. 300 IN A 192.0.2.20", "mixed.example. 300 IN A 192.0.2.21",
				"mixed.example. 300 IN TXT \"arbitrary\"", "a. 300 IN AAAA 2001:db8::20",
				"mixed.example. 300 CH TXT \"chaos\"", ". 300 IN TXT \"root\"",
				strings.ToLower(NameLong) + " 300 IN A 192.0.2.22"}})
		}})
	reg(&Inst{Name: "reject3", Plugin: "reject", Rules: []sequence.RuleArgs{rule("reject 3")}})
	reg(&Inst{Name: "ttl5", Plugin: "ttl", Rules: []sequence.RuleArgs{rule("ttl 5")}})
	reg(&Inst{Name: "ttl10-20", Plugin: "ttl", Rules: []sequence.RuleArgs{rule("ttl 10-20")}})
	reg(&Inst{Name: "ecs_preset", Plugin: "ecs", Rules: []sequence.RuleArgs{rule("ecs " + PresetECS)}})
	reg(&Inst{Name: "prefer_ipv4", Plugin: "dual_selector", Stateful: true, Rules: []sequence.RuleArgs{rule("prefer_ipv4")}})
	reg(&Inst{Name: "fallback", Plugin: "fallback", UsesUp: true,
		Rules: []sequence.RuleArgs{rule("$fallback")},
		Setup: func(e *Env) error {
			if err := e.EnsureTaggedForward(); err != nil {
				return err
			}
			if err := e.NewPlugin("seq_secondary", "sequence", &sequence.Args{rule("reject 2")}); err != nil {
				return err
			}
			return e.NewPlugin("fallback", "fallback", &fallback.Args{Primary: "fwd_main", Secondary: "seq_secondary"})
		}})
	reg(&Inst{Name: "forward", Plugin: "forward", UsesUp: true, Rules: []sequence.RuleArgs{rule("fakefwd")}})
	// the other common way to configure a cache: no `accept` behind it, the forward guarded instead
	reg(&Inst{Name: "cache_plain", Plugin: "cache", Stateful: true, Rules: []sequence.RuleArgs{rule("cache 1024")}})
	reg(&Inst{Name: "forward_if_none", Plugin: "forward", UsesUp: true, Rules: []sequence.RuleArgs{rule("fakefwd", "!has_resp")}})

	// EDNS0 related instances (C15).
	reg(&Inst{Name: "ecs_forward", Plugin: "ecs", FwdECS: true,
		Rules: []sequence.RuleArgs{rule("$ecs_forward")},
		Setup: func(e *Env) error {
			return e.NewPlugin("ecs_forward", "ecs_handler", &ecs_handler.Args{Forward: true})
		}})
	reg(&Inst{Name: "ecs_forward_preset", Plugin: "ecs", FwdECS: true,
		Rules: []sequence.RuleArgs{rule("$ecs_forward_preset")},
		Setup: func(e *Env) error {
			return e.NewPlugin("ecs_forward_preset", "ecs_handler", &ecs_handler.Args{Forward: true, Preset: PresetECS})
		}})
	reg(&Inst{Name: "fwdopt10", Plugin: "forward_edns0opt", FwdCode: 10, Rules: []sequence.RuleArgs{rule("forward_edns0opt 10")}})
	reg(&Inst{Name: "fwdopt65001", Plugin: "forward_edns0opt", FwdCode: 65001, Rules: []sequence.RuleArgs{rule("forward_edns0opt 65001")}})
	// tagged cache created through the plugin's Init (metrics + API registered)
	reg(&Inst{Name: "cache_tagged", Plugin: "cache", Stateful: true,
		Rules: []sequence.RuleArgs{rule("$cache_tagged"), rule("accept", "has_resp")},
		Setup: func(e *Env) error {
			return e.NewPlugin("cache_tagged", "cache", &cache.Args{Size: 1024})
		}})

	sequence.MustRegExecQuickSetup("zz_probe", func(_ sequence.BQ, _ string) (any, error) {
		if cur == nil {
			return nil, fmt.Errorf("no harness environment")
		}
		return cur.Probe, nil
	})
	sequence.MustRegExecQuickSetup("fakefwd", func(_ sequence.BQ, _ string) (any, error) {
		if cur == nil {
			return nil, fmt.Errorf("no harness environment")
		}
		return fastforward.VerifNewForward([]upstream.Upstream{cur.Up}, 1), nil
	})
}

// C03Alphabet is the list of the 14 instances of the C03 plan.
func C03Alphabet() []string {
	return []string{"cache", "cache_lazy", "redirect_hit", "redirect_miss", "hosts_hit", "black_hole", "arbitrary_hit",
		"reject3", "ttl5", "ttl10-20", "ecs_preset", "prefer_ipv4", "fallback", "forward"}
}

// C15Alphabet is the list of the 6 instances of the C15 plan.
func C15Alphabet() []string {
	return []string{"cache_tagged", "ttl5", "ecs_forward", "ecs_preset", "ecs_forward_preset", "fwdopt10", "fwdopt65001"}
}

// Probe is the observation point: first rule of every sequence, it runs the
// rest of the chain and records what the chain as a whole produced.
type Probe struct {
	Ran     int
	Err     error
	R       *dns.Msg // deep copy of qCtx.R() when the chain returned (nil: no response)
	RespOpt *dns.OPT // deep copy of qCtx.RespOpt() at that moment
	// OptArrays: backing arrays of the option lists of the query OPT and of the reply OPT of
	// every query context seen so far (kept alive, so equal addresses mean shared memory)
	OptArrays []unsafe.Pointer
}

// Reset forgets the last delivery (the option arrays seen so far are kept).
func (p *Probe) Reset() { a := p.OptArrays; *p = Probe{}; p.OptArrays = a }

// SharedOptArray reports whether two query contexts handed the same backing
// array to their option lists (appending to one then writes into the other's).
func (p *Probe) SharedOptArray() bool {
	seen := map[unsafe.Pointer]bool{}
	for _, a := range p.OptArrays {
		if seen[a] {
			return true
		}
		seen[a] = true
	}
	return false
}

func (p *Probe) Exec(ctx context.Context, qCtx *query_context.Context, next sequence.ChainWalker) error {
	err := next.ExecNext(ctx, qCtx)
	p.Ran++
	p.Err = err
	p.R, p.RespOpt = nil, nil
	for _, o := range []*dns.OPT{qCtx.QOpt(), qCtx.RespOpt()} {
		if o != nil && cap(o.Option) > 0 {
			p.OptArrays = append(p.OptArrays, unsafe.Pointer(unsafe.SliceData(o.Option[:cap(o.Option)])))
		}
	}
	if r := qCtx.R(); r != nil {
		p.R = r.Copy()
	}
	if o := qCtx.RespOpt(); o != nil {
		p.RespOpt = dns.Copy(o).(*dns.OPT)
	}
	return err
}

// Env is one freshly built pipeline.
type Env struct {
	M       *coremain.Mosdns
	Plugins map[string]any
	Seq     *sequence.Sequence
	Handler *server_handler.EntryHandler
	HTTP    *server.HttpHandler
	Up      *FakeUpstream
	Probe   *Probe
	Chain   []string
	closers []io.Closer
}

var cur *Env

func (e *Env) NewPlugin(tag, typ string, args any) error {
	if _, ok := e.Plugins[tag]; ok {
		return nil
	}
	info, ok := coremain.GetPluginType(typ)
	if !ok {
		return fmt.Errorf("plugin type %s is not registered", typ)
	}
	p, err := info.NewPlugin(coremain.NewBP(tag, e.M), args)
	if err != nil {
		return fmt.Errorf("init of %s (%s): %w", tag, typ, err)
	}
	e.Plugins[tag] = p
	if c, ok := p.(io.Closer); ok {
		e.closers = append(e.closers, c)
	}
	return nil
}

func (e *Env) EnsureTaggedForward() error {
	if _, ok := e.Plugins["fwd_main"]; ok {
		return nil
	}
	f := fastforward.VerifNewForward([]upstream.Upstream{e.Up}, 1)
	e.Plugins["fwd_main"] = f
	e.closers = append(e.closers, f)
	return nil
}

// Build creates a fresh plugin environment and the sequence
// [probe, chain..., (forward)] from rule text. Must run inside a vs execution.
func Build(chain []string, trailingForward bool) (*Env, error) {
	e := &Env{Plugins: map[string]any{}, Up: &FakeUpstream{}, Probe: &Probe{}, Chain: chain}
	e.M = coremain.NewTestMosdnsWithPlugins(e.Plugins)
	cur = e
	defer func() { cur = nil }()
	rules := []sequence.RuleArgs{rule("zz_probe")}
	names := append([]string{}, chain...)
	if trailingForward {
		names = append(names, "forward")
	}
	for _, n := range names {
		in := Instances[n]
		if in == nil {
			return nil, fmt.Errorf("unknown instance %q", n)
		}
		if in.Setup != nil {
			if err := in.Setup(e); err != nil {
				e.Close()
				return nil, err
			}
		}
		rules = append(rules, in.Rules...)
	}
	seq, err := sequence.NewSequence(sequence.NewBQ(e.M, e.M.Logger()), rules)
	if err != nil {
		e.Close()
		return nil, err
	}
	e.Seq = seq
	e.Handler = server_handler.NewEntryHandler(server_handler.EntryHandlerOpts{Entry: seq})
	e.HTTP = server.NewHttpHandler(e.Handler, server.HttpHandlerOpts{})
	return e, nil
}

// Close stops every background goroutine of the plugins (cache sweepers ...).
func (e *Env) Close() {
	if e.Seq != nil {
		_ = e.Seq.Close()
	}
	for i := len(e.closers) - 1; i >= 0; i-- {
		_ = e.closers[i].Close()
	}
	e.closers = nil
}

// StoredInCaches returns the messages held by every cache plugin of the
// environment (tagged ones only; C15 uses tagged caches).
func (e *Env) StoredInCaches() []*dns.Msg {
	var out []*dns.Msg
	for _, p := range e.Plugins {
		if c, ok := p.(*cache.Cache); ok {
			out = append(out, c.VerifStored()...)
		}
	}
	return out
}

// ChainInfo summarises the static properties of a chain.
func ChainInfo(chain []string, trailingForward bool) (stateful, usesUp bool) {
	for _, n := range chain {
		if in := Instances[n]; in != nil {
			stateful = stateful || in.Stateful
			usesUp = usesUp || in.UsesUp
		}
	}
	return stateful, usesUp || trailingForward
}
