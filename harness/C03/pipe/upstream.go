package hpipe

import (
	"strconv"
	"context"
	"errors"
	"fmt"
	"net"
	"strings"

	"github.com/IrineSistiana/mosdns/v5/pkg/pool"
	"github.com/IrineSistiana/mosdns/v5/zz_verif/vs"
	"github.com/miekg/dns"
)

// UpOutcome scripts the fake upstream. The answer always echoes the ID and the
// question of the query the upstream received.
type UpOutcome struct {
	Kind  string `json:"kind"`            // answer | error | garbage | timeout
	Rcode int    `json:"rcode,omitempty"` // 0..4095 (>15 travels in the answer's OPT)
	// Size > 0: the answer (without OPT) has exactly this uncompressed wire size
	// (records of the question's type plus one TXT filler); Size == 0: NRec records.
	Size int  `json:"size,omitempty"`
	NRec int  `json:"nrec,omitempty"`
	TC   bool `json:"tc,omitempty"`
	// Compressible > 0: that many records all owned by the question name and
	// enough of them that the answer exceeds Compressible bytes uncompressed
	// while its compressed form still fits 65535 bytes (skipped when impossible).
	Compressible int `json:"compressible,omitempty"`
	// HasOpt: the answer carries an OPT record with the listed options
	// ("padding", "cookie", "ecs", "o65001").
	HasOpt  bool     `json:"has_opt,omitempty"`
	Options []string `json:"options,omitempty"`
	// OptFirst: the OPT is the FIRST additional record and is followed by an ordinary
	// additional record (RFC 6891 6.1.1 lets the OPT sit anywhere in the additional section).
	OptFirst bool `json:"opt_first,omitempty"`
	// Fail: the exchange with the upstream fails (error outcome).
}

func (o UpOutcome) Label() string {
	switch o.Kind {
	case "answer":
		s := fmt.Sprintf("ans/rc%d", o.Rcode)
		if o.Size > 0 {
			s += fmt.Sprintf("/size%d", o.Size)
		} else if o.Compressible > 0 {
			s += "/compressible"
		} else {
			s += fmt.Sprintf("/n%d", o.NRec)
		}
		if o.TC {
			s += "/tc"
		}
		if o.HasOpt {
			s += "/opt[" + strings.Join(o.Options, "+") + "]"
		}
		return s
	}
	return o.Kind
}

var ErrScripted = errors.New("scripted upstream failure")

// FakeUpstream implements upstream.Upstream.
type FakeUpstream struct {
	Script   UpOutcome
	Received [][]byte // every query payload handed to the upstream (copies)
	Sent     []*dns.Msg
	Skipped  bool // the scripted answer could not be realised (size impossible)
}

func (u *FakeUpstream) Close() error { return nil }

func (u *FakeUpstream) ResetLog() { u.Received, u.Sent, u.Skipped = nil, nil, false }

func (u *FakeUpstream) ExchangeContext(ctx context.Context, m []byte) (*[]byte, error) {
	u.Received = append(u.Received, append([]byte(nil), m...))
	switch u.Script.Kind {
	case "error":
		return nil, ErrScripted
	case "timeout":
		vs.Recv(ctx.Done())
		return nil, ctx.Err()
	case "garbage":
		// not a DNS message: one question announced, its name runs past the end
		// (a bare 12-octet header would be accepted by miekg/dns as a reply without question)
		b := pool.GetBuf(15)
		copy(*b, []byte{m[0], m[1], 0x80, 0, 0, 1, 0, 0, 0, 0, 0, 0, 63, 'x', 'y'})
		return b, nil
	}
	q := new(dns.Msg)
	if err := q.Unpack(m); err != nil || len(q.Question) != 1 {
		return nil, fmt.Errorf("fake upstream: unusable query: %v", err)
	}
	r := BuildAnswer(q, u.Script)
	if r == nil {
		u.Skipped = true
		r = new(dns.Msg)
		r.SetReply(q)
	}
	u.Sent = append(u.Sent, r.Copy())
	r.Compress = true
	wire, err := r.Pack()
	if err != nil {
		return nil, fmt.Errorf("fake upstream: cannot pack scripted answer: %w", err)
	}
	if len(wire) > dns.MaxMsgSize {
		return nil, fmt.Errorf("fake upstream: scripted answer has %d bytes", len(wire))
	}
	b := pool.GetBuf(len(wire))
	copy(*b, wire)
	return b, nil
}

// MkRR makes the i-th answer record for question qu (type follows the question).
func MkRR(qu dns.Question, i int) dns.RR {
	h := dns.RR_Header{Name: qu.Name, Class: qu.Qclass, Ttl: 300}
	if h.Class == dns.ClassANY || h.Class == dns.ClassNONE {
		h.Class = dns.ClassINET
	}
	t := qu.Qtype
	if t == dns.TypeANY {
		if i%2 == 0 {
			t = dns.TypeA
		} else {
			t = dns.TypeTXT
		}
	}
	switch t {
	case dns.TypeA:
		h.Rrtype = dns.TypeA
		return &dns.A{Hdr: h, A: net.IPv4(10, byte(i>>16), byte(i>>8), byte(i)).To4()}
	case dns.TypeAAAA:
		h.Rrtype = dns.TypeAAAA
		ip := net.ParseIP("2001:db8::")
		ip[13], ip[14], ip[15] = byte(i>>16), byte(i>>8), byte(i)
		return &dns.AAAA{Hdr: h, AAAA: ip}
	case dns.TypeCAA:
		h.Rrtype = dns.TypeCAA
		return &dns.CAA{Hdr: h, Flag: 0, Tag: "issue", Value: fmt.Sprintf("ca%d.test", i)}
	default:
		h.Rrtype = dns.TypeTXT
		return &dns.TXT{Hdr: h, Txt: []string{fmt.Sprintf("record-%d", i)}}
	}
}

// filler returns a TXT record owned by the question name whose uncompressed
// wire size is exactly n (nil if n is too small).
func filler(qu dns.Question, n int) dns.RR {
	h := dns.RR_Header{Name: qu.Name, Rrtype: dns.TypeTXT, Class: dns.ClassINET, Ttl: 300}
	fixed := dns.Len(&dns.TXT{Hdr: h, Txt: []string{""}}) - 1 // owner + type/class/ttl/rdlength
	p := n - fixed                                            // bytes of character-strings (1 length octet each)
	if p < 1 || p > 65535 {
		return nil
	}
	var txt []string
	for p > 0 {
		k := p
		if k > 256 {
			k = 256
		}
		txt = append(txt, strings.Repeat("f", k-1))
		p -= k
	}
	return &dns.TXT{Hdr: h, Txt: txt}
}

// BuildAnswer builds the scripted answer to q (nil when the requested size
// cannot be realised for this question).
func BuildAnswer(q *dns.Msg, o UpOutcome) *dns.Msg {
	r := new(dns.Msg)
	r.SetReply(q)
	r.Rcode = o.Rcode
	r.Truncated = o.TC
	qu := q.Question[0]
	switch {
	case o.Size > 0:
		cur := r.Len()
		probe := dns.Len(MkRR(qu, 0)) + 8
		minFill := dns.Len(&dns.TXT{Hdr: dns.RR_Header{Name: qu.Name, Rrtype: dns.TypeTXT, Class: dns.ClassINET}, Txt: []string{""}})
		if o.Size < cur+minFill {
			return nil
		}
		i := 0
		for o.Size-cur > probe+minFill+300 {
			rr := MkRR(qu, i)
			r.Answer = append(r.Answer, rr)
			cur += dns.Len(rr)
			i++
		}
		f := filler(qu, o.Size-cur)
		if f == nil {
			return nil
		}
		r.Answer = append(r.Answer, f)
		if r.Len() != o.Size {
			panic(fmt.Sprintf("harness: built answer of %d bytes, wanted %d", r.Len(), o.Size))
		}
	case o.Compressible > 0:
		one := dns.Len(MkRR(qu, 0))
		n := (o.Compressible+400)/one + 1
		for i := 0; i < n; i++ {
			r.Answer = append(r.Answer, MkRR(qu, i))
		}
		c := r.Copy()
		c.Compress = true
		if c.Len() > dns.MaxMsgSize-64 || r.Len() <= o.Compressible {
			return nil
		}
	default:
		for i := 0; i < o.NRec; i++ {
			r.Answer = append(r.Answer, MkRR(qu, i))
		}
	}
	if o.HasOpt || o.Rcode > 0xF {
		opt := &dns.OPT{Hdr: dns.RR_Header{Name: ".", Rrtype: dns.TypeOPT}}
		opt.SetUDPSize(1400)
		for _, name := range o.Options {
			opt.Option = append(opt.Option, MkOption(name, true))
		}
		r.Extra = append(r.Extra, opt)
		if o.OptFirst {
			r.Extra = append(r.Extra, &dns.TXT{Hdr: dns.RR_Header{Name: "glue.example.", Rrtype: dns.TypeTXT, Class: dns.ClassINET, Ttl: 77}, Txt: []string{"additional record after the OPT"}})
		}
	}
	return r
}

// MkOption builds a recognisable EDNS0 option; the upstream's and the client's
// instances of the same code carry different data.
func MkOption(name string, fromUpstream bool) dns.EDNS0 {
	switch name {
	case "ecs":
		ip := net.IPv4(203, 0, 113, 0).To4() // client's subnet
		scope := uint8(0)
		if fromUpstream {
			ip = net.IPv4(198, 51, 100, 0).To4()
			scope = 24
		}
		return &dns.EDNS0_SUBNET{Code: dns.EDNS0SUBNET, Family: 1, SourceNetmask: 24, SourceScope: scope, Address: ip}
	case "cookie":
		if fromUpstream {
			return &dns.EDNS0_COOKIE{Code: dns.EDNS0COOKIE, Cookie: "0102030405060708aabbccddeeff0011"}
		}
		return &dns.EDNS0_COOKIE{Code: dns.EDNS0COOKIE, Cookie: "c1c2c3c4c5c6c7c8"}
	case "padding":
		if fromUpstream {
			return &dns.EDNS0_PADDING{Padding: make([]byte, 37)}
		}
		return &dns.EDNS0_PADDING{Padding: make([]byte, 13)}
	case "o65001":
		if fromUpstream {
			return &dns.EDNS0_LOCAL{Code: 65001, Data: []byte("upstream-local")}
		}
		return &dns.EDNS0_LOCAL{Code: 65001, Data: []byte("client-local")}
	}
	if len(name) > 1 && name[0] == 'o' {
		if n, err := strconv.ParseUint(name[1:], 10, 16); err == nil {
			if fromUpstream {
				return &dns.EDNS0_LOCAL{Code: uint16(n), Data: []byte("upstream-local")}
			}
			return &dns.EDNS0_LOCAL{Code: uint16(n), Data: []byte("client-local")}
		}
	}
	panic("unknown option " + name)
}
