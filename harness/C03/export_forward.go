package fastforward

// Harness-only constructor (mounted by the verification overlay, never part of
// the repository): builds a real *Forward around caller supplied
// upstream.Upstream implementations. NewForward only accepts URLs; everything
// else (Exec, exchange, upstreamWrapper) is the stock code.

import (
	"fmt"

	"github.com/IrineSistiana/mosdns/v5/pkg/upstream"
	"go.uber.org/zap"
)

func VerifNewForward(us []upstream.Upstream, concurrent int) *Forward {
	f := &Forward{
		args:         &Args{Concurrent: concurrent},
		logger:       zap.NewNop(),
		tag2Upstream: make(map[string]*upstreamWrapper),
	}
	for i, u := range us {
		uw := newWrapper(i, UpstreamConfig{Addr: fmt.Sprintf("fake://%d", i)}, "")
		uw.u = u
		f.us = append(f.us, uw)
	}
	return f
}
