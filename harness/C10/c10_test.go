package cache

import (
	"errors"
	"bytes"
	"context"
	"encoding/hex"
	"encoding/json"
	"fmt"
	"hash/fnv"
	"net"
	"os"
	"sort"
	"strconv"
	"strings"
	"testing"
	"time"

	"github.com/IrineSistiana/mosdns/v5/pkg/query_context"
	"github.com/IrineSistiana/mosdns/v5/plugin/executable/sequence"
	"github.com/IrineSistiana/mosdns/v5/zz_verif/vr"
	"github.com/IrineSistiana/mosdns/v5/zz_verif/vs"
	"github.com/miekg/dns"
)

// C10: cached answers are isolated from every caller's mutations.
//
// Explicit-state breadth-first search over operation sequences on ONE real Cache
// (lazy_cache_ttl on, virtual clock). Successor = replay of the shortest path on
// a fresh Cache + one op. After every executed op two oracles run:
//   (1) reference comparison: every answer served from the cache (by the op itself
//       and by probe queries for both questions, before and after letting pending
//       background refreshes finish) has exactly the packed bytes of the upstream
//       answer it was stored from, minus OPT, TTLs aged by the elapsed virtual
//       time (or 5 for a lazy hit), carrying the ID of the query it answers;
//   (2) heap disjointness: a reflective walk over every stored item and every
//       message handed out so far finds no shared pointer target / slice backing
//       array / map (strings excepted).
// Given (2), editing a handed-out message cannot reach the cache, hence the
// canonical state ignores the contents of handed-out messages: mutation ops are
// (checked) transitions that only consume their target.

const (
	c10LazyTTL   = 3600
	c10MsgTTL    = 60 // minimal TTL of every upstream answer => message lifetime
	c10Tick      = 7 * time.Second
	c10ExpireAdv = 61 * time.Second
)

var c10Names = [2]string{"one.c10.test.", "two.c10.test."}
var c10Types = [2]uint16{dns.TypeA, dns.TypeTXT}

func c10KeyIndex(name string) int {
	if name == c10Names[1] {
		return 1
	}
	return 0
}

// c10Build returns a FRESH upstream answer (no memory shared with any earlier
// call) for question k, upstream generation gen, and its OPT record (detached).
func c10Build(k, gen int, id uint16) (*dns.Msg, *dns.OPT) {
	name := c10Names[k]
	alias := fmt.Sprintf("alias%d.c10.test.", k)
	m := new(dns.Msg)
	m.Id = id
	m.Response = true
	m.RecursionDesired = true
	m.RecursionAvailable = true
	m.AuthenticatedData = k == 1
	m.Question = []dns.Question{{Name: name, Qtype: c10Types[k], Qclass: dns.ClassINET}}
	m.Answer = []dns.RR{
		&dns.CNAME{Hdr: dns.RR_Header{Name: name, Rrtype: dns.TypeCNAME, Class: dns.ClassINET, Ttl: 600}, Target: alias},
		&dns.A{Hdr: dns.RR_Header{Name: alias, Rrtype: dns.TypeA, Class: dns.ClassINET, Ttl: 300}, A: net.IP{192, 0, 2, byte(10*k + gen)}},
		&dns.TXT{Hdr: dns.RR_Header{Name: alias, Rrtype: dns.TypeTXT, Class: dns.ClassINET, Ttl: 120}, Txt: []string{fmt.Sprintf("q%d gen%d", k+1, gen), "second string"}},
	}
	m.Ns = []dns.RR{
		&dns.SOA{Hdr: dns.RR_Header{Name: "c10.test.", Rrtype: dns.TypeSOA, Class: dns.ClassINET, Ttl: c10MsgTTL}, Ns: "ns.c10.test.", Mbox: "hostmaster.c10.test.",
			Serial: uint32(2024000000 + 100*k + gen), Refresh: 7200, Retry: 3600, Expire: 1209600, Minttl: 90},
	}
	ip6 := make(net.IP, 16)
	copy(ip6, []byte{0x20, 0x01, 0x0d, 0xb8})
	ip6[15] = byte(10*k + gen)
	m.Extra = []dns.RR{
		&dns.AAAA{Hdr: dns.RR_Header{Name: "ns.c10.test.", Rrtype: dns.TypeAAAA, Class: dns.ClassINET, Ttl: 180}, AAAA: ip6},
		&dns.A{Hdr: dns.RR_Header{Name: "ns.c10.test.", Rrtype: dns.TypeA, Class: dns.ClassINET, Ttl: 240}, A: net.IP{198, 51, 100, byte(10*k + gen)}},
	}
	opt := &dns.OPT{Hdr: dns.RR_Header{Name: ".", Rrtype: dns.TypeOPT}}
	opt.SetUDPSize(1232)
	opt.SetDo(true)
	opt.Option = []dns.EDNS0{
		&dns.EDNS0_LOCAL{Code: 65001, Data: []byte{1, 2, 3, byte(gen)}},
		&dns.EDNS0_SUBNET{Code: dns.EDNS0SUBNET, Family: 1, SourceNetmask: 24, Address: net.IP{203, 0, 113, 0}},
	}
	return m, opt
}

// c10Ref is the reference model of what a hit must serve: the upstream answer of
// generation gen without OPT, TTLs aged by elapsedSec (fresh hit) or set to 5
// (lazy hit), with the querying client's id.
func c10Ref(k, gen int, id uint16, lazy bool, elapsedSec uint32) *dns.Msg {
	m, _ := c10Build(k, gen, id)
	for _, sec := range [][]dns.RR{m.Answer, m.Ns, m.Extra} {
		for _, rr := range sec {
			if lazy {
				rr.Header().Ttl = 5
			} else {
				rr.Header().Ttl -= elapsedSec // elapsedSec < 60 <= every TTL
			}
		}
	}
	return m
}

type c10ModelEntry struct {
	present  bool
	gen      int
	storedAt time.Duration // virtual time of the store
}

type c10Call struct {
	k        int
	produced *c10Handed // nil: response was already set (hit passed down the chain)
	inDrain  bool
}

type c10Viol struct {
	Sig, Desc string
}

type c10Sys struct {
	c     *Cache
	chain []*sequence.ChainNode

	nextGen [2]int
	model   [2]c10ModelEntry
	pending [2]bool // background refresh started and not yet drained (model)

	slotRet  *c10Handed // last message served from the cache to an op query (not yet mutated)
	slotOrig *c10Handed // last message the next plugin handed to the cache (not yet mutated)
	handed   []*c10Handed
	queries  []*dns.Msg

	calls     []c10Call
	inDrain   bool
	ended     bool
	lateCalls int
	qSeq      int
	lastMut   string
	failDownstream    bool // the current query's chain fails after the upstream has answered
	rewriteDownstream bool // the current query runs with a response-rewriting plugin behind the cache
	viols     []c10Viol
	infra     string
	verbose   bool
}

type c10Next struct{ s *c10Sys }

// Exec is the rest of the chain behind the cache: an upstream that answers when
// there is no response yet.
func (n *c10Next) Exec(_ context.Context, qCtx *query_context.Context) error {
	s := n.s
	if s.ended {
		s.lateCalls++
	}
	q := qCtx.Q()
	k := c10KeyIndex(q.Question[0].Name)
	if r := qCtx.R(); r != nil {
		s.calls = append(s.calls, c10Call{k: k, inDrain: s.inDrain})
		if s.rewriteDownstream && !s.inDrain {
			// a plugin behind the cache (ttl, an rdata rewriter) edits the served response in place
			for _, rr := range r.Answer {
				rr.Header().Ttl = 600
				if a, ok := rr.(*dns.A); ok && len(a.A) == 4 {
					a.A[3] ^= 0xFF
				}
			}
		}
		return nil
	}
	gen := s.nextGen[k] + 1
	s.nextGen[k] = gen
	r, opt := c10Build(k, gen, q.Id)
	if k == 0 {
		// usual plugin behaviour: answer arrives with its OPT, SetResponse detaches it
		r.Extra = append([]dns.RR{opt}, r.Extra...)
		qCtx.SetResponse(r)
	} else {
		// a chain that leaves an OPT inside the response handed to the cache
		qCtx.SetResponse(r)
		r.Extra = []dns.RR{r.Extra[0], opt, r.Extra[1]}
	}
	kind := "upstream"
	if s.inDrain {
		kind = "refresh"
	}
	h := &c10Handed{kind: kind, k: k, gen: gen, msg: r, opt: opt}
	h.root = &c10Root{Kind: kind, Name: fmt.Sprintf("%s answer q%d gen%d", kind, k+1, gen), Objs: []any{r, opt}}
	s.handed = append(s.handed, h)
	s.slotOrig = h
	s.model[k] = c10ModelEntry{present: true, gen: gen, storedAt: vs.Elapsed()}
	s.calls = append(s.calls, c10Call{k: k, produced: h, inDrain: s.inDrain})
	if s.failDownstream && !s.inDrain {
		return errC10Downstream // a later plugin of the chain (ipset, nftset, ...) fails
	}
	return nil
}

var errC10Downstream = errors.New("c10: a plugin behind the upstream failed")

func c10NewSys() *c10Sys {
	s := &c10Sys{lastMut: "none"}
	s.c = NewCache(&Args{Size: 1024, LazyCacheTTL: c10LazyTTL}, Opts{})
	s.chain = []*sequence.ChainNode{{E: &c10Next{s: s}}}
	return s
}

func (s *c10Sys) violate(sig, desc string) {
	for _, v := range s.viols {
		if v.Sig == sig {
			return
		}
	}
	s.viols = append(s.viols, c10Viol{sig, desc})
}

func c10Pack(m *dns.Msg) []byte {
	b, err := m.Pack()
	if err != nil {
		return []byte("PACK-ERROR: " + err.Error())
	}
	return b
}

// query runs one client query through the real Cache.Exec. It returns
// miss | hit | lazy | none and the message handed to the caller.
func (s *c10Sys) query(k int, id uint16, probe bool, check bool) (string, *c10Handed) {
	q := new(dns.Msg)
	q.SetQuestion(c10Names[k], c10Types[k])
	q.Id = id
	s.queries = append(s.queries, q)
	qCtx := query_context.NewContext(q)
	s.calls = s.calls[:0]
	w := sequence.NewChainWalker(s.chain, nil)
	if err := s.c.Exec(context.Background(), qCtx, w); err != nil && !(s.failDownstream && errors.Is(err, errC10Downstream)) {
		s.infra = "Cache.Exec returned an error: " + err.Error()
		return "none", nil
	}
	r := qCtx.R()
	var produced *c10Handed
	for _, c := range s.calls {
		if c.produced != nil {
			produced = c.produced
		}
	}
	if r == nil {
		s.infra = "no response after Exec"
		return "none", nil
	}
	if produced != nil { // miss: the caller owns the very message the upstream produced
		if r != produced.msg {
			s.infra = "miss returned a message that is not the upstream's"
		}
		if probe {
			produced.kind = "probe"
			produced.root.Kind = "probe"
		} else {
			s.slotRet = nil // same object as slotOrig
		}
		return "miss", produced
	}
	// served from the cache
	me := s.model[k]
	kind := "hit"
	h := &c10Handed{kind: kind, k: k, gen: me.gen, msg: r}
	h.root = &c10Root{Kind: kind, Objs: []any{r}}
	s.handed = append(s.handed, h)
	if !me.present {
		if check {
			s.violate("bytes/hit-unknown-origin/"+s.lastMut, fmt.Sprintf("query for q%d was served from the cache although no upstream answer was ever stored for it:\n%s", k+1, r.String()))
		}
		h.root.Name = fmt.Sprintf("served q%d (unknown origin)", k+1)
		return "hit", h
	}
	elapsed := vs.Elapsed() - me.storedAt
	lazy := elapsed >= c10MsgTTL*time.Second
	if lazy {
		kind = "lazy"
		s.pending[k] = true
	}
	h.kind = kind
	h.root.Kind = kind
	h.root.Name = fmt.Sprintf("%s served q%d gen%d id=%#x", kind, k+1, me.gen, id)
	if probe {
		h.root.Kind = "probe"
	} else {
		s.slotRet = h
	}
	if check {
		if r.Id != id {
			s.violate("id/hit-carries-wrong-id/"+kind, fmt.Sprintf("%s hit for query id %#x of q%d carries id %#x", kind, id, k+1, r.Id))
		}
		want := c10Ref(k, me.gen, r.Id, lazy, uint32(elapsed/time.Second))
		if wb, gb := c10Pack(want), c10Pack(r); !bytes.Equal(wb, gb) {
			s.violate("bytes/hit-differs-after/"+s.lastMut, fmt.Sprintf("%s hit for q%d (elapsed %s since store of upstream generation %d) differs from the reference.\n--- served:\n%s\n--- reference (upstream answer without OPT, aged TTLs):\n%s\nserved  %x\nwant    %x",
				kind, k+1, elapsed, me.gen, r.String(), want.String(), gb, wb))
		}
	}
	return kind, h
}

// drain lets every runnable background goroutine (lazy refresh, cleaner) run
// until it blocks or ends, without moving the virtual clock: the helper thread
// has the highest id, the default schedule runs lower ids first.
func (s *c10Sys) drain() int {
	s.inDrain = true
	s.calls = s.calls[:0]
	done := false
	vs.GoNamed("c10-drain", func() { done = true })
	vs.Block("c10-drain-wait", nil, func() bool { return done })
	s.inDrain = false
	n := 0
	for _, c := range s.calls {
		if c.produced != nil {
			n++
		}
	}
	s.pending = [2]bool{}
	return n
}

func (s *c10Sys) anyPending() bool { return s.pending[0] || s.pending[1] }

type c10Stored struct {
	key      string
	it       *item
	cacheExp time.Time
}

func (s *c10Sys) stored() []c10Stored {
	var out []c10Stored
	_ = s.c.backend.Range(func(k key, v *item, exp time.Time) error {
		out = append(out, c10Stored{string(k), v, exp})
		return nil
	})
	sort.Slice(out, func(i, j int) bool { return out[i].key < out[j].key })
	return out
}

var c10KindRank = map[string]int{"stored": 0, "upstream": 1, "refresh": 2, "hit": 3, "lazy": 4, "probe": 5, "query": 6}

func c10PathClass(p string) string {
	p = strings.TrimPrefix(p, "resp")
	p = strings.TrimPrefix(p, ".")
	if p == "" {
		return "Msg"
	}
	return p
}

// checkDisjoint is oracle (2).
func (s *c10Sys) checkDisjoint(when string, stored []c10Stored) {
	var roots []*c10Root
	for _, st := range stored {
		roots = append(roots, &c10Root{Kind: "stored", Name: "item stored under key " + hex.EncodeToString([]byte(st.key)), Objs: []any{st.it}})
	}
	for _, h := range s.handed {
		roots = append(roots, h.root)
	}
	for i, q := range s.queries {
		roots = append(roots, &c10Root{Kind: "query", Name: fmt.Sprintf("query #%d", i), Objs: []any{q}})
	}
	for _, sh := range c10FindSharing(roots) {
		a, b, pa, pb := sh.A, sh.B, sh.PathA, sh.PathB
		if c10KindRank[a.Kind] > c10KindRank[b.Kind] {
			a, b, pa, pb = b, a, pb, pa
		}
		sig := fmt.Sprintf("share/%s-vs-%s/%s", a.Kind, b.Kind, c10PathClass(pa))
		s.violate(sig, fmt.Sprintf("%s: mutable memory shared between [%s] (at %s) and [%s] (at %s)", when, a.Name, c10PathClass(pa), b.Name, c10PathClass(pb)))
	}
}

func (h *c10Handed) slotKey() string {
	if h == nil {
		return "-"
	}
	return fmt.Sprintf("%s:q%d:g%d", h.kind, h.k+1, h.gen)
}

// stateKey is the canonical state: real cache contents (key -> packed stored
// message, stored / message-expiry / cache-expiry offsets from now), upstream
// generation counters, reference-model entries, pending refreshes and the
// still-referenced mutation targets.
func (s *c10Sys) stateKey(stored []c10Stored) string {
	var sb strings.Builder
	now := vs.Now()
	for _, st := range stored {
		// The stored message's Id (the id of the query that caused the store) is
		// the one component left out: hits overwrite it, and query ids are a
		// path-dependent counter that must not leak into the canonical state.
		// (A hit that fails to overwrite it is flagged by the id oracle.)
		pm := *st.it.resp
		pm.Id = 0
		fmt.Fprintf(&sb, "E[%x|%x|st%d|me%d|ce%d]", st.key, c10Pack(&pm), now.Sub(st.it.storedTime), st.it.expirationTime.Sub(now), st.cacheExp.Sub(now))
	}
	for k := 0; k < 2; k++ {
		me := s.model[k]
		age := time.Duration(-1)
		if me.present {
			age = vs.Elapsed() - me.storedAt
		}
		fmt.Fprintf(&sb, "M[%d|g%d|ng%d|a%d|p%v]", k, me.gen, s.nextGen[k], age, s.pending[k])
	}
	fmt.Fprintf(&sb, "S[%s|%s]", s.slotRet.slotKey(), s.slotOrig.slotKey())
	// the message the upstream produced last may still be referenced by the plugin (a store that
	// has not happened yet, a background writer): what has been done to it is part of the state.
	// Without this all "mutate the original" successors of a miss collapse into the harmless first one.
	for i := len(s.handed) - 1; i >= 0; i-- {
		if h := s.handed[i]; h.kind == "upstream" || h.kind == "refresh" || h.kind == "probe" {
			pm := *h.msg
			pm.Id = 0
			fmt.Fprintf(&sb, "U[%x]", c10Hash(string(c10Pack(&pm))))
			break
		}
	}
	return sb.String()
}

// ---------------------------------------------------------------------------
// operations

type c10OpInfo struct {
	class   string // query | tick | expire | drain | mut-<kind>/<class>
	outcome string
}

func (s *c10Sys) apply(op string, check bool) c10OpInfo {
	switch {
	case op == "":
		return c10OpInfo{"init", "init"}
	case op == "q1" || op == "q2":
		k := int(op[1] - '1')
		s.qSeq++
		wasPending := s.pending[k]
		res, _ := s.query(k, uint16(0x1000+s.qSeq), false, check)
		if res == "lazy" && wasPending {
			res = "lazy-refresh-already-pending"
		}
		return c10OpInfo{"query", "query/" + res}
	case op == "qe1":
		// q1 whose chain fails after the upstream answered: the server will discard this
		// response, the plugins in front of the cache (and the harness) still hold it
		s.qSeq++
		s.failDownstream = true
		res, _ := s.query(0, uint16(0x1000+s.qSeq), false, check)
		s.failDownstream = false
		return c10OpInfo{"query-chain-fails", "query-chain-fails/" + res}
	case op == "qd1":
		// q1 with a plugin behind the cache that rewrites whatever response passes (TTLs to 600,
		// address bits flipped): what THIS client gets is the rewritten answer and is not judged;
		// what the cache serves afterwards must not have changed
		s.qSeq++
		s.rewriteDownstream = true
		res, _ := s.query(0, uint16(0x1000+s.qSeq), false, false)
		s.rewriteDownstream = false
		s.slotRet = nil
		s.lastMut = "downstream-rewrite"
		return c10OpInfo{"query-rewritten-downstream", "query-rewritten-downstream/" + res}
	case op == "tick":
		vs.Advance(c10Tick)
		return c10OpInfo{"tick", "tick"}
	case op == "expire":
		vs.Advance(c10ExpireAdv)
		return c10OpInfo{"expire", "expire"}
	case op == "drain":
		n := s.drain()
		return c10OpInfo{"drain", fmt.Sprintf("drain/refreshed-%d", n)}
	case strings.HasPrefix(op, "mut:"):
		p := strings.SplitN(op, ":", 3)
		if len(p) != 3 {
			break
		}
		var h *c10Handed
		if p[1] == "ret" {
			h, s.slotRet = s.slotRet, nil
		} else {
			h, s.slotOrig = s.slotOrig, nil
			if s.slotRet == h {
				s.slotRet = nil
			}
		}
		m, ok := c10MutByName[p[2]]
		if !ok || h == nil {
			s.infra = "op not applicable: " + op
			return c10OpInfo{"bad", "bad"}
		}
		m.Apply(h)
		cl := fmt.Sprintf("mut-%s/%s", h.kind, m.Class)
		s.lastMut = cl
		return c10OpInfo{cl, cl}
	}
	s.infra = "unknown op " + op
	return c10OpInfo{"bad", "bad"}
}

var c10Muts = c10Mutations()
var c10MutByName = func() map[string]c10Mut {
	m := map[string]c10Mut{}
	for _, x := range c10Muts {
		m[x.Name] = x
	}
	return m
}()

type c10Result struct {
	key     string
	outcome string
	class   string
	viols   []c10Viol
	infra   string
	hasRet  bool
	hasOrig bool
	pending bool
	steps   int // real-code calls (Exec) executed
	nStored int
	nHanded int
}

// c10Exec replays path on a fresh Cache, executes op with all oracles and
// returns the canonical key of the reached state.
func c10Exec(path []string, op string, verbose bool) c10Result {
	var out c10Result
	x := vs.Run1(vs.Config{NoWatchdog: true}, func() {
		s := c10NewSys()
		s.verbose = verbose
		for _, p := range path {
			s.apply(p, false)
			if s.infra != "" {
				break
			}
		}
		if s.infra == "" {
			info := s.apply(op, true)
			out.class = info.class
			st := s.stored() // one locked Range over the real backend
			s.checkDisjoint("after "+op, st)
			out.key = s.stateKey(st)
			out.hasRet, out.hasOrig, out.pending = s.slotRet != nil, s.slotOrig != nil, s.anyPending()
			out.nStored = len(st)
			// destructive probes: what would the next query for each question be served?
			var pr []string
			for k := 0; k < 2; k++ {
				r, _ := s.query(k, uint16(0x7000+2*k), true, true)
				pr = append(pr, r)
			}
			s.drain()
			for k := 0; k < 2; k++ {
				r, _ := s.query(k, uint16(0x7001+2*k), true, true)
				pr = append(pr, r)
			}
			s.drain()
			s.checkDisjoint("after probes following "+op, s.stored())
			out.outcome = info.outcome + "|next:" + pr[0] + "," + pr[1]
			out.steps = s.qSeq + 4
			out.nHanded = len(s.handed)
		}
		_ = s.c.Close()
		s.ended = true
		out.viols = s.viols
		out.infra = s.infra
		c10LastSys = s // next calls after this point are detected after the run
	})
	if x.Panic != "" {
		out.infra = "panic during execution: " + x.Panic
	}
	if x.Livelock {
		out.infra = "livelock guard hit"
	}
	if c10LastSys != nil && c10LastSys.lateCalls > 0 && out.infra == "" {
		out.infra = "background work outlived the final drain (scheduler-order assumption broken)"
	}
	c10LastSys = nil
	return out
}

var c10LastSys *c10Sys

func c10EnabledOps(r c10Result) []string {
	// drain: every runnable background goroutine of the plugin runs until it blocks (a pending
	// lazy refresh, the cleaner, whatever else a change may add); a no-op when there is none
	ops := []string{"q1", "q2", "qd1", "qe1", "tick", "expire", "drain"}
	if r.hasRet {
		for _, m := range c10Muts {
			if !m.NeedOpt {
				ops = append(ops, "mut:ret:"+m.Name)
			}
		}
	}
	if r.hasOrig {
		for _, m := range c10Muts {
			ops = append(ops, "mut:orig:"+m.Name)
		}
	}
	return ops
}

type c10Node struct {
	path []string
	res  c10Result
}

func c10Hash(s string) uint64 {
	h := fnv.New64a()
	h.Write([]byte(s))
	return h.Sum64()
}

func TestVerifC10(t *testing.T) {
	e := vr.GetEnv()
	if in, ok := vr.ReplayInput(); ok {
		c10Replay(t, in)
		return
	}
	res := vr.New("C10", e)
	if msg := c10WalkerSelfTest(); msg != "" {
		res.Infra = "heap walker self-test failed: " + msg
		res.Write(e)
		return
	}
	depth := 6
	if e.Tier == "thorough" {
		depth = 8
	}
	if v, err := strconv.Atoi(os.Getenv("VERIF_C10_DEPTH")); err == nil && v > 0 {
		depth = v // experimentation knob; evidence records the depth actually used
	}
	// every shard explores levels < split completely (same deterministic order),
	// then the level-`split` frontier is dealt out round-robin
	split := depth - 2
	if split > 4 {
		split = 4
	}
	if e.Shards <= 1 || split < 0 {
		split = 0
	}
	res.Rule = "one evaluation = one operation sequence replayed on a fresh real Cache plus one new op, followed by both oracles and 4 probe queries; sequences are enumerated breadth-first over the op alphabet, a state (real cache contents incl. packed stored messages and time offsets, upstream generation counters, pending refreshes, live mutation targets) is expanded once; outcome classes = last op class (query result / clock op / drain / mutated-target-kind x field class) x what the next query for q1,q2 is served (miss|hit|lazy) before and after pending refreshes settle"
	res.Bounds["depth"] = depth
	res.Bounds["ops"] = "q1 q2 tick(+7s) expire(+61s) drain(if refresh pending) mut:ret:<f> mut:orig:<f>"
	res.Bounds["mutations"] = len(c10Muts)
	res.Bounds["mutation_classes"] = "hdr(12) question(6) rrhdr(6 RRs x name,ttl,class) rdata(A/AAAA bytes in place, A replace, CNAME target, TXT elem/append/truncoverwrite, 7 SOA fields) section(3 x append,trunc,truncoverwrite,setelem,nil) opt(option bytes in place, subnet in place, append, truncoverwrite, DO, udpsize) edns.append all"
	res.Bounds["questions"] = 2
	res.Bounds["lazy_cache_ttl"] = c10LazyTTL
	res.Bounds["upstream_answer"] = "CNAME+A+TXT answer, SOA authority, AAAA+A additional, OPT with LOCAL+SUBNET options (q1: detached by SetResponse, q2: left inside the response)"
	res.Bounds["shard_split_depth"] = split

	visited := map[string]struct{}{}
	root := c10Node{path: nil, res: c10Exec(nil, "", false)} // empty cache
	if root.res.infra != "" {
		res.Infra = "initial state: " + root.res.infra
		res.Write(e)
		return
	}
	for _, v := range root.res.viols { // found by the probe queries on the empty cache
		res.ViolateInput(v.Sig, "ops: (none; probes on the empty cache)\n"+v.Desc, map[string]any{"ops": []string{""}})
	}
	visited[root.res.key] = struct{}{}
	res.StateHashes = append(res.StateHashes, c10Hash(root.res.key))
	frontier := []c10Node{root}
	var tcount int64
	var levels []int // states expanded per depth by this shard
	completed := 0
	maxDepth := 0
	sampled := map[string]map[string]any{} // op class -> one concrete sequence
	stop := false
	for d := 0; d < depth && !stop; d++ {
		if d == split && e.Shards > 1 {
			var mine []c10Node
			for i, n := range frontier {
				if e.Mine(int64(i)) {
					mine = append(mine, n)
				}
			}
			frontier = mine
		}
		levels = append(levels, len(frontier))
		var next []c10Node
		for _, n := range frontier {
			if e.Expired() {
				stop = true
				break
			}
			for _, op := range c10EnabledOps(n.res) {
				r := c10Exec(n.path, op, false)
				tcount++
				count := d >= split || e.Mine(tcount)
				if r.infra != "" {
					res.Infra = fmt.Sprintf("ops %v + %s: %s", n.path, op, r.infra)
					res.Write(e)
					return
				}
				full := append(append([]string(nil), n.path...), op)
				for _, v := range r.viols {
					res.ViolateInput(v.Sig, fmt.Sprintf("ops: %s\n%s", strings.Join(full, " "), v.Desc), map[string]any{"ops": full})
				}
				if count {
					res.Transitions++
					res.Evaluations++
					oc := r.outcome
					if len(r.viols) > 0 {
						oc += "|VIOLATION"
					}
					res.Outcome(oc)
					if cur, ok := sampled[r.class]; !ok || len(cur["ops"].([]string)) < len(full) && len(cur["ops"].([]string)) < 4 {
						sampled[r.class] = map[string]any{"ops": full, "outcome": oc, "stored_entries": r.nStored, "messages_walked": r.nHanded}
					}
				}
				if _, seen := visited[r.key]; !seen {
					visited[r.key] = struct{}{}
					res.StateHashes = append(res.StateHashes, c10Hash(r.key))
					if len(full) > maxDepth {
						maxDepth = len(full)
					}
					if len(r.viols) == 0 { // error states are terminal: shortest counterexamples only
						next = append(next, c10Node{path: full, res: r})
					}
				}
			}
		}
		if !stop {
			completed = d + 1
		}
		frontier = next
	}
	res.States = int64(len(visited))
	{ // samples: one sequence per op class, rarest target kinds first
		rank := func(c string) int {
			for i, p := range []string{"mut-refresh/", "mut-lazy/", "drain", "mut-upstream/", "mut-hit/", "query", "expire", "tick"} {
				if strings.HasPrefix(c, p) {
					return i
				}
			}
			return 99
		}
		var cls []string
		for c := range sampled {
			cls = append(cls, c)
		}
		sort.Slice(cls, func(i, j int) bool {
			if ri, rj := rank(cls[i]), rank(cls[j]); ri != rj {
				return ri < rj
			}
			return cls[i] < cls[j]
		})
		seenRank := map[int]int{}
		for _, c := range cls {
			if seenRank[rank(c)] >= 1 {
				continue
			}
			seenRank[rank(c)]++
			res.Sample(sampled[c])
		}
	}
	res.Bounds["max_depth_reached"] = maxDepth
	if e.Shard == 0 {
		res.Bounds["shard0_states_expanded_per_depth"] = levels
	}
	res.Bounds["depth_fully_covered"] = completed
	if stop {
		res.Exhaustive = false
		res.Notes = append(res.Notes, fmt.Sprintf("budget expired in shard %d: all op sequences up to depth %d fully covered, depth %d partially", e.Shard, completed, completed+1))
	}
	res.Write(e)
}

func c10Replay(t *testing.T, in json.RawMessage) {
	var inp struct {
		Ops []string `json:"ops"`
	}
	if err := json.Unmarshal(in, &inp); err != nil || len(inp.Ops) == 0 {
		fmt.Println("INFRA: bad replay input:", err)
		t.Fatal("bad input")
	}
	bad := false
	for i := range inp.Ops {
		r := c10Exec(inp.Ops[:i], inp.Ops[i], true)
		fmt.Printf("step %d: %-40s -> %s\n", i+1, inp.Ops[i], r.outcome)
		if r.infra != "" {
			fmt.Println("INFRA:", r.infra)
			t.Fatal("infra")
		}
		for _, v := range r.viols {
			bad = true
			fmt.Printf("REPLAY-VIOLATION property=C10 sig=%s\n  %s\n", v.Sig, strings.ReplaceAll(v.Desc, "\n", "\n  "))
		}
	}
	if !bad {
		fmt.Println("REPLAY-OK: this operation sequence does not violate the property on the current tree")
	}
}

// c10WalkerSelfTest is a positive/negative control of oracle (2) run before every
// exploration: deep copies share nothing, and each classic aliasing shape is seen.
func c10WalkerSelfTest() string {
	a, _ := c10Build(0, 1, 1) // no OPT: what the cache stores and serves
	root := func(kind string, o ...any) *c10Root { return &c10Root{Kind: kind, Name: kind, Objs: o} }
	expect := func(name string, want string, roots ...*c10Root) string {
		sh := c10FindSharing(roots)
		got := ""
		if len(sh) > 0 {
			got = c10PathClass(sh[0].PathA)
		}
		if got != want {
			return fmt.Sprintf("%s: want sharing %q, got %q (%d pairs)", name, want, got, len(sh))
		}
		return ""
	}
	b := a.Copy()
	if m := expect("deep copy", "", root("a", a), root("b", b)); m != "" {
		return m
	}
	if m := expect("copyNoOpt-shaped item", "", root("stored", &item{resp: a.Copy()}), root("a", a), root("b", b)); m != "" {
		return m
	}
	if m := expect("same message behind an unexported field", "Msg", root("stored", &item{resp: a}), root("a", a)); m != "" {
		return m
	}
	sh := *a // shallow: shares all section backing arrays
	if m := expect("shallow struct copy", "Ns[]", root("a", a), root("sh", &dns.Msg{MsgHdr: sh.MsgHdr, Ns: sh.Ns})); m != "" {
		return m
	}
	c := a.Copy()
	c.Answer[1].(*dns.A).A = a.Answer[1].(*dns.A).A // only the address bytes are shared
	if m := expect("shared net.IP backing array", "Answer.*dns.A.A[]", root("a", a), root("c", c)); m != "" {
		return m
	}
	d := a.Copy()
	d.Answer = a.Answer[:0] // zero length, shared capacity
	if m := expect("zero-length reslice of a shared array", "Answer[]", root("a", a), root("d", d)); m != "" {
		return m
	}
	// two independent builds share nothing, even with their OPT records attached
	// (note: dns.Msg.Copy() is NOT used here - miekg/dns v1.1.62 EDNS0_SUBNET.copy()
	// shares the Address bytes, which is why the cache must never store an OPT)
	g1, o1 := c10Build(1, 1, 1)
	g2, o2 := c10Build(1, 1, 1)
	g1.Extra = append(g1.Extra, o1)
	g2.Extra = append(g2.Extra, o2)
	if m := expect("independent builds", "", root("g1", g1), root("g2", g2)); m != "" {
		return m
	}
	o2.Option[0] = o1.Option[0]
	if m := expect("shared EDNS0 option", "Extra.*dns.OPT.Option.*dns.EDNS0_LOCAL", root("g1", g1), root("g2", g2)); m != "" {
		return m
	}
	return ""
}
