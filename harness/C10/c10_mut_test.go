package cache

import (
	"net"

	"github.com/miekg/dns"
)

// Mutation alphabet of C10: every mutable component of a DNS message, edited the
// way later plugins / the server could (in place wherever Go allows it).

type c10Handed struct {
	root *c10Root
	kind string // upstream | refresh | hit | lazy | probe
	k    int    // question index
	gen  int    // upstream generation the message was derived from
	msg  *dns.Msg
	opt  *dns.OPT // upstream OPT belonging to msg (inside msg.Extra or detached by SetResponse); nil for served copies
}

type c10Mut struct {
	Name    string
	Class   string // hdr | question | rrhdr | rdata | section | opt | edns | all
	NeedOpt bool
	Apply   func(h *c10Handed)
}

func c10EvilRR() dns.RR {
	return &dns.A{Hdr: dns.RR_Header{Name: "evil.c10.test.", Rrtype: dns.TypeA, Class: dns.ClassINET, Ttl: 1}, A: net.IP{203, 0, 113, 66}}
}

func c10EvilOpt() *dns.OPT {
	o := &dns.OPT{Hdr: dns.RR_Header{Name: ".", Rrtype: dns.TypeOPT}}
	o.SetUDPSize(512)
	o.SetDo(true)
	o.Option = append(o.Option, &dns.EDNS0_LOCAL{Code: 65002, Data: []byte{0xee, 0xee}})
	return o
}

func c10FindRR[T dns.RR](sec []dns.RR) (T, bool) {
	for _, rr := range sec {
		if x, ok := rr.(T); ok {
			return x, true
		}
	}
	var z T
	return z, false
}

func c10Sec(m *dns.Msg, name string) *[]dns.RR {
	switch name {
	case "answer":
		return &m.Answer
	case "ns":
		return &m.Ns
	}
	return &m.Extra
}

// c10RRTargets: the records every upstream answer contains, addressed by section+type.
type c10RRTarget struct {
	name string
	get  func(m *dns.Msg) dns.RR
}

func c10RRTargets() []c10RRTarget {
	mk := func(name, sec string, typ uint16) c10RRTarget {
		return c10RRTarget{name: name, get: func(m *dns.Msg) dns.RR {
			for _, rr := range *c10Sec(m, sec) {
				if rr != nil && rr.Header().Rrtype == typ {
					return rr
				}
			}
			return nil
		}}
	}
	return []c10RRTarget{
		mk("answer.CNAME", "answer", dns.TypeCNAME),
		mk("answer.A", "answer", dns.TypeA),
		mk("answer.TXT", "answer", dns.TypeTXT),
		mk("ns.SOA", "ns", dns.TypeSOA),
		mk("extra.AAAA", "extra", dns.TypeAAAA),
		mk("extra.A", "extra", dns.TypeA),
	}
}

func c10Mutations() []c10Mut {
	var ms []c10Mut
	add := func(name, class string, f func(h *c10Handed)) {
		ms = append(ms, c10Mut{Name: name, Class: class, Apply: f})
	}
	addOpt := func(name string, f func(o *dns.OPT)) {
		ms = append(ms, c10Mut{Name: name, Class: "opt", NeedOpt: true, Apply: func(h *c10Handed) {
			if h.opt != nil {
				f(h.opt)
			}
		}})
	}
	// --- header -----------------------------------------------------------
	add("hdr.id", "hdr", func(h *c10Handed) { h.msg.Id ^= 0xffff })
	add("hdr.response", "hdr", func(h *c10Handed) { h.msg.Response = !h.msg.Response })
	add("hdr.opcode", "hdr", func(h *c10Handed) { h.msg.Opcode = dns.OpcodeNotify })
	add("hdr.aa", "hdr", func(h *c10Handed) { h.msg.Authoritative = !h.msg.Authoritative })
	add("hdr.tc", "hdr", func(h *c10Handed) { h.msg.Truncated = !h.msg.Truncated })
	add("hdr.rd", "hdr", func(h *c10Handed) { h.msg.RecursionDesired = !h.msg.RecursionDesired })
	add("hdr.ra", "hdr", func(h *c10Handed) { h.msg.RecursionAvailable = !h.msg.RecursionAvailable })
	add("hdr.z", "hdr", func(h *c10Handed) { h.msg.Zero = !h.msg.Zero })
	add("hdr.ad", "hdr", func(h *c10Handed) { h.msg.AuthenticatedData = !h.msg.AuthenticatedData })
	add("hdr.cd", "hdr", func(h *c10Handed) { h.msg.CheckingDisabled = !h.msg.CheckingDisabled })
	add("hdr.rcode", "hdr", func(h *c10Handed) { h.msg.Rcode = dns.RcodeNameError })
	add("hdr.compress", "hdr", func(h *c10Handed) { h.msg.Compress = !h.msg.Compress })
	// --- question ---------------------------------------------------------
	add("question.name", "question", func(h *c10Handed) {
		if len(h.msg.Question) > 0 {
			h.msg.Question[0].Name = "evil.c10.test."
		}
	})
	add("question.type", "question", func(h *c10Handed) {
		if len(h.msg.Question) > 0 {
			h.msg.Question[0].Qtype = dns.TypeMX
		}
	})
	add("question.class", "question", func(h *c10Handed) {
		if len(h.msg.Question) > 0 {
			h.msg.Question[0].Qclass = dns.ClassCHAOS
		}
	})
	add("question.append", "question", func(h *c10Handed) {
		h.msg.Question = append(h.msg.Question, dns.Question{Name: "evil.c10.test.", Qtype: dns.TypeA, Qclass: dns.ClassINET})
	})
	add("question.trunc", "question", func(h *c10Handed) { h.msg.Question = h.msg.Question[:0] })
	add("question.truncoverwrite", "question", func(h *c10Handed) {
		h.msg.Question = append(h.msg.Question[:0], dns.Question{Name: "evil.c10.test.", Qtype: dns.TypeA, Qclass: dns.ClassINET})
	})
	// --- RR header fields ---------------------------------------------------
	for _, tg := range c10RRTargets() {
		tg := tg
		add(tg.name+".hdr.name", "rrhdr", func(h *c10Handed) {
			if rr := tg.get(h.msg); rr != nil {
				rr.Header().Name = "evil.c10.test."
			}
		})
		add(tg.name+".hdr.ttl", "rrhdr", func(h *c10Handed) {
			if rr := tg.get(h.msg); rr != nil {
				rr.Header().Ttl = 7777
			}
		})
		add(tg.name+".hdr.class", "rrhdr", func(h *c10Handed) {
			if rr := tg.get(h.msg); rr != nil {
				rr.Header().Class = dns.ClassCHAOS
			}
		})
	}
	// --- rdata ---------------------------------------------------------------
	add("answer.CNAME.target", "rdata", func(h *c10Handed) {
		if rr, ok := c10FindRR[*dns.CNAME](h.msg.Answer); ok {
			rr.Target = "evil.c10.test."
		}
	})
	add("answer.A.ip-inplace", "rdata", func(h *c10Handed) {
		if rr, ok := c10FindRR[*dns.A](h.msg.Answer); ok && len(rr.A) > 0 {
			for i := range rr.A { // net.IP is a slice: edit the backing array
				rr.A[i] ^= 0xff
			}
		}
	})
	add("answer.A.ip-replace", "rdata", func(h *c10Handed) {
		if rr, ok := c10FindRR[*dns.A](h.msg.Answer); ok {
			rr.A = net.IP{203, 0, 113, 1}
		}
	})
	add("answer.TXT.elem", "rdata", func(h *c10Handed) {
		if rr, ok := c10FindRR[*dns.TXT](h.msg.Answer); ok && len(rr.Txt) > 0 {
			rr.Txt[0] = "evil"
		}
	})
	add("answer.TXT.append", "rdata", func(h *c10Handed) {
		if rr, ok := c10FindRR[*dns.TXT](h.msg.Answer); ok {
			rr.Txt = append(rr.Txt, "evil")
		}
	})
	add("answer.TXT.truncoverwrite", "rdata", func(h *c10Handed) {
		if rr, ok := c10FindRR[*dns.TXT](h.msg.Answer); ok {
			rr.Txt = append(rr.Txt[:0], "evil")
		}
	})
	soa := func(name string, f func(s *dns.SOA)) {
		add("ns.SOA."+name, "rdata", func(h *c10Handed) {
			if rr, ok := c10FindRR[*dns.SOA](h.msg.Ns); ok {
				f(rr)
			}
		})
	}
	soa("ns", func(s *dns.SOA) { s.Ns = "evil.c10.test." })
	soa("mbox", func(s *dns.SOA) { s.Mbox = "evil.c10.test." })
	soa("serial", func(s *dns.SOA) { s.Serial = 666 })
	soa("refresh", func(s *dns.SOA) { s.Refresh = 666 })
	soa("retry", func(s *dns.SOA) { s.Retry = 666 })
	soa("expire", func(s *dns.SOA) { s.Expire = 666 })
	soa("minttl", func(s *dns.SOA) { s.Minttl = 666 })
	add("extra.AAAA.ip-inplace", "rdata", func(h *c10Handed) {
		if rr, ok := c10FindRR[*dns.AAAA](h.msg.Extra); ok {
			for i := range rr.AAAA {
				rr.AAAA[i] ^= 0xff
			}
		}
	})
	add("extra.A.ip-inplace", "rdata", func(h *c10Handed) {
		if rr, ok := c10FindRR[*dns.A](h.msg.Extra); ok {
			for i := range rr.A {
				rr.A[i] ^= 0xff
			}
		}
	})
	// --- whole sections ------------------------------------------------------
	for _, sn := range []string{"answer", "ns", "extra"} {
		sn := sn
		add(sn+".append", "section", func(h *c10Handed) {
			s := c10Sec(h.msg, sn)
			*s = append(*s, c10EvilRR())
		})
		add(sn+".trunc", "section", func(h *c10Handed) {
			s := c10Sec(h.msg, sn)
			if len(*s) > 0 {
				*s = (*s)[:len(*s)-1]
			}
		})
		add(sn+".truncoverwrite", "section", func(h *c10Handed) {
			s := c10Sec(h.msg, sn)
			*s = append((*s)[:0], c10EvilRR())
		})
		add(sn+".setelem", "section", func(h *c10Handed) {
			s := c10Sec(h.msg, sn)
			for i := range *s {
				if _, isOpt := (*s)[i].(*dns.OPT); !isOpt {
					(*s)[i] = c10EvilRR()
				}
			}
		})
		add(sn+".nil", "section", func(h *c10Handed) { *c10Sec(h.msg, sn) = nil })
	}
	// --- upstream OPT (in the message or detached by SetResponse) --------------
	addOpt("opt.option.data-inplace", func(o *dns.OPT) {
		for _, e := range o.Option {
			if l, ok := e.(*dns.EDNS0_LOCAL); ok {
				for i := range l.Data {
					l.Data[i] ^= 0xff
				}
			}
		}
	})
	addOpt("opt.option.subnet-inplace", func(o *dns.OPT) {
		for _, e := range o.Option {
			if l, ok := e.(*dns.EDNS0_SUBNET); ok {
				for i := range l.Address {
					l.Address[i] ^= 0xff
				}
				l.SourceNetmask = 32
			}
		}
	})
	addOpt("opt.option.append", func(o *dns.OPT) {
		o.Option = append(o.Option, &dns.EDNS0_LOCAL{Code: 65003, Data: []byte{0xee}})
	})
	addOpt("opt.option.truncoverwrite", func(o *dns.OPT) {
		o.Option = append(o.Option[:0], &dns.EDNS0_LOCAL{Code: 65003, Data: []byte{0xee}})
	})
	addOpt("opt.hdr.do", func(o *dns.OPT) { o.SetDo(!o.Do()) })
	addOpt("opt.hdr.udpsize", func(o *dns.OPT) { o.SetUDPSize(512) })
	// --- the server appending an EDNS record to what it sends ---------------------
	add("edns.append", "edns", func(h *c10Handed) { h.msg.Extra = append(h.msg.Extra, c10EvilOpt()) })
	// --- everything at once ---------------------------------------------------------
	single := append([]c10Mut(nil), ms...)
	ms = append(ms, c10Mut{Name: "all", Class: "all", Apply: func(h *c10Handed) {
		for _, m := range single {
			if m.NeedOpt && h.opt == nil {
				continue
			}
			m.Apply(h)
		}
	}})
	return ms
}
