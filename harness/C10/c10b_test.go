package cache

import (
	"context"
	"encoding/hex"
	"fmt"
	"net"
	"strings"
	"testing"
	"time"

	"github.com/IrineSistiana/mosdns/v5/pkg/query_context"
	"github.com/IrineSistiana/mosdns/v5/plugin/executable/sequence"
	"github.com/IrineSistiana/mosdns/v5/zz_verif/vr"
	"github.com/IrineSistiana/mosdns/v5/zz_verif/vs"
	"github.com/miekg/dns"
)

// C10 part b: the disjointness invariant under real concurrency. 2-3 clients
// ask the same question at the same time - on an empty cache (concurrent
// misses), on a fresh entry (concurrent hits) and on an expired entry that is
// served lazily while one background refresh is in flight, with an upstream
// that answers at once, after 20 ms or after 1 s. All interleavings of the
// client threads, the refresh goroutine and the upstream within the deviation
// bound are explored. At the end of every execution no pointer target, slice
// backing array or map is shared between any two messages handed to different
// clients, between such a message and a stored item, or between a stored item
// and what the upstream produced; and every client holds a reply with its own
// ID whose records are what the upstream produced for that question.

type c10bUp struct {
	gen   int
	delay time.Duration
	made  []*dns.Msg
}

func (u *c10bUp) Exec(ctx context.Context, qCtx *query_context.Context) error {
	if qCtx.R() != nil {
		return nil
	}
	if u.delay > 0 {
		vs.Sleep(u.delay)
	} else {
		vs.Point("upstream", nil)
	}
	u.gen++
	r := new(dns.Msg)
	r.SetReply(qCtx.Q())
	n := qCtx.Q().Question[0].Name
	r.Answer = append(r.Answer,
		&dns.A{Hdr: dns.RR_Header{Name: n, Rrtype: dns.TypeA, Class: dns.ClassINET, Ttl: 10}, A: net.IPv4(10, 0, 0, byte(u.gen))},
		&dns.TXT{Hdr: dns.RR_Header{Name: n, Rrtype: dns.TypeTXT, Class: dns.ClassINET, Ttl: 10}, Txt: []string{fmt.Sprintf("gen=%d", u.gen)}})
	r.Ns = append(r.Ns, &dns.NS{Hdr: dns.RR_Header{Name: n, Rrtype: dns.TypeNS, Class: dns.ClassINET, Ttl: 10}, Ns: "ns.example."})
	r.SetEdns0(1232, true) // upstream replies carry an OPT: Extra is [OPT], emptied in place when the response is set
	u.made = append(u.made, r)
	qCtx.SetResponse(r)
	return nil
}

type c10bGot struct {
	id  uint16
	r   *dns.Msg
	q   *dns.Msg
	err error
}

func c10bPath(p string) string {
	p = strings.TrimPrefix(strings.TrimPrefix(p, "resp"), ".")
	if p == "" {
		return "Msg"
	}
	return p
}

func c10bScenario(name, start string, nburst, d int) vr.Scenario {
	var up *c10bUp
	var got []*c10bGot
	var c *Cache
	var finished bool
	var shares []string
	query := func(id uint16) *c10bGot {
		q := new(dns.Msg)
		q.SetQuestion("burst.example.", dns.TypeA)
		q.Id = id
		qCtx := query_context.NewContext(q)
		w := sequence.NewChainWalker([]*sequence.ChainNode{{E: up}}, nil)
		g := &c10bGot{id: id, q: q}
		g.err = c.Exec(context.Background(), qCtx, w)
		g.r = qCtx.R()
		if g.r != nil {
			// what the server does next with the reply: its own ID and flags
			g.r.Id = id
			g.r.RecursionAvailable = true
		}
		return g
	}
	body := func() {
		finished = false
		shares = nil
		up = &c10bUp{}
		got = nil
		c = NewCache(&Args{Size: 1024, LazyCacheTTL: 1000}, Opts{})
		up.delay = []time.Duration{0, 20 * time.Millisecond, time.Second}[vs.Choose(3)]
		switch start {
		case "fresh":
			query(1)
			vs.Sleep(2 * time.Second)
		case "stale":
			query(1)
			vs.Sleep(20 * time.Second)
		}
		var wg vs.WaitGroup
		for i := 0; i < nburst; i++ {
			i := i
			g := &c10bGot{}
			got = append(got, g)
			wg.Add(1)
			vs.GoNamed(fmt.Sprintf("q%d", i), func() {
				defer wg.Done()
				*g = *query(uint16(100 + i))
			})
		}
		wg.Wait()
		vs.Sleep(3 * time.Second) // the refresh, if any, is done
		vs.Freeze()
		var roots []*c10Root
		_ = c.backend.Range(func(k key, v *item, exp time.Time) error {
			roots = append(roots, &c10Root{Kind: "stored", Name: "item stored under key " + hex.EncodeToString([]byte(k)), Objs: []any{v}})
			return nil
		})
		for i, m := range up.made {
			// what the upstream handed to the cache (and, on a miss, what that client goes on using)
			dup := false
			for _, g := range got {
				dup = dup || g.r == m
			}
			if !dup {
				roots = append(roots, &c10Root{Kind: "upstream", Name: fmt.Sprintf("upstream answer #%d", i+1), Objs: []any{m}})
			}
		}
		for i, g := range got {
			if g.r != nil {
				roots = append(roots, &c10Root{Kind: "hit", Name: fmt.Sprintf("reply handed to client %d", i), Objs: []any{g.r}})
			}
			roots = append(roots, &c10Root{Kind: "query", Name: fmt.Sprintf("query of client %d", i), Objs: []any{g.q}})
		}
		for _, sh := range c10FindSharing(roots) {
			a, b := sh.A, sh.B
			if a.Kind == "query" && b.Kind == "query" {
				continue
			}
			shares = append(shares, fmt.Sprintf("[%s] (at %s) and [%s] (at %s)", a.Name, c10bPath(sh.PathA), b.Name, c10bPath(sh.PathB)))
		}
		finished = true
		c.Close()
	}
	check := func(x *vs.Exec) (string, *vs.Violation) {
		V := func(oracle, why string) (string, *vs.Violation) {
			return oracle, &vs.Violation{Sig: name + "/" + oracle, Desc: fmt.Sprintf("%s\nstart=%s upstream delay=%v upstream answers=%d", why, start, up.delay, up.gen)}
		}
		if x.Panic != "" {
			return V("panic", x.Panic)
		}
		if !finished || len(x.Blocked) > 0 {
			return V("stuck", fmt.Sprintf("did not finish; parked %v", x.Blocked))
		}
		if len(shares) > 0 {
			return V("share", "mutable memory shared between "+strings.Join(shares, "; "))
		}
		var key []string
		for i, g := range got {
			if g.err != nil || g.r == nil {
				return V("not-served", fmt.Sprintf("client %d got no reply: %v", i, g.err))
			}
			if g.r.Id != g.id {
				return V("wrong-id", fmt.Sprintf("client %d (ID %d) holds a reply with ID %d after setting its own", i, g.id, g.r.Id))
			}
			if len(g.r.Answer) != 2 || len(g.r.Ns) != 1 {
				return V("records", fmt.Sprintf("client %d: %d answer / %d authority records, the upstream produced 2 / 1", i, len(g.r.Answer), len(g.r.Ns)))
			}
			a, ok := g.r.Answer[0].(*dns.A)
			if !ok || a.A.To4() == nil || int(a.A.To4()[3]) < 1 || int(a.A.To4()[3]) > up.gen {
				return V("records", fmt.Sprintf("client %d: first answer record %v is nothing the upstream produced", i, g.r.Answer[0]))
			}
			key = append(key, fmt.Sprintf("gen%d/ttl%d", a.A.To4()[3], a.Hdr.Ttl))
		}
		return strings.Join(key, ",") + fmt.Sprintf("/up%d", up.gen), nil
	}
	return vr.Scenario{Name: name, P: d, D: d, Horizon: 10 * time.Minute, Body: body, Check: check}
}

func TestVerifC10b(t *testing.T) {
	e := vr.GetEnv()
	d2, d3 := 3, 2
	if e.Tier == "thorough" {
		d2, d3 = 5, 3
	}
	var scs []vr.Scenario
	for _, start := range []string{"stale", "empty", "fresh"} {
		scs = append(scs, c10bScenario("burst2-"+start, start, 2, d2), c10bScenario("burst3-"+start, start, 3, d3))
	}
	vr.RunScenarios("C10", scs)
}
