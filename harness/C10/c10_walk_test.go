package cache

import (
	"reflect"
	"sort"
	"time"
	"unsafe"
)

// Heap-disjointness walker for C10.
//
// c10Walk records, for one root object, every piece of *mutable* memory that is
// reachable from it: the pointee of every non-nil pointer, the full backing
// array (capacity, not length) of every slice with cap > 0, every map header.
// Strings are skipped (immutable), time.Time is skipped (its *Location points
// to a process-wide read-only object). Two roots "share mutable state" iff two
// of their regions overlap.

type c10Region struct {
	lo, hi uintptr
	root   int
	path   string // class-level path (no indices), e.g. "Answer[]", "Answer.*dns.A.A[]"
}

type c10SeenKey struct {
	p uintptr
	t reflect.Type
}

type c10Walker struct {
	regions []c10Region
	seen    map[c10SeenKey]bool
	root    int
}

var c10TimeType = reflect.TypeOf(time.Time{})

var c10PtrMemo = map[reflect.Type]bool{}

// c10HasPtr reports whether values of type t can hold references to mutable memory.
func c10HasPtr(t reflect.Type) bool {
	if v, ok := c10PtrMemo[t]; ok {
		return v
	}
	c10PtrMemo[t] = true // recursion guard (recursive types do have pointers)
	r := false
	switch t.Kind() {
	case reflect.Ptr, reflect.Slice, reflect.Map, reflect.Interface, reflect.Chan, reflect.Func, reflect.UnsafePointer:
		r = true
	case reflect.Array:
		r = t.Len() > 0 && c10HasPtr(t.Elem())
	case reflect.Struct:
		if t != c10TimeType {
			for i := 0; i < t.NumField(); i++ {
				if c10HasPtr(t.Field(i).Type) {
					r = true
					break
				}
			}
		}
	}
	c10PtrMemo[t] = r
	return r
}

func (w *c10Walker) add(lo, size uintptr, path string) {
	if size == 0 || lo == 0 {
		return
	}
	w.regions = append(w.regions, c10Region{lo: lo, hi: lo + size, root: w.root, path: path})
}

// c10Addressable returns an addressable, fully readable copy-free view of v when
// possible, otherwise an addressable copy (only used for values boxed in
// interfaces / map elements, which cannot be modified in place anyway).
func c10Addressable(v reflect.Value) reflect.Value {
	if v.CanAddr() {
		return v
	}
	nv := reflect.New(v.Type()).Elem()
	nv.Set(v)
	return nv
}

func (w *c10Walker) walk(v reflect.Value, path string) {
	t := v.Type()
	if !c10HasPtr(t) {
		return
	}
	switch v.Kind() {
	case reflect.Ptr:
		if v.IsNil() {
			return
		}
		p := v.Pointer()
		et := t.Elem()
		k := c10SeenKey{p, t}
		if w.seen[k] {
			return
		}
		w.seen[k] = true
		w.add(p, et.Size(), path)
		w.walk(v.Elem(), path)
	case reflect.Interface:
		if v.IsNil() {
			return
		}
		e := v.Elem()
		np := path + "." + e.Type().String()
		if e.Kind() != reflect.Ptr {
			e = c10Addressable(e)
		}
		w.walk(e, np)
	case reflect.Slice:
		if v.IsNil() || v.Cap() == 0 {
			return
		}
		et := t.Elem()
		p := v.Pointer()
		w.add(p, uintptr(v.Cap())*et.Size(), path+"[]")
		if !c10HasPtr(et) {
			return
		}
		k := c10SeenKey{p, t}
		if w.seen[k] {
			return
		}
		w.seen[k] = true
		full := v.Slice(0, v.Cap())
		for i := 0; i < full.Len(); i++ {
			w.walk(full.Index(i), path)
		}
	case reflect.Array:
		av := c10Addressable(v)
		for i := 0; i < av.Len(); i++ {
			w.walk(av.Index(i), path)
		}
	case reflect.Map:
		if v.IsNil() {
			return
		}
		p := v.Pointer()
		k := c10SeenKey{p, t}
		if w.seen[k] {
			return
		}
		w.seen[k] = true
		w.add(p, 8, path+"{}")
		it := v.MapRange()
		for it.Next() {
			w.walk(c10Addressable(it.Key()), path+"{key}")
			w.walk(c10Addressable(it.Value()), path+"{val}")
		}
	case reflect.Struct:
		if t == c10TimeType {
			return
		}
		sv := c10Addressable(v)
		for i := 0; i < t.NumField(); i++ {
			f := sv.Field(i)
			sf := t.Field(i)
			if !c10HasPtr(sf.Type) {
				continue
			}
			// make unexported fields readable (no copy: same memory)
			f = reflect.NewAt(sf.Type, unsafe.Pointer(f.UnsafeAddr())).Elem()
			np := sf.Name
			if path != "" {
				np = path + "." + sf.Name
			}
			if sf.Anonymous {
				np = path
			}
			w.walk(f, np)
		}
	case reflect.Chan, reflect.UnsafePointer:
		if p := v.Pointer(); p != 0 {
			w.add(p, 1, path+"<chan/unsafe>")
		}
	case reflect.Func:
		// code pointers / closures: not data of a DNS message; ignored
	}
}

// c10PathLess prefers the region pair closest to the roots (shortest paths), then
// lexicographic order, so that the reported class is stable.
func c10PathLess(a1, b1, a2, b2 string) bool {
	if l1, l2 := len(a1)+len(b1), len(a2)+len(b2); l1 != l2 {
		return l1 < l2
	}
	return a1+"|"+b1 < a2+"|"+b2
}

// c10Root is one object graph whose mutable memory must be private.
type c10Root struct {
	Kind string // stored | upstream | refresh | hit | lazy | probe | query
	Name string // human readable (which op produced it)
	Objs []any  // pointers that make up the root (e.g. message + detached OPT)
}

type c10Share struct {
	A, B  *c10Root
	PathA string
	PathB string
}

// c10FindSharing returns every pair of roots that have overlapping mutable
// regions (one representative region pair per root pair), in deterministic order.
func c10FindSharing(roots []*c10Root) []c10Share {
	var all []c10Region
	for i, r := range roots {
		w := &c10Walker{seen: map[c10SeenKey]bool{}, root: i}
		for _, o := range r.Objs {
			v := reflect.ValueOf(o)
			if !v.IsValid() || (v.Kind() == reflect.Ptr && v.IsNil()) {
				continue
			}
			w.walk(v, "")
		}
		all = append(all, w.regions...)
	}
	sort.Slice(all, func(i, j int) bool {
		if all[i].lo != all[j].lo {
			return all[i].lo < all[j].lo
		}
		return all[i].hi > all[j].hi
	})
	type pair struct{ a, b int }
	found := map[pair]c10Share{}
	var active []c10Region
	for _, r := range all {
		j := 0
		for _, a := range active {
			if a.hi > r.lo {
				active[j] = a
				j++
				if a.root != r.root {
					x, y := a, r
					if x.root > y.root {
						x, y = y, x
					}
					pk := pair{x.root, y.root}
					cur, ok := found[pk]
					if !ok || c10PathLess(x.path, y.path, cur.PathA, cur.PathB) {
						found[pk] = c10Share{A: roots[x.root], B: roots[y.root], PathA: x.path, PathB: y.path}
					}
				}
			}
		}
		active = append(active[:j], r)
	}
	var keys []pair
	for k := range found {
		keys = append(keys, k)
	}
	sort.Slice(keys, func(i, j int) bool {
		if keys[i].a != keys[j].a {
			return keys[i].a < keys[j].a
		}
		return keys[i].b < keys[j].b
	})
	out := make([]c10Share, 0, len(keys))
	for _, k := range keys {
		out = append(out, found[k])
	}
	return out
}
