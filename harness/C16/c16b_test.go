package server

import (
	"context"
	"errors"
	"fmt"
	"net"
	"sort"
	"strings"
	"testing"
	"time"
	"unsafe"

	"github.com/IrineSistiana/mosdns/v5/zz_verif/fk"
	"github.com/IrineSistiana/mosdns/v5/zz_verif/vr"
	"github.com/IrineSistiana/mosdns/v5/zz_verif/vs"
	"github.com/miekg/dns"
)

// C16 part b: replies a server writes concurrently on one pipelined TCP
// connection are never interleaved. The real ServeTCP runs over a fake
// listener / fake connection; 2-3 pipelined queries are answered by handler
// goroutines with replies of different sizes, finishing in every order the
// explorer can produce. The byte stream the client receives must re-parse
// (independent framer) into exactly the expected replies.

func init() { fk.PoisonPool() }

type c16listener struct {
	conns  []*fk.Conn
	next   int
	closed bool
}

var errC16Closed = errors.New("listener closed")

func (l *c16listener) Accept() (net.Conn, error) {
	vs.Block("accept", unsafe.Pointer(l), func() bool { return l.closed || l.next < len(l.conns) })
	if l.closed {
		return nil, errC16Closed
	}
	c := l.conns[l.next]
	l.next++
	return c, nil
}
func (l *c16listener) Close() error {
	vs.Point("listener.close", unsafe.Pointer(l))
	l.closed = true
	return nil
}
func (l *c16listener) Addr() net.Addr { return &net.TCPAddr{IP: net.IPv4(127, 0, 0, 1), Port: 53} }

var c16sizes = []int{1, 300, 5000, 40000}

type c16handler struct {
	sizeOf map[uint16]int
	wg     *vs.WaitGroup
}

func (h *c16handler) Handle(ctx context.Context, q *dns.Msg, meta QueryMeta, pack func(m *dns.Msg) (*[]byte, error)) *[]byte {
	defer h.wg.Done()
	r := new(dns.Msg)
	r.SetReply(q)
	pad := strings.Repeat("x", 200)
	for n := h.sizeOf[q.Id]; n > 0; n -= 200 {
		k := n
		if k > 200 {
			k = 200
		}
		r.Answer = append(r.Answer, &dns.TXT{Hdr: dns.RR_Header{Name: q.Question[0].Name, Rrtype: dns.TypeTXT, Class: dns.ClassINET, Ttl: 1}, Txt: []string{pad[:k]}})
	}
	b, err := pack(r)
	if err != nil {
		return nil
	}
	return b
}

func c16bScenario(name string, nq int, coalesce bool, d int) vr.Scenario {
	return c16bScenarioW(name, nq, coalesce, d, 0)
}

// c16bScenarioW: window > 0 = the client is a slow reader: the server's send
// window holds `window` bytes, the client does not read for 8 s (while all its
// queries are already there), then drains the stream.
func c16bScenarioW(name string, nq int, coalesce bool, d int, window int) vr.Scenario {
	var srv *fk.Conn
	var served bool
	body := func() {
		served = false
		cl, sv := fk.NewPipe("tcp", false)
		sv.SendWindow = window
		srv = sv
		l := &c16listener{conns: []*fk.Conn{sv}}
		var wg vs.WaitGroup
		h := &c16handler{sizeOf: map[uint16]int{}, wg: &wg}
		var stream []byte
		for i := 0; i < nq; i++ {
			id := uint16(0x100 + i)
			h.sizeOf[id] = c16sizes[vs.Choose(len(c16sizes))]
			q := fk.Query(id, fmt.Sprintf("q%d.example.", i), dns.TypeTXT)
			stream = append(stream, fk.Frame(q)...)
			if !coalesce {
				sv.Deliver(fk.Frame(q))
			}
			wg.Add(1)
		}
		if coalesce {
			sv.Deliver(stream) // all queries in one segment
		}
		vs.GoNamed("serve", func() { ServeTCP(l, h, TCPServerOpts{}) })
		wg.Wait() // every handler has produced its reply (the write may still be pending)
		if window > 0 {
			var cw vs.WaitGroup
			cw.Add(1)
			vs.GoNamed("slow-reader", func() {
				defer cw.Done()
				vs.Sleep(8 * time.Second)
				buf := make([]byte, 4096)
				for {
					cl.SetReadDeadline(vs.Now().Add(2 * time.Second))
					if _, err := cl.Read(buf); err != nil {
						return // nothing more for 2 s (or the server closed): done
					}
				}
			})
			cw.Wait()
		}
		vs.Sleep(time.Millisecond)
		served = true
		l.Close()
		cl.Close()
	}
	check := func(x *vs.Exec) (string, *vs.Violation) {
		V := func(oracle, why string) (string, *vs.Violation) {
			return oracle, &vs.Violation{Sig: name + "/" + oracle, Desc: why}
		}
		if x.Panic != "" {
			return V("panic", x.Panic)
		}
		if !served || len(x.Blocked) > 0 {
			return V("stuck", fmt.Sprintf("did not finish; parked %v", x.Blocked))
		}
		var stream []byte
		var order []string
		for _, w := range srv.Writes {
			stream = append(stream, w...)
		}
		msgs, rest := fk.Unframe(stream)
		if len(rest) != 0 {
			return V("trailing-garbage", fmt.Sprintf("%d bytes left after the last complete frame (writes: %d)", len(rest), len(srv.Writes)))
		}
		seen := map[uint16]bool{}
		for _, m := range msgs {
			r := new(dns.Msg)
			if err := r.Unpack(m); err != nil {
				return V("frame-not-a-message", fmt.Sprintf("a frame of %d bytes does not parse: %v (writes: %d)", len(m), err, len(srv.Writes)))
			}
			if seen[r.Id] {
				return V("duplicate-reply", fmt.Sprintf("two replies with ID %#x", r.Id))
			}
			seen[r.Id] = true
			if len(r.Question) != 1 || r.Question[0].Name != fmt.Sprintf("q%d.example.", r.Id-0x100) {
				return V("reply-mixed-up", fmt.Sprintf("reply %#x carries question %v", r.Id, r.Question))
			}
			order = append(order, fmt.Sprintf("%d:%d", r.Id-0x100, len(m)))
		}
		if len(msgs) != nq {
			return V("reply-count", fmt.Sprintf("%d replies for %d queries", len(msgs), nq))
		}
		// each Write is one whole frame
		for _, w := range srv.Writes {
			if len(w) < 2 || int(w[0])<<8|int(w[1]) != len(w)-2 {
				return V("write-is-not-one-frame", fmt.Sprintf("a Write of %d bytes is not exactly one frame", len(w)))
			}
		}
		sort.Strings(order[:0])
		return strings.Join(order, ","), nil
	}
	return vr.Scenario{Name: name, P: d, D: d, Horizon: time.Minute, Body: body, Check: check}
}

func TestVerifC16b(t *testing.T) {
	e := vr.GetEnv()
	d := 2
	if e.Tier == "thorough" {
		d = 3
	}
	scs := []vr.Scenario{
		c16bScenario("servetcp-2q", 2, false, d),
		c16bScenario("servetcp-3q-coalesced", 3, true, d-1),
		c16bScenarioW("servetcp-2q-slow-reader", 2, false, d-1, 1000),
	}
	vr.RunScenarios("C16", scs)
}
