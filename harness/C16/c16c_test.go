package transport

import (
	"fmt"
	"strings"
	"testing"
	"time"

	"github.com/IrineSistiana/mosdns/v5/zz_verif/fk"
	"github.com/IrineSistiana/mosdns/v5/zz_verif/vr"
	"github.com/IrineSistiana/mosdns/v5/zz_verif/vs"
)

// C16 part c: upstream side. Queries that concurrent callers write on one
// pipelined TCP connection arrive as intact frames: the byte stream the server
// sees must re-parse into exactly the callers' queries.

func c16cScenario(name string, o tOpt, d int) vr.Scenario {
	var sys *tsys
	body := func() {
		sys = &tsys{opt: o}
		sys.run()
	}
	check := func(x *vs.Exec) (string, *vs.Violation) {
		s := sys
		V := func(oracle, why string) (string, *vs.Violation) {
			return oracle, &vs.Violation{Sig: name + "/" + oracle, Desc: why + "\n" + s.describe()}
		}
		if x.Panic != "" {
			return V("panic", x.Panic)
		}
		if !s.finished || len(x.Blocked) > 0 {
			return V("stuck", fmt.Sprintf("execution did not finish, parked: %v", x.Blocked))
		}
		var key []string
		for _, c := range s.calls {
			if !c.refused && c.err == nil && !s.ownAnswer(c) {
				return V("mis-framed-reply-delivered", fmt.Sprintf("call %d returned %d bytes that the server never sent as one frame", c.idx, len(c.resp)))
			}
		}
		for _, cn := range s.conns {
			var stream []byte
			for _, w := range cn.a.Writes {
				stream = append(stream, w...)
			}
			msgs, rest := fk.Unframe(stream)
			if len(rest) != 0 {
				return V("query-stream-trailing-bytes", fmt.Sprintf("connection %d: %d bytes after the last complete frame", cn.idx, len(rest)))
			}
			seenCall := map[int]int{}
			for _, m := range msgs {
				ci := s.callOf(m)
				if ci >= 0 && s.tcp {
					// a stream connection carries the query of a call once: nothing is re-sent on TCP
					if seenCall[ci]++; seenCall[ci] > 1 {
						return V("query-frame-duplicated", fmt.Sprintf("connection %d carries the frame of call %d %d times (whose bytes went out in place of another caller's?)", cn.idx, ci, seenCall[ci]))
					}
				}
				if ci < 0 {
					return V("query-frame-garbled", fmt.Sprintf("connection %d: a frame of %d bytes is not one of the callers' queries", cn.idx, len(m)))
				}
				want := fk.WithID(s.calls[ci].q, fk.ID(m))
				if string(want) != string(m) {
					return V("query-bytes-altered", fmt.Sprintf("connection %d: the frame for call %d differs from the caller's query beyond the wire ID", cn.idx, ci))
				}
			}
			key = append(key, fmt.Sprintf("conn%d:%dq", cn.idx, len(msgs)))
		}
		return strings.Join(key, ","), nil
	}
	return vr.Scenario{Name: name, P: d, D: d, Horizon: time.Minute, Body: body, Check: check, Params: o}
}

func TestVerifC16c(t *testing.T) {
	e := vr.GetEnv()
	d := 2
	if e.Tier == "thorough" {
		d = 3
	}
	scs := []vr.Scenario{
		c16cScenario("tdc-tcp-c3-writers", tOpt{Kind: "tdc-tcp", Callers: 3, Srv: srvOpt{AnswerAll: true}}, d),
		c16cScenario("pipeline-tcp-c3-writers", tOpt{Kind: "pipeline-tcp", Callers: 3, MaxCq: 3, LazyQueue: 3, Srv: srvOpt{AnswerAll: true}}, d-1),
		c16cScenario("tdc-tcp-c2-runt-frames", tOpt{Kind: "tdc-tcp", Callers: 2, Srv: srvOpt{Short: true, Reorder: true}, CtxMode: []int{1, 1}}, d),
		c16cScenario("reuse-c1-seq2-runt-frames", tOpt{Kind: "reuse", Callers: 1, Seq: 2, Srv: srvOpt{Short: true}, CtxMode: []int{1}}, d),
		c16cScenario("pipeline-tcp-c2-stall-in-frame", tOpt{Kind: "pipeline-tcp", Callers: 2, MaxCq: 2, LazyQueue: 2, IdleTimeout: 2 * time.Second, Srv: srvOpt{AnswerAll: true, SplitStall: 3 * time.Second}, CtxMode: []int{1, 0}}, d-1),
		c16cScenario("tdc-tcp-c2-stall-in-frame", tOpt{Kind: "tdc-tcp", Callers: 2, IdleTimeout: 2 * time.Second, Srv: srvOpt{Reorder: true, SplitStall: 3 * time.Second}}, d),
		c16cScenario("reuse-c2-seq2-writers", tOpt{Kind: "reuse", Callers: 2, Seq: 2, Srv: srvOpt{AnswerAll: true}}, d-1),
	}
	vr.RunScenarios("C16", scs)
}
