package server

import (
	"context"
	"crypto/ecdsa"
	"crypto/elliptic"
	"crypto/rand"
	"crypto/tls"
	"crypto/x509"
	"crypto/x509/pkix"
	"encoding/binary"
	"encoding/json"
	"fmt"
	"io"
	"math/big"
	"net"
	"os"
	"sync"
	"testing"
	"time"

	"github.com/IrineSistiana/mosdns/v5/zz_verif/vr"
	"github.com/miekg/dns"
	"github.com/quic-go/quic-go"
)

// C16 part d: the DoQ server. The real ServeDoQ runs on a real quic-go listener
// over an in-memory datagram link; a real quic-go client opens one stream per
// query. For every query length the harness can build as a well-formed query
// (17, 19..65535) the stream carries BE16(len)||query and is finished; the
// handler must be called with that query, and the bytes the server writes back
// on the stream, read to its end, must be exactly BE16(n)||reply for the reply
// the handler produced (reply sizes cycle through a menu up to 65535 bytes).
// This is an enumeration of message lengths through the real server loop, not
// of schedules: the oracle only uses facts that do not depend on timing (a
// reply that never arrives within 20 s on three fresh connections in a row).

type c16dPkt struct {
	local *net.UDPAddr
	peer  *c16dPkt
	in    chan []byte

	mu     sync.Mutex
	closed chan struct{}
	isDone bool
	dl     time.Time
	wake   chan struct{}
}

func c16dLink() (*c16dPkt, *c16dPkt) {
	mk := func(ip string) *c16dPkt {
		return &c16dPkt{local: &net.UDPAddr{IP: net.ParseIP(ip), Port: 853}, in: make(chan []byte, 4096), closed: make(chan struct{}), wake: make(chan struct{})}
	}
	a, b := mk("192.0.2.1"), mk("192.0.2.2")
	a.peer, b.peer = b, a
	return a, b
}

func (p *c16dPkt) LocalAddr() net.Addr { return p.local }
func (p *c16dPkt) Close() error {
	p.mu.Lock()
	if !p.isDone {
		p.isDone = true
		close(p.closed)
	}
	p.mu.Unlock()
	return nil
}
func (p *c16dPkt) SetDeadline(t time.Time) error      { return p.SetReadDeadline(t) }
func (p *c16dPkt) SetWriteDeadline(t time.Time) error { return nil }
func (p *c16dPkt) SetReadDeadline(t time.Time) error {
	p.mu.Lock()
	p.dl = t
	close(p.wake)
	p.wake = make(chan struct{})
	p.mu.Unlock()
	return nil
}
func (p *c16dPkt) ReadFrom(b []byte) (int, net.Addr, error) {
	for {
		p.mu.Lock()
		dl, wake := p.dl, p.wake
		p.mu.Unlock()
		var tc <-chan time.Time
		var t *time.Timer
		if !dl.IsZero() {
			d := time.Until(dl)
			if d <= 0 {
				return 0, nil, &net.OpError{Op: "read", Net: "udp", Addr: p.local, Err: os.ErrDeadlineExceeded}
			}
			t = time.NewTimer(d)
			tc = t.C
		}
		select {
		case d := <-p.in:
			if t != nil {
				t.Stop()
			}
			return copy(b, d), p.peer.local, nil
		case <-p.closed:
			return 0, nil, &net.OpError{Op: "read", Net: "udp", Addr: p.local, Err: net.ErrClosed}
		case <-wake:
		case <-tc:
		}
		if t != nil {
			t.Stop()
		}
	}
}
func (p *c16dPkt) WriteTo(b []byte, addr net.Addr) (int, error) {
	select {
	case <-p.closed:
		return 0, &net.OpError{Op: "write", Net: "udp", Addr: p.local, Err: net.ErrClosed}
	default:
	}
	select {
	case p.peer.in <- append([]byte(nil), b...):
	case <-p.peer.closed:
	case <-time.After(5 * time.Second): // a stuck reader: dropped like a real datagram
	}
	return len(b), nil
}

func c16dTLS() (*tls.Config, *tls.Config) {
	key, err := ecdsa.GenerateKey(elliptic.P256(), rand.Reader)
	if err != nil {
		panic(err)
	}
	tpl := &x509.Certificate{SerialNumber: big.NewInt(1), Subject: pkix.Name{CommonName: "c16d"},
		NotBefore: time.Now().Add(-time.Hour), NotAfter: time.Now().Add(72 * time.Hour), DNSNames: []string{"c16d.test"},
		KeyUsage: x509.KeyUsageDigitalSignature | x509.KeyUsageCertSign, IsCA: true, BasicConstraintsValid: true,
		ExtKeyUsage: []x509.ExtKeyUsage{x509.ExtKeyUsageServerAuth}}
	der, err := x509.CreateCertificate(rand.Reader, tpl, tpl, &key.PublicKey, key)
	if err != nil {
		panic(err)
	}
	leaf, _ := x509.ParseCertificate(der)
	roots := x509.NewCertPool()
	roots.AddCert(leaf)
	srv := &tls.Config{Certificates: []tls.Certificate{{Certificate: [][]byte{der}, PrivateKey: key}}, NextProtos: []string{"doq"}}
	cli := &tls.Config{RootCAs: roots, ServerName: "c16d.test", NextProtos: []string{"doq"}}
	return srv, cli
}

// c16dQuery builds a well-formed query of exactly l bytes (nil when the harness
// has no shape of that length: 13..16 and 18).
func c16dQuery(l int, id uint16) []byte {
	hdr := func(ar int) []byte {
		b := make([]byte, 12)
		binary.BigEndian.PutUint16(b, id)
		b[2] = 0x01 // RD
		b[5] = 1    // QDCOUNT
		b[11] = byte(ar)
		return b
	}
	if l < 32 {
		k := l - 16 // wire length of the name
		if k == 1 {
			return append(hdr(0), 0, 0, 1, 0, 1)
		}
		if k < 3 {
			return nil
		}
		b := hdr(0)
		b = append(b, byte(k-2))
		for i := 0; i < k-2; i++ {
			b = append(b, 'a'+byte(i%26))
		}
		return append(b, 0, 0, 1, 0, 1)
	}
	pad := l - 32
	b := append(hdr(1), 0, 0, 1, 0, 1) // "." A IN
	b = append(b, 0, 0, 41, 0x04, 0xd0, 0, 0, 0, 0)
	b = binary.BigEndian.AppendUint16(b, uint16(4+pad))
	b = append(b, 0, 12)
	b = binary.BigEndian.AppendUint16(b, uint16(pad))
	b = append(b, make([]byte, pad)...)
	return b
}

var c16dReplySizes = []int{0, 512, 513, 1232, 4096, 16383, 16384, 32768, 65000, 65533, 65534, 65535}

// c16dReply builds the reply to q whose packed size is want (0: the bare reply).
func c16dReply(q *dns.Msg, want int) *dns.Msg {
	r := new(dns.Msg)
	r.SetReply(q)
	if want == 0 {
		return r
	}
	base := r.Len()
	n := want - base - 11 // root owner (1) + fixed RR header (10)
	if n < 0 {
		return r
	}
	data := make([]byte, n)
	for i := range data {
		data[i] = byte('A' + i%23)
	}
	r.Answer = append(r.Answer, &dns.NULL{Hdr: dns.RR_Header{Name: ".", Rrtype: dns.TypeNULL, Class: dns.ClassINET, Ttl: 5}, Data: string(data)})
	return r
}

type c16dSeen struct {
	len  int
	name string
}

type c16dHandler struct {
	mu   sync.Mutex
	seen map[uint16]c16dSeen
	want map[uint16]int // reply size per query id
	sent map[uint16][]byte
}

func (h *c16dHandler) Handle(ctx context.Context, q *dns.Msg, meta QueryMeta, pack func(m *dns.Msg) (*[]byte, error)) *[]byte {
	h.mu.Lock()
	want := h.want[q.Id]
	name := ""
	if len(q.Question) == 1 {
		name = q.Question[0].Name
	}
	h.seen[q.Id] = c16dSeen{len: q.Len(), name: name}
	h.mu.Unlock()
	r := c16dReply(q, want)
	b, err := pack(r)
	if err != nil {
		return nil
	}
	h.mu.Lock()
	h.sent[q.Id] = append([]byte(nil), *b...)
	h.mu.Unlock()
	return b
}

type c16dPeer struct {
	h    *c16dHandler
	tr   *quic.Transport
	ln   *quic.Listener
	ctr  *quic.Transport
	conn quic.Connection
	cli  *tls.Config
	srv  *c16dPkt
	done chan struct{}
}

func c16dStart() (*c16dPeer, error) {
	sp, cp := c16dLink()
	stls, ctls := c16dTLS()
	p := &c16dPeer{h: &c16dHandler{seen: map[uint16]c16dSeen{}, want: map[uint16]int{}, sent: map[uint16][]byte{}}, cli: ctls, srv: sp, done: make(chan struct{})}
	p.tr = &quic.Transport{Conn: sp}
	ln, err := p.tr.Listen(stls, &quic.Config{MaxIdleTimeout: 60 * time.Second})
	if err != nil {
		return nil, err
	}
	p.ln = ln
	go func() {
		defer close(p.done)
		ServeDoQ(ln, p.h, DoQServerOpts{IdleTimeout: 60 * time.Second})
	}()
	p.ctr = &quic.Transport{Conn: cp}
	ctx, cancel := context.WithTimeout(context.Background(), 20*time.Second)
	defer cancel()
	conn, err := p.ctr.Dial(ctx, sp.local, ctls, &quic.Config{MaxIdleTimeout: 60 * time.Second})
	if err != nil {
		p.stop()
		return nil, err
	}
	p.conn = conn
	return p, nil
}

func (p *c16dPeer) stop() {
	if p.conn != nil {
		p.conn.CloseWithError(0, "")
	}
	p.ln.Close()
	if p.ctr != nil {
		p.ctr.Close()
	}
	p.tr.Close()
	select {
	case <-p.done:
	case <-time.After(10 * time.Second):
	}
}

type c16dInput struct {
	Len   int `json:"len"`
	Reply int `json:"reply"`
}

// one query on one stream; "" = as expected
func (p *c16dPeer) one(l, reply int, id uint16) (obs string, detail string) {
	q := c16dQuery(l, id)
	p.h.mu.Lock()
	p.h.want[id] = reply
	delete(p.h.seen, id)
	delete(p.h.sent, id)
	p.h.mu.Unlock()
	ctx, cancel := context.WithTimeout(context.Background(), 20*time.Second)
	defer cancel()
	st, err := p.conn.OpenStreamSync(ctx)
	if err != nil {
		return "infra-open-stream", err.Error()
	}
	st.SetDeadline(time.Now().Add(20 * time.Second))
	frame := binary.BigEndian.AppendUint16(make([]byte, 0, l+2), uint16(l))
	frame = append(frame, q...)
	if _, err := st.Write(frame); err != nil {
		st.CancelRead(0)
		return "client-write-failed", err.Error()
	}
	st.Close()
	got, rerr := io.ReadAll(st)
	p.h.mu.Lock()
	seen, wasSeen := p.h.seen[id]
	sent := p.h.sent[id]
	p.h.mu.Unlock()
	if !wasSeen {
		return "query-not-delivered", fmt.Sprintf("the handler was never called; the stream ended with %d bytes, err=%v", len(got), rerr)
	}
	if seen.len != l {
		return "query-changed", fmt.Sprintf("the handler saw a query of %d bytes", seen.len)
	}
	if sent == nil {
		return "reply-not-packed", fmt.Sprintf("the server's packer refused the %d byte reply", reply)
	}
	if rerr != nil {
		return "reply-stream-error", fmt.Sprintf("read %d of %d bytes: %v", len(got), len(sent), rerr)
	}
	if len(got) < 2 || int(binary.BigEndian.Uint16(got)) != len(got)-2 {
		return "reply-bad-frame", fmt.Sprintf("the stream carried %d bytes, first two % x", len(got), got[:min(2, len(got))])
	}
	if string(got) != string(sent) {
		return "reply-differs", fmt.Sprintf("the stream carried %d bytes, the handler's packed reply has %d", len(got), len(sent))
	}
	m := new(dns.Msg)
	if err := m.Unpack(got[2:]); err != nil {
		return "reply-unparsable", err.Error()
	}
	if m.Id != id || !m.Response || len(m.Question) != 1 || m.Question[0].Name != seen.name {
		return "reply-foreign", fmt.Sprintf("id=%#x question=%v", m.Id, m.Question)
	}
	if reply != 0 && len(got)-2 != reply {
		return "infra-reply-size", fmt.Sprintf("harness reply of %d bytes packed to %d", reply, len(got)-2)
	}
	return "", ""
}

func c16dClass(l int) string {
	switch {
	case l < 32:
		return "17..31"
	case l <= 512:
		return "32..512"
	case l <= 16384:
		return "513..16384"
	case l <= 65532:
		return "16385..65532"
	}
	return fmt.Sprint(l)
}

func TestVerifC16d(t *testing.T) {
	e := vr.GetEnv()
	res := vr.New("C16", e)
	res.Rule = "d: one evaluation = one query of one length on one DoQ stream of the real ServeDoQ (real quic-go on an in-memory datagram link), with one reply size; the handler must see the query, and the stream read to its end must be exactly BE16(n)||packed reply. Outcome classes: query length class x reply size"
	var peer *c16dPeer
	fresh := func() bool {
		if peer != nil {
			peer.stop()
			peer = nil
		}
		for try := 0; try < 3; try++ {
			p, err := c16dStart()
			if err == nil {
				peer = p
				return true
			}
			res.Notes = append(res.Notes, "d: handshake failed: "+err.Error())
		}
		res.Infra = "d: the in-memory QUIC link could not be established"
		return false
	}
	defer func() {
		if peer != nil {
			peer.stop()
		}
	}()
	var id uint16 = 1
	eval := func(l, reply int) {
		// a failure is only believed when it repeats on three fresh connections
		var obs, detail string
		for try := 0; try < 3; try++ {
			if peer == nil && !fresh() {
				return
			}
			id++
			obs, detail = peer.one(l, reply, id)
			res.Evaluations++
			res.Transitions++
			if obs == "" {
				res.Outcome(fmt.Sprintf("d/len %s/reply %d/ok", c16dClass(l), reply))
				return
			}
			if !fresh() {
				return
			}
		}
		if len(obs) > 5 && obs[:5] == "infra" {
			res.Infra = "d: " + obs + ": " + detail
			return
		}
		res.ViolateInput("doq-server/"+obs, fmt.Sprintf("a %d byte query on a DoQ stream (reply of %d bytes): %s (same result on three fresh connections)", l, reply, detail), c16dInput{Len: l, Reply: reply})
	}
	if raw, ok := vr.ReplayInput(); ok {
		var in c16dInput
		if err := json.Unmarshal(raw, &in); err != nil {
			t.Fatal(err)
		}
		eval(in.Len, in.Reply)
		for _, v := range res.Violations {
			fmt.Println("violation:", v.Sig, v.Desc)
		}
		res.Write(e)
		return
	}
	stride := 61
	if e.Tier == "thorough" {
		stride = 1
	}
	edge := map[int]bool{}
	for _, l := range []int{17, 19, 20, 31, 32, 33, 255, 256, 511, 512, 513, 1231, 1232, 1233, 4095, 4096, 16383, 16384, 16385, 32767, 32768, 65000, 65531, 65532, 65533, 65534, 65535} {
		edge[l] = true
	}
	res.Bounds["d.query_lengths"] = fmt.Sprintf("17, 19..65535 step %d plus the boundary lengths; 13..16 and 18 have no well-formed query shape in the harness", stride)
	res.Bounds["d.reply_sizes"] = c16dReplySizes
	res.Bounds["d.pairing"] = "every query length with one reply size (cycling); the boundary lengths with every reply size"
	lastDone, n := 0, 0
	for l := 17; l <= 65535 && res.Infra == ""; l++ {
		if l == 18 || (!edge[l] && (l-17)%stride != 0) {
			continue
		}
		n++
		if !e.Mine(int64(n)) {
			continue
		}
		if e.Expired() {
			res.Exhaustive = false
			res.Notes = append(res.Notes, fmt.Sprintf("d: budget expired; lengths up to %d completed in shard %d", lastDone, e.Shard))
			break
		}
		if edge[l] {
			for _, r := range c16dReplySizes {
				eval(l, r)
				res.States++
			}
		} else {
			eval(l, c16dReplySizes[n%len(c16dReplySizes)])
			res.States++
		}
		lastDone = l
	}
	res.Sample(map[string]any{"query_len": 65535, "shape": "header + '.' A IN + OPT with a 65503 byte padding option", "reply": 65535})
	res.Write(e)
}

// ---------------------------------------------------------------------------
// C16 part e: the same enumeration through the real ServeTCP (plain TCP, not
// TLS) on an in-memory listener: every query length as the FIRST frame of a
// fresh connection, a second query on the same connection behind it.

type c16eListener struct {
	ch     chan net.Conn
	closed chan struct{}
	once   sync.Once
}

func (l *c16eListener) Accept() (net.Conn, error) {
	select {
	case c := <-l.ch:
		return c, nil
	case <-l.closed:
		return nil, net.ErrClosed
	}
}
func (l *c16eListener) Close() error   { l.once.Do(func() { close(l.closed) }); return nil }
func (l *c16eListener) Addr() net.Addr { return &net.TCPAddr{IP: net.IPv4(192, 0, 2, 1), Port: 53} }

type c16eAddrConn struct {
	net.Conn
}

func (c c16eAddrConn) RemoteAddr() net.Addr { return &net.TCPAddr{IP: net.IPv4(192, 0, 2, 2), Port: 40000} }
func (c c16eAddrConn) LocalAddr() net.Addr  { return &net.TCPAddr{IP: net.IPv4(192, 0, 2, 1), Port: 53} }

func c16eReadFrame(c net.Conn) ([]byte, error) {
	var h [2]byte
	if _, err := io.ReadFull(c, h[:]); err != nil {
		return nil, err
	}
	b := make([]byte, binary.BigEndian.Uint16(h[:]))
	_, err := io.ReadFull(c, b)
	return b, err
}

func TestVerifC16e(t *testing.T) {
	e := vr.GetEnv()
	res := vr.New("C16", e)
	res.Rule = "e: one evaluation = one query of one length sent as the first frame of a fresh connection to the real ServeTCP (in-memory listener), with one reply size, followed by a small second query on the same connection; both replies must be the frames the handler produced. Outcome classes: query length class x reply size"
	h := &c16dHandler{seen: map[uint16]c16dSeen{}, want: map[uint16]int{}, sent: map[uint16][]byte{}}
	l := &c16eListener{ch: make(chan net.Conn), closed: make(chan struct{})}
	done := make(chan struct{})
	go func() { defer close(done); ServeTCP(l, h, TCPServerOpts{}) }()
	defer func() {
		l.Close()
		select {
		case <-done:
		case <-time.After(10 * time.Second):
		}
	}()
	var id uint16 = 1
	one := func(ql, reply int) (string, string) {
		cc, sc := net.Pipe()
		select {
		case l.ch <- c16eAddrConn{sc}:
		case <-time.After(20 * time.Second):
			return "infra-accept", "the server did not accept within 20 s"
		}
		defer cc.Close()
		cc.SetDeadline(time.Now().Add(20 * time.Second))
		id += 2
		q1, q2 := c16dQuery(ql, id), c16dQuery(17, id+1)
		h.mu.Lock()
		h.want[id], h.want[id+1] = reply, 0
		delete(h.sent, id)
		delete(h.sent, id+1)
		h.mu.Unlock()
		werr := make(chan error, 1)
		go func() {
			frame := binary.BigEndian.AppendUint16(make([]byte, 0, ql+2+19), uint16(ql))
			frame = append(frame, q1...)
			frame = binary.BigEndian.AppendUint16(frame, 17)
			frame = append(frame, q2...)
			_, err := cc.Write(frame)
			werr <- err
		}()
		got := map[uint16][]byte{}
		for len(got) < 2 {
			f, err := c16eReadFrame(cc)
			if err != nil {
				return "no-reply", fmt.Sprintf("%d of 2 replies received, then: %v", len(got), err)
			}
			if len(f) < 12 {
				return "reply-bad-frame", fmt.Sprintf("a frame of %d bytes", len(f))
			}
			got[binary.BigEndian.Uint16(f)] = f
		}
		if err := <-werr; err != nil {
			return "client-write-failed", err.Error()
		}
		h.mu.Lock()
		s1, s2 := h.sent[id], h.sent[id+1]
		h.mu.Unlock()
		for k, s := range map[uint16][]byte{id: s1, id + 1: s2} {
			if s == nil {
				return "query-not-delivered", fmt.Sprintf("the handler never packed a reply for query %#x", k)
			}
			if string(got[k]) != string(s[2:]) {
				return "reply-differs", fmt.Sprintf("query %#x: the connection carried %d bytes, the handler's packed reply has %d", k, len(got[k]), len(s)-2)
			}
		}
		return "", ""
	}
	eval := func(ql, reply int) {
		var obs, detail string
		for try := 0; try < 3; try++ {
			obs, detail = one(ql, reply)
			res.Evaluations++
			res.Transitions++
			if obs == "" {
				res.Outcome(fmt.Sprintf("e/len %s/reply %d/ok", c16dClass(ql), reply))
				return
			}
		}
		if len(obs) > 5 && obs[:5] == "infra" {
			res.Infra = "e: " + obs + ": " + detail
			return
		}
		res.ViolateInput("tcp-server/"+obs, fmt.Sprintf("a %d byte query as the first frame of a plain TCP connection (reply of %d bytes) and a second query behind it: %s (same result three times)", ql, reply, detail), c16dInput{Len: ql, Reply: reply})
	}
	if raw, ok := vr.ReplayInput(); ok {
		var in c16dInput
		if err := json.Unmarshal(raw, &in); err != nil {
			t.Fatal(err)
		}
		eval(in.Len, in.Reply)
		for _, v := range res.Violations {
			fmt.Println("violation:", v.Sig, v.Desc)
		}
		res.Write(e)
		return
	}
	stride := 7
	if e.Tier == "thorough" {
		stride = 1
	}
	res.Bounds["e.query_lengths"] = fmt.Sprintf("17, 19..65535 step %d, plus every length whose low or high octet is 0x16, 0x17, 0x47 or 0x50 in quick (the first octets of TLS records and HTTP requests)", stride)
	res.Bounds["e.reply_sizes"] = c16dReplySizes
	n := 0
	last := 0
	for ql := 17; ql <= 65535 && res.Infra == ""; ql++ {
		hi, lo := ql>>8, ql&0xff
		special := hi == 0x16 || hi == 0x17 || hi == 0x47 || hi == 0x50 || ((lo == 0x16 || lo == 0x03) && hi < 0x20)
		if ql == 18 || (!special && (ql-17)%stride != 0) {
			continue
		}
		n++
		if !e.Mine(int64(n)) {
			continue
		}
		if e.Expired() {
			res.Exhaustive = false
			res.Notes = append(res.Notes, fmt.Sprintf("e: budget expired; lengths up to %d completed in shard %d", last, e.Shard))
			break
		}
		eval(ql, c16dReplySizes[n%len(c16dReplySizes)])
		res.States++
		last = ql
	}
	res.Write(e)
}
