package transport

// C16 part a (sequential half): stream framing is exact in both directions.
//
// Bounded-exhaustive enumeration on the real writers
//   dnsutils.WriteRawMsgToTCP, transport.copyMsgWithLenHdr, pool.PackTCPBuffer,
//   dnsutils.WriteMsgToTCP
// and the real readers dnsutils.ReadRawMsgFromTCP / ReadMsgFromTCP, compared
// with an independent reference framer (c16frame / c16parse below):
//
//  W  every message length 13..65535 x content patterns x every writer: the
//     bytes produced are exactly BE16(len) || msg; the stream (followed by a
//     second frame) is read back under every chunking of the list and returns
//     the message unchanged, the following frame stays intact.
//  X  lengths 65536, 65537, 100000: every writer refuses (error, no byte
//     written, no buffer returned).
//  C  small messages: ALL chunkings (compositions) of the byte stream.
//  R  all 65536 two-byte headers followed by 0..min(len,14) body bytes (and
//     the truncated headers): error for an announced length < 12 or a short
//     body, never a panic, a returned buffer has exactly the announced length.
//     (Announced length == 12 is outside the quantifier of C16: observed only.)

import (
	"strings"
	"bytes"
	"encoding/json"
	"fmt"
	"io"
	"testing"

	"github.com/IrineSistiana/mosdns/v5/pkg/dnsutils"
	"github.com/IrineSistiana/mosdns/v5/pkg/pool"
	"github.com/IrineSistiana/mosdns/v5/zz_verif/vr"
	"github.com/miekg/dns"
)

// ---------------------------------------------------------------- reference framer

func c16frame(msg []byte) []byte {
	o := make([]byte, 0, len(msg)+2)
	o = append(o, byte(len(msg)>>8), byte(len(msg)&0xff))
	return append(o, msg...)
}

// ---------------------------------------------------------------- harness stream

// c16reader hands out the stream in segments: a Read never crosses a segment
// boundary (like data arriving in separate TCP segments). seg(i) gives the size
// of the i-th segment; <= 0 means "everything that is left".
type c16reader struct {
	data  []byte
	pos   int
	segN  int
	left  int // left in the current segment
	seg   func(i int) int
	fixed int // 1: every segment is one byte long (seg is not consulted)
	reads int
}

func (r *c16reader) Read(p []byte) (int, error) {
	r.reads++
	if r.pos >= len(r.data) {
		return 0, io.EOF
	}
	if len(p) == 0 {
		return 0, nil
	}
	if r.fixed == 1 { // fast path of the 1-byte chunking
		p[0] = r.data[r.pos]
		r.pos++
		return 1, nil
	}
	if r.left == 0 {
		n := r.seg(r.segN)
		r.segN++
		if n <= 0 || n > len(r.data)-r.pos {
			n = len(r.data) - r.pos
		}
		r.left = n
	}
	n := len(p)
	if n > r.left {
		n = r.left
	}
	copy(p, r.data[r.pos:r.pos+n])
	r.pos += n
	r.left -= n
	return n, nil
}

type c16chunking struct {
	name string
	seg  func(l int) func(i int) int // l = message length
	one  bool                        // all segments are 1 byte long
}

func c16list(sizes ...int) func(i int) int {
	return func(i int) int {
		if i < len(sizes) {
			return sizes[i]
		}
		return 0
	}
}

var c16chunkings = []c16chunking{
	{"whole", func(l int) func(int) int { return c16list() }, false},
	{"1-byte-reads", func(l int) func(int) int { return func(int) int { return 1 } }, true},
	{"header-split-1+1", func(l int) func(int) int { return c16list(1, 1) }, false},
	{"header+1-then-rest", func(l int) func(int) int { return c16list(3) }, false},
	{"1-then-rest", func(l int) func(int) int { return c16list(1) }, false},
	{"header,body-1,last-byte", func(l int) func(int) int { return c16list(2, l-1, 1) }, false},
	{"frame-boundary-straddled", func(l int) func(int) int { return c16list(1, l, 2) }, false}, // last body byte arrives with the next header's first byte
	{"7-byte-segments", func(l int) func(int) int { return func(int) int { return 7 } }, false},
}

// c16writer records Write calls.
type c16writer struct {
	buf    bytes.Buffer
	writes int
}

func (w *c16writer) Write(p []byte) (int, error) {
	w.writes++
	return w.buf.Write(p)
}

// ---------------------------------------------------------------- content

// patterns: 0 position+length dependent (shows shifts, truncation, stale pool
// data), 1 all zero, 2 all 0xff (a body that looks like headers of maximal length)
func c16fill(b []byte, l, pat int) {
	switch pat {
	case 0:
		for i := range b {
			b[i] = byte(i*7 + l + i>>8)
		}
	case 1:
		for i := range b {
			b[i] = 0
		}
	default:
		for i := range b {
			b[i] = 0xff
		}
	}
}

// c16msg builds a dns.Msg whose packed size is exactly l (possible for l == 12,
// 17, 19..22 via the question name and every l >= 23 via NULL records).
func c16msg(l, pat int) *dns.Msg {
	m := new(dns.Msg)
	m.Id = uint16(l*31 + pat)
	m.Response = true
	switch {
	case l == 12:
		return m
	case l == 17:
		m.Question = []dns.Question{{Name: ".", Qtype: dns.TypeA, Qclass: dns.ClassINET}}
		return m
	case l >= 19 && l <= 22:
		m.Question = []dns.Question{{Name: "abcd"[:l-18] + ".", Qtype: dns.TypeA, Qclass: dns.ClassINET}}
		return m
	case l < 23:
		return nil
	}
	rest := l - 12
	for rest > 0 {
		d := rest - 11
		if d > 65535 {
			d = 65535
			if rest-11-d < 11 && rest-11-d > 0 { // leave room for one more record header
				d -= 11
			}
		}
		if d < 0 {
			return nil
		}
		data := make([]byte, d)
		c16fill(data, l, pat)
		m.Answer = append(m.Answer, &dns.NULL{Hdr: dns.RR_Header{Name: ".", Rrtype: dns.TypeNULL, Class: dns.ClassINET, Ttl: 60}, Data: string(data)})
		rest -= 11 + d
	}
	return m
}

// ---------------------------------------------------------------- real code under test

type c16wres struct {
	stream  []byte // bytes that reached the stream / the returned buffer
	err     error
	writes  int // Write calls (io.Writer based writers)
	hasBuf  bool
	panicky string
}

type c16writerFn struct {
	name     string
	raw      bool // takes raw bytes (else: a dns.Msg)
	readBack bool // read its stream back under every chunking (once per distinct stream content)
	run      func(raw []byte, m *dns.Msg) c16wres
}

func c16guard(f func() c16wres) (r c16wres) {
	defer func() {
		if p := recover(); p != nil {
			r.panicky = fmt.Sprint(p)
		}
	}()
	return f()
}

var c16writers = []c16writerFn{
	{"WriteRawMsgToTCP", true, true, func(raw []byte, _ *dns.Msg) c16wres {
		return c16guard(func() c16wres {
			w := new(c16writer)
			_, err := dnsutils.WriteRawMsgToTCP(w, raw)
			return c16wres{stream: w.buf.Bytes(), err: err, writes: w.writes}
		})
	}},
	{"copyMsgWithLenHdr", true, false, func(raw []byte, _ *dns.Msg) c16wres {
		return c16guard(func() c16wres {
			bp, err := copyMsgWithLenHdr(raw)
			r := c16wres{err: err, writes: 1}
			if bp != nil {
				r.hasBuf = true
				r.stream = append([]byte(nil), *bp...)
				pool.ReleaseBuf(bp)
			}
			return r
		})
	}},
	{"PackTCPBuffer", false, true, func(_ []byte, m *dns.Msg) c16wres {
		return c16guard(func() c16wres {
			bp, err := pool.PackTCPBuffer(m)
			r := c16wres{err: err, writes: 1}
			if bp != nil {
				r.hasBuf = true
				r.stream = append([]byte(nil), *bp...)
				pool.ReleaseBuf(bp)
			}
			return r
		})
	}},
	{"WriteMsgToTCP", false, false, func(_ []byte, m *dns.Msg) c16wres {
		return c16guard(func() c16wres {
			w := new(c16writer)
			_, err := dnsutils.WriteMsgToTCP(w, m)
			return c16wres{stream: w.buf.Bytes(), err: err, writes: w.writes}
		})
	}},
}

type c16rres struct {
	buf     []byte // valid until release()
	bp      *[]byte
	gotBuf  bool
	err     error
	panicky string
}

func c16readRaw(r io.Reader) (o c16rres) {
	defer func() {
		if p := recover(); p != nil {
			o.panicky = fmt.Sprint(p)
		}
	}()
	bp, err := dnsutils.ReadRawMsgFromTCP(r)
	o.err = err
	if bp != nil {
		o.gotBuf = true
		o.buf = *bp
		o.bp = bp
	}
	return
}

func (o *c16rres) release() {
	if o.bp != nil {
		pool.ReleaseBuf(o.bp)
		o.bp, o.buf = nil, nil
	}
}

type c16mres struct {
	m       *dns.Msg
	n       int
	err     error
	panicky string
}

func c16readMsg(r io.Reader) (o c16mres) {
	defer func() {
		if p := recover(); p != nil {
			o.panicky = fmt.Sprint(p)
		}
	}()
	o.m, o.n, o.err = dnsutils.ReadMsgFromTCP(r)
	return
}

// ---------------------------------------------------------------- the check

type c16input struct {
	Kind     string `json:"kind"` // roundtrip | refuse | header | compositions
	Writer   string `json:"writer,omitempty"`
	Len      int    `json:"len"`
	Pattern  int    `json:"pattern"`
	Chunking string `json:"chunking,omitempty"`
	Header   int    `json:"header,omitempty"`
	Body     int    `json:"body,omitempty"`
	Mask     uint64 `json:"mask,omitempty"` // compositions: bit i set = segment boundary after stream byte i
}

type c16run struct {
	res   *vr.Result
	calls int64
	print bool
	full  []byte // scratch: stream under test + trailer frame
	raw   []byte // scratch: message content
}

func (c *c16run) violate(sig, desc string, in c16input) {
	if c.print {
		fmt.Printf("REPLAY-VIOLATION property=C16 sig=%s\n  %s\n", sig, desc)
	}
	c.res.ViolateInput(sig, desc, in)
	for i := range c.res.Violations { // the merge keeps the cheapest = shortest counterexample of a signature
		if c.res.Violations[i].Sig == sig && c.res.Violations[i].Cost == 0 {
			c.res.Violations[i].Cost = in.Len + in.Header + 1
		}
	}
}

func c16short(b []byte) string {
	if len(b) <= 24 {
		return fmt.Sprintf("%x", b)
	}
	return fmt.Sprintf("%x..%x(len %d)", b[:12], b[len(b)-6:], len(b))
}

func c16diff(a, b []byte) string {
	if len(a) != len(b) {
		return fmt.Sprintf("length %d instead of %d", len(a), len(b))
	}
	for i := range a {
		if a[i] != b[i] {
			return fmt.Sprintf("first difference at offset %d: %#02x instead of %#02x", i, a[i], b[i])
		}
	}
	return "equal"
}

// trailer: a second frame written behind the frame under test; it must still be
// readable afterwards (the reader consumed exactly 2+len bytes).
var c16trailer = []byte{0xde, 0xad, 1, 0, 0, 1, 0, 0, 0, 0, 0, 0, 0xbe, 0xef, 0x42}

// readBack reads the stream (frame of msg + trailer frame) under one chunking.
func (c *c16run) readBack(in c16input, stream, msg []byte, seg func(int) int, one bool) string {
	c.full = append(append(c.full[:0], stream...), c16frame(c16trailer)...)
	rd := &c16reader{data: c.full, seg: seg}
	if one {
		rd.fixed = 1
	}
	c.calls++
	o := c16readRaw(rd)
	defer o.release()
	switch {
	case o.panicky != "":
		c.violate("read/panic", fmt.Sprintf("ReadRawMsgFromTCP panicked on a well-formed frame of %d bytes (%s): %s", len(msg), in.Chunking, o.panicky), in)
		return "panic"
	case o.err != nil || !o.gotBuf:
		c.violate("read/error-on-valid-frame", fmt.Sprintf("ReadRawMsgFromTCP failed on a well-formed frame of %d bytes (%s): %v", len(msg), in.Chunking, o.err), in)
		return "error"
	case len(o.buf) != len(msg):
		c.violate("read/wrong-size", fmt.Sprintf("ReadRawMsgFromTCP returned a buffer of %d bytes for a frame announcing %d (%s)", len(o.buf), len(msg), in.Chunking), in)
		return "wrong-size"
	case !bytes.Equal(o.buf, msg):
		c.violate("read/changed", fmt.Sprintf("message of %d bytes came back changed (%s): %s", len(msg), in.Chunking, c16diff(o.buf, msg)), in)
		return "changed"
	}
	c.calls++
	o2 := c16readRaw(rd)
	defer o2.release()
	if o2.panicky != "" || o2.err != nil || !bytes.Equal(o2.buf, c16trailer) {
		c.violate("read/next-frame-damaged", fmt.Sprintf("after reading a frame of %d bytes (%s) the following frame was not intact: err=%v panic=%q got=%s want=%s (reader consumed a wrong number of bytes)",
			len(msg), in.Chunking, o2.err, o2.panicky, c16short(o2.buf), c16short(c16trailer)), in)
		return "next-damaged"
	}
	return "ok"
}

func c16lenClass(l int) string {
	switch {
	case l <= 22:
		return "len13-22"
	case l < 255:
		return "len23-254"
	case l <= 256:
		return "len255-256(second-header-byte)"
	case l < 8190:
		return "len<8190"
	case l <= 8192:
		return "len8190-8192(pack-buffer-edge)"
	case l < 65535:
		return "len<65535"
	}
	return "len65535"
}

// roundtrip: one (writer, length, pattern): write, compare with the reference
// frame, read back under every listed chunking (or only `only`).
func (c *c16run) roundtrip(w c16writerFn, l, pat int, only string) {
	res := c.res
	in := c16input{Kind: "roundtrip", Writer: w.name, Len: l, Pattern: pat}
	var raw []byte
	var m *dns.Msg
	if w.raw {
		if cap(c.raw) < l {
			c.raw = make([]byte, l, 65536+l)
		}
		raw = c.raw[:l]
		c16fill(raw, l, pat)
	} else {
		m = c16msg(l, pat)
		if m == nil {
			res.Outcome("write/" + w.name + "/no-dns.Msg-packs-to-this-length(13-16,18)")
			return
		}
		var err error
		raw, err = m.Pack() // the library's own packing as reference content
		if err != nil || len(raw) != l {
			res.Infra = fmt.Sprintf("harness: cannot build a dns.Msg of packed size %d: got %d, %v", l, len(raw), err)
			return
		}
	}
	c.calls++
	res.Evaluations++
	wr := w.run(raw, m)
	want := c16frame(raw)
	switch {
	case wr.panicky != "":
		c.violate("write/panic/"+w.name, fmt.Sprintf("%s panicked for a message of %d bytes: %s", w.name, l, wr.panicky), in)
		return
	case wr.err != nil:
		c.violate("write/refused-valid-length/"+w.name, fmt.Sprintf("%s refused a message of %d bytes (<= 65535): %v", w.name, l, wr.err), in)
		res.Outcome("write/" + w.name + "/REFUSED-valid/" + c16lenClass(l))
		return
	case !bytes.Equal(wr.stream, want):
		c.violate("write/misframed/"+w.name, fmt.Sprintf("%s produced %s for a message of %d bytes, want header %02x%02x + the message (%s)",
			w.name, c16short(wr.stream), l, want[0], want[1], c16diff(wr.stream, want)), in)
		res.Outcome("write/" + w.name + "/MISFRAMED/" + c16lenClass(l))
		return
	}
	res.Outcome(fmt.Sprintf("write/%s/exact-frame,writes=%d/%s", w.name, wr.writes, c16lenClass(l)))
	for _, ch := range c16chunkings {
		if !w.readBack && !c.print {
			// the stream is byte-identical (just verified) to the one of the previous
			// writer, which has been read back under every chunking
			break
		}
		if only != "" && ch.name != only {
			continue
		}
		in.Chunking = ch.name
		res.Evaluations++
		k := c.readBack(in, wr.stream, raw, ch.seg(l), ch.one)
		if c.print {
			fmt.Printf("  read back under %-28s: %s\n", ch.name, k)
		}
		res.Outcome("read/" + ch.name + "/" + k)
	}
	if !w.raw {
		// the message level reader on the same stream
		in.Chunking = "ReadMsgFromTCP/7-byte-segments"
		c.calls++
		res.Evaluations++
		o := c16readMsg(&c16reader{data: wr.stream, seg: func(int) int { return 7 }})
		switch {
		case o.panicky != "":
			c.violate("readmsg/panic", fmt.Sprintf("ReadMsgFromTCP panicked on a valid message of %d bytes: %s", l, o.panicky), in)
		case o.err != nil || o.m == nil:
			c.violate("readmsg/error-on-valid-frame", fmt.Sprintf("ReadMsgFromTCP failed on a valid message of %d bytes: %v", l, o.err), in)
		default:
			back, err := o.m.Pack()
			if err != nil || !bytes.Equal(back, raw) || o.n != l+2 {
				c.violate("readmsg/changed", fmt.Sprintf("message of %d bytes came back changed through WriteMsg/ReadMsgFromTCP (n=%d, repack err=%v, %s)", l, o.n, err, c16diff(back, raw)), in)
			} else {
				res.Outcome("readmsg/unchanged")
			}
		}
	}
}

// c16compMsg builds a message whose packed form depends on name compression:
// n address records under one owner name of the given wire length, Compress set.
func c16compMsg(n, nameLen int) *dns.Msg {
	var labels []string
	left := nameLen - 1 // root label
	for left > 0 {
		l := left - 1
		if l > 63 {
			l = 63
		}
		if l <= 0 {
			break
		}
		labels = append(labels, strings.Repeat("c", l))
		left -= l + 1
	}
	name := strings.Join(labels, ".") + "."
	m := new(dns.Msg)
	m.Id = 0x1616
	m.Response = true
	m.Compress = true
	m.Question = []dns.Question{{Name: name, Qtype: dns.TypeA, Qclass: dns.ClassINET}}
	for i := 0; i < n; i++ {
		m.Answer = append(m.Answer, &dns.A{Hdr: dns.RR_Header{Name: name, Rrtype: dns.TypeA, Class: dns.ClassINET, Ttl: uint32(i)}, A: []byte{192, 0, 2, byte(i)}})
	}
	return m
}

// compressed: a message that packs (much) smaller than its uncompressed length
// through the dns.Msg based writers: the frame must be BE16(len)||packed form.
func (c *c16run) compressed(w c16writerFn, n, nameLen int) {
	res := c.res
	in := c16input{Kind: "compressed", Writer: w.name, Len: n, Pattern: nameLen}
	m := c16compMsg(n, nameLen)
	raw, err := m.Pack()
	if err != nil {
		res.Infra = fmt.Sprintf("harness: cannot pack the compressed message n=%d name=%d: %v", n, nameLen, err)
		return
	}
	c.calls++
	res.Evaluations++
	wr := w.run(raw, m)
	cls := fmt.Sprintf("uncompressed%s/packed%s", c16lenClass(m.Len()), c16lenClass(len(raw)))
	if len(raw) > 65535 {
		if wr.err == nil || len(wr.stream) > 0 {
			c.violate("write/oversize-accepted/"+w.name, fmt.Sprintf("%s accepted a message that packs to %d bytes", w.name, len(raw)), in)
		} else {
			res.Outcome("compressed/" + w.name + "/refused-oversize")
		}
		return
	}
	want := c16frame(raw)
	switch {
	case wr.panicky != "":
		c.violate("write/panic/"+w.name, fmt.Sprintf("%s panicked for a compressed message (%d records, packed %d, uncompressed %d bytes): %s", w.name, n, len(raw), m.Len(), wr.panicky), in)
		return
	case wr.err != nil:
		c.violate("write/refused-valid-length/"+w.name, fmt.Sprintf("%s refused a message that packs to %d bytes (<= 65535; %d records, compression on): %v", w.name, len(raw), n, wr.err), in)
		return
	case !bytes.Equal(wr.stream, want):
		c.violate("write/misframed/"+w.name, fmt.Sprintf("%s produced %s for a compressed message packing to %d bytes (uncompressed %d), want header %02x%02x + the packed message (%s)",
			w.name, c16short(wr.stream), len(raw), m.Len(), want[0], want[1], c16diff(wr.stream, want)), in)
		return
	}
	res.Outcome("compressed/" + w.name + "/exact-frame/" + cls)
	c.calls++
	res.Evaluations++
	o := c16readMsg(&c16reader{data: wr.stream, seg: func(int) int { return 7 }})
	if o.panicky != "" || o.err != nil || o.m == nil || len(o.m.Answer) != n || o.n != len(raw)+2 {
		c.violate("readmsg/changed", fmt.Sprintf("compressed message (%d records) came back changed through the writer and ReadMsgFromTCP: n=%d err=%v panic=%q", n, o.n, o.err, o.panicky), in)
	}
}

// refuse: a message longer than 65535 bytes must be refused by every writer.
func (c *c16run) refuse(w c16writerFn, l, pat int) {
	res := c.res
	in := c16input{Kind: "refuse", Writer: w.name, Len: l, Pattern: pat}
	var raw []byte
	var m *dns.Msg
	if w.raw {
		raw = make([]byte, l)
		c16fill(raw, l, pat)
	} else {
		m = c16msg(l, pat)
		if m == nil {
			res.Infra = fmt.Sprintf("harness: no dns.Msg of size %d", l)
			return
		}
		if n := m.Len(); n != l {
			res.Infra = fmt.Sprintf("harness: dns.Msg for size %d has length %d", l, n)
			return
		}
	}
	c.calls++
	res.Evaluations++
	wr := w.run(raw, m)
	switch {
	case wr.panicky != "":
		c.violate("refuse/panic/"+w.name, fmt.Sprintf("%s panicked for an oversized message of %d bytes: %s", w.name, l, wr.panicky), in)
	case wr.err == nil:
		c.violate("refuse/accepted-oversize/"+w.name, fmt.Sprintf("%s accepted a message of %d bytes (> 65535) and framed it as %s", w.name, l, c16short(wr.stream)), in)
		res.Outcome("refuse/" + w.name + "/ACCEPTED")
	case len(wr.stream) != 0 || wr.hasBuf:
		c.violate("refuse/bytes-written/"+w.name, fmt.Sprintf("%s returned %v for %d bytes but still emitted %s", w.name, wr.err, l, c16short(wr.stream)), in)
	default:
		if c.print {
			fmt.Printf("  %s refused %d bytes: %v\n", w.name, l, wr.err)
		}
		res.Outcome("refuse/" + w.name + "/refused,nothing-written")
	}
}

// header: an arbitrary two-byte header followed by k body bytes, then EOF.
func (c *c16run) header(h, k int, chunk string) {
	res := c.res
	in := c16input{Kind: "header", Header: h, Body: k, Chunking: chunk}
	data := make([]byte, 2+k)
	data[0], data[1] = byte(h>>8), byte(h)
	c16fill(data[2:], h, 0)
	seg := c16list()
	if chunk == "1-byte-reads" {
		seg = func(int) int { return 1 }
	}
	c.calls++
	res.Evaluations++
	o := c16readRaw(&c16reader{data: data, seg: seg})
	defer o.release()
	cls := ""
	switch {
	case o.panicky != "":
		c.violate("header/panic", fmt.Sprintf("ReadRawMsgFromTCP panicked on header %04x + %d body bytes: %s", h, k, o.panicky), in)
		cls = "PANIC"
	case o.gotBuf && len(o.buf) != h:
		c.violate("header/wrong-size", fmt.Sprintf("ReadRawMsgFromTCP returned a buffer of %d bytes for header %04x (announcing %d) + %d body bytes (err=%v)", len(o.buf), h, h, k, o.err), in)
		cls = "WRONG-SIZE"
	case h < 12 && o.err == nil:
		c.violate("header/accepted-too-small", fmt.Sprintf("ReadRawMsgFromTCP accepted a frame announcing %d bytes (< DNS header)", h), in)
		cls = "ACCEPTED-TOO-SMALL"
	case h < 12:
		cls = "announced<12/error"
	case h == 12 && o.err != nil:
		cls = "announced=12/refused(outside-quantifier,observed)"
	case h == 12:
		cls = "announced=12/accepted(outside-quantifier,observed)"
		if !bytes.Equal(o.buf, data[2:]) {
			c.violate("header/changed", fmt.Sprintf("header %04x: returned body differs", h), in)
		}
	case k < h && o.err == nil:
		c.violate("header/short-body-accepted", fmt.Sprintf("ReadRawMsgFromTCP returned success for header %04x (announcing %d) with only %d body bytes before EOF", h, h, k), in)
		cls = "SHORT-BODY-ACCEPTED"
	case k < h:
		cls = "short-body/error"
		if k == 0 {
			cls = "no-body/error"
		}
	case o.err != nil:
		c.violate("header/error-on-complete-frame", fmt.Sprintf("ReadRawMsgFromTCP failed on header %04x with a complete body: %v", h, o.err), in)
		cls = "ERROR-ON-COMPLETE"
	case !bytes.Equal(o.buf, data[2:]):
		c.violate("header/changed", fmt.Sprintf("header %04x: returned body differs: %s", h, c16diff(o.buf, data[2:])), in)
		cls = "CHANGED"
	default:
		cls = "complete/ok"
	}
	if c.print {
		fmt.Printf("  header %04x + %d bytes (%s): %s err=%v\n", h, k, chunk, cls, o.err)
	}
	res.Outcome("header/" + chunk + "/" + cls)
	// message level reader: garbage must give an error or a message, never a panic
	c.calls++
	m := c16readMsg(&c16reader{data: data, seg: seg})
	if m.panicky != "" {
		c.violate("header/readmsg-panic", fmt.Sprintf("ReadMsgFromTCP panicked on header %04x + %d body bytes: %s", h, k, m.panicky), in)
	} else if (h < 12 || k < h) && m.err == nil {
		c.violate("header/readmsg-accepted", fmt.Sprintf("ReadMsgFromTCP returned success on header %04x + %d body bytes", h, k), in)
	}
}

// compositions: every way to cut the stream (frame + trailer frame) into segments.
func (c *c16run) compositions(l int, mask uint64) string {
	in := c16input{Kind: "compositions", Len: l, Mask: mask, Chunking: fmt.Sprintf("mask=%#x", mask)}
	msg := make([]byte, l)
	c16fill(msg, l, 0)
	stream := c16frame(msg)
	// segment sizes from the mask (boundaries inside the frame under test only)
	var sizes []int
	run := 0
	for i := 0; i < len(stream); i++ {
		run++
		if i < len(stream)-1 && mask>>uint(i)&1 == 1 {
			sizes = append(sizes, run)
			run = 0
		}
	}
	sizes = append(sizes, run)
	c.res.Evaluations++
	return c.readBack(in, stream, msg, c16list(sizes...), false)
}

func TestVerifC16a(t *testing.T) {
	e := vr.GetEnv()
	res := vr.New("C16", e)
	c := &c16run{res: res}
	if in, ok := vr.ReplayInput(); ok {
		c16replay(t, c, in)
		return
	}
	thorough := e.Tier == "thorough"
	patterns := 1
	compMax := 16 // frame of 18 bytes: 2^17 compositions
	if thorough {
		patterns = 3
		compMax = 20
	}
	res.Rule = "a.W: one evaluation = one message (length, pattern) through one real writer compared with the reference frame BE16(len)||msg, plus one evaluation per chunking reading it back through ReadRawMsgFromTCP (a second frame follows and must stay intact); a.X: oversized messages per writer; a.C: every composition of the stream of a small frame; a.R: every two-byte header x body length 0..min(len,14) x {whole, 1-byte reads}. Outcome classes: writer x observation x length class, chunking x observation, header class x observation"
	var chn, wn []string
	for _, ch := range c16chunkings {
		chn = append(chn, ch.name)
	}
	for _, w := range c16writers {
		wn = append(wn, w.name)
	}
	res.Bounds["a.lengths"] = "13..65535 (all)"
	res.Bounds["a.patterns"] = patterns
	res.Bounds["a.writers"] = wn
	res.Bounds["a.chunkings"] = chn
	res.Bounds["a.oversize"] = []int{65536, 65537, 100000}
	res.Bounds["a.compositions"] = fmt.Sprintf("all 2^(len+1) chunkings of a frame for message lengths 13..%d", compMax)
	res.Bounds["a.headers"] = "all 65536 two-byte headers x body 0..min(len,14) bytes x {whole,1-byte-reads}; truncated header (0 and 1 byte)"
	var states int64

	// W: lengths high to low inside a shard would hide nothing; ascending = simplest first
	lastDone := 12
	for l := 13; l <= 65535; l++ {
		if !e.Mine(int64(l)) {
			continue
		}
		if e.Expired() {
			res.Exhaustive = false
			res.Notes = append(res.Notes, fmt.Sprintf("a.W: budget expired; lengths 13..%d completed in shard %d", lastDone, e.Shard))
			break
		}
		for pat := 0; pat < patterns; pat++ {
			for _, w := range c16writers {
				c.roundtrip(w, l, pat, "")
				states++
			}
		}
		lastDone = l
		if res.Infra != "" {
			break
		}
	}
	// Z: messages whose packed size depends on name compression (the writers must
	// size their buffers by what Pack produces, not by either length estimate)
	zn := []int{1, 2, 3, 10, 30, 60, 100, 200, 255, 256, 300, 511, 1000, 2000, 4000}
	zl := []int{3, 30, 64, 100, 255}
	if thorough {
		zn = nil
		for n := 1; n <= 4200; n++ {
			zn = append(zn, n)
		}
		zl = []int{3, 10, 30, 63, 64, 65, 100, 128, 200, 254, 255}
	}
	res.Bounds["a.compressed"] = fmt.Sprintf("%d record counts (1..%d) x owner name lengths %v, Compress=true, through PackTCPBuffer and WriteMsgToTCP", len(zn), zn[len(zn)-1], zl)
	zu := int64(0)
	for _, n := range zn {
		for _, nl := range zl {
			zu++
			if !e.Mine(zu) || res.Infra != "" {
				continue
			}
			for _, w := range c16writers {
				if !w.raw {
					c.compressed(w, n, nl)
					states++
				}
			}
		}
	}
	// X: oversized
	unit := int64(0)
	for _, l := range []int{65536, 65537, 100000} {
		for pat := 0; pat < patterns; pat++ {
			for _, w := range c16writers {
				unit++
				if e.Mine(unit) && res.Infra == "" {
					c.refuse(w, l, pat)
					states++
				}
			}
		}
	}
	// C: all compositions for small frames
	for l := 13; l <= compMax && res.Exhaustive; l++ {
		n := uint64(1) << uint(l+1) // l+2 stream bytes: l+1 possible boundaries
		for mask := uint64(0); mask < n; mask++ {
			if !e.Mine(int64(mask)) {
				continue
			}
			if mask&0xfff == 0 && e.Expired() {
				res.Exhaustive = false
				res.Notes = append(res.Notes, fmt.Sprintf("a.C: budget expired; all compositions completed for lengths 13..%d", l-1))
				break
			}
			res.Outcome("compositions/" + c.compositions(l, mask))
			states++
		}
	}
	// R: all headers
	for h := 0; h < 65536 && res.Exhaustive; h++ {
		if !e.Mine(int64(h)) {
			continue
		}
		if h&0xff == 0 && e.Expired() {
			res.Exhaustive = false
			res.Notes = append(res.Notes, fmt.Sprintf("a.R: budget expired at header %04x", h))
			break
		}
		kmax := h
		if kmax > 14 {
			kmax = 14
		}
		for k := 0; k <= kmax; k++ {
			for _, ch := range []string{"whole", "1-byte-reads"} {
				c.header(h, k, ch)
				states++
			}
		}
	}
	if e.Mine(0) {
		// truncated header: empty stream and a single byte
		for _, data := range [][]byte{{}, {0x00}, {0x01}, {0xff}} {
			c.calls++
			res.Evaluations++
			states++
			o := c16readRaw(&c16reader{data: data, seg: c16list()})
			if o.panicky != "" || o.err == nil || o.gotBuf {
				c.violate("header/truncated-header", fmt.Sprintf("ReadRawMsgFromTCP on a stream of %d byte(s): err=%v panic=%q buffer=%v", len(data), o.err, o.panicky, o.gotBuf), c16input{Kind: "header", Header: -1, Body: len(data)})
			} else {
				res.Outcome("header/truncated-header/error")
			}
		}
	}
	res.States = states
	res.Transitions = c.calls
	res.Sample(map[string]any{"writer": "WriteRawMsgToTCP", "len": 13, "frame_hex": fmt.Sprintf("%x", c16frame(func() []byte { b := make([]byte, 13); c16fill(b, 13, 0); return b }()))})
	res.Sample(map[string]any{"writer": "PackTCPBuffer", "len": 65535, "msg": "header + one NULL record with 65512 data bytes, packed size 65535"})
	res.Sample(map[string]any{"header_hex": "000d", "body_bytes": 12, "expect": "error (short body)"})
	res.Sample(map[string]any{"oversize": 65536, "expect": "every writer returns an error and writes nothing"})
	res.Write(e)
}

func c16replay(t *testing.T, c *c16run, raw json.RawMessage) {
	var in c16input
	if err := json.Unmarshal(raw, &in); err != nil {
		fmt.Println("INFRA: bad replay input:", err)
		t.Fatal(err)
	}
	c.print = true
	fmt.Printf("replaying %+v\n", in)
	var w *c16writerFn
	for i := range c16writers {
		if c16writers[i].name == in.Writer {
			w = &c16writers[i]
		}
	}
	switch in.Kind {
	case "roundtrip":
		if w == nil {
			t.Fatal("INFRA: unknown writer")
		}
		c.roundtrip(*w, in.Len, in.Pattern, "")
	case "refuse":
		if w == nil {
			t.Fatal("INFRA: unknown writer")
		}
		c.refuse(*w, in.Len, in.Pattern)
	case "compressed":
		if w == nil {
			t.Fatal("INFRA: unknown writer")
		}
		c.compressed(*w, in.Len, in.Pattern)
	case "header":
		if in.Header < 0 {
			o := c16readRaw(&c16reader{data: make([]byte, in.Body), seg: c16list()})
			fmt.Printf("  stream of %d byte(s): err=%v buffer=%v panic=%q\n", in.Body, o.err, o.gotBuf, o.panicky)
			if o.panicky != "" || o.err == nil || o.gotBuf {
				c.violate("header/truncated-header", "truncated header accepted", in)
			}
		} else {
			c.header(in.Header, in.Body, in.Chunking)
		}
	case "compositions":
		fmt.Println("  result:", c.compositions(in.Len, in.Mask))
	default:
		t.Fatal("INFRA: unknown replay kind")
	}
	if len(c.res.Violations) == 0 {
		fmt.Println("REPLAY-OK: the recorded input does not violate the property on the current tree")
	}
}
