package cache

// C19: cache dumps reload faithfully; damaged dumps are harmless.
//
// Bounded-exhaustive enumeration on the real code under the vs virtual clock:
//  roundtrip: cache contents x reload delay: original and reloaded cache must
//             serve the same answers at the same virtual instants
//  trunc:     every prefix of every dump: error + subset of the intact dump
//  flip/tiny/adv/file: corrupted and arbitrary inputs: no panic, bounded work,
//             bounded heap growth
// See check.json.

import (
	"errors"
	"reflect"
	"bytes"
	"compress/flate"
	stdgzip "compress/gzip"
	"context"
	"encoding/base64"
	"encoding/binary"
	"encoding/json"
	"flag"
	"fmt"
	"io"
	"math"
	"net"
	"net/http"
	"net/http/httptest"
	"os"
	"os/exec"
	"path/filepath"
	"runtime"
	"sort"
	"strings"
	"testing"
	"time"

	"github.com/IrineSistiana/mosdns/v5/pkg/query_context"
	"github.com/IrineSistiana/mosdns/v5/plugin/executable/sequence"
	"github.com/IrineSistiana/mosdns/v5/zz_verif/vr"
	"github.com/IrineSistiana/mosdns/v5/zz_verif/vs"
	"github.com/miekg/dns"
	"google.golang.org/protobuf/proto"
)

const (
	c19DumpAt    = 8 * time.Second // virtual instant of the dump; entries are stored in [0s, 8s]
	c19HeapLimit = 256 << 20       // heap growth allowed for one load
	c19PeakLimit = 48 << 20        // live heap (after a forced collection) allowed at any read of the input, adversarial files
	c19ReadLimit = 1 << 20         // reads tolerated after the input reported EOF
	c19GcWindow  = 400 * time.Second
	c19Size      = 1 << 16 // 1024 entries per store shard: the contents (<= 300 entries) are never evicted
)

var c19Cfg = vs.Config{NoWatchdog: true, Horizon: time.Duration(math.MaxInt64), MaxEvents: 1 << 40}

// ---------------------------------------------------------------------------
// contents alphabet (answers / TTLs of the C05 alphabet that the cache admits)

type c19Rec struct {
	Sec int
	TTL uint32
}

type c19Tpl struct {
	Recs  []c19Rec
	Rcode int
}

const c19Max = math.MaxUint32

var c19Tpls = []c19Tpl{
	{Recs: []c19Rec{{0, 300}}},
	{Recs: []c19Rec{{0, 2}}},
	{Recs: []c19Rec{{0, 5}}},
	{Recs: []c19Rec{{0, 1}}},
	{Recs: []c19Rec{{0, 29}}},
	{Recs: []c19Rec{{0, 30}}},
	{Recs: []c19Rec{{0, 31}}},
	{Recs: []c19Rec{{0, 299}}},
	{Recs: []c19Rec{{0, 301}}},
	{Recs: []c19Rec{{0, 1 << 31}}},
	{Recs: []c19Rec{{0, c19Max}}},
	{Recs: []c19Rec{{0, 300}, {1, 30}, {2, 5}}},
	{Recs: []c19Rec{{0, 5}, {0, 301}}},
	{Recs: []c19Rec{{0, c19Max}, {2, 1 << 31}}},
	{Recs: []c19Rec{{0, 30}, {0, 30}, {0, 30}}},
	{Recs: []c19Rec{{1, 1}}},
	{Recs: []c19Rec{{1, 5}}},
	{Recs: []c19Rec{{1, 299}}},
	{Recs: []c19Rec{{1, 300}}},
	{Recs: []c19Rec{{1, 301}}},
	{Recs: []c19Rec{{1, 1 << 31}}},
	{Recs: []c19Rec{{1, 1}}, Rcode: dns.RcodeNameError},
	{Recs: []c19Rec{{1, 30}}, Rcode: dns.RcodeNameError},
	{Recs: []c19Rec{{1, 31}}, Rcode: dns.RcodeNameError},
	{Recs: []c19Rec{{1, 300}}, Rcode: dns.RcodeNameError},
	{Rcode: dns.RcodeNameError},
	{Rcode: dns.RcodeServerFailure},
	{Recs: []c19Rec{{1, 5}}, Rcode: dns.RcodeServerFailure},
	{Recs: []c19Rec{{1, 300}}, Rcode: dns.RcodeServerFailure},
}

// The questions of the contents vary with the entry: names of up to 200 octets,
// types with a low / high byte >= 0x80, classes other than IN (the key of a dump
// entry is binary: every byte value may occur in it).
func c19Name(i int) string {
	if i%13 == 5 {
		return fmt.Sprintf("e%03d.%s.%s.%s.c19.test.", i, strings.Repeat("x", 60), strings.Repeat("y", 60), strings.Repeat("z", 60))
	}
	return fmt.Sprintf("e%03d.c19.test.", i)
}

var c19QTypes = []uint16{dns.TypeA, dns.TypeAAAA, dns.TypeANY, dns.TypeTXT, 0x01ff, 0x8001, dns.TypeA, 0xff00}

func c19QTC(i int) (uint16, uint16) {
	t, c := c19QTypes[i%len(c19QTypes)], uint16(dns.ClassINET)
	switch {
	case i%5 == 3:
		c = dns.ClassCHAOS
	case i%11 == 7:
		c = dns.ClassANY
	case i%17 == 9:
		c = 0x80fe
	}
	return t, c
}

// c19Question builds the question of entry i (i < 0: a plain A/IN question for name).
func c19Question(i int, name string) *dns.Msg {
	q := new(dns.Msg)
	if i < 0 {
		q.SetQuestion(name, dns.TypeA)
		return q
	}
	t, c := c19QTC(i)
	q.SetQuestion(c19Name(i), t)
	q.Question[0].Qclass = c
	// the DNSSEC-relevant query flags are part of what an entry was stored for
	q.AuthenticatedData = i%7 == 2
	q.CheckingDisabled = i%7 == 4 || i%10 == 6
	if i%9 == 1 || i%10 == 6 {
		q.SetEdns0(1232, true) // DO
	}
	return q
}

// c19EntryKey is the cache key of entry i as the plugin computes it: on the
// query as the query context presents it (the client's OPT is replaced there).
func c19EntryKey(i int) string {
	return verifMsgKey(query_context.NewContext(c19Question(i, "")).Q())
}

// c19Index recovers the entry index from one of its names (-1: not an entry name).
func c19Index(name string) int {
	var i int
	if n, _ := fmt.Sscanf(name, "e%03d.", &i); n == 1 && c19Name(i) == name {
		return i
	}
	return -1
}

func c19Build(tp c19Tpl, q *dns.Msg, i int) *dns.Msg {
	m := new(dns.Msg)
	m.SetRcode(q, tp.Rcode)
	m.RecursionAvailable = true
	name := q.Question[0].Name
	for k, r := range tp.Recs {
		switch r.Sec {
		case 0:
			m.Answer = append(m.Answer, &dns.A{Hdr: dns.RR_Header{Name: name, Rrtype: dns.TypeA, Class: dns.ClassINET, Ttl: r.TTL}, A: net.IPv4(10, byte(i>>8), byte(i), byte(k+1)).To4()})
		case 1:
			m.Ns = append(m.Ns, &dns.SOA{Hdr: dns.RR_Header{Name: "c19.test.", Rrtype: dns.TypeSOA, Class: dns.ClassINET, Ttl: r.TTL},
				Ns: "ns.c19.test.", Mbox: "m.c19.test.", Serial: uint32(i*8 + k), Refresh: 1800, Retry: 900, Expire: 604800, Minttl: 86400})
		default:
			m.Extra = append(m.Extra, &dns.AAAA{Hdr: dns.RR_Header{Name: "ns.c19.test.", Rrtype: dns.TypeAAAA, Class: dns.ClassINET, Ttl: r.TTL}, AAAA: net.IP{0x20, 1, 0xd, 0xb8, 0, 0, 0, 0, 0, 0, 0, 0, 0, byte(i >> 8), byte(i), byte(k + 1)}})
		}
	}
	return m
}

// c19Up is the fake next plugin: in store mode it answers from the template of
// the asked name, in probe mode it never answers (the cache is not changed).
type c19Up struct {
	answer func(q *dns.Msg) *dns.Msg // nil: never answer
	always bool                      // replace a response that is already there (every Exec saves)
	mainID int
	fgHad  bool
}

func (u *c19Up) Exec(ctx context.Context, qCtx *query_context.Context) error {
	id, _ := vs.CurThread()
	if id == u.mainID {
		u.fgHad = qCtx.R() != nil
	}
	if u.answer == nil || (qCtx.R() != nil && !u.always) {
		return nil
	}
	if m := u.answer(qCtx.Q()); m != nil {
		qCtx.SetResponse(m)
	}
	return nil
}

func c19Exec(c *Cache, u *c19Up, name string, id uint16) (hit bool, resp *dns.Msg) {
	q := c19Question(c19Index(name), name)
	q.Id = id
	qCtx := query_context.NewContext(q)
	u.fgHad = false
	w := sequence.NewChainWalker([]*sequence.ChainNode{{E: u}}, nil)
	if err := c.Exec(context.Background(), qCtx, w); err != nil {
		panic(err)
	}
	return u.fgHad, qCtx.R()
}

func c19Yield() {
	var wg vs.WaitGroup
	wg.Add(1)
	vs.Go(func() { wg.Done() })
	wg.Wait()
}

// ---------------------------------------------------------------------------
// contents configuration

type c19Conf struct {
	N      int  `json:"n"`
	Lazy   int  `json:"lazy"`
	Subsec bool `json:"subsec"`
	Rot    int  `json:"rot"`
	// Size: configured cache size of the original AND of the reloaded instance (0: c19Size).
	// Sizes below 1024 are legal: the store's documented minimum of 1024 entries applies.
	Size int `json:"size,omitempty"`
	// Fat: every answer carries 300 more address records (6-9 KiB per entry in the dump): a block
	// of 128 such entries is about 1 MiB
	Fat bool `json:"fat,omitempty"`
}

// c19CurSize is the configured size used by every cache the scenarios build
// (set from the configuration under test; sequential code).
var c19CurSize = c19Size

func (cf c19Conf) use() func() {
	old := c19CurSize
	if cf.Size != 0 {
		c19CurSize = cf.Size
	} else {
		c19CurSize = c19Size
	}
	return func() { c19CurSize = old }
}

func (cf c19Conf) tpl(i int) c19Tpl { return c19Tpls[(i+cf.Rot)%len(c19Tpls)] }

// storeAt: entry i is stored at second i mod 9 (ages 8..0 s at the dump), odd
// entries half a second later in the sub-second family.
func (cf c19Conf) storeAt(i int) time.Duration {
	d := time.Duration((i+cf.Rot/len(c19Tpls))%9) * time.Second
	if cf.Subsec && i%2 == 1 && d < c19DumpAt {
		d += 500 * time.Millisecond
	}
	return d
}

func (cf c19Conf) nclass() string {
	switch {
	case cf.N == 0:
		return "n0"
	case cf.N <= 3:
		return "n1-3"
	case cf.N <= 129:
		return "n127-129"
	}
	return "n256-300"
}

// c19Populate creates the original cache and stores the N entries through Exec
// at their instants; the clock ends at c19DumpAt.
func c19Populate(cf c19Conf, mainID int, args *Args) (*Cache, *c19Up, int) {
	c := NewCache(args, Opts{})
	c19Yield() // the plugin's background goroutines (sweeper, dump loop) start now
	u := &c19Up{mainID: mainID}
	u.answer = func(q *dns.Msg) *dns.Msg {
		var i int
		fmt.Sscanf(q.Question[0].Name, "e%03d.", &i)
		m := c19Build(cf.tpl(i), q, i)
		if cf.N == 300 && cf.Rot == 0 && !cf.Subsec && i == 290 && len(m.Answer) > 0 {
			// one legal giant: 3000 more address records under the same owner name - about 48 KiB
			// with name compression (it fits a TCP frame), about 180 KiB without (as the dump keeps it)
			ttl := m.Answer[0].Header().Ttl
			for k := 0; k < 3000; k++ {
				m.Answer = append(m.Answer, &dns.A{Hdr: dns.RR_Header{Name: q.Question[0].Name, Rrtype: dns.TypeA, Class: dns.ClassINET, Ttl: ttl}, A: net.IPv4(172, 16, byte(k>>8), byte(k)).To4()})
			}
		}
		if cf.Fat && len(m.Answer) > 0 {
			ttl := m.Answer[0].Header().Ttl
			for k := 0; k < 300; k++ {
				m.Answer = append(m.Answer, &dns.A{Hdr: dns.RR_Header{Name: q.Question[0].Name, Rrtype: dns.TypeA, Class: dns.ClassINET, Ttl: ttl}, A: net.IPv4(172, 17, byte(k>>8), byte(k)).To4()})
			}
		}
		return m
	}
	order := make([]int, cf.N)
	for i := range order {
		order[i] = i
	}
	sort.SliceStable(order, func(a, b int) bool { return cf.storeAt(order[a]) < cf.storeAt(order[b]) })
	ops := 0
	for _, i := range order {
		if d := cf.storeAt(i) - vs.Elapsed(); d > 0 {
			vs.Advance(d)
			c19Yield()
		}
		c19Exec(c, u, c19Name(i), uint16(i))
		ops++
	}
	if d := c19DumpAt - vs.Elapsed(); d > 0 {
		vs.Advance(d)
		c19Yield()
	}
	u.answer = nil
	return c, u, ops
}

// ---------------------------------------------------------------------------
// plugin API access

// c19Reader guards against a loader that spins on an exhausted input.
type c19Reader struct {
	r        io.Reader
	afterEOF int
	// peak sampling (adversarial files only): live heap after a forced collection
	// at every read of the input, relative to base
	sample bool
	base   uint64
	peak   int64
}

func (g *c19Reader) Read(p []byte) (int, error) {
	if g.sample {
		var m runtime.MemStats
		runtime.GC()
		runtime.ReadMemStats(&m)
		if d := int64(m.HeapAlloc) - int64(g.base); d > g.peak {
			g.peak = d
		}
	}
	n, err := g.r.Read(p)
	if err == io.EOF {
		g.afterEOF++
		if g.afterEOF > c19ReadLimit {
			panic("c19: loader keeps reading an exhausted input (hang)")
		}
	}
	return n, err
}
func (g *c19Reader) Close() error { return nil }

func c19Get(c *Cache) (int, []byte) {
	rec := httptest.NewRecorder()
	c.Api().ServeHTTP(rec, httptest.NewRequest(http.MethodGet, "/dump", nil))
	return rec.Code, rec.Body.Bytes()
}

func c19Post(c *Cache, data []byte) (int, string) {
	code, body, _ := c19PostPeak(c, data, false)
	return code, body
}

func c19PostPeak(c *Cache, data []byte, sample bool) (int, string, int64) {
	rec := httptest.NewRecorder()
	req := httptest.NewRequest(http.MethodPost, "/load_dump", nil)
	rd := &c19Reader{r: bytes.NewReader(data), sample: sample}
	if sample {
		var m runtime.MemStats
		runtime.GC()
		runtime.ReadMemStats(&m)
		rd.base = m.HeapAlloc
	}
	req.Body = rd
	req.ContentLength = int64(len(data))
	c.Api().ServeHTTP(rec, req)
	return rec.Code, strings.TrimSpace(rec.Body.String()), rd.peak
}

type c19Snap struct {
	Msg      string
	Stored   int64 // unix ns
	MsgExp   int64
	CacheExp int64
}

// c19WithKey / c19KeyOf access the key field of a dump entry through reflection,
// so that the harness keeps compiling when a change gives the field another
// type (bytes <-> string).
func c19WithKey(e *CachedEntry, k string) *CachedEntry {
	f := reflect.ValueOf(e).Elem().FieldByName("Key")
	switch f.Kind() {
	case reflect.String:
		f.SetString(k)
	case reflect.Slice:
		f.SetBytes([]byte(k))
	}
	return e
}

func c19KeyOf(e *CachedEntry) string {
	f := reflect.ValueOf(e).Elem().FieldByName("Key")
	switch f.Kind() {
	case reflect.String:
		return f.String()
	case reflect.Slice:
		return string(f.Bytes())
	}
	return ""
}

// c19Canon: canonical form of a message for equality (uncompressed wire format).
func c19Canon(m *dns.Msg) string {
	c := m.Compress
	m.Compress = false
	b, err := m.Pack()
	m.Compress = c
	if err != nil {
		return "unpackable: " + m.String()
	}
	return string(b)
}

func c19Snapshot(c *Cache) map[string]c19Snap {
	out := map[string]c19Snap{}
	c.backend.Range(func(k key, v *item, exp time.Time) error {
		out[string(k)] = c19Snap{Msg: c19Canon(v.resp), Stored: v.storedTime.UnixNano(), MsgExp: v.expirationTime.UnixNano(), CacheExp: exp.UnixNano()}
		return nil
	})
	return out
}

// c19Decode is the naive reference decoder of the dump format: gzip stream,
// 8-byte big-endian length + protobuf block, repeated. It returns the entries of
// an intact dump and the offsets of the block starts in the uncompressed stream.
func c19Decode(d []byte) (map[string]c19Snap, []int, int, error) {
	zr, err := stdgzip.NewReader(bytes.NewReader(d))
	if err != nil {
		return nil, nil, 0, err
	}
	raw, err := io.ReadAll(zr)
	if err != nil {
		return nil, nil, 0, err
	}
	out := map[string]c19Snap{}
	var starts []int
	for off := 0; off < len(raw); {
		starts = append(starts, off)
		if len(raw)-off < 8 {
			return nil, nil, 0, fmt.Errorf("short block header")
		}
		l := int(binary.BigEndian.Uint64(raw[off:]))
		off += 8
		if l < 0 || len(raw)-off < l {
			return nil, nil, 0, fmt.Errorf("short block")
		}
		blk := new(CacheDumpBlock)
		if err := proto.Unmarshal(raw[off:off+l], blk); err != nil {
			return nil, nil, 0, err
		}
		off += l
		for _, e := range blk.GetEntries() {
			m := new(dns.Msg)
			if err := m.Unpack(e.GetMsg()); err != nil {
				return nil, nil, 0, err
			}
			out[c19KeyOf(e)] = c19Snap{Msg: c19Canon(m), Stored: time.Unix(e.GetMsgStoredTime(), 0).UnixNano(),
				MsgExp: time.Unix(e.GetMsgExpirationTime(), 0).UnixNano(), CacheExp: time.Unix(e.GetCacheExpirationTime(), 0).UnixNano()}
		}
	}
	return out, starts, len(raw), nil
}

// c19Avail: how many uncompressed bytes a prefix of the dump still yields
// (-1: not even the gzip header).
func c19Avail(prefix []byte) int {
	hl := c19HeaderLen(prefix)
	if hl < 0 {
		return -1
	}
	fr := flate.NewReader(bytes.NewReader(prefix[hl:]))
	n, _ := io.Copy(io.Discard, fr)
	return int(n)
}

// c19HeaderLen parses the gzip member header (FNAME only, as written by the plugin).
func c19HeaderLen(d []byte) int {
	if len(d) < 10 {
		return -1
	}
	off := 10
	if d[3]&0x08 != 0 {
		i := bytes.IndexByte(d[off:], 0)
		if i < 0 {
			return -1
		}
		off += i + 1
	}
	return off
}

// ---------------------------------------------------------------------------
// scenario roundtrip

type c19RtIn struct {
	Scenario string  `json:"scenario"`
	Conf     c19Conf `json:"conf"`
	DeltaNs  int64   `json:"delta_ns"`
}

type c19Verdict struct {
	Outcomes map[string]int64
	Sig      string
	Desc     string
	Infra    string
	Evals    int64
	Ops      int64
	States   int64
}

func c19MsgLine(m *dns.Msg) string {
	if m == nil {
		return "<nil>"
	}
	var p []string
	for s, sec := range [3][]dns.RR{m.Answer, m.Ns, m.Extra} {
		for _, rr := range sec {
			p = append(p, fmt.Sprintf("%s:%s:%d", [...]string{"an", "ns", "ar"}[s], dns.TypeToString[rr.Header().Rrtype], rr.Header().Ttl))
		}
	}
	return fmt.Sprintf("rcode %d [%s]", m.Rcode, strings.Join(p, " "))
}

// c19SameServed compares what the two caches served. tol: TTLs of the reloaded
// cache may be one lower (dump times have second resolution).
func c19SameServed(a, b *dns.Msg, tol bool) string {
	if a.Rcode != b.Rcode || a.Response != b.Response || a.Authoritative != b.Authoritative || a.RecursionDesired != b.RecursionDesired ||
		a.RecursionAvailable != b.RecursionAvailable || a.AuthenticatedData != b.AuthenticatedData || a.CheckingDisabled != b.CheckingDisabled ||
		a.Truncated != b.Truncated || a.Opcode != b.Opcode {
		return "header differs"
	}
	if len(a.Question) != len(b.Question) || (len(a.Question) == 1 && a.Question[0] != b.Question[0]) {
		return "question differs"
	}
	as, bs := [3][]dns.RR{a.Answer, a.Ns, a.Extra}, [3][]dns.RR{b.Answer, b.Ns, b.Extra}
	for s := range as {
		if len(as[s]) != len(bs[s]) {
			return fmt.Sprintf("section %d: %d records vs %d", s, len(as[s]), len(bs[s]))
		}
		for i := range as[s] {
			ra, rb := as[s][i], bs[s][i]
			ta, tb := ra.Header().Ttl, rb.Header().Ttl
			if !dns.IsDuplicate(ra, rb) || ra.Header().Name != rb.Header().Name {
				return fmt.Sprintf("section %d record %d differs: %q vs %q", s, i, ra.String(), rb.String())
			}
			if ta != tb && !(tol && (tb+1 == ta || (tb == 1 && ta <= 2))) {
				return fmt.Sprintf("section %d record %d (%s): original serves TTL %d, reloaded serves TTL %d", s, i, dns.TypeToString[ra.Header().Rrtype], ta, tb)
			}
		}
	}
	return ""
}

func c19RunRoundtrip(in c19RtIn, verbose bool) c19Verdict {
	defer in.Conf.use()()
	cf := in.Conf
	v := c19Verdict{Outcomes: map[string]int64{}}
	delta := time.Duration(in.DeltaNs)
	viol := func(sig, desc string) {
		if v.Sig == "" {
			v.Sig, v.Desc = sig, desc
		}
		if verbose {
			fmt.Println("  MISMATCH", sig, desc)
		}
	}
	x := vs.Run1(c19Cfg, func() {
		id, _ := vs.CurThread()
		args := func() *Args { return &Args{Size: c19CurSize, LazyCacheTTL: cf.Lazy} }
		a, u, ops := c19Populate(cf, id, args())
		defer a.Close()
		v.Ops += int64(ops)
		code, dump := c19Get(a)
		v.Ops++
		if code != 200 {
			viol("roundtrip/dump-failed", fmt.Sprintf("GET /dump answered %d", code))
			return
		}
		dump = append([]byte(nil), dump...)
		snapA := c19Snapshot(a)
		if _, _, _, err := c19Decode(dump); err != nil {
			viol("roundtrip/dump-unreadable", "reference decoder cannot read the dump: "+err.Error())
			return
		}
		if delta > 0 {
			vs.Advance(delta)
			c19Yield()
		}
		b := NewCache(args(), Opts{})
		c19Yield() // the plugin's background goroutines (sweeper, dump loop) start now
		defer b.Close()
		code, body := c19Post(b, dump)
		v.Ops++
		if code != 200 {
			viol("roundtrip/load-failed", fmt.Sprintf("POST /load_dump of an intact dump answered %d %s", code, body))
			return
		}
		loadAt := vs.Elapsed()
		snapB := c19Snapshot(b)
		v.States += int64(len(snapB))
		// probe plan: per entry, the instants around the load and around its own expiries
		type probe struct {
			at  time.Duration
			i   int
			lbl string
		}
		var plan []probe
		epoch := vs.Epoch.UnixNano()
		for i := 0; i < cf.N; i++ {
			k := c19EntryKey(i)
			pts := []probe{{loadAt, i, "load"}, {loadAt + 1, i, "load+1ns"}, {loadAt + time.Second - 1, i, "load+1s-1ns"}, {loadAt + time.Second, i, "load+1s"}}
			if s, ok := snapA[k]; ok {
				for bi, bnd := range []int64{s.MsgExp, s.CacheExp} {
					if bi == 1 && s.CacheExp == s.MsgExp {
						continue
					}
					nm := [...]string{"msgexp", "cacheexp"}[bi]
					d := time.Duration(bnd - epoch)
					pts = append(pts, probe{d - time.Second, i, nm + "-1s"}, probe{d - 1, i, nm + "-1ns"}, probe{d, i, nm}, probe{d + 1, i, nm + "+1ns"}, probe{d + time.Second, i, nm + "+1s"})
				}
			}
			for _, p := range pts {
				if p.at >= loadAt {
					plan = append(plan, p)
				}
			}
		}
		sort.SliceStable(plan, func(x, y int) bool { return plan[x].at < plan[y].at })
		ub := &c19Up{mainID: id}
		gcOff := false
		seen := map[[2]int64]bool{}
		for n, p := range plan {
			if seen[[2]int64{int64(p.at), int64(p.i)}] {
				continue
			}
			seen[[2]int64{int64(p.at), int64(p.i)}] = true
			if d := p.at - vs.Elapsed(); d > 0 {
				if !gcOff && p.at > c19DumpAt+c19GcWindow {
					a.backend.Close()
					b.backend.Close()
					c19Yield()
					gcOff = true
				}
				vs.Advance(d)
				c19Yield()
			}
			ha, ra := c19Exec(a, u, c19Name(p.i), uint16(n))
			hb, rb := c19Exec(b, ub, c19Name(p.i), uint16(n))
			v.Ops += 2
			v.Evals++
			if n%64 == 63 {
				c19Yield()
			}
			k := c19EntryKey(p.i)
			sa := snapA[k]
			tol := cf.Subsec && (sa.Stored%int64(time.Second) != 0)
			now := vs.Now().UnixNano()
			form := func(hit bool, s c19Snap) string {
				switch {
				case !hit:
					return "miss"
				case now < s.MsgExp:
					return "fresh"
				}
				return "stale"
			}
			where := fmt.Sprintf("entry %s (answer %v rcode %d, stored at t=%v), contents n=%d lazy_cache_ttl=%d, dump at t=%v, reload at t=%v, queried at t=%v", c19Name(p.i), cf.tpl(p.i).Recs, cf.tpl(p.i).Rcode, cf.storeAt(p.i), cf.N, cf.Lazy, c19DumpAt, loadAt, p.at)
			if tol {
				// second resolution: within the last second before an expiry of the original the two may differ
				skip := false
				for _, bnd := range []int64{sa.MsgExp, sa.CacheExp} {
					if now > bnd-int64(time.Second) && now <= bnd {
						skip = true
					}
				}
				if skip {
					v.Outcomes["roundtrip/"+p.lbl+"/subsecond-window-not-compared"]++
					continue
				}
			}
			switch {
			case ha != hb:
				viol("roundtrip/liveness-differs", fmt.Sprintf("original served=%v (%s), reloaded served=%v (%s); %s", ha, c19MsgLine(ra), hb, c19MsgLine(rb), where))
			case ha:
				if d := c19SameServed(ra, rb, tol); d != "" {
					kind := "answer"
					if strings.Contains(d, "TTL") {
						kind = "ttl"
					}
					viol("roundtrip/"+kind+"-differs", d+"; original "+c19MsgLine(ra)+", reloaded "+c19MsgLine(rb)+"; "+where)
				}
			}
			v.Outcomes["roundtrip/"+p.lbl+"/"+form(ha, sa)]++
		}
	})
	if x.Panic != "" {
		v.Sig, v.Desc = "roundtrip/panic", x.Panic
	} else if !x.Quiescent || x.Livelock {
		v.Infra = fmt.Sprintf("roundtrip did not end cleanly: quiescent=%v livelock=%v blocked=%v", x.Quiescent, x.Livelock, x.Blocked)
	}
	return v
}

// ---------------------------------------------------------------------------
// loading one (damaged) file into an empty cache at a virtual instant

type c19Load struct {
	Status  int
	Body    string
	Panic   string
	Infra   string
	Growth  int64
	Peak    int64 // sampled live-heap peak (adversarial family), 0 otherwise
	Entries map[string]c19Snap
}

func c19LoadAt(at time.Duration, lazy int, data []byte) c19Load {
	return c19LoadAtPeak(at, lazy, data, false)
}

func c19LoadAtPeak(at time.Duration, lazy int, data []byte, sample bool) c19Load {
	var r c19Load
	cfg := c19Cfg
	cfg.Horizon = at + time.Hour // a load that is still not back an hour later hangs (the cache's tickers would keep the clock running for ever)
	x := vs.Run1(cfg, func() {
		vs.Advance(at)
		c := NewCache(&Args{Size: c19CurSize, LazyCacheTTL: lazy}, Opts{})
		c19Yield() // the plugin's background goroutines (sweeper, dump loop) start now
		var m0, m1 runtime.MemStats
		runtime.ReadMemStats(&m0)
		r.Status, r.Body, r.Peak = c19PostPeak(c, data, sample)
		runtime.ReadMemStats(&m1)
		r.Growth = int64(m1.HeapAlloc) - int64(m0.HeapAlloc)
		r.Entries = c19Snapshot(c)
		c.Close()
	})
	if x.Panic != "" {
		r.Panic = x.Panic
	} else if (!x.Quiescent || x.Livelock) && r.Status == 0 {
		// the request never returned: every thread of the loader is parked for good
		r.Panic = fmt.Sprintf("hang: POST /load_dump never returned (livelock=%v, parked: %v)", x.Livelock, x.Blocked)
	} else if !x.Quiescent || x.Livelock {
		r.Infra = fmt.Sprintf("load did not end cleanly: quiescent=%v livelock=%v blocked=%v", x.Quiescent, x.Livelock, x.Blocked)
	}
	return r
}

func c19ErrKind(r c19Load) string {
	switch {
	case r.Status == 200:
		return "accepted"
	case strings.Contains(r.Body, "gzip header"):
		return "err-gzip-header"
	case strings.Contains(r.Body, "invalid or old cache dump"):
		return "err-dump-name"
	case strings.Contains(r.Body, "block length is big"):
		return "err-block-length"
	case strings.Contains(r.Body, "read block header"):
		return "err-read-block-header"
	case strings.Contains(r.Body, "read block data"):
		return "err-read-block-data"
	case strings.Contains(r.Body, "decode block data"):
		return "err-protobuf"
	case strings.Contains(r.Body, "decode dns msg"):
		return "err-dns-msg"
	case strings.Contains(r.Body, "checksum"):
		return "err-gzip-checksum"
	}
	return "err-other"
}

// c19Harmless: the part of the oracle shared by every damaged input.
func c19Harmless(r c19Load, family string) (sig, desc string) {
	switch {
	case r.Panic != "" && strings.Contains(r.Panic, "exhausted input"):
		return family + "/hang", "loader keeps reading after the input ended: " + r.Panic[:min(len(r.Panic), 300)]
	case strings.HasPrefix(r.Panic, "hang:"):
		return family + "/hang", r.Panic[:min(len(r.Panic), 600)]
	case r.Panic != "":
		return family + "/panic", r.Panic[:min(len(r.Panic), 1500)]
	case r.Peak > c19PeakLimit:
		return family + "/heap-peak", fmt.Sprintf("while the input was being read the live heap (after a forced collection) had grown by %d MiB (limit %d MiB; the loader needs one block of at most 1 MiB plus the entries it stores)", r.Peak>>20, c19PeakLimit>>20)
	case r.Growth > c19HeapLimit:
		return family + "/heap-growth", fmt.Sprintf("heap grew by %d MiB during one load (limit %d MiB)", r.Growth>>20, c19HeapLimit>>20)
	}
	return "", ""
}

func c19Subset(got, intact map[string]c19Snap) (string, int) {
	n := 0
	for k, s := range got {
		w, ok := intact[k]
		if !ok {
			return fmt.Sprintf("entry %q is not in the intact dump", k), n
		}
		if w != s {
			return fmt.Sprintf("entry %q differs from the intact dump: loaded {stored %d msgexp %d cacheexp %d}, intact {stored %d msgexp %d cacheexp %d}, same message: %v", k,
				s.Stored, s.MsgExp, s.CacheExp, w.Stored, w.MsgExp, w.CacheExp, s.Msg == w.Msg), n
		}
		n++
	}
	return "", n
}

type c19FileIn struct {
	Scenario string  `json:"scenario"` // trunc | flip | tiny | adv
	Name     string  `json:"name"`
	Conf     c19Conf `json:"conf"`
	AtNs     int64   `json:"at_ns"`
	File     string  `json:"file_b64,omitempty"`
	Intact   string  `json:"intact_b64,omitempty"`
	K        int     `json:"k"`
	Mask     int     `json:"mask,omitempty"`
	DumpPath string  `json:"dump_path,omitempty"` // progress marker only: where the child left the intact dump
}

func c19B64(b []byte) string {
	if len(b) > 1<<20 {
		return ""
	}
	return base64.StdEncoding.EncodeToString(b)
}

// c19CheckTrunc: a proper prefix must be refused and may only add entries of the intact dump.
func c19CheckTrunc(cf c19Conf, dump []byte, k int, intact map[string]c19Snap, starts []int, total int) (outcome, sig, desc string, infra string) {
	defer cf.use()()
	r := c19LoadAt(c19DumpAt, cf.Lazy, dump[:k])
	if r.Infra != "" {
		return "", "", "", r.Infra
	}
	if s, d := c19Harmless(r, "trunc"); s != "" {
		return "", s, fmt.Sprintf("prefix of %d of %d bytes (contents n=%d lazy=%d): %s", k, len(dump), cf.N, cf.Lazy, d), ""
	}
	pos := "gzip-header"
	if av := c19Avail(dump[:k]); av >= 0 {
		pos = "in-block-data"
		for _, s := range starts {
			switch {
			case av == s:
				pos = "at-block-boundary"
			case av > s && av < s+8:
				pos = "in-length-header"
			}
		}
		if av == total {
			pos = "all-data-no-trailer"
		}
	}
	if r.Status == 200 && k == 0 && len(r.Entries) == 0 {
		// a 0-byte file carries no sign of having been a dump; accepting it as "nothing to load" is not counted
		return "trunc/" + cf.nclass() + "/empty-file/accepted/loaded-none", "", "", ""
	}
	if r.Status == 200 {
		return "", "trunc/accepted/" + pos, fmt.Sprintf("loading the first %d of %d dump bytes reported success (contents n=%d lazy=%d, %d entries loaded)", k, len(dump), cf.N, cf.Lazy, len(r.Entries)), ""
	}
	d, n := c19Subset(r.Entries, intact)
	if d != "" {
		return "", "trunc/not-subset/" + pos, fmt.Sprintf("prefix of %d of %d bytes (contents n=%d lazy=%d): %s", k, len(dump), cf.N, cf.Lazy, d), ""
	}
	loaded := "loaded-none"
	switch {
	case n == len(intact) && n > 0:
		loaded = "loaded-all"
	case n > 0:
		loaded = "loaded-some"
	}
	return "trunc/" + cf.nclass() + "/" + pos + "/" + c19ErrKind(r) + "/" + loaded, "", "", ""
}

// c19CheckFile: corrupted / arbitrary input: harmless; classified by what happened.
func c19CheckFile(family, region string, at time.Duration, lazy int, data []byte, intact map[string]c19Snap) (outcome, sig, desc, infra string) {
	r := c19LoadAtPeak(at, lazy, data, family == "adv")
	if r.Infra != "" {
		return "", "", "", r.Infra
	}
	if s, d := c19Harmless(r, family); s != "" {
		return "", s, fmt.Sprintf("%s input of %d bytes (%s): %s", family, len(data), region, d), ""
	}
	res := c19ErrKind(r)
	if intact != nil {
		d, n := c19Subset(r.Entries, intact)
		switch {
		case d != "":
			res += "/entries-differ"
		case n == len(intact):
			res += "/entries-all"
		case n > 0:
			res += "/entries-subset"
		default:
			res += "/entries-none"
		}
	} else if len(r.Entries) > 0 {
		res += "/entries-loaded"
	}
	return family + "/" + region + "/" + res, "", "", ""
}

// c19MakeDump builds the original cache of a configuration and returns its dump.
func c19MakeDump(cf c19Conf) (dump []byte, ops int, err string) {
	defer cf.use()()
	x := vs.Run1(c19Cfg, func() {
		id, _ := vs.CurThread()
		a, _, n := c19Populate(cf, id, &Args{Size: c19CurSize, LazyCacheTTL: cf.Lazy})
		ops = n + 1
		code, d := c19Get(a)
		if code != 200 {
			err = fmt.Sprintf("GET /dump answered %d", code)
		}
		dump = append([]byte(nil), d...)
		a.Close()
	})
	if x.Panic != "" {
		err = x.Panic
	}
	return
}

// c19Gz writes payload as a gzip member with the given name (std library
// writer: independent of the plugin's compressor).
func c19Gz(name string, level int, write func(w io.Writer)) []byte {
	var buf bytes.Buffer
	zw, _ := stdgzip.NewWriterLevel(&buf, level)
	zw.Name = name
	write(zw)
	zw.Close()
	return buf.Bytes()
}

func c19Block(entries ...*CachedEntry) []byte {
	b, _ := proto.Marshal(&CacheDumpBlock{Entries: entries})
	l := make([]byte, 8)
	binary.BigEndian.PutUint64(l, uint64(len(b)))
	return append(l, b...)
}

// c19AlignedDump builds an intact three-block dump whose second block header
// starts exactly at uncompressed offset target (the first block is one entry
// padded with TXT data to the needed size).
func c19AlignedDump(target int) ([]byte, bool) {
	mk := func(i int, pad int) *CachedEntry {
		q := new(dns.Msg)
		q.SetQuestion(c19Name(i), dns.TypeTXT)
		m := new(dns.Msg)
		m.SetReply(q)
		var txt []string
		for pad > 0 {
			n := pad
			if n > 200 {
				n = 200
			}
			txt = append(txt, strings.Repeat("p", n))
			pad -= n
		}
		if len(txt) == 0 {
			txt = []string{""}
		}
		m.Answer = append(m.Answer, &dns.TXT{Hdr: dns.RR_Header{Name: c19Name(i), Rrtype: dns.TypeTXT, Class: dns.ClassINET, Ttl: 300}, Txt: txt})
		b, err := m.Pack()
		if err != nil {
			return nil
		}
		now := vs.Epoch.Add(c19DumpAt).Unix()
		return c19WithKey(&CachedEntry{CacheExpirationTime: now + 300, MsgExpirationTime: now + 300, MsgStoredTime: now, Msg: b}, verifMsgKey(q))
	}
	for pad := target - 900; pad < target; pad++ {
		if pad < 0 {
			continue
		}
		var first []*CachedEntry
		if pad > 30000 {
			first = []*CachedEntry{mk(900, 30000), mk(899, pad-30000)}
		} else {
			first = []*CachedEntry{mk(900, pad)}
		}
		if first[0] == nil || first[len(first)-1] == nil {
			continue
		}
		b0 := c19Block(first...)
		if len(b0) != target {
			continue
		}
		raw := append(append(append([]byte{}, b0...), c19Block(mk(901, 10), mk(902, 20))...), c19Block(mk(903, 5))...)
		return c19Gz(dumpHeader, stdgzip.DefaultCompression, func(w io.Writer) { w.Write(raw) }), true
	}
	return nil, false
}

type c19Adv struct {
	Name string
	Data func() []byte
}

func c19Adversarial(thorough bool) []c19Adv {
	u64 := func(v uint64) []byte { b := make([]byte, 8); binary.BigEndian.PutUint64(b, v); return b }
	okMsg := func() []byte {
		q := new(dns.Msg)
		q.SetQuestion("adv.c19.test.", dns.TypeA)
		b, _ := c19Build(c19Tpl{Recs: []c19Rec{{0, 300}}}, q, 1).Pack()
		return b
	}()
	exp := vs.Epoch.Add(c19DumpAt + time.Hour).Unix()
	okEntry := func(k string) *CachedEntry {
		return c19WithKey(&CachedEntry{Msg: okMsg, CacheExpirationTime: exp, MsgExpirationTime: exp, MsgStoredTime: vs.Epoch.Unix()}, k)
	}
	raw := func(name string, parts ...[]byte) func() []byte {
		return func() []byte {
			return c19Gz(name, stdgzip.BestCompression, func(w io.Writer) {
				for _, p := range parts {
					w.Write(p)
				}
			})
		}
	}
	zeros := func(n int) func() []byte {
		return func() []byte {
			return c19Gz(dumpHeader, stdgzip.BestCompression, func(w io.Writer) {
				z := make([]byte, 1<<16)
				for i := 0; i < n; i += len(z) {
					w.Write(z)
				}
			})
		}
	}
	bomb := 128 << 20
	if thorough {
		bomb = 256 << 20
	}
	manyEmpty := func() []byte { // 1 MiB block of half a million empty entries
		b := bytes.Repeat([]byte{0x0a, 0x00}, (1<<20)/2)
		return append(u64(uint64(len(b))), b...)
	}()
	hdrOnly, _ := new(dns.Msg).Pack()
	manyKeys := func() []byte { // a block full of distinct tiny entries
		var es []*CachedEntry
		for i := 0; i < 20000; i++ {
			es = append(es, c19WithKey(&CachedEntry{Msg: hdrOnly, CacheExpirationTime: exp, MsgExpirationTime: exp}, fmt.Sprintf("k%05d", i)))
		}
		return c19Block(es...)
	}()
	advs := []c19Adv{
		{"empty-stream", raw(dumpHeader)},
		{"wrong-name", raw("mosdns_cache_v1", c19Block(okEntry("a")))},
		{"no-name", raw("", c19Block(okEntry("a")))},
		{"name-prefix", raw(dumpHeader+"x", c19Block(okEntry("a")))},
		{"valid-one-entry", raw(dumpHeader, c19Block(okEntry("a")))},
		{"len-2^64-1", raw(dumpHeader, u64(math.MaxUint64))},
		{"len-2^63", raw(dumpHeader, u64(1<<63), []byte("xxxx"))},
		{"len-2^31", raw(dumpHeader, u64(1<<31), []byte("xxxx"))},
		{"len-2^24", raw(dumpHeader, u64(1<<24), make([]byte, 1<<12))},
		{"len-2^20+1", raw(dumpHeader, u64(1<<20+1), make([]byte, 1<<12))},
		{"len-2^20-no-data", raw(dumpHeader, u64(1<<20))},
		{"len-2^20-zeros", raw(dumpHeader, u64(1<<20), make([]byte, 1<<20))},
		{"len-2^20-empty-entries", raw(dumpHeader, manyEmpty)},
		{"block-20000-distinct-keys", raw(dumpHeader, manyKeys)},
		{"short-length-header", raw(dumpHeader, []byte{0, 0, 0})},
		{"valid-block-then-garbage", raw(dumpHeader, c19Block(okEntry("a")), []byte("garbage!garbage!garbage!"))},
		{"valid-block-then-huge-len", raw(dumpHeader, c19Block(okEntry("a")), u64(math.MaxUint64))},
		{"entry-empty-msg", raw(dumpHeader, c19Block(c19WithKey(&CachedEntry{CacheExpirationTime: exp, MsgExpirationTime: exp}, "a")))},
		{"entry-garbage-msg", raw(dumpHeader, c19Block(c19WithKey(&CachedEntry{Msg: bytes.Repeat([]byte{0xff}, 600), CacheExpirationTime: exp, MsgExpirationTime: exp}, "a")))},
		{"entry-empty-key", raw(dumpHeader, c19Block(okEntry("")))},
		{"entry-times-maxint64", raw(dumpHeader, c19Block(c19WithKey(&CachedEntry{Msg: okMsg, CacheExpirationTime: math.MaxInt64, MsgExpirationTime: math.MaxInt64, MsgStoredTime: math.MaxInt64}, "a")))},
		{"entry-times-minint64", raw(dumpHeader, c19Block(c19WithKey(&CachedEntry{Msg: okMsg, CacheExpirationTime: math.MinInt64, MsgExpirationTime: math.MinInt64, MsgStoredTime: math.MinInt64}, "a")))},
		{"entry-exp-max-stored-min", raw(dumpHeader, c19Block(c19WithKey(&CachedEntry{Msg: okMsg, CacheExpirationTime: 1 << 40, MsgExpirationTime: 1 << 40, MsgStoredTime: math.MinInt64}, "a")))},
		{"protobuf-unknown-fields", raw(dumpHeader, append(u64(6), 0x10, 0x01, 0x1a, 0x02, 0x61, 0x62))},
		{"protobuf-truncated-varint", raw(dumpHeader, append(u64(3), 0x0a, 0xff, 0xff))},
		{"two-gzip-members", func() []byte {
			one := raw(dumpHeader, c19Block(okEntry("a")))()
			two := raw(dumpHeader, c19Block(okEntry("b")))()
			return append(one, two...)
		}},
		{"member-then-garbage", func() []byte { return append(raw(dumpHeader, c19Block(okEntry("a")))(), []byte("trailing garbage")...) }},
		{"bad-protobuf-block-then-3-blocks", raw(dumpHeader, append(u64(3), 0x0a, 0xff, 0xff), c19Block(okEntry("a")), c19Block(okEntry("b")), c19Block(okEntry("c")))},
		{"bad-dns-msg-block-then-3-blocks", raw(dumpHeader, c19Block(c19WithKey(&CachedEntry{Msg: bytes.Repeat([]byte{0xff}, 600), CacheExpirationTime: exp, MsgExpirationTime: exp}, "x")), c19Block(okEntry("a")), c19Block(okEntry("b")), c19Block(okEntry("c")))},
		{"good-block-bad-block-then-3-blocks", raw(dumpHeader, c19Block(okEntry("a")), append(u64(3), 0x0a, 0xff, 0xff), c19Block(okEntry("b")), c19Block(okEntry("c")), c19Block(okEntry("d")))},
		{"gzip-bomb-zeros", zeros(bomb)},
		{"gzip-bomb-valid-blocks", func() []byte {
			blk := c19Block(okEntry("a"), okEntry("b"))
			return c19Gz(dumpHeader, stdgzip.BestCompression, func(w io.Writer) {
				for i := 0; i < bomb/8/len(blk); i++ {
					w.Write(blk)
				}
			})
		}},
	}
	return advs
}

// ---------------------------------------------------------------------------
// scenario repeated: several dumps in the life of one process (API dumps of one
// cache, of a second cache, the dump on Close): every one of them must load and
// reproduce the contents, not only the first.

// c19Live counts the entries of a snapshot that had not yet reached their cache
// expiry at the dump instant (the loader skips the others).
func c19Live(snap map[string]c19Snap) int {
	now := vs.Epoch.Add(c19DumpAt).UnixNano()
	n := 0
	for _, s := range snap {
		if s.CacheExp > now {
			n++
		}
	}
	return n
}

func c19RunRepeated(dir string, lazy int, res *vr.Result, viol func(sig, desc string, in any)) (infra string) {
	cf := c19Conf{N: 5, Lazy: lazy}
	var dumps [][]byte
	var names []string
	var snaps []map[string]c19Snap // contents of the dumped cache at the time of the dump
	x := vs.Run1(c19Cfg, func() {
		id, _ := vs.CurThread()
		path := filepath.Join(dir, fmt.Sprintf("repeated_%d.bin", lazy))
		a, _, _ := c19Populate(cf, id, &Args{Size: c19CurSize, LazyCacheTTL: lazy, DumpFile: path, DumpInterval: 3600})
		b, _, _ := c19Populate(cf, id, &Args{Size: c19CurSize, LazyCacheTTL: lazy})
		aOpen, bOpen := true, true
		defer func() {
			// on every path: a cache left open keeps its tickers (and the virtual clock) running for ever
			if aOpen {
				a.args.DumpFile = ""
				a.Close()
			}
			if bOpen {
				b.Close()
			}
		}()
		for k, c := range []*Cache{a, a, b, a} {
			code, d := c19Get(c)
			if code != 200 {
				viol("repeated/dump-failed", fmt.Sprintf("dump #%d of the process: GET /dump returned %d", k+1, code), nil)
				return
			}
			dumps, names, snaps = append(dumps, d), append(names, fmt.Sprintf("API dump #%d of the process", k+1)), append(snaps, c19Snapshot(c))
			res.Transitions++
		}
		b.Close()
		bOpen = false
		last := c19Snapshot(a)
		a.Close() // writes dump_file
		aOpen = false
		if d, err := os.ReadFile(path); err != nil {
			viol("repeated/no-dump-on-close", "Close did not write the dump file: "+err.Error(), nil)
		} else {
			dumps, names, snaps = append(dumps, d), append(names, "dump written on Close (5th dump of the process)"), append(snaps, last)
		}
	})
	if x.Panic != "" {
		viol("repeated/panic", x.Panic, nil)
		return ""
	}
	if !x.Quiescent || x.Livelock {
		return fmt.Sprintf("repeated: did not end cleanly: blocked=%v", x.Blocked)
	}
	for k, d := range dumps {
		res.Evaluations++
		ld := c19LoadAt(c19DumpAt, lazy, d)
		in := c19FileIn{Scenario: "repeated", Name: names[k], AtNs: int64(c19DumpAt), File: c19B64(d)}
		switch {
		case ld.Infra != "":
			return ld.Infra
		case ld.Panic != "":
			viol("repeated/panic", names[k]+": loading it panicked: "+ld.Panic, in)
		case ld.Status != 200:
			res.Outcome("repeated/REFUSED")
			viol("repeated/dump-unreadable", fmt.Sprintf("%s cannot be loaded: %d %s", names[k], ld.Status, ld.Body), in)
		case len(ld.Entries) < c19Live(snaps[k]):
			res.Outcome("repeated/ENTRIES-LOST")
			viol("repeated/entries-lost", fmt.Sprintf("%s: the dumped cache held %d live entries, %d were loaded", names[k], c19Live(snaps[k]), len(ld.Entries)), in)
		default:
			if d, _ := c19Subset(ld.Entries, snaps[k]); d != "" {
				viol("repeated/entries-differ", names[k]+": "+d, in)
			}
			res.Outcome("repeated/ok")
		}
	}
	return ""
}


// ---------------------------------------------------------------------------
// scenario interrupted: a dump that fails part-way (client gone / disk full
// after k bytes), then the cache changes (flush + new entries), then a dump
// that succeeds. What the second dump loads to must be the cache as it was at
// the second dump: nothing of the interrupted one may surface in it.

type c19FailWriter struct {
	h     http.Header
	left  int
	wrote int
}

func (w *c19FailWriter) Header() http.Header { return w.h }
func (w *c19FailWriter) WriteHeader(int)     {}
func (w *c19FailWriter) Write(p []byte) (int, error) {
	if len(p) > w.left {
		n := w.left
		w.left = 0
		w.wrote += n
		return n, errors.New("c19: write failed (client gone)")
	}
	w.left -= len(p)
	w.wrote += len(p)
	return len(p), nil
}

func c19RunInterrupted(lazy int, thorough bool, onlyK int, res *vr.Result, viol func(sig, desc string, in any)) (infra string) {
	cf := c19Conf{N: 140, Lazy: lazy} // two blocks
	full := 0
	var ks []int
	run := func(k int) (d []byte, snap map[string]c19Snap, failedAt int, x *vs.Exec) {
		x = vs.Run1(c19Cfg, func() {
			id, _ := vs.CurThread()
			a, u, _ := c19Populate(cf, id, &Args{Size: c19CurSize, LazyCacheTTL: lazy})
			defer a.Close()
			if k >= 0 {
				fw := &c19FailWriter{h: http.Header{}, left: k}
				a.Api().ServeHTTP(fw, httptest.NewRequest(http.MethodGet, "/dump", nil))
				failedAt = fw.wrote
				rec := httptest.NewRecorder()
				a.Api().ServeHTTP(rec, httptest.NewRequest(http.MethodGet, "/flush", nil))
				u.answer = func(q *dns.Msg) *dns.Msg {
					var i int
					fmt.Sscanf(q.Question[0].Name, "e%03d.", &i)
					return c19Build(cf.tpl(i), q, i)
				}
				for j := 0; j < 3; j++ {
					c19Exec(a, u, c19Name(200+j), uint16(200+j))
				}
				u.answer = nil
			}
			code, b := c19Get(a)
			if code != 200 {
				viol("interrupted/dump-failed", fmt.Sprintf("the dump after an interrupted one (failed after %d bytes): GET /dump returned %d", k, code), nil)
				return
			}
			d, snap = b, c19Snapshot(a)
			res.Transitions++
		})
		return
	}
	d0, _, _, x := run(-1)
	if x.Panic != "" || !x.Quiescent || d0 == nil {
		return fmt.Sprintf("interrupted: reference dump failed: panic=%q blocked=%v", x.Panic, x.Blocked)
	}
	full = len(d0)
	for _, k := range []int{0, 1, 9, 10, 11, 100, 1000, full / 4, full / 2, full - 100, full - 1} {
		if k >= 0 && k < full {
			ks = append(ks, k)
		}
	}
	if thorough {
		ks = nil
		for k := 0; k < full; k += 7 {
			ks = append(ks, k)
		}
	}
	if onlyK >= 0 {
		ks = []int{onlyK}
	}
	res.Bounds[fmt.Sprintf("interrupted.failure_points.lazy%d", lazy)] = fmt.Sprintf("%d failure points in a dump of %d bytes (140 entries, 2 blocks)", len(ks), full)
	for _, k := range ks {
		d, snap, _, x := run(k)
		name := fmt.Sprintf("dump after a dump that failed after %d bytes, a flush and 3 new entries", k)
		if x.Panic != "" {
			viol("interrupted/panic", name+": "+x.Panic, nil)
			continue
		}
		if !x.Quiescent || x.Livelock {
			return fmt.Sprintf("interrupted: did not end cleanly: blocked=%v", x.Blocked)
		}
		if d == nil {
			continue
		}
		res.Evaluations++
		ld := c19LoadAt(c19DumpAt, lazy, d)
		in := c19FileIn{Scenario: "interrupted", Name: name, Conf: cf, AtNs: int64(c19DumpAt), K: k}
		switch {
		case ld.Infra != "":
			return ld.Infra
		case ld.Panic != "":
			viol("interrupted/panic", name+": loading it panicked: "+ld.Panic, in)
		case ld.Status != 200:
			viol("interrupted/dump-unreadable", fmt.Sprintf("%s cannot be loaded: %d %s", name, ld.Status, ld.Body), in)
		case len(ld.Entries) < c19Live(snap):
			viol("interrupted/entries-lost", fmt.Sprintf("%s: the dumped cache held %d live entries, %d were loaded", name, c19Live(snap), len(ld.Entries)), in)
		default:
			if diff, _ := c19Subset(ld.Entries, snap); diff != "" {
				res.Outcome("interrupted/RESURRECTED")
				viol("interrupted/entries-differ", name+": "+diff+" (the cache held "+fmt.Sprint(len(snap))+" entries when it was dumped)", in)
			} else {
				res.Outcome("interrupted/ok")
			}
		}
	}
	return ""
}


// ---------------------------------------------------------------------------
// scenario restart: "a restart does not change what clients are served". The
// cache changes only through its API between a start (which loads dump_file)
// and the shutdown (which writes it): flushed, then shut down - the next start
// must come up empty; loaded through the API, then shut down - the next start
// must come up with what was loaded.

func c19RunRestart(dir string, lazy int, res *vr.Result, viol func(sig, desc string, in any)) (infra string) {
	cf := c19Conf{N: 5, Lazy: lazy}
	path := filepath.Join(dir, fmt.Sprintf("restart_%d.bin", lazy))
	var afterFlush, afterLoad []byte
	var errFlush, errLoad error
	var snapLoad map[string]c19Snap
	var liveAtFlushShutdown int
	x := vs.Run1(c19Cfg, func() {
		id, _ := vs.CurThread()
		args := func() *Args {
			return &Args{Size: c19CurSize, LazyCacheTTL: lazy, DumpFile: path, DumpInterval: 3600}
		}
		a, _, _ := c19Populate(cf, id, args())
		_, full := c19Get(a)
		a.Close() // first shutdown: the file holds the five entries
		res.Transitions++
		b := NewCache(args(), Opts{}) // restart: loads them
		c19Yield()
		b.Api().ServeHTTP(httptest.NewRecorder(), httptest.NewRequest(http.MethodGet, "/flush", nil))
		liveAtFlushShutdown = c19Live(c19Snapshot(b))
		b.Close() // shutdown of an empty cache
		res.Transitions++
		afterFlush, errFlush = os.ReadFile(path)
		os.Remove(path)
		c := NewCache(args(), Opts{}) // a fresh instance without a file
		c19Yield()
		c19Post(c, full)
		snapLoad = c19Snapshot(c)
		c.Close()
		res.Transitions++
		afterLoad, errLoad = os.ReadFile(path)
	})
	if x.Panic != "" {
		viol("restart/panic", x.Panic, nil)
		return ""
	}
	if !x.Quiescent || x.Livelock {
		return fmt.Sprintf("restart: did not end cleanly: blocked=%v", x.Blocked)
	}
	check := func(name string, d []byte, rerr error, snap map[string]c19Snap, wantLive int) {
		res.Evaluations++
		if rerr != nil {
			res.Outcome("restart/NO-FILE")
			viol("restart/no-dump-on-shutdown", name+": the shutdown left no dump file: "+rerr.Error(), nil)
			return
		}
		ld := c19LoadAt(c19DumpAt, lazy, d)
		in := c19FileIn{Scenario: "restart", Name: name, AtNs: int64(c19DumpAt), File: c19B64(d)}
		switch {
		case ld.Infra != "":
			infra = ld.Infra
		case ld.Panic != "":
			viol("restart/panic", name+": loading the file panicked: "+ld.Panic, in)
		case ld.Status != 200:
			viol("restart/dump-unreadable", fmt.Sprintf("%s: the file cannot be loaded: %d %s", name, ld.Status, ld.Body), in)
		case len(ld.Entries) < wantLive:
			res.Outcome("restart/ENTRIES-LOST")
			viol("restart/entries-lost", fmt.Sprintf("%s: the cache held %d live entries at shutdown, the next start comes up with %d", name, wantLive, len(ld.Entries)), in)
		default:
			if diff, _ := c19Subset(ld.Entries, snap); diff != "" {
				res.Outcome("restart/RESURRECTED")
				viol("restart/entries-differ", fmt.Sprintf("%s: the cache held %d entries at shutdown, the next start comes up with %d: %s", name, len(snap), len(ld.Entries), diff), in)
			} else {
				res.Outcome("restart/ok")
			}
		}
	}
	check("start (loads 5 entries), flush through the API, shutdown", afterFlush, errFlush, map[string]c19Snap{}, liveAtFlushShutdown)
	check("start without a file, 5 entries loaded through the API, shutdown", afterLoad, errLoad, snapLoad, c19Live(snapLoad))
	return infra
}

// ---------------------------------------------------------------------------
// scenario dumpfile: periodic dump to Args.DumpFile, crash points of that file

func c19RunDumpFile(dir string, lazy int, res *vr.Result, viol func(sig, desc string, in any)) (infra string) {
	path := filepath.Join(dir, fmt.Sprintf("dump_%d.bin", lazy))
	cf := c19Conf{N: 3, Lazy: lazy}
	var file []byte
	var snapA map[string]c19Snap
	var dumpedAt time.Duration
	x := vs.Run1(c19Cfg, func() {
		id, _ := vs.CurThread()
		a := NewCache(&Args{Size: c19CurSize, LazyCacheTTL: lazy, DumpFile: path, DumpInterval: 60}, Opts{})
		c19Yield() // the plugin's background goroutines (sweeper, dump loop) start now
		defer func() {
			a.args.DumpFile = "" // no dump on close: the crash-point enumeration below owns the file
			a.Close()
		}()
		u := &c19Up{mainID: id, always: true}
		u.answer = func(q *dns.Msg) *dns.Msg {
			var i int
			fmt.Sscanf(q.Question[0].Name, "e%03d.", &i)
			return c19Build(cf.tpl(i), q, i)
		}
		// 1100 saves on three questions (the dump loop wants >= 1024 updates), spread over 57 s
		for n := 0; n < 1100; n++ {
			if n%19 == 0 && n > 0 {
				vs.Advance(time.Second)
				c19Yield()
			}
			c19Exec(a, u, c19Name(n%3), uint16(n))
			res.Transitions++
		}
		if _, err := os.Stat(path); err == nil {
			viol("dumpfile/early-dump", "dump file written before the dump interval elapsed", nil)
		}
		vs.Advance(60*time.Second - vs.Elapsed())
		c19Yield()
		dumpedAt = vs.Elapsed()
		b, err := os.ReadFile(path)
		if err != nil {
			viol("dumpfile/no-periodic-dump", "after 1100 updates and one dump interval there is no dump file: "+err.Error(), nil)
			return
		}
		file = b
		snapA = c19Snapshot(a)
		// restart: a second instance with the same dump_file must serve what the first one serves
		u.answer, u.always = nil, false
		bb := NewCache(&Args{Size: c19CurSize, LazyCacheTTL: lazy}, Opts{})
		c19Yield() // the plugin's background goroutines (sweeper, dump loop) start now
		defer bb.Close()
		bb.args.DumpFile = path
		if err := bb.loadDump(); err != nil {
			viol("dumpfile/load-failed", "loading the periodic dump failed: "+err.Error(), nil)
		}
		bb.args.DumpFile = ""
		ub := &c19Up{mainID: id}
		for _, d := range []time.Duration{0, 1, time.Second - 1, 1, time.Second, 3 * time.Second, 25 * time.Second, 270 * time.Second} {
			vs.Advance(d)
			c19Yield()
			for i := 0; i < 3; i++ {
				ha, ra := c19Exec(a, u, c19Name(i), 1)
				hb, rb := c19Exec(bb, ub, c19Name(i), 1)
				res.Transitions += 2
				res.Evaluations++
				where := fmt.Sprintf("periodic dump_file written at t=%v, entry %s, queried at t=%v, lazy_cache_ttl=%d", dumpedAt, c19Name(i), vs.Elapsed(), lazy)
				switch {
				case ha != hb:
					viol("roundtrip/liveness-differs", fmt.Sprintf("original served=%v, instance restarted from dump_file served=%v; %s", ha, hb, where), nil)
				case ha:
					if d := c19SameServed(ra, rb, false); d != "" {
						kind := "answer"
						if strings.Contains(d, "TTL") {
							kind = "ttl"
						}
						viol("roundtrip/"+kind+"-differs", d+"; original "+c19MsgLine(ra)+", restarted "+c19MsgLine(rb)+"; "+where, nil)
					}
				}
				res.Outcome("dumpfile/restart/" + map[bool]string{true: "served", false: "miss"}[ha])
			}
		}
	})
	if x.Panic != "" {
		viol("dumpfile/panic", x.Panic, nil)
		return
	}
	if !x.Quiescent || x.Livelock {
		return fmt.Sprintf("dumpfile scenario did not end cleanly: quiescent=%v livelock=%v blocked=%v", x.Quiescent, x.Livelock, x.Blocked)
	}
	if file == nil {
		return
	}
	intact, _, _, err := c19Decode(file)
	if err != nil {
		viol("dumpfile/unreadable", "reference decoder cannot read the periodic dump: "+err.Error(), nil)
		return
	}
	_ = snapA
	// every crash point of the periodic dump: the file holds a prefix; startup load through Args.DumpFile
	for k := 0; k <= len(file); k++ {
		p2 := filepath.Join(dir, "crash.bin")
		os.WriteFile(p2, file[:k], 0o600)
		var lerr error
		var got map[string]c19Snap
		x := vs.Run1(c19Cfg, func() {
			vs.Advance(dumpedAt)
			c := NewCache(&Args{Size: c19CurSize, LazyCacheTTL: lazy}, Opts{})
			c19Yield() // the plugin's background goroutines (sweeper, dump loop) start now
			c.args.DumpFile = p2
			lerr = c.loadDump()
			c.args.DumpFile = ""
			got = c19Snapshot(c)
			c.Close()
		})
		res.Evaluations++
		res.Transitions++
		in := c19FileIn{Scenario: "trunc", Name: "dumpfile", Conf: cf, AtNs: int64(dumpedAt), File: c19B64(file[:k]), Intact: c19B64(file), K: k}
		if x.Panic != "" {
			viol("trunc/panic", x.Panic, in)
			continue
		}
		d, n := c19Subset(got, intact)
		switch {
		case k == 0 && lerr == nil && n == 0:
			// see c19CheckTrunc: an empty file accepted as "nothing to load" is not counted
		case k < len(file) && lerr == nil:
			viol("trunc/accepted/dumpfile", fmt.Sprintf("startup load of a dump_file cut after %d of %d bytes reported no error (%d entries)", k, len(file), n), in)
		case k == len(file) && lerr != nil:
			viol("dumpfile/load-failed", "intact file refused: "+lerr.Error(), in)
		case d != "":
			viol("trunc/not-subset/dumpfile", d, in)
		}
		res.Outcome(fmt.Sprintf("dumpfile/crash-point/error=%v/loaded=%d-of-%d", lerr != nil, n, len(intact)))
	}
	return
}

// ---------------------------------------------------------------------------

func c19Replay(t *testing.T, raw json.RawMessage) {
	var head struct {
		Scenario string `json:"scenario"`
	}
	json.Unmarshal(raw, &head)
	report := func(sig, desc, infra string) {
		if infra != "" {
			fmt.Println("INFRA:", infra)
			t.Fatal("infra")
		}
		if sig != "" {
			fmt.Printf("REPLAY-VIOLATION property=C19 sig=%s\n  %s\n", sig, desc)
		} else {
			fmt.Println("REPLAY-OK: this input does not violate the property on the current tree")
		}
	}
	switch head.Scenario {
	case "roundtrip":
		var in c19RtIn
		if err := json.Unmarshal(raw, &in); err != nil {
			t.Fatal(err)
		}
		v := c19RunRoundtrip(in, true)
		fmt.Println("outcomes:", v.Outcomes)
		report(v.Sig, v.Desc, v.Infra)
	case "interrupted":
		var in c19FileIn
		if err := json.Unmarshal(raw, &in); err != nil {
			t.Fatal(err)
		}
		r2 := vr.New("C19", vr.GetEnv())
		var sig, desc string
		infra := c19RunInterrupted(in.Conf.Lazy, false, in.K, r2, func(s, d string, _ any) { sig, desc = s, d })
		fmt.Println("outcomes:", r2.Outcomes)
		report(sig, desc, infra)
	default:
		var in c19FileIn
		if err := json.Unmarshal(raw, &in); err != nil {
			t.Fatal(err)
		}
		data, _ := base64.StdEncoding.DecodeString(in.File)
		if in.File == "" && in.Scenario == "adv" {
			for _, a := range c19Adversarial(true) {
				if a.Name == in.Name {
					data = a.Data()
				}
			}
		}
		var intact map[string]c19Snap
		var starts []int
		var total int
		var full []byte
		if in.Intact != "" {
			full, _ = base64.StdEncoding.DecodeString(in.Intact)
			var err error
			if intact, starts, total, err = c19Decode(full); err != nil {
				t.Fatal(err)
			}
		}
		fmt.Printf("scenario %s %s: %d bytes loaded at t=%v\n", in.Scenario, in.Name, len(data), time.Duration(in.AtNs))
		if in.Scenario == "trunc" && full != nil {
			o, sig, desc, infra := c19CheckTrunc(in.Conf, full, in.K, intact, starts, total)
			fmt.Println("outcome:", o)
			report(sig, desc, infra)
			return
		}
		o, sig, desc, infra := c19CheckFile(in.Scenario, in.Name, time.Duration(in.AtNs), in.Conf.Lazy, data, intact)
		fmt.Println("outcome:", o)
		report(sig, desc, infra)
	}
}

// ---------------------------------------------------------------------------
// supervisor: the enumeration runs in a child process of the same test binary so
// that a fatal runtime error of a load (out of memory, stack overflow: not
// recoverable in-process) is reported as a violation with the input that was
// being loaded, not as a crash of the check.

var c19MarkFile *os.File
var c19MarkLen int

// c19Mark records the input that is about to be loaded (child process only).
func c19Mark(in any) {
	if c19MarkFile == nil {
		return
	}
	b, _ := json.Marshal(in)
	b = append(b, '\n')
	n := len(b)
	for len(b) < c19MarkLen {
		b = append(b, ' ')
	}
	c19MarkLen = n
	c19MarkFile.WriteAt(b, 0)
}

func c19Supervise(t *testing.T) {
	dir := t.TempDir()
	mark := filepath.Join(dir, "mark.json")
	timeout := 30 * time.Minute
	if f := flag.Lookup("test.timeout"); f != nil {
		if d, err := time.ParseDuration(f.Value.String()); err == nil && d > time.Minute {
			timeout = d - 30*time.Second
		}
	}
	cmd := exec.Command(os.Args[0], "-test.run", "^TestVerifC19$", "-test.timeout", timeout.String(), "-test.v")
	cmd.Env = append(os.Environ(), "VERIF_C19_CHILD=1", "VERIF_C19_MARK="+mark, "VERIF_C19_DIR="+dir)
	outp := filepath.Join(dir, "child.txt")
	of, err := os.Create(outp)
	if err != nil {
		t.Fatal(err)
	}
	cmd.Stdout, cmd.Stderr = of, of
	runErr := cmd.Run()
	of.Close()
	out, _ := os.ReadFile(outp)
	if len(out) > 1<<16 {
		fmt.Printf("%s\n...\n%s\n", out[:1<<15], out[len(out)-(1<<15):])
	} else {
		fmt.Printf("%s\n", out)
	}
	if runErr == nil {
		return
	}
	i := bytes.Index(out, []byte("fatal error:"))
	if i < 0 || bytes.Contains(out, []byte("INFRA:")) {
		t.Fatalf("child process failed: %v", runErr)
	}
	fatal := string(out[i:min(len(out), i+400)])
	kind := "other"
	switch {
	case strings.Contains(fatal, "out of memory"):
		kind = "out-of-memory"
	case strings.Contains(fatal, "stack"):
		kind = "stack-overflow"
	}
	// the input that was being loaded
	var in c19FileIn
	var inAny any
	if mb, err := os.ReadFile(mark); err == nil {
		if j := bytes.IndexByte(mb, '\n'); j >= 0 {
			mb = mb[:j]
		}
		if json.Unmarshal(mb, &in) == nil && in.Scenario != "" && in.Scenario != "roundtrip" {
			if in.DumpPath != "" {
				if d, err := os.ReadFile(in.DumpPath); err == nil {
					in.Intact = c19B64(d)
					switch in.Scenario {
					case "trunc":
						in.File = c19B64(d[:in.K])
					case "flip":
						m := append([]byte(nil), d...)
						m[in.K] ^= byte(in.Mask)
						in.File = c19B64(m)
					}
				}
				in.DumpPath = ""
			}
			inAny = in
		} else {
			var raw map[string]any
			json.Unmarshal(mb, &raw)
			inAny = raw
		}
	}
	if raw, ok := vr.ReplayInput(); ok && in.Scenario == "" {
		json.Unmarshal(raw, &in)
	}
	fam := in.Scenario
	if fam == "" {
		fam = "load"
	}
	sig := fam + "/fatal-" + kind
	desc := fmt.Sprintf("the process died with an unrecoverable runtime error while loading a %s input (%s, byte %d): %s", fam, in.Name, in.K, strings.SplitN(fatal, "\n\n", 2)[0])
	if _, ok := vr.ReplayInput(); ok {
		fmt.Printf("REPLAY-VIOLATION property=C19 sig=%s\n  %s\n", sig, desc)
		return
	}
	e := vr.GetEnv()
	res := vr.New("C19", e)
	res.Rule = "child process died: see violation"
	res.Exhaustive = false
	res.Evaluations = 1
	res.Notes = append(res.Notes, "the enumerating child process died with a fatal runtime error; counts of this shard are lost")
	res.ViolateInput(sig, desc, inAny)
	res.Write(e)
}

func TestVerifC19(t *testing.T) {
	if os.Getenv("VERIF_C19_CHILD") == "" {
		c19Supervise(t)
		return
	}
	if p := os.Getenv("VERIF_C19_MARK"); p != "" {
		c19MarkFile, _ = os.OpenFile(p, os.O_CREATE|os.O_WRONLY|os.O_TRUNC, 0o600)
	}
	e := vr.GetEnv()
	if raw, ok := vr.ReplayInput(); ok {
		c19Replay(t, raw)
		return
	}
	thorough := e.Tier == "thorough"
	res := vr.New("C19", e)
	res.Rule = "roundtrip: one evaluation = one (entry, virtual instant) pair queried on the original and on the reloaded cache (contents n x lazy_cache_ttl x second/sub-second store instants x reload delay); classes = instant relative to load / message expiry / cache expiry x fresh/stale/miss. " +
		"trunc: one evaluation = one prefix of a dump loaded into an empty cache; classes = contents size class x position of the cut in the uncompressed stream (gzip header, length header, block data, block boundary, all data but no trailer) x error kind x loaded none/some/all. " +
		"flip/tiny/adv: one evaluation = one damaged file; classes = family x region x error kind x relation of the loaded entries to the intact dump"
	start := time.Now()
	stop := false
	viol := func(sig, desc string, in any) { res.ViolateInput(sig, desc, in) }
	expired := func() bool {
		if !stop && e.Expired() {
			stop = true
		}
		return stop
	}

	ns := []int{0, 1, 2, 127, 128, 129, 300}
	if thorough {
		ns = []int{0, 1, 2, 127, 128, 129, 256, 257, 300} // also the boundary of the second dump block
	}
	lazies := []int{0, 10, 86400}
	res.Bounds["contents_entries"] = ns
	res.Bounds["lazy_cache_ttl"] = lazies
	res.Bounds["answer_templates"] = len(c19Tpls)
	res.Bounds["store_instants"] = "second i mod 9 (ages 8..0 s at the dump), +500 ms for odd entries in the sub-second family"
	res.Bounds["heap_limit_mib"] = c19HeapLimit >> 20
	res.Bounds["live_heap_peak_limit_mib(adversarial files, sampled at every read of the input after a forced GC)"] = c19PeakLimit >> 20

	var unit int64
	var notes []string

	// ---- roundtrip
	var confs []c19Conf
	for _, n := range ns {
		for _, lazy := range lazies {
			for _, sub := range []bool{false, true} {
				rots := []int{0}
				if n >= 1 && n <= 2 {
					rots = rots[:0]
					for r := 0; r < len(c19Tpls)*9; r++ { // every template at every age
						rots = append(rots, r)
					}
					if !thorough {
						// quick: every template at ages 8, 4 and 0
						rots = rots[:0]
						for _, age := range []int{0, 4, 8} {
							for r := 0; r < len(c19Tpls); r++ {
								rots = append(rots, r+age*len(c19Tpls))
							}
						}
					}
				}
				for _, r := range rots {
					confs = append(confs, c19Conf{N: n, Lazy: lazy, Subsec: sub, Rot: r})
				}
				if !sub && (n == 129 || n == 300) {
					// configured size below the number of entries held
					confs = append(confs, c19Conf{N: n, Lazy: lazy, Rot: 0, Size: 128}, c19Conf{N: n, Lazy: lazy, Rot: 0, Size: 256})
					if lazy == 0 {
						confs = append(confs, c19Conf{N: n, Lazy: lazy, Rot: 0, Fat: true}) // big answers: blocks of many hundred KiB
					}
				}
			}
		}
	}
	deltasFor := func(cf c19Conf) []time.Duration {
		// reload delays: 0, 1 s and (remaining lifetime - 1 s) for every distinct remaining
		// message / cache lifetime of the contents (computed from the alphabet: ttl, caps, lazy ttl minus age)
		set := map[time.Duration]bool{0: true, time.Second: true}
		for i := 0; i < cf.N; i++ {
			tp := cf.tpl(i)
			age := c19DumpAt - cf.storeAt(i)
			var lives []time.Duration
			for _, r := range tp.Recs {
				lives = append(lives, time.Duration(r.TTL)*time.Second)
			}
			lives = append(lives, 5*time.Second, 30*time.Second, 300*time.Second)
			if cf.Lazy > 0 {
				lives = append(lives, time.Duration(cf.Lazy)*time.Second)
			}
			for _, l := range lives {
				if d := (l - age - time.Second).Truncate(time.Second); d > 0 && d <= c19GcWindow {
					set[d] = true
				}
			}
		}
		var out []time.Duration
		for d := range set {
			out = append(out, d)
		}
		sort.Slice(out, func(i, j int) bool { return out[i] < out[j] })
		if !thorough && cf.N > 2 && len(out) > 6 {
			// quick: 0, 1 s, and the delays that put the load one second before the end of the 5/30/300 s classes
			keep := []time.Duration{0, time.Second, 3 * time.Second, 21 * time.Second, 29 * time.Second, 291 * time.Second}
			out = keep
		}
		return out
	}
	maxDeltas := 0
	for _, cf := range confs {
		for _, d := range deltasFor(cf) {
			unit++
			if !e.Mine(unit) || expired() {
				continue
			}
			in := c19RtIn{Scenario: "roundtrip", Conf: cf, DeltaNs: int64(d)}
			c19Mark(in)
			v := c19RunRoundtrip(in, false)
			res.Evaluations += v.Evals
			res.Transitions += v.Ops
			res.States += v.States
			for k, n := range v.Outcomes {
				res.Outcomes[k] += n
			}
			if v.Infra != "" && res.Infra == "" {
				res.Infra = v.Infra
			}
			if v.Sig != "" {
				viol(v.Sig, v.Desc, in)
			}
			if unit%41 == 1 {
				res.Sample(map[string]any{"input": in, "probes": v.Evals})
			}
		}
		if n := len(deltasFor(cf)); n > maxDeltas {
			maxDeltas = n
		}
	}
	fmt.Printf("phase roundtrip done at %.1fs\n", time.Since(start).Seconds())
	res.Bounds["roundtrip_units"] = unit
	res.Bounds["roundtrip_max_reload_delays_per_contents"] = maxDeltas
	if stop {
		notes = append(notes, "budget expired during roundtrip")
	}

	// ---- trunc + flip on real dumps (one unit = one contents configuration; the dump bytes
	// depend on map iteration order, so all cuts / flips of one dump are made by one shard)
	flipAll := map[int]bool{0: true, 1: true, 2: true}
	if thorough {
		for _, n := range ns {
			flipAll[n] = true
		}
	}
	res.Bounds["trunc"] = "every prefix (0..len-1 bytes) of every dump"
	res.Bounds["flip"] = fmt.Sprintf("every single-bit flip of dumps with n in %v; other dumps: every single-bit flip of every 5th byte", func() []int {
		var l []int
		for _, n := range ns {
			if flipAll[n] {
				l = append(l, n)
			}
		}
		return l
	}())
	var dunit int64
	for _, n := range ns {
		for _, lazy := range lazies {
			cf := c19Conf{N: n, Lazy: lazy}
			if lazy == lazies[0] && (n == 129 || n == 300) {
				cf.Size = 128 // configured size below the number of entries (the store keeps its minimum of 1024)
			}
			cf.use() // sets the size for this configuration (every iteration sets it anew)
			for _, job := range []string{"trunc", "flip"} {
				dunit++
				if !e.Mine(dunit) || expired() {
					continue
				}
				dump, ops, derr := c19MakeDump(cf)
				res.Transitions += int64(ops)
				if derr != "" {
					viol("dump/failed", derr, nil)
					continue
				}
				intact, starts, total, err := c19Decode(dump)
				if err != nil {
					viol("roundtrip/dump-unreadable", "reference decoder cannot read the dump: "+err.Error(), nil)
					continue
				}
				res.States += int64(len(intact))
				dumpPath := filepath.Join(os.Getenv("VERIF_C19_DIR"), fmt.Sprintf("dump_%d.bin", dunit))
				if c19MarkFile != nil {
					os.WriteFile(dumpPath, dump, 0o600)
				}
				if job == "trunc" {
					for k := 0; k < len(dump) && !expired(); k++ {
						c19Mark(c19FileIn{Scenario: "trunc", Name: "prefix", Conf: cf, AtNs: int64(c19DumpAt), K: k, DumpPath: dumpPath})
						o, sig, desc, infra := c19CheckTrunc(cf, dump, k, intact, starts, total)
						res.Evaluations++
						res.Transitions++
						if infra != "" && res.Infra == "" {
							res.Infra = infra
						}
						if o != "" {
							res.Outcome(o)
						}
						if sig != "" {
							viol(sig, desc, c19FileIn{Scenario: "trunc", Name: "prefix", Conf: cf, AtNs: int64(c19DumpAt), File: c19B64(dump[:k]), Intact: c19B64(dump), K: k})
						}
						if k == len(dump)/2 {
							res.Sample(map[string]any{"scenario": "trunc", "conf": cf, "dump_bytes": len(dump), "cut_at": k, "outcome": o})
						}
					}
					// the intact dump itself must load
					if r := c19LoadAt(c19DumpAt, cf.Lazy, dump); r.Status != 200 || r.Panic != "" {
						viol("roundtrip/load-failed", fmt.Sprintf("intact dump refused: %d %s %s", r.Status, r.Body, r.Panic), nil)
					}
					continue
				}
				hl := c19HeaderLen(dump)
				region := func(i int) string {
					switch {
					case i < hl:
						return "gzip-header"
					case i >= len(dump)-8:
						return "gzip-trailer"
					}
					return "deflate-data"
				}
				mut := make([]byte, len(dump))
				try := func(i int, mask byte, fam string) {
					copy(mut, dump)
					mut[i] ^= mask
					c19Mark(c19FileIn{Scenario: fam, Name: region(i), Conf: cf, AtNs: int64(c19DumpAt), K: i, Mask: int(mask), DumpPath: dumpPath})
					o, sig, desc, infra := c19CheckFile(fam, region(i), c19DumpAt, cf.Lazy, mut, intact)
					res.Evaluations++
					res.Transitions++
					if infra != "" && res.Infra == "" {
						res.Infra = infra
					}
					if o != "" {
						res.Outcome(o)
					}
					if sig != "" {
						viol(sig, desc, c19FileIn{Scenario: fam, Name: region(i), Conf: cf, AtNs: int64(c19DumpAt), File: c19B64(mut), Intact: c19B64(dump), K: i, Mask: int(mask)})
					}
				}
				if flipAll[n] {
					for i := 0; i < len(dump) && !expired(); i++ {
						for b := 0; b < 8; b++ {
							try(i, 1<<b, "flip")
						}
					}
				} else {
					for i := 0; i < len(dump) && !expired(); i += 5 {
						for b := 0; b < 8; b++ {
							try(i, 1<<b, "flip")
						}
					}
				}
			}
		}
	}
	c19CurSize = c19Size
	fmt.Printf("phase trunc/flip done at %.1fs\n", time.Since(start).Seconds())
	res.Bounds["dump_units"] = dunit
	if stop {
		notes = append(notes, "budget expired during trunc/flip")
	}

	// ---- all files of length <= 2
	res.Bounds["tiny"] = "all files of length 0, 1 and 2"
	tiny := func(data []byte) {
		c19Mark(c19FileIn{Scenario: "tiny", Name: "tiny", AtNs: int64(c19DumpAt), File: c19B64(data)})
		o, sig, desc, infra := c19CheckFile("tiny", fmt.Sprintf("len%d", len(data)), c19DumpAt, 0, data, nil)
		res.Evaluations++
		res.Transitions++
		if infra != "" && res.Infra == "" {
			res.Infra = infra
		}
		if o != "" {
			res.Outcome(o)
		}
		if sig != "" {
			viol(sig, desc, c19FileIn{Scenario: "tiny", Name: "tiny", AtNs: int64(c19DumpAt), File: c19B64(data)})
		}
	}
	var tunit int64
	for hi := -1; hi < 256 && !expired(); hi++ {
		tunit++
		if !e.Mine(tunit) {
			continue
		}
		if hi < 0 {
			tiny(nil)
			continue
		}
		tiny([]byte{byte(hi)})
		for lo := 0; lo < 256; lo++ {
			tiny([]byte{byte(hi), byte(lo)})
		}
	}

	fmt.Printf("phase tiny done at %.1fs\n", time.Since(start).Seconds())
	// ---- adversarial files
	advs := c19Adversarial(thorough)
	var names []string
	for i, a := range advs {
		names = append(names, a.Name)
		if !e.Mine(int64(i)) || expired() {
			continue
		}
		data := a.Data()
		c19Mark(c19FileIn{Scenario: "adv", Name: a.Name, AtNs: int64(c19DumpAt)})
		o, sig, desc, infra := c19CheckFile("adv", a.Name, c19DumpAt, 0, data, nil)
		res.Evaluations++
		res.Transitions++
		if infra != "" && res.Infra == "" {
			res.Infra = infra
		}
		if o != "" {
			res.Outcome(o)
		}
		if sig != "" {
			viol(sig, desc, c19FileIn{Scenario: "adv", Name: a.Name, AtNs: int64(c19DumpAt), File: c19B64(data)})
		}
		res.Sample(map[string]any{"scenario": "adv", "name": a.Name, "bytes": len(data), "outcome": o})
	}
	res.Bounds["adversarial"] = names

	// ---- intact dumps whose block headers straddle the 32 KiB window of the inflater
	// (gzip.Reader.Read returns short there): every alignment of the second and third
	// block header relative to the boundary; the load must succeed and reproduce the dump.
	alignedCases := 0
	for m := 1; m <= 2; m++ {
		for k := -1; k <= 9; k++ {
			alignedCases++
			if !e.Mine(int64(alignedCases)) || expired() {
				continue
			}
			data, ok := c19AlignedDump(32768*m - k)
			if !ok {
				res.Notes = append(res.Notes, fmt.Sprintf("aligned: could not build a dump whose second block header starts at %d", 32768*m-k))
				continue
			}
			intact, _, _, derr := c19Decode(data)
			ld := c19LoadAt(c19DumpAt, 0, data)
			res.Evaluations++
			res.Transitions++
			cls := fmt.Sprintf("aligned/header-at-boundary%+d", -k)
			in := c19FileIn{Scenario: "aligned", Name: fmt.Sprintf("m%d-k%d", m, k), AtNs: int64(c19DumpAt), File: c19B64(data)}
			switch {
			case derr != nil:
				res.Infra = "aligned: reference decoder failed on a generated dump: " + derr.Error()
			case ld.Panic != "":
				viol("aligned/panic", "loading an intact dump panicked: "+ld.Panic, in)
			case ld.Status != 200:
				res.Outcome(cls + "/REFUSED")
				viol("aligned/intact-dump-refused", fmt.Sprintf("an intact dump (second block header at uncompressed offset %d) was refused: %d %s", 32768*m-k, ld.Status, ld.Body), in)
			case len(ld.Entries) != len(intact):
				res.Outcome(cls + "/ENTRIES-LOST")
				viol("aligned/entries-lost", fmt.Sprintf("intact dump with %d entries, %d loaded", len(intact), len(ld.Entries)), in)
			default:
				res.Outcome(cls + "/ok")
			}
		}
	}
	res.Bounds["aligned"] = "second block header starting at 32768*m-k, m in 1..2, k in -1..9"

	fmt.Printf("phase adv done at %.1fs\n", time.Since(start).Seconds())
	// ---- periodic dump to a file and its crash points
	for i, lazy := range lazies {
		if !e.Mine(int64(i+5)) || expired() {
			continue
		}
		if infra := c19RunDumpFile(t.TempDir(), lazy, res, viol); infra != "" && res.Infra == "" {
			res.Infra = infra
		}
	}

	for i, lazy := range lazies {
		if !e.Mine(int64(i+9)) || expired() {
			continue
		}
		if infra := c19RunRepeated(t.TempDir(), lazy, res, viol); infra != "" && res.Infra == "" {
			res.Infra = infra
		}
	}
	for i, lazy := range lazies {
		if !e.Mine(int64(i+3)) || expired() {
			continue
		}
		if infra := c19RunRestart(t.TempDir(), lazy, res, viol); infra != "" && res.Infra == "" {
			res.Infra = infra
		}
	}
	for i, lazy := range lazies {
		if !e.Mine(int64(i+13)) || expired() {
			continue
		}
		if infra := c19RunInterrupted(lazy, e.Tier == "thorough", -1, res, viol); infra != "" && res.Infra == "" {
			res.Infra = infra
		}
	}
	fmt.Printf("phase dumpfile done at %.1fs\n", time.Since(start).Seconds())
	if stop {
		res.Exhaustive = false
		res.Notes = append(res.Notes, notes...)
		res.Notes = append(res.Notes, "budget expired: the space was not enumerated completely (see the scenario named above; scenarios listed before it are complete)")
	}
	res.Bounds["wall_s"] = time.Since(start).Seconds()
	res.Write(e)
}
