package h_c15

import (
	"fmt"
	"strings"
	"testing"
	"time"

	hpipe "github.com/IrineSistiana/mosdns/v5/zz_verif/h_pipe"
	"github.com/IrineSistiana/mosdns/v5/zz_verif/vr"
	"github.com/IrineSistiana/mosdns/v5/zz_verif/vs"
	"github.com/miekg/dns"
)

// C15 part b: EDNS0 termination while plugins run goroutines on COPIES of the
// query context (lazy cache refresh, fallback, dual-stack selector). A client
// that is served from cache (no upstream exchange of its own) must get an OPT
// without any upstream option, whatever a concurrent background exchange for
// the same question receives from the upstream. All interleavings within the
// deviation bound of the client's handler thread and the background
// goroutines are explored.

func c15bScenario(name string, chain []string, upOpts []string, clientOpts []string, stale bool, d int) vr.Scenario {
	var replies []hpipe.Reply
	var finished bool
	var buildErr error
	q := func(id uint16) hpipe.QSpec {
		return hpipe.QSpec{ID: id, Name: "MiXed.Example.", Type: dns.TypeA, Class: dns.ClassINET, RD: true, Opt: 1232, Options: clientOpts}
	}
	body := func() {
		finished, replies, buildErr = false, nil, nil
		env, err := hpipe.Build(chain, true)
		if err != nil {
			buildErr = err
			return
		}
		env.Up.Script = hpipe.UpOutcome{Kind: "answer", NRec: 2, HasOpt: true, Options: upOpts}
		replies = append(replies, env.Arrive("udp", q(1).Wire())) // miss: own exchange
		if stale {
			vs.Sleep(1000 * time.Second)
		} else {
			vs.Sleep(time.Second)
		}
		replies = append(replies, env.Arrive("udp", q(2).Wire())) // served from cache
		vs.Sleep(10 * time.Second)                                  // background work finishes
		replies = append(replies, env.Arrive("udp", q(3).Wire()))
		finished = true
		env.Close()
	}
	check := func(x *vs.Exec) (string, *vs.Violation) {
		V := func(oracle, why string) (string, *vs.Violation) {
			return oracle, &vs.Violation{Sig: name + "/" + oracle, Desc: why + fmt.Sprintf("\nchain=%v upstream options=%v client options=%v", chain, upOpts, clientOpts)}
		}
		if buildErr != nil {
			return V("build", buildErr.Error())
		}
		if x.Panic != "" {
			return V("panic", x.Panic)
		}
		if !finished {
			return V("stuck", fmt.Sprintf("did not finish; parked %v", x.Blocked))
		}
		var key []string
		for i, rep := range replies {
			if rep.Count != 1 {
				return V("one-reply", fmt.Sprintf("query %d got %d replies", i+1, rep.Count))
			}
			r := new(dns.Msg)
			if err := r.Unpack(rep.Wire); err != nil {
				return V("reply-unparsable", err.Error())
			}
			var opts []*dns.OPT
			for _, rr := range r.Extra {
				if o, ok := rr.(*dns.OPT); ok {
					opts = append(opts, o)
				}
			}
			if len(opts) != 1 {
				return V("reply-opt-count", fmt.Sprintf("query %d (with OPT): reply carries %d OPT records", i+1, len(opts)))
			}
			if i == 0 {
				key = append(key, fmt.Sprintf("miss:%dopt", len(opts[0].Option)))
				continue
			}
			// queries 2 and 3 are answered from the cache: this query had no upstream
			// exchange of its own, so nothing of the upstream's OPT may be in its reply
			if len(r.Answer) == 0 {
				return V("not-served", fmt.Sprintf("query %d got no answer records", i+1))
			}
			for _, o := range opts[0].Option {
				for _, n := range upOpts {
					uo := hpipe.MkOption(n, true)
					if o.Option() == uo.Option() && o.String() == uo.String() {
						return V("upstream-option-on-cache-hit/"+n, fmt.Sprintf("query %d was served from cache, yet its reply carries the upstream's %s option (taken from another exchange)", i+1, n))
					}
				}
			}
			key = append(key, fmt.Sprintf("hit:ttl%d:%dopt", r.Answer[0].Header().Ttl, len(opts[0].Option)))
		}
		return strings.Join(key, ","), nil
	}
	return vr.Scenario{Name: name, P: d, D: d, Horizon: 3 * time.Hour, Body: body, Check: check,
		Params: map[string]any{"chain": chain, "upstream_options": upOpts, "client_options": clientOpts, "stale": stale}}
}

func TestVerifC15b(t *testing.T) {
	e := vr.GetEnv()
	d := 3
	if e.Tier == "thorough" {
		d = 5
	}
	scs := []vr.Scenario{
		c15bScenario("lazy-stale-fwdopt10", []string{"cache_lazy", "fwdopt10"}, []string{"cookie", "padding"}, nil, true, d),
		c15bScenario("lazy-stale-ecsfwd", []string{"cache_lazy", "ecs_forward"}, []string{"ecs"}, []string{"ecs"}, true, d),
		c15bScenario("fresh-hit-fwdopt10", []string{"cache", "fwdopt10"}, []string{"cookie"}, nil, false, d),
		c15bScenario("lazy-stale-fwdopt-before-cache", []string{"fwdopt65001", "cache_lazy"}, []string{"o65001", "cookie"}, []string{"o65001"}, true, d-1),
	}
	vr.RunScenarios("C15", scs)
}
