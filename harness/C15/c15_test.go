package h_c15

// C15 - EDNS0 is terminated, not leaked, between client and upstream.
//
// Bounded-exhaustive enumeration of (plugin chain x client OPT x upstream answer
// OPT x transport of arrival) on the real pipeline shared with C03 (package
// hpipe): entry handler -> sequence from rule text -> cache / ttl / ecs_handler
// / forward_edns0opt in every order -> real forward plugin -> fake upstream.
// The oracle looks at the bytes the fake upstream RECEIVED, at the packed reply
// the client got and at the messages stored in the cache backend.

import (
	"bytes"
	"encoding/json"
	"fmt"
	"sort"
	"strings"
	"testing"
	"time"

	"github.com/IrineSistiana/mosdns/v5/zz_verif/h_pipe"
	"github.com/IrineSistiana/mosdns/v5/zz_verif/vr"
	"github.com/IrineSistiana/mosdns/v5/zz_verif/vs"
	"github.com/miekg/dns"
)

type Case struct {
	Chain   []string        `json:"chain"` // forward(fake upstream) is appended unless the chain contains it
	Q       hpipe.QSpec     `json:"query"`
	Up      hpipe.UpOutcome `json:"upstream"`
	Arrival string          `json:"arrival"`
}

func (c Case) trail() bool {
	for _, n := range c.Chain {
		if n == "forward" {
			return false
		}
	}
	return true
}

// effective is the chain as executed (with the appended forward).
func (c Case) effective() []string {
	if c.trail() {
		return append(append([]string{}, c.Chain...), "forward")
	}
	return c.Chain
}

func (c Case) chainLabel() string { return "[" + strings.Join(c.effective(), ",") + "]" }

type obs struct {
	Run      int
	Query    []byte
	Reply    hpipe.Reply
	Received [][]byte
	Probe    hpipe.Probe
}

type caseRun struct {
	Obs      []obs
	Stored   []*dns.Msg
	SharedOpt bool // two query contexts (or a query and a reply OPT) use one backing array for their option lists
	BuildErr error
	Panic    string
	Horizon  bool
}

var runNames = []string{"first", "repeat+2s", "repeat+1000s"}

func runCase(c Case) caseRun {
	var cr caseRun
	x := vs.Run1(vs.Config{NoWatchdog: true, Horizon: 2 * time.Hour}, func() {
		env, err := hpipe.Build(c.Chain, c.trail())
		if err != nil {
			cr.BuildErr = err
			return
		}
		defer env.Close()
		env.Up.Script = c.Up
		stateful, _ := hpipe.ChainInfo(c.Chain, c.trail())
		runs := 1
		if stateful {
			runs = 3
		}
		for i := 0; i < runs; i++ {
			q := c.Q
			switch i {
			case 0:
				if runs > 1 {
					q.ID = c.Q.ID ^ 0x5A5A
				}
			case 1:
				vs.Advance(2 * time.Second)
			case 2:
				vs.Advance(1000 * time.Second)
				q.ID = c.Q.ID ^ 0x00FF
			}
			wire := q.Wire()
			env.Probe.Reset()
			env.Up.ResetLog()
			rep := env.Arrive(c.Arrival, wire)
			cr.Obs = append(cr.Obs, obs{Run: i, Query: wire, Reply: rep, Received: env.Up.Received, Probe: *env.Probe})
		}
		for _, m := range env.StoredInCaches() {
			cr.Stored = append(cr.Stored, m.Copy())
		}
		cr.SharedOpt = env.Probe.SharedOptArray()
	})
	cr.Panic = x.Panic
	cr.Horizon = x.HorizonHit || x.Livelock
	return cr
}

// ---------------------------------------------------------------------------
// oracle

type verdict struct {
	Kind   string
	Clause string
	Desc   string
}

func optData(o dns.EDNS0) []byte {
	// code + packed data identifies an option instance
	tmp := &dns.OPT{Hdr: dns.RR_Header{Name: ".", Rrtype: dns.TypeOPT}, Option: []dns.EDNS0{o}}
	m := new(dns.Msg)
	m.Extra = []dns.RR{tmp}
	b, err := m.Pack()
	if err != nil {
		return []byte(fmt.Sprintf("unpackable option %d: %v", o.Option(), err))
	}
	return b[12+11:] // header, root name(1)+type(2)+class(2)+ttl(4)+rdlen(2)
}

func optName(code uint16) string {
	switch code {
	case dns.EDNS0SUBNET:
		return "ecs"
	case dns.EDNS0COOKIE:
		return "cookie"
	case dns.EDNS0PADDING:
		return "padding"
	case 65001:
		return "o65001"
	}
	return fmt.Sprintf("o%d", code)
}

func countOpt(m *dns.Msg) (inExtra, elsewhere int, last *dns.OPT) {
	for _, rr := range m.Extra {
		if o, ok := rr.(*dns.OPT); ok {
			inExtra++
			last = o
		}
	}
	for _, sec := range [][]dns.RR{m.Answer, m.Ns} {
		for _, rr := range sec {
			if rr.Header().Rrtype == dns.TypeOPT {
				elsewhere++
			}
		}
	}
	return
}

// forwards reports whether the chain contains a plugin configured to forward
// EDNS0 option code (ECS: ecs_handler with forward=true). up: the plugin must
// stand in front of a forward, otherwise it cannot put anything into an
// upstream query.
func forwards(chain []string, code uint16, up bool) bool {
	lastFwd := -1
	for i, n := range chain {
		if n == "forward" {
			lastFwd = i
		}
	}
	for i, n := range chain {
		if up && i > lastFwd {
			break
		}
		in := hpipe.Instances[n]
		if code == dns.EDNS0SUBNET && in.FwdECS {
			return true
		}
		if in.FwdCode != 0 && uint16(in.FwdCode) == code {
			return true
		}
	}
	return false
}

func clientSent(opts []dns.EDNS0, code uint16) bool {
	for _, o := range opts {
		if o.Option() == code {
			return true
		}
	}
	return false
}

func judge(c Case, o obs) verdict {
	Q := new(dns.Msg)
	if err := Q.Unpack(o.Query); err != nil {
		return verdict{Kind: "harness-bad-query", Clause: "harness", Desc: err.Error()}
	}
	var clientOpt *dns.OPT
	if len(Q.Extra) == 1 {
		clientOpt, _ = Q.Extra[0].(*dns.OPT)
	}
	var clientOptions []dns.EDNS0
	if clientOpt != nil {
		clientOptions = clientOpt.Option
	}
	kind := "hit" // served without asking the upstream
	cfwd, ufwd := false, false // a client option went up / an upstream option came down (through a forwarding plugin)
	if len(o.Received) > 0 {
		kind = "forwarded"
	}
	// --- what the upstream received -------------------------------------------
	for _, w := range o.Received {
		U := new(dns.Msg)
		if err := U.Unpack(w); err != nil {
			return verdict{Kind: kind, Clause: "up-unparsable", Desc: "upstream query does not unpack: " + err.Error()}
		}
		n, other, uopt := countOpt(U)
		if n != 1 || other != 0 {
			return verdict{Kind: kind, Clause: "up-opt-count", Desc: fmt.Sprintf("upstream query carries %d OPT records in the additional section and %d elsewhere (want exactly one)", n, other)}
		}
		if clientOpt != nil && clientOpt.Version() != 0 && uopt.Version() == clientOpt.Version() {
			return verdict{Kind: kind, Clause: "up-opt-not-fresh", Desc: fmt.Sprintf("upstream OPT carries the client's EDNS version %d", uopt.Version())}
		}
		for _, uo := range uopt.Option {
			for _, co := range clientOptions {
				if uo.Option() == co.Option() && bytes.Equal(optData(uo), optData(co)) {
					cfwd = true
				}
				if uo.Option() == co.Option() && bytes.Equal(optData(uo), optData(co)) && !forwards(c.effective(), uo.Option(), true) {
					return verdict{Kind: kind, Clause: "up-leak-" + optName(uo.Option()), Desc: fmt.Sprintf("the client's %s option (code %d) reached the upstream although no plugin of the chain forwards it", optName(uo.Option()), uo.Option())}
				}
			}
		}
	}
	// --- the reply the client got ---------------------------------------------
	if o.Reply.Count == 0 {
		return verdict{Kind: kind + "/no-reply"} // existence of the reply is C03's business
	}
	R := new(dns.Msg)
	if err := R.Unpack(o.Reply.Wire); err != nil {
		return verdict{Kind: kind, Clause: "reply-unparsable", Desc: err.Error()}
	}
	if o.Probe.R != nil && len(R.Answer) < len(o.Probe.R.Answer) {
		kind += "-truncated"
	}
	n, other, ropt := countOpt(R)
	want := 0
	if clientOpt != nil {
		want = 1
	}
	if n != want || other != 0 {
		return verdict{Kind: kind, Clause: "reply-opt-count", Desc: fmt.Sprintf("reply carries %d OPT records (+%d outside the additional section), client query had %d", n, other, want)}
	}
	if ropt != nil {
		if z := ropt.Hdr.Ttl & 0x7FFF; z != 0 {
			return verdict{Kind: kind, Clause: "reply-reserved-flags", Desc: fmt.Sprintf("the reply OPT has reserved EDNS flag bits set (%#04x); only DO is mirrored from the client (client flags %#04x), the OPT is otherwise fresh", z, clientOpt.Hdr.Ttl&0xFFFF)}
		}
		if ropt.Do() != clientOpt.Do() {
			return verdict{Kind: kind, Clause: "reply-do", Desc: fmt.Sprintf("client DO=%v, reply DO=%v", clientOpt.Do(), ropt.Do())}
		}
		// version octet and the Z flags other than DO of a response OPT are zero unless something rewrote the pseudo-record
		if ropt.Hdr.Ttl&0x00FF7FFF != 0 {
			return verdict{Kind: kind, Clause: "reply-opt-altered", Desc: fmt.Sprintf("OPT TTL field of the reply is %#08x: version / reserved flag bits were rewritten", ropt.Hdr.Ttl)}
		}
		if ropt.Hdr.Name != "." {
			return verdict{Kind: kind, Clause: "reply-opt-altered", Desc: "OPT owner name is " + ropt.Hdr.Name}
		}
		// a plugin behind the forward replaced the upstream's answer by one of its own (another rcode):
		// the discarded reply's options have nothing to do with what the client gets
		replaced := c.Up.Kind == "answer" && len(o.Received) > 0 && R.Rcode != c.Up.Rcode
		for _, ro := range ropt.Option {
			for _, name := range c.Up.Options {
				uo := hpipe.MkOption(name, true)
				if replaced && ro.Option() == uo.Option() && bytes.Equal(optData(ro), optData(uo)) {
					return verdict{Kind: kind, Clause: "reply-leak-from-discarded-reply", Desc: fmt.Sprintf("the reply (rcode %d) was produced by a plugin behind the forward, yet it carries the %s option of the upstream reply (rcode %d) that was discarded", R.Rcode, optName(ro.Option()), c.Up.Rcode)}
				}
				if ro.Option() == uo.Option() && bytes.Equal(optData(ro), optData(uo)) {
					ufwd = true
				}
				if ro.Option() == dns.EDNS0SUBNET && ro.Option() == uo.Option() && bytes.Equal(optData(ro), optData(uo)) && !clientSent(clientOptions, dns.EDNS0SUBNET) {
					// ecs_handler(forward) forwards the CLIENT's subnet option; a client that sent none has nothing
					// forwarded for it, so the upstream's subnet echo (of a preset / derived address) is not forwarded explicitly
					return verdict{Kind: kind, Clause: "reply-leak-ecs-not-requested", Desc: "the upstream's client-subnet option reached a client that did not send one"}
				}
				if ro.Option() == uo.Option() && bytes.Equal(optData(ro), optData(uo)) && !forwards(c.effective(), ro.Option(), false) {
					return verdict{Kind: kind, Clause: "reply-leak-" + optName(ro.Option()), Desc: fmt.Sprintf("the upstream's %s option (code %d) reached the client although no plugin of the chain forwards it", optName(ro.Option()), ro.Option())}
				}
			}
		}
	}
	if cfwd {
		kind += "+client-option-forwarded"
	}
	if ufwd {
		kind += "+upstream-option-forwarded"
	}
	return verdict{Kind: kind}
}

func evalCase(c Case) (caseRun, []verdict) {
	cr := runCase(c)
	if cr.BuildErr != nil {
		return cr, []verdict{{Kind: "harness-build", Clause: "harness", Desc: "cannot build chain: " + cr.BuildErr.Error()}}
	}
	if cr.Panic != "" {
		l := strings.Split(cr.Panic, "\n")
		if len(l) > 12 {
			l = l[:12]
		}
		return cr, []verdict{{Kind: "panic", Clause: "panic", Desc: "panic while serving the query: " + strings.Join(l, "\n")}}
	}
	if cr.Horizon {
		return cr, []verdict{{Kind: "harness-horizon", Clause: "harness", Desc: "execution did not quiesce within the virtual horizon"}}
	}
	var vd []verdict
	for _, o := range cr.Obs {
		vd = append(vd, judge(c, o))
	}
	if cr.SharedOpt {
		vd = append(vd, verdict{Kind: "context", Clause: "opt-array-shared", Desc: "the option lists of two OPT records of different queries (or of a query and its reply) share one backing array: an option appended for one query is written into the other's"})
	}
	// cached answers never contain an OPT
	for _, m := range cr.Stored {
		if n, other, _ := countOpt(m); n+other > 0 {
			vd = append(vd, verdict{Kind: "cache", Clause: "cache-opt", Desc: fmt.Sprintf("a message stored in the cache contains %d OPT record(s)", n+other)})
			break
		}
	}
	return cr, vd
}

func firstViolation(vd []verdict) (int, *verdict) {
	for i := range vd {
		if vd[i].Clause != "" {
			return i, &vd[i]
		}
	}
	return -1, nil
}

func minimise(c Case, clause string) Case {
	for changed := true; changed; {
		changed = false
		for i := range c.Chain {
			d := c
			d.Chain = append(append([]string{}, c.Chain[:i]...), c.Chain[i+1:]...)
			_, vd := evalCase(d)
			if _, v := firstViolation(vd); v != nil && v.Clause == clause {
				c, changed = d, true
				break
			}
		}
	}
	return c
}

func families(c Case) string {
	set := map[string]bool{}
	for _, n := range c.Chain {
		set[hpipe.Instances[n].Plugin] = true
	}
	if c.trail() {
		set["forward"] = true
	}
	if len(set) > 1 {
		delete(set, "forward") // name the plugin that needs the forward, not the forward
	}
	var l []string
	for k := range set {
		l = append(l, k)
	}
	sort.Strings(l)
	return strings.Join(l, "+")
}

// ---------------------------------------------------------------------------
// the enumerated space

func subsets(items []string) [][]string {
	var out [][]string
	for m := 0; m < 1<<len(items); m++ {
		var s []string
		for i, it := range items {
			if m&(1<<i) != 0 {
				s = append(s, it)
			}
		}
		out = append(out, s)
	}
	return out
}

func chainsUpTo(alpha []string, k int) [][]string {
	out := [][]string{{}}
	level := [][]string{{}}
	for l := 1; l <= k; l++ {
		var next [][]string
		for _, c := range level {
			for _, a := range alpha {
				next = append(next, append(append([]string{}, c...), a))
			}
		}
		out = append(out, next...)
		level = next
	}
	return out
}

func clientLabel(q hpipe.QSpec) string {
	if q.Opt < 0 {
		return "client-noopt"
	}
	s := "client-opt"
	if q.DO {
		s += "+do"
	}
	return s
}

func upLabel(u hpipe.UpOutcome) string {
	s := "up-noopt"
	if u.HasOpt {
		s = "up-opt"
	}
	if u.Rcode > 15 {
		s += "+extrcode"
	}
	return s
}

func TestVerifC15(t *testing.T) {
	e := vr.GetEnv()
	res := vr.New("C15", e)
	if in, ok := vr.ReplayInput(); ok {
		var c Case
		if err := json.Unmarshal(in, &c); err != nil {
			fmt.Println("INFRA: bad replay input:", err)
			t.Fatal(err)
		}
		replayCase(c)
		return
	}
	thorough := e.Tier == "thorough"
	alpha := append(hpipe.C15Alphabet(), "forward")
	maxLen := 2
	if thorough {
		maxLen = 3
	}

	// client queries
	clientOptionAlpha := []string{"ecs", "cookie", "padding", "o65001"}
	base := hpipe.QSpec{ID: 1, Name: hpipe.NameMixed, Type: dns.TypeA, Class: dns.ClassINET, RD: true, Opt: -1}
	clients := []hpipe.QSpec{base}
	for _, size := range []int{4096, 512} {
		for _, do := range []bool{false, true} {
			for _, ver := range []uint8{0, 1} {
				for _, opts := range subsets(clientOptionAlpha) {
					if !thorough && size == 512 && len(opts) != 0 && len(opts) != len(clientOptionAlpha) {
						continue // quick: the small advertised size only with no / all options
					}
					q := base
					q.Opt, q.DO, q.Version, q.Options = size, do, ver, opts
					clients = append(clients, q)
				}
			}
		}
	}
	// reserved flag bits next to DO (bit 14 is used by newer stubs, the rest is garbage a client may send)
	for _, z := range []uint16{0x4000, 0x0001, 0x7FFF} {
		for _, do := range []bool{false, true} {
			q := base
			q.Opt, q.DO, q.ZBits = 4096, do, z
			clients = append(clients, q)
		}
	}
	// a malformed client query with two OPT records (the first one carrying options): whatever
	// the server does with it, nothing of it may reach the upstream next to the fresh OPT
	for _, opts := range [][]string{nil, clientOptionAlpha} {
		q := base
		q.Opt, q.DO, q.Options, q.Shape = 4096, true, opts, "2opt"
		clients = append(clients, q)
	}
	// upstream answers
	var ups []hpipe.UpOutcome
	for _, big := range []bool{false, true} {
		mk := func(u hpipe.UpOutcome) hpipe.UpOutcome {
			u.Kind = "answer"
			if big {
				u.Size = 5000 // forces truncation for advertised sizes 512 and 4096
			} else {
				u.NRec = 2
			}
			return u
		}
		ups = append(ups, mk(hpipe.UpOutcome{}))
		for _, opts := range subsets([]string{"padding", "cookie", "ecs"}) {
			ups = append(ups, mk(hpipe.UpOutcome{HasOpt: true, Options: opts}))
			ups = append(ups, mk(hpipe.UpOutcome{HasOpt: true, Options: opts, Rcode: 16}))
		}
		// the upstream's OPT is not the last additional record
		ups = append(ups, mk(hpipe.UpOutcome{HasOpt: true, Options: []string{"cookie", "padding"}, OptFirst: true}))
	}
	// failing upstream: the client gets SERVFAIL, its OPT rules still apply
	ups = append(ups, hpipe.UpOutcome{Kind: "error"})
	arrivals := []string{"udp", "tcp"}

	var unit, distinct int64
	expired := false
	lastDone := "nothing"
	seen := map[string]bool{}
	// chains in which a plugin behind the forward replaces the upstream's answer (second SetResponse)
	extra := [][]string{{"fwdopt10", "forward", "reject3"}, {"ecs_forward", "forward", "reject3"}, {"fwdopt65001", "cache_tagged", "forward", "reject3"}}
	res.Bounds["extra_chains"] = extra
	allChains := append(chainsUpTo(alpha, maxLen), extra...)
	for l := 0; l <= 4 && !expired; l++ {
		for _, ch := range allChains {
			if len(ch) != l || expired {
				continue
			}
			if l > maxLen && !(len(ch) >= 3 && ch[len(ch)-1] == "reject3") {
				continue
			}
			for _, q := range clients {
				for _, u := range ups {
					for _, a := range arrivals {
						i := unit
						unit++
						if expired || !e.Mine(i) {
							continue
						}
						if distinct&0x3f == 0 && e.Expired() {
							expired = true
							continue
						}
						distinct++
						c := Case{Chain: ch, Q: q, Up: u, Arrival: a}
						cr, vd := evalCase(c)
						res.Evaluations++
						res.Transitions += int64(len(cr.Obs))
						for _, v := range vd {
							res.Outcome(fmt.Sprintf("%s/%s/%s/%s", a, clientLabel(q), upLabel(u), v.Kind))
						}
						if ri, v := firstViolation(vd); v != nil {
							key := v.Clause + "/" + families(c)
							if !seen[key] {
								seen[key] = true
								m := minimise(c, v.Clause)
								seen[v.Clause+"/"+families(m)] = true
								_, mvd := evalCase(m)
								mi, mv := firstViolation(mvd)
								if mv == nil {
									mv, mi, m = v, ri, c
								}
								res.ViolateInput(v.Clause+"/"+families(m), fmt.Sprintf("%s\n  chain %s, arrival %s, client %s version %d options %v, upstream %s, delivery %d\n  (first seen with chain %s)",
									mv.Desc, m.chainLabel(), m.Arrival, m.Q.Label(), m.Q.Version, m.Q.Options, m.Up.Label(), mi, c.chainLabel()), m)
							}
						}
						if distinct <= 2 || (distinct%20000 == 1) {
							var ks []string
							for _, v := range vd {
								ks = append(ks, v.Kind)
							}
							res.Sample(map[string]any{"chain": c.chainLabel(), "arrival": a, "client": q.Label(), "client_options": q.Options,
								"client_version": q.Version, "upstream": u.Label(), "deliveries": ks})
						}
					}
				}
			}
		}
		if !expired {
			lastDone = fmt.Sprintf("all chains of length <= %d", l)
		}
	}
	// ---- option-code sweep: a forwarder configured for ONE code, a client option and an upstream
	// option of code c, for the codes of the 16-bit space that travel as opaque options
	sweepChains := [][]string{{"fwdopt10", "forward"}, {"fwdopt65001", "forward"}}
	nCodes := 0
	for c := 0; c < 65536 && !expired; c++ {
		if !thorough && !(c%64 == 8 || c%64 == 10 || c%64 == 12 || c%64 == 15 || c%64 == 65001%64 || c%97 == 0 || c < 128 || c > 65400) {
			continue
		}
		// typed codes (the dns library gives them a structure of their own) are part of the main product
		probe := &dns.OPT{Hdr: dns.RR_Header{Name: ".", Rrtype: dns.TypeOPT}, Option: []dns.EDNS0{&dns.EDNS0_LOCAL{Code: uint16(c), Data: []byte("x")}}}
		pm := new(dns.Msg)
		pm.Extra = []dns.RR{probe}
		rt := new(dns.Msg)
		if pb, err := pm.Pack(); err != nil || rt.Unpack(pb) != nil || len(rt.Extra) != 1 {
			continue
		} else if o, ok := rt.Extra[0].(*dns.OPT); !ok || len(o.Option) != 1 {
			continue
		} else if _, ok := o.Option[0].(*dns.EDNS0_LOCAL); !ok {
			continue
		}
		nCodes++
		name := fmt.Sprintf("o%d", c)
		for _, ch := range sweepChains {
			i := unit
			unit++
			if expired || !e.Mine(i) {
				continue
			}
			if distinct&0x3f == 0 && e.Expired() {
				expired = true
				continue
			}
			distinct++
			q := base
			q.Opt, q.Options = 4096, []string{name}
			cs := Case{Chain: ch, Q: q, Up: hpipe.UpOutcome{Kind: "answer", NRec: 2, HasOpt: true, Options: []string{name}}, Arrival: "udp"}
			cr, vd := evalCase(cs)
			res.Evaluations++
			res.Transitions += int64(len(cr.Obs))
			for _, v := range vd {
				res.Outcome(fmt.Sprintf("code-sweep/%s/%s", ch[0], v.Kind))
			}
			if _, v := firstViolation(vd); v != nil {
				clause := v.Clause
				for _, pre := range []string{"up-leak-o", "reply-leak-o"} {
					if strings.HasPrefix(clause, pre) {
						clause = pre + "paque-code" // one signature for all codes
					}
				}
				key := clause + "/code-sweep/" + ch[0]
				if !seen[key] {
					seen[key] = true
					res.ViolateInput(clause+"/"+families(cs)+"/code-sweep", fmt.Sprintf("%s\n  chain %s, client option code %d, upstream option code %d", v.Desc, cs.chainLabel(), c, c), cs)
				}
			}
		}
	}
	res.Bounds["code_sweep"] = fmt.Sprintf("%d option codes x chains %v: the client and the upstream each carry one opaque option of that code", nCodes, sweepChains)
	res.States = distinct
	res.Exhaustive = !expired
	if expired {
		res.Notes = append(res.Notes, "time budget expired; largest bound fully covered by this shard: "+lastDone)
	}
	res.Notes = append(res.Notes, "UDP arrival = body of ServeUDP (Unpack, Handle(FromUDP=true), PackBuffer); TCP through the real ServeTCP on an in-memory connection; cache contents are read from the backend of the tagged cache plugin (harness accessor mounted into package cache), not through /dump")
	res.Rule = "complete product (no sampling): ALL chains (tuples with repetition, every order) of length <= maxLen over {cache, ttl 5, ecs_handler(forward), ecs(preset), forward_edns0opt 10, forward_edns0opt 65001, forward(fake upstream)}, forward(fake upstream) appended when the chain does not contain it (ttl only acts behind a forward) " +
		"x client OPT {none} + {size 4096, 512} x DO x version{0,1} x every subset of {ECS, cookie, padding, 65001} (quick: size 512 only with no/all options) " +
		"x upstream answer {2 records, 5000 octets (truncated over UDP)} x {no OPT} + {OPT with every subset of {padding, cookie, ECS}} x {rcode 0, extended rcode 16} x arrival {udp, tcp}; " +
		"chains with a cache deliver the query three times (other ID; +2 s hit; +1000 s expired), every delivery is judged and the cache backend is inspected afterwards. " +
		"Outcome class = arrival x client OPT kind x upstream OPT kind x delivery kind {forwarded, hit, -truncated, no-reply} with markers for a client option legitimately forwarded up / an upstream option legitimately forwarded down."
	res.Bounds["max_chain_len"] = maxLen
	res.Bounds["plugin_instances"] = alpha
	res.Bounds["chains"] = len(chainsUpTo(alpha, maxLen))
	res.Bounds["client_variants"] = len(clients)
	res.Bounds["upstream_variants"] = len(ups)
	res.Bounds["arrivals"] = arrivals
	res.Bounds["cases_total_all_shards"] = unit
	res.Write(e)
}

func replayCase(c Case) {
	fmt.Printf("replay: chain %s arrival %s client %s version %d options %v upstream %s\n", c.chainLabel(), c.Arrival, c.Q.Label(), c.Q.Version, c.Q.Options, c.Up.Label())
	cr, vd := evalCase(c)
	for i, o := range cr.Obs {
		fmt.Printf(" delivery %d (%s): replies %d, upstream received %d queries\n", i, runNames[i], o.Reply.Count, len(o.Received))
		for _, w := range o.Received {
			U := new(dns.Msg)
			if U.Unpack(w) == nil {
				fmt.Printf("  upstream got additional section: %v\n", U.Extra)
			}
		}
		if len(o.Reply.Wire) > 0 {
			R := new(dns.Msg)
			if R.Unpack(o.Reply.Wire) == nil {
				fmt.Printf("  reply: rcode=%d tc=%v answer=%d additional section: %v\n", R.Rcode, R.Truncated, len(R.Answer), R.Extra)
			}
		}
	}
	for _, m := range cr.Stored {
		fmt.Printf(" cached: answer=%d extra=%v\n", len(m.Answer), m.Extra)
	}
	if cr.Panic != "" {
		fmt.Println("panic:", cr.Panic)
	}
	for i, v := range vd {
		fmt.Printf(" verdict %d: kind=%s clause=%q %s\n", i, v.Kind, v.Clause, v.Desc)
	}
	if _, v := firstViolation(vd); v != nil {
		fmt.Printf("REPLAY-VIOLATION property=C15 sig=%s/%s\n  %s\n", v.Clause, families(c), v.Desc)
	} else {
		fmt.Println("REPLAY-OK: this input does not violate the property on the current tree")
	}
}
