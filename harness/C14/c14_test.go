package fastforward

import (
	"bytes"
	"context"
	"errors"
	"fmt"
	"sort"
	"strings"
	"testing"
	"time"

	"github.com/IrineSistiana/mosdns/v5/pkg/pool"
	"github.com/IrineSistiana/mosdns/v5/pkg/query_context"
	"github.com/IrineSistiana/mosdns/v5/zz_verif/fk"
	"github.com/IrineSistiana/mosdns/v5/zz_verif/vr"
	"github.com/IrineSistiana/mosdns/v5/zz_verif/vs"
	"github.com/miekg/dns"
	"go.uber.org/zap"
)

// C14: forward returns the first good answer among the queried upstreams.

func init() { fk.PoisonPool() }

const (
	uGood = iota
	uNX
	uServfail
	uError
	uGarbage
	uNever
	uSlowGood // answers after 1s virtual, re-checks that its query buffer is still intact
	uRefused
	uBadVers // extended rcode 16 (BADVERS): the header nibble alone reads 0
	uBadMode // extended rcode 19: the header nibble alone reads 3
)

var c14Names = []string{"good", "nx", "servfail", "error", "garbage", "never", "slowgood", "refused", "badvers", "badmode"}

type c14up struct {
	idx     int
	sys     *c14sys
	calls   []*c14call
}

type c14call struct {
	up       int
	outcome  int
	got      []byte
	intact   bool
	retAt    time.Duration
	returned bool
	marker   uint32
	earlier  bool
}

type c14sys struct {
	n, conc   int
	menu      []int
	ups       []*c14up
	calls     []*c14call
	want      []byte
	cmode     int // 0 none, 1 deadline 2s, 2 cancelled by a concurrent thread
	err       error
	resp      *dns.Msg
	retAt     time.Duration
	returned  bool
	marker    uint32
	tags      bool
	base      time.Duration // virtual instant at which the judged query starts (all times are relative to it)
	warm      int           // earlier queries through the same plugin instance whose exchanges all failed
	maxConns  int // upstream option max_conns
}

var errUp = errors.New("scripted upstream failure")

func (u *c14up) Close() error { return nil }

func (u *c14up) ExchangeContext(ctx context.Context, m []byte) (*[]byte, error) {
	s := u.sys
	c := &c14call{up: u.idx, got: append([]byte(nil), m...), intact: true}
	c.outcome = s.menu[vs.Choose(len(s.menu))]
	s.marker++
	c.marker = s.marker
	u.calls = append(u.calls, c)
	s.calls = append(s.calls, c)
	c.earlier = bytes.Contains(m, []byte("earlier")) // an exchange of an earlier query of the history (its helper may start late)
	defer func() { c.retAt, c.returned = vs.Elapsed()-s.base, true }()
	reply := func(rcode int) (*[]byte, error) {
		q := new(dns.Msg)
		if err := q.Unpack(m); err != nil {
			return nil, err
		}
		r := new(dns.Msg)
		r.SetRcode(q, rcode)
		if rcode > 0xF {
			r.SetEdns0(1232, false) // the upper bits of an extended rcode travel in the OPT record
		}
		r.Answer = append(r.Answer, &dns.TXT{Hdr: dns.RR_Header{Name: q.Question[0].Name, Rrtype: dns.TypeTXT, Class: dns.ClassINET, Ttl: 30},
			Txt: []string{fmt.Sprintf("up=%d marker=%d", u.idx, c.marker)}})
		b, err := r.Pack()
		if err != nil {
			panic(err)
		}
		bp := pool.GetBuf(len(b)) // replies are pool buffers, forward releases them
		copy(*bp, b)
		return bp, nil
	}
	switch c.outcome {
	case uGood:
		return reply(dns.RcodeSuccess)
	case uNX:
		return reply(dns.RcodeNameError)
	case uServfail:
		return reply(dns.RcodeServerFailure)
	case uRefused:
		return reply(dns.RcodeRefused)
	case uBadVers:
		return reply(dns.RcodeBadVers)
	case uBadMode:
		return reply(19)
	case uError:
		return nil, errUp
	case uGarbage:
		b := []byte{1, 2, 3, 4, 5, 6, 7, 8, 9, 10, 11, 12, 0xC0, 0xC0, 0xC0}
		bp := pool.GetBuf(len(b))
		copy(*bp, b)
		return bp, nil
	case uNever:
		vs.Recv(ctx.Done())
		return nil, context.Cause(ctx)
	case uSlowGood:
		tm := vs.NewTimer(time.Second)
		if vs.Select(vs.RecvCase(tm.C), vs.RecvCase(ctx.Done())) == 1 {
			return nil, context.Cause(ctx)
		}
		c.intact = bytes.Equal(m, c.got)
		return reply(dns.RcodeSuccess)
	}
	panic("bad outcome")
}

func c14Scenario(name string, n, conc int, menu []int, cmode int, tags bool, d int) vr.Scenario {
	return c14ScenarioH(name, n, conc, menu, cmode, tags, d, 0, 0)
}

// c14ScenarioH: the judged query is preceded by warm queries through the same
// instance (all their exchanges fail at once); upstreams are configured with
// max_conns.
// c14WarmMenu: outcome menu of the earlier queries of a history scenario (default: all fail)
var c14WarmMenu = map[string][]int{}

func c14ScenarioH(name string, n, conc int, menu []int, cmode int, tags bool, d, warm, maxConns int) vr.Scenario {
	var sys *c14sys
	body := func() {
		s := &c14sys{n: n, conc: conc, menu: menu, cmode: cmode, tags: tags, warm: warm, maxConns: maxConns}
		sys = s
		f := &Forward{args: &Args{Concurrent: conc}, logger: zap.NewNop(), tag2Upstream: map[string]*upstreamWrapper{}}
		for i := 0; i < n; i++ {
			up := &c14up{idx: i, sys: s}
			s.ups = append(s.ups, up)
			uw := newWrapper(i, UpstreamConfig{Tag: fmt.Sprintf("t%d", i), Addr: fmt.Sprintf("fake%d", i), MaxConns: maxConns}, "c14")
			uw.u = up
			f.us = append(f.us, uw)
			f.tag2Upstream[uw.cfg.Tag] = uw
		}
		for w := 0; w < warm; w++ {
			s.menu = []int{uError}
			if wm, ok := c14WarmMenu[name]; ok {
				s.menu = wm // e.g. an early return on a good answer while another helper is still waiting for its upstream
			}
			wq := new(dns.Msg)
			wq.SetQuestion(fmt.Sprintf("earlier%d.example.", w), dns.TypeA)
			_ = f.Exec(context.Background(), query_context.NewContext(wq))
		}
		if warm > 0 {
			// the history is over: only the next query is judged
			s.menu, s.calls, s.marker = menu, nil, 0
			for _, up := range s.ups {
				up.calls = nil
			}
		}
		s.base = vs.Elapsed()
		q := new(dns.Msg)
		q.SetQuestion("forward.example.", dns.TypeA)
		q.Id = 0xBEEF
		qCtx := query_context.NewContext(q)
		s.want, _ = qCtx.Q().Pack()
		ctx := context.Background()
		var cancel context.CancelFunc = func() {}
		switch cmode {
		case 1:
			ctx, cancel = vs.WithTimeout(ctx, 2*time.Second)
		case 2:
			ctx, cancel = vs.WithCancel(ctx)
			cc := cancel
			vs.GoNamed("canceller", func() { cc() })
		}
		var exec func(context.Context, *query_context.Context) error = f.Exec
		if tags {
			// the tag subset {t(n-1), t0}: positions are taken in the given order
			e, err := f.QuickConfigureExec(fmt.Sprintf("t%d t0", n-1))
			if err != nil {
				panic(err)
			}
			exec = e.(interface {
				Exec(context.Context, *query_context.Context) error
			}).Exec
		}
		s.err = exec(ctx, qCtx)
		s.retAt, s.returned = vs.Elapsed()-s.base, true
		s.resp = qCtx.R()
		cancel()
	}
	check := func(x *vs.Exec) (string, *vs.Violation) {
		s := sys
		var own []*c14call
		for _, c := range s.calls {
			if !c.earlier {
				own = append(own, c)
			}
		}
		s.calls = own
		var outs []string
		for _, c := range s.calls {
			outs = append(outs, fmt.Sprintf("u%d:%s", c.up, c14Names[c.outcome]))
		}
		res := "err"
		if s.err == nil && s.resp != nil {
			res = fmt.Sprintf("rcode%d", s.resp.Rcode)
		} else if s.err != nil && (errors.Is(s.err, context.Canceled) || errors.Is(s.err, context.DeadlineExceeded)) {
			res = "ctx"
		}
		sorted := append([]string{}, outs...)
		sort.Strings(sorted)
		key := strings.Join(sorted, " ") + " => " + res
		desc := fmt.Sprintf("n=%d concurrent=%d ctxmode=%d tags=%v warm=%d max_conns=%d calls(in call order)=%v -> err=%v resp=%v ret@%v", s.n, s.conc, s.cmode, s.tags, s.warm, s.maxConns, outs, s.err, respStr(s.resp), s.retAt)
		V := func(oracle, why string) (string, *vs.Violation) {
			return key, &vs.Violation{Sig: name + "/" + oracle, Desc: why + "\n" + desc}
		}
		if x.Panic != "" {
			return V("panic", x.Panic)
		}
		if !s.returned {
			return V("no-return", fmt.Sprintf("Exec never returned; parked: %v", x.Blocked))
		}
		if len(x.Blocked) > 0 {
			return V("helper-leak", fmt.Sprintf("goroutines still parked at quiescence: %v", x.Blocked))
		}
		// every queried upstream got the query byte for byte, intact for the whole exchange
		for _, c := range s.calls {
			if !bytes.Equal(c.got, s.want) {
				return V("query-altered", fmt.Sprintf("upstream %d received % x, the packed query is % x", c.up, c.got, s.want))
			}
			if !c.intact {
				return V("query-buffer-reused", fmt.Sprintf("upstream %d: its query buffer changed while the exchange was running", c.up))
			}
			if c.returned && c.retAt > 5*time.Second {
				return V("helper-outlives-timeout", fmt.Sprintf("upstream %d exchange ended at %v", c.up, c.retAt))
			}
		}
		// which upstreams: c consecutive positions (cyclic) of the list
		ceff := s.conc
		if ceff <= 0 {
			ceff = 1
		}
		if ceff > 3 {
			ceff = 3
		}
		list := make([]int, s.n)
		for i := range list {
			list[i] = i
		}
		if s.tags {
			list = []int{s.n - 1, 0}
		}
		if len(s.calls) != ceff {
			return V("wrong-number-of-upstreams", fmt.Sprintf("%d exchanges started, expected %d", len(s.calls), ceff))
		}
		got := map[int]int{}
		for _, c := range s.calls {
			got[c.up]++
		}
		okStart := false
		for r := 0; r < len(list); r++ {
			want := map[int]int{}
			for i := 0; i < ceff; i++ {
				want[list[(r+i)%len(list)]]++
			}
			same := len(want) == len(got)
			for k, v := range want {
				if got[k] != v {
					same = false
				}
			}
			if same {
				okStart = true
			}
		}
		if !okStart {
			return V("not-consecutive", fmt.Sprintf("queried upstreams %v are not %d cyclically consecutive positions of %v", got, ceff, list))
		}
		if x.EarlyTimers > 0 {
			return key, nil
		}
		// result
		const inf = time.Duration(1<<62 - 1)
		ctxEnd := inf
		switch s.cmode {
		case 1:
			ctxEnd = 2 * time.Second
		case 2:
			ctxEnd = 0
		}
		fin := func(c *c14call) time.Duration {
			switch c.outcome {
			case uNever:
				return 5 * time.Second
			case uSlowGood:
				return time.Second
			}
			return 0
		}
		isGood := func(c *c14call) bool { return c.outcome == uGood || c.outcome == uNX || c.outcome == uSlowGood }
		firstGood := inf
		last := time.Duration(0)
		for _, c := range s.calls {
			if isGood(c) && fin(c) < firstGood {
				firstGood = fin(c)
			}
			if fin(c) > last {
				last = fin(c)
			}
		}
		if s.retAt > ctxEnd {
			return V("outlives-context", fmt.Sprintf("context ended at %v, call returned at %v", ctxEnd, s.retAt))
		}
		if res == "ctx" {
			// allowed only if the context really ended before an outcome was available
			avail := firstGood
			if avail == inf {
				avail = last
			}
			if ctxEnd == inf || (avail < ctxEnd && s.cmode != 2) {
				return V("context-error-without-context-end", fmt.Sprintf("returned the context's error although an outcome was available at %v and the context ends at %v", avail, ctxEnd))
			}
			return key, nil
		}
		fromUp := func() *c14call {
			if s.resp == nil || len(s.resp.Answer) != 1 {
				return nil
			}
			t, ok := s.resp.Answer[0].(*dns.TXT)
			if !ok || len(t.Txt) != 1 {
				return nil
			}
			for _, c := range s.calls {
				if t.Txt[0] == fmt.Sprintf("up=%d marker=%d", c.up, c.marker) {
					return c
				}
			}
			return nil
		}
		if firstGood != inf {
			// a good answer exists: it must not be masked
			if s.err != nil || s.resp == nil {
				return V("good-answer-masked", "a queried upstream answered NOERROR/NXDOMAIN but forward returned an error")
			}
			c := fromUp()
			if c == nil {
				return V("fabricated-reply", "the returned reply is not one a queried upstream produced")
			}
			if !isGood(c) {
				return V("good-answer-masked", fmt.Sprintf("returned the %s reply of upstream %d although another queried upstream answered NOERROR/NXDOMAIN", c14Names[c.outcome], c.up))
			}
			if fin(c) != firstGood {
				return V("not-first-good", fmt.Sprintf("returned the good answer of upstream %d (available at %v) although one was available at %v", c.up, fin(c), firstGood))
			}
			if s.retAt != firstGood {
				return V("return-time", fmt.Sprintf("first good answer at %v, returned at %v", firstGood, s.retAt))
			}
			return key, nil
		}
		// no good answer: outcome of the last exchange to finish
		if s.retAt != last {
			return V("return-time", fmt.Sprintf("last exchange finished at %v, returned at %v", last, s.retAt))
		}
		var lastOnes []*c14call
		for _, c := range s.calls {
			if fin(c) == last {
				lastOnes = append(lastOnes, c)
			}
		}
		allowErr, allowReply := false, map[*c14call]bool{}
		for _, c := range lastOnes {
			if c.outcome == uServfail || c.outcome == uRefused || c.outcome == uBadVers || c.outcome == uBadMode {
				allowReply[c] = true
			} else {
				allowErr = true
			}
		}
		if s.err != nil {
			if !allowErr {
				return V("error-although-last-replied", "every exchange that finished last returned a reply, yet forward reported an error")
			}
			return key, nil
		}
		c := fromUp()
		if c == nil {
			return V("fabricated-reply", "the returned reply is not one a queried upstream produced")
		}
		if !allowReply[c] {
			return V("not-last-outcome", fmt.Sprintf("returned the %s reply of upstream %d, which is not the outcome of the last exchange to finish", c14Names[c.outcome], c.up))
		}
		return key, nil
	}
	return vr.Scenario{Name: name, P: d, D: d, Horizon: time.Minute, Body: body, Check: check,
		Params: map[string]any{"n": n, "concurrent": conc, "menu": menu, "ctxmode": cmode, "tags": tags}}
}

func respStr(r *dns.Msg) string {
	if r == nil {
		return "<nil>"
	}
	s := fmt.Sprintf("rcode=%d", r.Rcode)
	if len(r.Answer) == 1 {
		if t, ok := r.Answer[0].(*dns.TXT); ok {
			s += " " + strings.Join(t.Txt, "")
		}
	}
	return s
}

func TestVerifC14(t *testing.T) {
	e := vr.GetEnv()
	d := 2
	full := []int{uGood, uNX, uServfail, uError, uGarbage, uNever}
	small := []int{uGood, uServfail, uError, uNever}
	slow := []int{uSlowGood, uServfail, uGarbage, uNever, uBadVers, uBadMode}
	if e.Tier == "thorough" {
		d = 3
		full = append(full, uRefused, uSlowGood, uBadVers, uBadMode)
		small = full
	}
	scs := []vr.Scenario{
		c14Scenario("n1-c0", 1, 0, full, 0, false, d),
		c14Scenario("n1-c3-wrap", 1, 3, small, 0, false, d),
		c14Scenario("n2-c5-clamp-wrap", 2, 5, small, 0, false, d),
		c14Scenario("n3-c2", 3, 2, full, 0, false, d),
		c14Scenario("n4-c3", 4, 3, small, 0, false, d),
		c14Scenario("n3-cneg", 3, -1, full, 0, false, d),
		c14Scenario("n3-c3-slow", 3, 3, slow, 0, false, d),
		c14Scenario("n3-c3-deadline", 3, 3, slow, 1, false, d),
		c14Scenario("n3-c2-cancel", 3, 2, small, 2, false, d),
		c14Scenario("n3-c2-tags", 3, 2, small, 0, true, d),
		c14Scenario("n2-c1-deadline", 2, 1, slow, 1, false, d),
		c14Scenario("n1-c0-cancel", 1, 0, small, 2, false, d),
		c14ScenarioH("n2-c1-maxconns1-after-2-failures", 2, 1, small, 0, false, d, 2, 1),
		c14ScenarioH("n1-c3-maxconns2-after-3-failures", 1, 3, small, 0, false, d, 3, 2),
	}
	// an earlier query returned on its first good answer while its other helper was still waiting
	// (it ends 1 s later); the judged query is still waiting then: it must get nothing of the earlier one
	c14WarmMenu["n2-c2-after-an-early-return"] = []int{uGood, uSlowGood}
	scs = append(scs, c14ScenarioH("n2-c2-after-an-early-return", 2, 2, []int{uNever, uSlowGood, uServfail}, 0, false, d, 1, 0))
	vr.RunScenarios("C14", scs)
}
