package transport

import (
	"context"
	"errors"
	"fmt"
	"io"
	"strings"
	"testing"
	"time"
	"unsafe"

	"github.com/IrineSistiana/mosdns/v5/pkg/pool"
	"github.com/IrineSistiana/mosdns/v5/zz_verif/fk"
	"github.com/IrineSistiana/mosdns/v5/zz_verif/vr"
	"github.com/IrineSistiana/mosdns/v5/zz_verif/vs"
	"github.com/quic-go/quic-go"
)

// C01 / C07 over DoQ: the real QuicDnsConn / quicReservedExchanger over a fake
// quic.Connection whose streams are in-memory. One stream per query; the server
// actor answers the open streams in any order, may answer with a foreign wire
// ID (must be overwritten by the caller's), reset a stream, or stay silent.

type fqConn struct {
	quic.Connection // only the methods below are ever called
	ctx     context.Context
	cancel  context.CancelFunc
	streams []*fqStream
	limit   int
}

func (c *fqConn) Context() context.Context { return c.ctx }
func (c *fqConn) CloseWithError(quic.ApplicationErrorCode, string) error {
	c.cancel()
	for _, s := range c.streams {
		s.kill(errors.New("connection closed"))
	}
	return nil
}
func (c *fqConn) OpenStream() (quic.Stream, error) {
	vs.Point("quic.openstream", unsafe.Pointer(c))
	if c.limit > 0 && len(c.streams) >= c.limit {
		return nil, errors.New("too many open streams")
	}
	s := &fqStream{conn: c, idx: len(c.streams)}
	c.streams = append(c.streams, s)
	return s, nil
}

type fqStream struct {
	quic.Stream
	conn      *fqConn
	idx       int
	written   []byte
	fin       bool
	in        []byte // bytes the server sent
	inEOF     bool
	rdErr     error
	readCancelled, writeCancelled bool
	deadline  time.Time
	expired   bool
	cancelDl  func()
}

func (s *fqStream) key() unsafe.Pointer { return unsafe.Pointer(s) }
func (s *fqStream) kill(err error) {
	if s.rdErr == nil {
		s.rdErr = err
	}
}
func (s *fqStream) Write(p []byte) (int, error) {
	vs.Point("quic.write", s.key())
	if s.writeCancelled || s.fin {
		return 0, errors.New("write on closed stream")
	}
	s.written = append(s.written, p...)
	return len(p), nil
}
func (s *fqStream) Close() error { vs.Point("quic.fin", s.key()); s.fin = true; return nil }
func (s *fqStream) Read(p []byte) (int, error) {
	vs.Block("quic.read", s.key(), func() bool {
		return len(s.in) > 0 || s.inEOF || s.rdErr != nil || s.readCancelled || s.expired
	})
	switch {
	case s.readCancelled:
		return 0, errors.New("read cancelled")
	case len(s.in) > 0:
		n := copy(p, s.in)
		s.in = s.in[n:]
		return n, nil
	case s.rdErr != nil:
		return 0, s.rdErr
	case s.expired:
		return 0, fk.ErrTimeout
	}
	return 0, io.EOF
}
func (s *fqStream) CancelRead(quic.StreamErrorCode)  { vs.Point("quic.cancelread", s.key()); s.readCancelled = true }
func (s *fqStream) CancelWrite(quic.StreamErrorCode) { vs.Point("quic.cancelwrite", s.key()); s.writeCancelled = true }
func (s *fqStream) SetDeadline(t time.Time) error {
	vs.Point("quic.setdl", s.key())
	if s.cancelDl != nil {
		s.cancelDl()
	}
	s.expired = false
	if !t.IsZero() {
		s.cancelDl = vs.NewDeadline(t, "quic.dl", func() { s.expired = true })
	}
	return nil
}

type doqOpt struct {
	callers   int
	ids       []uint16
	ctxMode   []int
	srvMenu   []string // answer, answer-foreign-id, reset, silent, answer-no-fin, answer-then-reset
	closer    bool
	c02       bool // judge C02: a reply delivered while the caller's context was live is what the call returns, then
}

func doqScenario(name string, o doqOpt, d int) vr.Scenario {
	var calls []*call
	var conn *fqConn
	var answers map[int][]byte
	var answeredAt map[int]time.Duration
	var finished, closeStarted bool
	body := func() {
		finished, closeStarted = false, false
		calls, answers, answeredAt = nil, map[int][]byte{}, map[int]time.Duration{}
		ctx, cancel := vs.WithCancel(bg)
		conn = &fqConn{ctx: ctx, cancel: cancel}
		dc := NewQuicDnsConn(conn)
		served := map[int]bool{}
		stop := false
		nonce := uint32(0)
		vs.GoNamed("doq-server", func() {
			for {
				vs.Block("doq.wait", unsafe.Pointer(conn), func() bool {
					if stop {
						return true
					}
					for _, s := range conn.streams {
						if s.fin && !served[s.idx] {
							return true
						}
					}
					return false
				})
				if stop {
					return
				}
				var ready []*fqStream
				for _, s := range conn.streams {
					if s.fin && !served[s.idx] {
						ready = append(ready, s)
					}
				}
				s := ready[vs.Choose(len(ready))]
				served[s.idx] = true
				msgs, _ := fk.Unframe(s.written)
				if len(msgs) != 1 {
					s.rdErr = errors.New("server: bad frame")
					continue
				}
				switch o.srvMenu[vs.Choose(len(o.srvMenu))] {
				case "answer":
					nonce++
					a := fk.Answer(msgs[0], nonce)
					answers[s.idx], answeredAt[s.idx] = a, vs.Elapsed()
					s.in = append(s.in, fk.Frame(a)...)
					s.inEOF = true
				case "answer-foreign-id":
					nonce++
					a := fk.WithID(fk.Answer(msgs[0], nonce), 0x5A5A)
					answers[s.idx] = a
					s.in = append(s.in, fk.Frame(a)...)
					s.inEOF = true
				case "answer-no-fin":
					// the whole reply is here, the FIN is not (delayed for good)
					nonce++
					a := fk.Answer(msgs[0], nonce)
					answers[s.idx], answeredAt[s.idx] = a, vs.Elapsed()
					s.in = append(s.in, fk.Frame(a)...)
				case "answer-then-reset":
					// the whole reply, then the connection breaks (CONNECTION_CLOSE / reset right after it)
					nonce++
					a := fk.Answer(msgs[0], nonce)
					answers[s.idx], answeredAt[s.idx] = a, vs.Elapsed()
					s.in = append(s.in, fk.Frame(a)...)
					s.rdErr = errors.New("connection closed by peer")
				case "reset":
					s.rdErr = errors.New("stream reset by peer")
				case "silent":
				}
			}
		})
		var wg vs.WaitGroup
		for i := 0; i < o.callers; i++ {
			id := uint16(0x1000 + i)
			if i < len(o.ids) {
				id = o.ids[i]
			}
			c := &call{idx: i, q: fk.Query(id, qname(i), 1)}
			calls = append(calls, c)
			wg.Add(1)
			vs.GoNamed(fmt.Sprintf("caller%d", i), func() {
				defer wg.Done()
				mode := 0
				if c.idx < len(o.ctxMode) {
					mode = o.ctxMode[c.idx]
				}
				ctx := bg
				var cancel context.CancelFunc = func() {}
				switch mode {
				case 1:
					ctx, cancel = vs.WithTimeout(bg, 3*time.Second)
				case 2:
					ctx, cancel = vs.WithCancel(bg)
					cc := cancel
					vs.GoNamed("cancel", func() { c.cancelled, c.cancelAt = true, vs.Elapsed(); cc() })
				}
				defer cancel()
				c.started, c.startAt = true, vs.Elapsed()
				re, closed := dc.ReserveNewQuery()
				if re == nil {
					c.refused, c.refusedClosed, c.done, c.retAt = true, closed, true, vs.Elapsed()
					return
				}
				c.streamIdx = len(conn.streams) - 1
				r, err := re.ExchangeReserved(ctx, c.q)
				c.done, c.err, c.retAt = true, err, vs.Elapsed()
				c.refusedClosed = closeStarted // (field reused) the application's own Close had begun when the call returned
				if r != nil {
					c.resp = append([]byte(nil), (*r)...)
					pool.ReleaseBuf(r)
				}
			})
		}
		if o.closer {
			wg.Add(1)
			vs.GoNamed("closer", func() { defer wg.Done(); closeStarted = true; dc.Close() })
		}
		wg.Wait()
		dc.Close()
		stop = true
		finished = true
	}
	check := func(x *vs.Exec) (string, *vs.Violation) {
		V := func(oracle, why string) (string, *vs.Violation) {
			return oracle, &vs.Violation{Sig: name + "/" + oracle, Desc: why}
		}
		if x.Panic != "" {
			return V("panic", x.Panic)
		}
		if !finished || len(x.Blocked) > 0 {
			return V("hang-or-leak", fmt.Sprintf("did not finish or goroutines still parked: %v", x.Blocked))
		}
		var key []string
		for _, c := range calls {
			if c.refused {
				key = append(key, "refused")
				continue
			}
			key = append(key, errStr(c.err))
			if c.err == nil {
				if fk.ID(c.resp) != fk.ID(c.q) {
					return V("id-not-restored", fmt.Sprintf("call %d: caller ID %#04x, returned %#04x", c.idx, fk.ID(c.q), fk.ID(c.resp)))
				}
				ok := false
				for _, a := range answers {
					if fk.QName(a) == fk.QName(c.q) && sameAnswer(c.resp, a, fk.ID(c.q)) {
						ok = true
					}
				}
				if !ok {
					return V("foreign-reply", fmt.Sprintf("call %d returned bytes that are not the server's answer to its query (question in reply: %q)", c.idx, fk.QName(c.resp)))
				}
			}
			// (a call that is still pending when the application itself closes the connection
			// may end with an error - C07 -, whatever has arrived for it)
			if at, answered := answeredAt[c.streamIdx]; o.c02 && answered && x.EarlyTimers == 0 && !c.cancelled && !c.refusedClosed {
				// C02: the complete reply was on the stream at `at`, the caller's context was live
				live := true
				if c.idx < len(o.ctxMode) && o.ctxMode[c.idx] == 1 && at >= c.startAt+3*time.Second {
					live = false
				}
				switch {
				case !live:
				case c.err != nil:
					return V("lost:"+errStr(c.err), fmt.Sprintf("call %d: the complete reply was delivered on its stream at %v (deadline not reached), yet the call returned %q at %v", c.idx, at, c.err, c.retAt))
				case c.retAt != at:
					return V("late", fmt.Sprintf("call %d: the complete reply was delivered at %v, the call returned it only at %v", c.idx, at, c.retAt))
				}
			}
			if x.EarlyTimers == 0 && c.cancelled && c.err != nil && c.retAt > c.cancelAt {
				return V("late-after-cancel", fmt.Sprintf("call %d cancelled at %v returned at %v", c.idx, c.cancelAt, c.retAt))
			}
		}
		// wire IDs must be zero on the wire (RFC 9250 4.2.1)
		for _, s := range conn.streams {
			if msgs, _ := fk.Unframe(s.written); len(msgs) == 1 && fk.ID(msgs[0]) != 0 {
				return V("wire-id-not-zero", fmt.Sprintf("stream %d carries message ID %#04x", s.idx, fk.ID(msgs[0])))
			}
		}
		return strings.Join(key, ","), nil
	}
	return vr.Scenario{Name: name, P: d, D: d, Horizon: 2 * time.Minute, Body: body, Check: check, Params: fmt.Sprintf("%+v", o)}
}

func TestVerifC01q(t *testing.T) {
	e := vr.GetEnv()
	d := 2
	if e.Tier == "thorough" {
		d = 3
	}
	scs := []vr.Scenario{
		doqScenario("doq-c2-sameid", doqOpt{callers: 2, ids: []uint16{0, 0}, srvMenu: []string{"answer", "answer-foreign-id"}}, d),
		doqScenario("doq-c3-faults", doqOpt{callers: 3, ids: []uint16{0xFFFF, 7, 0xFFFF}, srvMenu: []string{"answer", "reset"}, ctxMode: []int{0, 0, 1}}, d-1),
		doqScenario("doq-c2-cancel-silent", doqOpt{callers: 2, srvMenu: []string{"answer", "silent"}, ctxMode: []int{2, 1}}, d),
		doqScenario("doq-c2-closer", doqOpt{callers: 2, srvMenu: []string{"answer", "silent"}, ctxMode: []int{1, 1}, closer: true}, d),
	}
	vr.RunScenarios("C01", scs)
}

// C02 over DoQ: a reply that is completely on the stream before the caller's
// deadline is returned at once, whether the stream's FIN follows, never comes,
// or the connection breaks right after the reply.
func TestVerifC02q(t *testing.T) {
	e := vr.GetEnv()
	d := 2
	if e.Tier == "thorough" {
		d = 3
	}
	all := []string{"answer", "answer-no-fin", "answer-then-reset"}
	scs := []vr.Scenario{
		doqScenario("doq-c1-reply-then", doqOpt{callers: 1, srvMenu: all, ctxMode: []int{1}, c02: true}, d+1),
		doqScenario("doq-c2-reply-then", doqOpt{callers: 2, ids: []uint16{0, 0}, srvMenu: all, ctxMode: []int{1, 0}, c02: true}, d),
		doqScenario("doq-c2-reply-then-closer", doqOpt{callers: 2, srvMenu: all, ctxMode: []int{1, 1}, closer: true, c02: true}, d-1),
	}
	vr.RunScenarios("C02", scs)
}
