package transport

// tsys: the closed system shared by the transport checks (C01 C07 C08 C09):
// the real transports over fake connections, N callers, one server actor per
// connection whose behaviour is an environment choice, an owned dialer, and
// optional concurrent cancel / Close threads. Everything observable is
// recorded; the per-property oracles read the record.

import (
	"reflect"
	"go.uber.org/zap"
	"context"
	"errors"
	"fmt"
	"time"
	"unsafe"

	"github.com/IrineSistiana/mosdns/v5/pkg/pool"
	"github.com/IrineSistiana/mosdns/v5/zz_verif/fk"
	"github.com/IrineSistiana/mosdns/v5/zz_verif/vs"
)

type srvOpt struct {
	Reorder     bool // answer any outstanding query, not only the oldest
	Dup         int  // budget per connection: re-send an earlier answer
	Stray       int  // budget per connection: answer with a wire ID nobody waits for
	CloseBudget int  // total (all connections): close instead of / after answering
	ResetOnly   bool // closing = read error instead of EOF
	Silent      bool // may stop answering for good on a connection (keeps it open)
	Short       bool // may send a frame shorter than a DNS header once per connection
	AnswerAll   bool // no choice at all: answer in order (keeps the space small)
	Mute        bool // never sends anything at all
	CloseAfterAnswerOnly bool // closing only right after an answer (the connection goes stale, no query is dropped by the close itself)
	SilentDeath bool // a server-side close is not signalled to the client (no FIN/RST until the next write): use with ResetOnWrite
	CloseEveryAnswer bool // no choice: every answer is followed by a close while the budget lasts
	ResetOnWrite bool // after the server closed, the client's next write fails (RST) instead of vanishing
	BadLen      bool // may send a frame whose header announces more bytes than ever arrive
	Delay       time.Duration // the server thinks this long before every action (slow server)
	AnswerForms []int // menu per answer: 0 the usual reply, 1 header-only error reply without question, 2 the question in another letter case
	PauseAfterAnswer time.Duration // after an answer the server does not read for this long: the client's next Write blocks that long (full send buffer)
	SplitStall  time.Duration // TCP: every answer but the first of a connection arrives in two segments with this pause between them (a stall inside a frame)
	MuteAfter   int           // >0: after this many answers (all connections together) the server never answers again
	DropFirst   int           // the first n queries arriving on every connection are lost (UDP loss): only a resend gets an answer
}

type tOpt struct {
	Kind      string // tdc-tcp tdc-udp pipeline-tcp pipeline-udp reuse
	Callers   int
	Seq       int      // sequential calls per caller (default 1)
	IDs       []uint16 // caller-chosen IDs per call (default 0x1000+i)
	MaxCq     int      // per-connection limit of TraditionalDnsConn (0: default)
	LazyQueue int      // MaxConcurrentQueryWhileDialing (0: default)
	CtxMode   []int    // per caller: 0 background, 1 timeout 3s, 2 cancelled by a concurrent thread
	Srv       srvOpt
	DialMenu  []int // allowed dial behaviours: 0 ok, 1 error, 2 hang until its context ends, 3 hang ignoring its context (until the harness finishes), 4 ok but the peer has already closed, 5 ok after 4 s (a slow handshake that still beats the dial timeout)
	Closer    bool  // a concurrent thread calls Close on the transport / connection
	StartQid  uint16
	SeedQueue int // pre-occupied wire IDs following StartQid (forces the skip loop)
	WriteFailNth int // >0: the n-th client write over all connections fails
	StartAt   []time.Duration // per caller: virtual delay before its first call
	FreezeUntil time.Duration // the execution follows the default schedule until this virtual instant (prologue), exploration starts there
	StageTwo  int  // the last StageTwo callers start only after all other callers have finished
	RewindQid bool // tdc kinds: every call first rewinds the wire-ID counter to StartQid (a reachable state after 65536 allocations): IDs of queries still in flight must be skipped
	Withdraw  bool // tdc kinds: a caller may reserve and withdraw instead of exchanging
	IdleTimeout time.Duration
	CloseIdleOrder bool // between the stages the server closes the connections stage 1 left behind, one at a time, in an order (and up to a number) that is an environment choice
	FreezeStage1 bool // the callers before StageTwo only build the starting state: they run on the default schedule (vs.Freeze), exploration starts with the staged callers
	KeepReleased bool // the buffer pool does not overwrite released buffers in this scenario (see fk.PoisonOnRelease)
}

type wireQ struct {
	wire     []byte
	call     int
	at       time.Duration
	answered int
}

type tConn struct {
	idx        int
	a, b       *fk.Conn
	stream     []byte
	got        []*wireQ
	pending    []*wireQ
	answers    []*answerRec
	dupLeft    int
	strayLeft  int
	shortLeft  int
	closedBySrv bool
	silent     bool
	dc         *TraditionalDnsConn
	dialAt     time.Duration
	maxInflight int
	badLenSent bool
	maxPendingAtArrival int // most unanswered (by the server) queries present when a further query arrived
	garbled    int    // frames received that are not DNS queries
	wstream    []byte // client->server bytes not yet forming a complete frame
	actLog     string // server actions taken on this connection, in order
	openedFor  int // call on whose behalf the connection was dialed (-1 unknown)
	dropped    int // queries lost on arrival (srvOpt.DropFirst)
	notReading bool // srvOpt.PauseAfterAnswer: the server is not reading right now
	pausedOnce bool
}

type xmit struct {
	call, conn int
	at         time.Duration
	wire       []byte
}

type tsys struct {
	opt      tOpt
	tcp      bool
	calls    []*call
	conns    []*tConn
	xmits    []xmit
	nonce    uint32
	stop     bool
	direct   DnsConn // the directly driven connection of the tdc-* and lazy-* kinds (nil for transports)
	answeredTotal int
	hold     bool // the server actors do not look at their connections (answers are held back)
	closeLeft int
	dials    int
	dialLog  []string
	writes   int
	closeAt  time.Duration
	closeCalled bool
	closeReturned bool
	curCall  map[int]int // caller -> call in progress
	reserving int
	active   int // calls between a successful reserve / start of ExchangeContext and their return
	tr       interface {
		ExchangeContext(ctx context.Context, m []byte) (*[]byte, error)
		Close() error
	}
	dc       *TraditionalDnsConn
	finished bool
	beforeClose func()
	afterCloseErr   error
	afterCloseDials int
	afterCloseDone  bool
	afterCloseStart, afterCloseRet time.Duration
	AfterCloseProbe bool
}

func (s *tsys) key() unsafe.Pointer { return unsafe.Pointer(s) }

func (s *tsys) newConn() *tConn {
	cn := &tConn{idx: len(s.conns), dupLeft: s.opt.Srv.Dup, strayLeft: s.opt.Srv.Stray, dialAt: vs.Elapsed(), openedFor: -1}
	for _, n := range vs.Ancestors() {
		var ci int
		if _, err := fmt.Sscanf(n, "caller%d", &ci); err == nil {
			if k, ok := s.curCall[ci]; ok {
				cn.openedFor = k
			}
			break
		}
	}
	if s.opt.Srv.Short {
		cn.shortLeft = 1
	}
	cn.a, cn.b = fk.NewPipe(fmt.Sprintf("c%d", cn.idx), !s.tcp)
	s.conns = append(s.conns, cn)
	cn.a.WriteHook = func(c *fk.Conn, wb []byte, nth int) error {
		if cn.notReading {
			// the peer does not read and the send buffer is full: this Write blocks
			vs.Block("conn.write.full", unsafe.Pointer(cn), func() bool { return !cn.notReading || s.stop || cn.a.Closed() })
			if cn.a.Closed() {
				return fk.ErrInjected
			}
		}
		s.writes++
		if s.opt.WriteFailNth > 0 && s.writes == s.opt.WriteFailNth {
			return fk.ErrInjected
		}
		var wires [][]byte
		if s.tcp {
			// independent framer on the client's byte stream
			cn.wstream = append(cn.wstream, wb...)
			wires, cn.wstream = fk.Unframe(cn.wstream)
		} else {
			wires = [][]byte{wb}
		}
		for _, wire := range wires {
			ci := s.callOf(wire)
			s.xmits = append(s.xmits, xmit{call: ci, conn: cn.idx, at: vs.Elapsed(), wire: wire})
		}
		// unanswered queries carried by this connection right now
		seen := map[int]bool{}
		for _, x := range s.xmits {
			if x.conn == cn.idx && x.call >= 0 && !s.calls[x.call].done && !s.calls[x.call].answerConsumed {
				seen[x.call] = true
			}
		}
		if len(seen) > cn.maxInflight {
			cn.maxInflight = len(seen)
		}
		if !cn.closedBySrv {
			cn.b.Deliver(wb)
		} else if s.opt.Srv.ResetOnWrite {
			return fk.ErrInjected
		}
		return nil
	}
	cn.a.OnConsumed = func(id int) {
		for _, r := range cn.answers {
			if r.recID == id {
				r.consumed, r.consumedAt = true, vs.Elapsed()
				if ci := s.callOf(r.forQuery); ci >= 0 && !s.calls[ci].done {
					s.calls[ci].answerConsumed = true
				}
			}
		}
	}
	vs.GoNamed(fmt.Sprintf("srv%d", cn.idx), func() { s.serve(cn) })
	return cn
}

func (s *tsys) callOf(wire []byte) int {
	n := fk.QName(wire)
	for i, c := range s.calls {
		if fk.QName(c.q) == n {
			return i
		}
	}
	return -1
}

func (s *tsys) deliver(cn *tConn, payload []byte) int {
	out := payload
	if s.tcp {
		out = fk.Frame(payload)
	}
	return cn.a.Deliver(out)
}

// serve is the server actor of one connection.
func (s *tsys) serve(cn *tConn) {
	so := s.opt.Srv
	for {
		vs.Block("srv.wait", unsafe.Pointer(cn), func() bool {
			return s.stop || cn.a.Closed() || (!s.hold && (cn.b.Pending() > 0 || len(cn.pending) > 0))
		})
		if s.stop || cn.a.Closed() {
			return
		}
		for {
			rec, ok := cn.b.TryTake()
			if !ok {
				break
			}
			var msgs [][]byte
			if s.tcp {
				cn.stream = append(cn.stream, rec...)
				msgs, cn.stream = fk.Unframe(cn.stream)
			} else {
				msgs = [][]byte{rec}
			}
			for _, m := range msgs {
				if fk.QName(m) == "" {
					cn.garbled++ // not a DNS query at all (mis-framed stream)
					if len(m) > 12 {
						// like a server that answers what it cannot parse by sending it back
						// with QR and FORMERR set: the ID is what it found in the first two bytes
						h := append([]byte(nil), m...)
						h[2], h[3] = 0x80, 0x01
						cn.actLog += "F"
						s.deliver(cn, h)
					}
					continue
				}
				if cn.dropped < so.DropFirst {
					cn.dropped++
					cn.actLog += "L"
					continue
				}
				w := &wireQ{wire: m, call: s.callOf(m), at: vs.Elapsed()}
				if len(cn.pending) > cn.maxPendingAtArrival {
					cn.maxPendingAtArrival = len(cn.pending) // queries the server had not answered yet when this one arrived
				}
				cn.got = append(cn.got, w)
				cn.pending = append(cn.pending, w)
			}
		}
		if so.Mute || (so.MuteAfter > 0 && s.answeredTotal >= so.MuteAfter) {
			cn.pending = nil
			continue
		}
		if cn.silent || cn.closedBySrv || len(cn.pending) == 0 {
			if cn.silent || cn.closedBySrv {
				cn.pending = nil
			}
			continue
		}
		if so.Delay > 0 {
			vs.Sleep(so.Delay)
			if s.stop || cn.a.Closed() {
				return
			}
		}
		// menu of actions
		type act struct {
			kind string
			i    int
		}
		var acts []act
		acts = append(acts, act{"answer", 0})
		if so.Reorder {
			for i := 1; i < len(cn.pending); i++ {
				acts = append(acts, act{"answer", i})
			}
		}
		if !so.AnswerAll {
			if cn.dupLeft > 0 && len(cn.answers) > 0 {
				acts = append(acts, act{"dup", 0})
			}
			if cn.strayLeft > 0 {
				acts = append(acts, act{"stray", 0})
			}
			if cn.shortLeft > 0 {
				acts = append(acts, act{"short", 0})
			}
			if s.closeLeft > 0 {
				if !so.CloseAfterAnswerOnly {
					acts = append(acts, act{"close", 0}, act{"answer+close", 0})
				} else if len(cn.pending) == 1 {
					// the connection goes stale after its only outstanding query was answered
					acts = append(acts, act{"answer+close", 0})
				}
			}
			if so.Silent {
				acts = append(acts, act{"silent", 0})
			}
			if so.BadLen && s.tcp && cn.shortLeft >= 0 && !cn.badLenSent {
				acts = append(acts, act{"badlen", 0})
			}
		}
		var a act
		if so.CloseEveryAnswer && s.closeLeft > 0 {
			a = act{"answer+close", 0}
		} else if so.CloseEveryAnswer {
			a = act{"answer", 0}
		} else {
			a = acts[vs.Choose(len(acts))]
		}
		cn.actLog += fmt.Sprintf("%c%d", a.kind[0], a.i)
		if a.kind == "answer+close" {
			cn.actLog += "c"
		}
		switch a.kind {
		case "answer", "answer+close":
			w := cn.pending[a.i]
			cn.pending = append(cn.pending[:a.i:a.i], cn.pending[a.i+1:]...)
			s.nonce++
			ans := fk.Answer(w.wire, s.nonce)
			if len(so.AnswerForms) > 0 {
				switch so.AnswerForms[vs.Choose(len(so.AnswerForms))] {
				case 1:
					// a header-only error reply (QDCOUNT 0): REFUSED from an ACL, FORMERR from a server that cannot parse the query
					ans = []byte{w.wire[0], w.wire[1], 0x81, 0x05, 0, 0, 0, 0, 0, 0, 0, 0, 0}
					ans = ans[:12]
					cn.actLog += "h"
				case 2:
					// the question comes back in another letter case
					for i := 12; i < len(ans) && i < 12+len(fk.QName(w.wire)); i++ {
						if ans[i] >= 'a' && ans[i] <= 'z' {
							ans[i] -= 32
						}
					}
					cn.actLog += "u"
				}
			}
			rec := &answerRec{forQuery: w.wire, payload: ans}
			if so.SplitStall > 0 && s.tcp && len(cn.answers) > 0 {
				// the bytes after the pause, taken alone, look like a frame addressed to the
				// same outstanding query (trailing bytes inside the message): a reader that
				// resumes in the middle of the frame after a timeout delivers them
				tail := append([]byte{0, 16, w.wire[0], w.wire[1]}, []byte("AAAAAAAAAAAAAA")...)
				k := 2 + len(ans)
				ans = append(ans, tail...)
				rec.payload = ans
				fr := fk.Frame(ans)
				cn.a.Deliver(append([]byte(nil), fr[:k]...))
				vs.Sleep(so.SplitStall)
				rec.recID = cn.a.Deliver(append([]byte(nil), fr[k:]...))
			} else {
				rec.recID = s.deliver(cn, ans)
			}
			cn.answers = append(cn.answers, rec)
			s.answeredTotal++
			w.answered++
			if a.kind == "answer+close" {
				s.srvClose(cn)
			} else if so.PauseAfterAnswer > 0 && !cn.pausedOnce {
				cn.pausedOnce, cn.notReading = true, true
				vs.Sleep(so.PauseAfterAnswer)
				cn.notReading = false
				if s.stop || cn.a.Closed() {
					return
				}
			}
		case "dup":
			cn.dupLeft--
			last := cn.answers[len(cn.answers)-1]
			rec := &answerRec{forQuery: last.forQuery, payload: last.payload}
			rec.recID = s.deliver(cn, append([]byte(nil), last.payload...))
			cn.answers = append(cn.answers, rec)
		case "stray":
			cn.strayLeft--
			// an answer nobody asked for: unused wire ID, foreign question
			id := fk.ID(cn.pending[0].wire) + 0x4000
			q := fk.Query(id, "stray.example.", 1)
			s.nonce++
			ans := fk.Answer(q, s.nonce)
			rec := &answerRec{forQuery: q, payload: ans}
			rec.recID = s.deliver(cn, ans)
			cn.answers = append(cn.answers, rec)
		case "short":
			cn.shortLeft--
			if s.tcp && vs.Choose(2) == 1 {
				// a runt frame (announced length 12) whose "body" looks like a frame of its own
				// addressed to an outstanding query: a reader that skips the runt header
				// without its body re-synchronises in the middle of the stream
				id := cn.pending[0].wire[:2]
				runt := append([]byte{0, 12, 0, 13, id[0], id[1]}, []byte("AAAAAAAAAAA")...)
				cn.a.Deliver(runt)
			} else if s.tcp {
				cn.a.Deliver([]byte{0, 5, 1, 2, 3, 4, 5})
			} else if vs.Choose(2) == 1 {
				cn.a.Deliver([]byte{}) // an empty datagram
			} else {
				cn.a.Deliver([]byte{1, 2, 3, 4, 5})
			}
		case "badlen":
			cn.badLenSent = true
			cn.a.Deliver([]byte{0xEA, 0x60, 1, 2, 3, 4, 5, 6, 7, 8, 9, 10, 11, 12, 13, 14})
			cn.silent = true
			cn.pending = nil
		case "close":
			s.srvClose(cn)
		case "silent":
			cn.silent = true
			cn.pending = nil
		}
	}
}

func (s *tsys) srvClose(cn *tConn) {
	s.closeLeft--
	cn.closedBySrv = true
	cn.pending = nil
	if s.opt.Srv.SilentDeath {
		return
	}
	if s.opt.Srv.ResetOnly {
		cn.b.InjectPeerReadErr(fk.ErrInjected, false)
	} else {
		cn.b.ShutdownPeer()
	}
}

var errDial = errors.New("dial failed (injected)")

func (s *tsys) dialBehaviour() int {
	menu := s.opt.DialMenu
	if len(menu) == 0 {
		return 0
	}
	return menu[vs.Choose(len(menu))]
}

func (s *tsys) dialNet(ctx context.Context) (NetConn, error) {
	s.dials++
	switch s.dialBehaviour() {
	case 1:
		s.dialLog = append(s.dialLog, "error")
		return nil, errDial
	case 2:
		s.dialLog = append(s.dialLog, "hang")
		vs.Recv(ctx.Done())
		return nil, context.Cause(ctx)
	case 3:
		s.dialLog = append(s.dialLog, "stuck")
		vs.Block("dial.stuck", s.key(), func() bool { return s.finished })
		return nil, errDial
	case 5:
		s.dialLog = append(s.dialLog, "ok") // a dial that works, only slowly
		tm := vs.NewTimer(4 * time.Second)
		if vs.Select(vs.RecvCase(tm.C), vs.RecvCase(ctx.Done())) == 1 {
			tm.Stop()
			return nil, context.Cause(ctx)
		}
		return s.newConn().a, nil
	case 4:
		s.dialLog = append(s.dialLog, "ok-peer-closed")
		cn := s.newConn()
		cn.closedBySrv = true
		cn.b.ShutdownPeer()
		return cn.a, nil
	}
	s.dialLog = append(s.dialLog, "ok")
	return s.newConn().a, nil
}

func (s *tsys) dialDns(ctx context.Context) (DnsConn, error) {
	c, err := s.dialNet(ctx)
	if err != nil {
		return nil, err
	}
	cn := s.conns[len(s.conns)-1]
	cn.dc = NewDnsConn(TraditionalDnsConnOpts{WithLengthHeader: s.tcp, MaxConcurrentQuery: s.opt.MaxCq, IdleTimeout: s.opt.IdleTimeout}, c)
	return cn.dc, nil
}

// run is the scenario body.
func (s *tsys) run() {
	o := s.opt
	fk.PoisonOnRelease = !o.KeepReleased
	if o.FreezeStage1 && o.StageTwo > 0 {
		vs.Freeze()
	}
	if o.FreezeUntil > 0 {
		vs.Freeze()
		vs.GoNamed("unfreezer", func() {
			vs.Sleep(o.FreezeUntil)
			vs.Unfreeze()
		})
	}
	if o.Seq == 0 {
		o.Seq = 1
		s.opt.Seq = 1
	}
	s.tcp = o.Kind == "tdc-tcp" || o.Kind == "pipeline-tcp" || o.Kind == "reuse" || o.Kind == "lazy-tcp"
	s.closeLeft = o.Srv.CloseBudget
	n := o.Callers * o.Seq
	for i := 0; i < n; i++ {
		id := uint16(0x1000 + i)
		if i < len(o.IDs) {
			id = o.IDs[i]
		}
		s.calls = append(s.calls, &call{idx: i, q: fk.Query(id, qname(i), 1)})
	}
	switch o.Kind {
	case "tdc-tcp", "tdc-udp":
		cn := s.newConn()
		s.dc = NewDnsConn(TraditionalDnsConnOpts{WithLengthHeader: s.tcp, MaxConcurrentQuery: o.MaxCq, IdleTimeout: o.IdleTimeout}, cn.a)
		cn.dc = s.dc
		s.direct = s.dc
		setUintField(s.dc, "nextQid", uint64(o.StartQid))
		for k := 0; k < o.SeedQueue; k++ {
			occupyMapKey(s.dc, "queue", uint64(o.StartQid+uint16(k)))
		}
	case "lazy-tcp":
		// the lazily dialed connection of the pipeline transport, driven directly
		// called through reflection: parameters a change appends (callbacks, options) get their zero value
		fn := reflect.ValueOf(newLazyDnsConn)
		args := []reflect.Value{reflect.ValueOf(s.dialDns), reflect.ValueOf(time.Duration(0)), reflect.ValueOf(max(o.LazyQueue, 1)), reflect.ValueOf(zap.NewNop())}
		for i := len(args); i < fn.Type().NumIn(); i++ {
			args = append(args, reflect.Zero(fn.Type().In(i)))
		}
		s.direct = fn.Call(args)[0].Interface().(DnsConn)
	case "pipeline-tcp", "pipeline-udp":
		s.tr = NewPipelineTransport(PipelineOpts{DialContext: s.dialDns, MaxConcurrentQueryWhileDialing: o.LazyQueue})
	case "reuse":
		s.tr = NewReuseConnTransport(ReuseConnOpts{DialContext: s.dialNet, IdleTimeout: o.IdleTimeout})
	default:
		panic("bad kind " + o.Kind)
	}
	var wg, stage1 vs.WaitGroup
	stage1.Add(o.Callers - o.StageTwo)
	for ci := 0; ci < o.Callers; ci++ {
		ci := ci
		wg.Add(1)
		vs.GoNamed(fmt.Sprintf("caller%d", ci), func() {
			defer wg.Done()
			if ci >= o.Callers-o.StageTwo {
				stage1.Wait()
				vs.Sleep(time.Millisecond) // let the read loops digest what the server did
				if o.CloseIdleOrder && ci == o.Callers-o.StageTwo {
					var open []*tConn
					for _, cn := range s.conns {
						if !cn.closedBySrv && !cn.a.Closed() {
							open = append(open, cn)
						}
					}
					for len(open) > 0 {
						i := vs.Choose(len(open) + 1)
						if i == len(open) {
							break // the rest stays open
						}
						cn := open[i]
						open = append(open[:i:i], open[i+1:]...)
						cn.actLog += "x"
						s.closeLeft++
						s.srvClose(cn)
						vs.Sleep(time.Millisecond)
					}
				}
				if o.FreezeStage1 {
					vs.Unfreeze()
				}
			} else {
				defer stage1.Done()
			}
			if ci < len(o.StartAt) && o.StartAt[ci] > 0 {
				vs.Sleep(o.StartAt[ci])
			}
			for k := 0; k < o.Seq; k++ {
				s.doCall(ci, s.calls[ci*o.Seq+k])
			}
		})
	}
	if o.Closer {
		wg.Add(1)
		vs.GoNamed("closer", func() {
			defer wg.Done()
			s.closeCalled, s.closeAt = true, vs.Elapsed()
			if s.tr != nil {
				s.tr.Close()
			} else {
				s.direct.Close()
			}
			s.closeReturned = true
		})
	}
	wg.Wait()
	s.finished = true
	if s.beforeClose != nil {
		s.beforeClose()
	}
	if s.tr != nil {
		s.tr.Close()
	} else {
		s.direct.Close()
	}
	if s.AfterCloseProbe {
		d0 := s.dials
		s.afterCloseStart = vs.Elapsed()
		if s.tr != nil {
			_, s.afterCloseErr = s.tr.ExchangeContext(bg, fk.Query(0x7777, "afterclose.example.", 1))
		} else if re, closed := s.direct.ReserveNewQuery(); re == nil && closed {
			s.afterCloseErr = ErrTDCClosed
		} else if re != nil {
			_, s.afterCloseErr = re.ExchangeReserved(bg, fk.Query(0x7777, "afterclose.example.", 1))
		}
		s.afterCloseDials = s.dials - d0
		s.afterCloseRet = vs.Elapsed()
		s.afterCloseDone = true
	}
	s.stop = true
}

func (s *tsys) doCall(ci int, c *call) {
	mode := 0
	if ci < len(s.opt.CtxMode) {
		mode = s.opt.CtxMode[ci]
	}
	ctx := bg
	var cancel context.CancelFunc = func() {}
	switch mode {
	case 1:
		ctx, cancel = vs.WithTimeout(bg, 3*time.Second)
	case 2:
		ctx, cancel = vs.WithCancel(bg)
		cc := cancel
		vs.GoNamed(fmt.Sprintf("cancel%d", c.idx), func() {
			c.cancelAt, c.cancelled = vs.Elapsed(), true
			cc()
		})
	}
	defer cancel()
	c.started, c.startAt = true, vs.Elapsed()
	if s.curCall == nil {
		s.curCall = map[int]int{}
	}
	s.curCall[ci] = c.idx
	var r *[]byte
	var err error
	if s.tr != nil {
		r, err = s.tr.ExchangeContext(ctx, c.q)
	} else {
		if s.opt.RewindQid && s.dc != nil {
			withLock(s.dc, "queueMu", func() { setUintField(s.dc, "nextQid", uint64(s.opt.StartQid)) })
		}
		s.reserving++
		c.activeMax = s.active
		c.reservingNow = true
		s.bumpActive(0)
		re, closed := s.direct.ReserveNewQuery()
		c.reservingNow = false
		s.reserving--
		if re == nil {
			c.refused, c.refusedClosed = true, closed
			c.done, c.retAt = true, vs.Elapsed()
			return
		}
		s.bumpActive(1)
		if s.opt.Withdraw && vs.Choose(2) == 1 {
			c.withdrawn = true
			re.WithdrawReserved()
			s.bumpActive(-1)
			c.done, c.retAt = true, vs.Elapsed()
			return
		}
		r, err = re.ExchangeReserved(ctx, c.q)
		s.bumpActive(-1)
	}
	c.done, c.err, c.retAt = true, err, vs.Elapsed()
	c.ctxDoneAtRet = ctx.Err() != nil
	if r != nil {
		c.resp = append([]byte(nil), (*r)...)
		pool.ReleaseBuf(r)
	}
}

// bumpActive maintains the number of calls holding a reservation (an upper
// bound of the connection's own count: it is decremented only after the call
// returned) and, for calls currently inside ReserveNewQuery, the maximum seen.
func (s *tsys) bumpActive(d int) {
	s.active += d
	for _, c := range s.calls {
		// other calls that are inside ReserveNewQuery right now may already have been
		// counted by the connection (its lock is released before the call returns)
		if v := s.active + s.reserving - 1; c.reservingNow && v > c.activeMax {
			c.activeMax = v
		}
	}
}

// connsOf lists, in order, the connections a call was transmitted on.
func (s *tsys) connsOf(call int) []int {
	var r []int
	for _, x := range s.xmits {
		if x.call == call {
			r = append(r, x.conn)
		}
	}
	return r
}

func (s *tsys) describe() string {
	out := fmt.Sprintf("kind=%s dials=%v", s.opt.Kind, s.dialLog)
	for _, c := range s.calls {
		out += fmt.Sprintf("\n  call%d id=%#04x conns=%v refused=%v err=%v ret@%v resp=%d bytes", c.idx, fk.ID(c.q), s.connsOf(c.idx), c.refused, c.err, c.retAt, len(c.resp))
	}
	for _, cn := range s.conns {
		out += fmt.Sprintf("\n  conn%d openedFor=call%d got=%d answers=%d closedBySrv=%v silent=%v clientClosed=%v maxInflight=%d", cn.idx, cn.openedFor, len(cn.got), len(cn.answers), cn.closedBySrv, cn.silent, cn.a.Closed(), cn.maxInflight)
	}
	return out
}
