package transport

import (
	"context"
	"errors"
	"fmt"
	"strings"
	"testing"
	"time"

	"github.com/IrineSistiana/mosdns/v5/zz_verif/fk"
	"github.com/IrineSistiana/mosdns/v5/zz_verif/vr"
	"github.com/IrineSistiana/mosdns/v5/zz_verif/vs"
)

// C07: exchanges always terminate; Close releases everything.

// ownAnswer reports whether resp is an answer the server produced for a
// transmission of call c, with the caller's ID restored.
func (s *tsys) ownAnswer(c *call) bool {
	for _, cn := range s.conns {
		for _, a := range cn.answers {
			if fk.QName(a.forQuery) == fk.QName(c.q) && sameAnswer(c.resp, a.payload, fk.ID(c.q)) {
				return true
			}
		}
	}
	return false
}

func c07Scenario(name string, o tOpt, d, t int, silentBound bool) vr.Scenario {
	var sys *tsys
	body := func() {
		sys = &tsys{opt: o, AfterCloseProbe: true}
		sys.run()
	}
	check := func(x *vs.Exec) (string, *vs.Violation) {
		s := sys
		V := func(oracle, why string) (string, *vs.Violation) {
			return oracle, &vs.Violation{Sig: name + "/" + oracle, Desc: why + "\n" + s.describe()}
		}
		if x.Panic != "" {
			return V("panic", x.Panic)
		}
		if x.Livelock {
			return V("livelock", "execution exceeded the event budget")
		}
		// (a) + (e): everything terminates: callers, Close, and every goroutine
		// the transport created (nothing may still be parked at quiescence)
		if !s.finished {
			return V("hang", fmt.Sprintf("callers or Close never returned; parked: %v (horizon hit: %v)", x.Blocked, x.HorizonHit))
		}
		if len(x.Blocked) > 0 {
			oracle := "leak-after-close"
			for _, b := range x.Blocked {
				if strings.HasPrefix(b, "main:") || strings.HasPrefix(b, "closer:") {
					oracle = "close-hangs"
				}
			}
			return V(oracle, fmt.Sprintf("threads still parked at quiescence: %v", x.Blocked))
		}
		var key []string
		for _, c := range s.calls {
			if c.refused {
				key = append(key, "refused")
				continue
			}
			key = append(key, errStr(c.err))
			// (c) a successful call carries its own answer
			if c.err == nil && !s.ownAnswer(c) {
				return V("wrong-answer", fmt.Sprintf("call %d succeeded with bytes that are not an answer to its query", c.idx))
			}
			if x.EarlyTimers > 0 {
				continue
			}
			mode := 0
			if ci := c.idx / s.opt.Seq; ci < len(s.opt.CtxMode) {
				mode = s.opt.CtxMode[ci]
			}
			// (b) returns promptly once its context is done
			switch mode {
			case 1:
				if c.retAt > c.startAt+3*time.Second {
					return V("late-after-deadline", fmt.Sprintf("call %d: context deadline at %v, returned at %v", c.idx, c.startAt+3*time.Second, c.retAt))
				}
			case 2:
				if c.cancelled && c.retAt > c.cancelAt && c.err != nil {
					return V("late-after-cancel", fmt.Sprintf("call %d: cancelled at %v, returned at %v", c.idx, c.cancelAt, c.retAt))
				}
			case 0:
				// (d) own liveness timeouts bound an unbounded context when the server is mute
				if silentBound && c.retAt-c.startAt > 30*time.Second {
					return V("silent-server-unbounded", fmt.Sprintf("call %d with an unbounded context against a silent server returned after %v", c.idx, c.retAt-c.startAt))
				}
			}
			// after Close returned, pending calls return with an error without any further timer
			if s.closeCalled && c.err != nil && c.retAt > s.closeAt && c.startAt <= s.closeAt && mode == 0 && !silentBound {
				// allowed only if the call had not reached the transport before Close... it started before Close: must end at closeAt
				return V("pending-after-close", fmt.Sprintf("call %d started at %v, Close at %v, returned only at %v", c.idx, c.startAt, s.closeAt, c.retAt))
			}
		}
		// (e) every connection that was dialed has been closed
		for _, cn := range s.conns {
			if cn.a.CloseCalls == 0 {
				return V("conn-not-closed", fmt.Sprintf("connection %d was never closed", cn.idx))
			}
		}
		if s.afterCloseDone {
			if s.afterCloseErr == nil {
				return V("call-after-close-succeeded", "an exchange issued after Close did not fail")
			}
			for _, xm := range s.xmits {
				if fk.QName(xm.wire) == "afterclose.example." {
					return V("sent-after-close", "an exchange issued after Close was transmitted on a connection")
				}
			}
			if s.afterCloseRet != s.afterCloseStart {
				return V("slow-after-close", fmt.Sprintf("an exchange issued after Close at %v returned at %v", s.afterCloseStart, s.afterCloseRet))
			}
		}
		key = append(key, fmt.Sprintf("dials=%s", strings.Join(s.dialLog, "")))
		return strings.Join(key, ","), nil
	}
	return vr.Scenario{Name: name, P: d, D: d, T: t, Horizon: 20 * time.Minute, Body: body, Check: check, Params: o}
}

var _ = errors.Is
var _ = context.Canceled

func TestVerifC07(t *testing.T) {
	e := vr.GetEnv()
	d, dt := 3, 2
	if e.Tier == "thorough" {
		d, dt = 4, 3
	}
	faults := srvOpt{CloseBudget: 1, Short: true, Silent: true, BadLen: true}
	scs := []vr.Scenario{
		c07Scenario("tdc-tcp-c1-faults-deadline", tOpt{Kind: "tdc-tcp", Callers: 1, Srv: faults, CtxMode: []int{1}}, d, 0, false),
		c07Scenario("tdc-udp-c1-faults-deadline", tOpt{Kind: "tdc-udp", Callers: 1, Srv: faults, CtxMode: []int{1}}, d, 0, false),
		c07Scenario("tdc-tcp-c2-closer", tOpt{Kind: "tdc-tcp", Callers: 2, Srv: srvOpt{Silent: true}, Closer: true}, dt, 0, false),
		c07Scenario("tdc-tcp-c1-cancel-reset", tOpt{Kind: "tdc-tcp", Callers: 1, Srv: srvOpt{CloseBudget: 1, ResetOnly: true, Silent: true}, CtxMode: []int{2}}, d, 0, false),
		c07Scenario("tdc-tcp-c1-writefail", tOpt{Kind: "tdc-tcp", Callers: 1, Seq: 2, Srv: srvOpt{AnswerAll: true}, WriteFailNth: 1}, d, 0, false),
		c07Scenario("pipeline-tcp-c2-dialfaults-closer", tOpt{Kind: "pipeline-tcp", Callers: 2, Srv: srvOpt{AnswerAll: true}, DialMenu: []int{0, 1, 2}, Closer: true}, dt, 0, false),
		c07Scenario("pipeline-tcp-c1-dialhang-cancel", tOpt{Kind: "pipeline-tcp", Callers: 1, Srv: srvOpt{AnswerAll: true}, DialMenu: []int{0, 2}, CtxMode: []int{2}}, d, 0, false),
		c07Scenario("pipeline-tcp-c1-seq2-cancel-during-dial", tOpt{Kind: "pipeline-tcp", Callers: 1, Seq: 2, Srv: srvOpt{AnswerAll: true}, CtxMode: []int{2}}, dt, 0, false),
		c07Scenario("pipeline-tcp-c2-cancel-during-dial-closer", tOpt{Kind: "pipeline-tcp", Callers: 2, Srv: srvOpt{AnswerAll: true}, CtxMode: []int{2, 0}, Closer: true}, dt, 0, false),
		c07Scenario("pipeline-tcp-c2-joiner-cancels-closer", tOpt{Kind: "pipeline-tcp", Callers: 2, MaxCq: 2, LazyQueue: 2, Srv: srvOpt{Mute: true}, CtxMode: []int{0, 2}, Closer: true}, dt, 0, false),
		c07Scenario("pipeline-udp-c3-joiner-cancels-closer", tOpt{Kind: "pipeline-udp", Callers: 3, MaxCq: 3, LazyQueue: 3, Srv: srvOpt{Silent: true}, CtxMode: []int{0, 2, 1}, Closer: true}, dt-1, 0, false),
		c07Scenario("pipeline-tcp-c2-dialstuck-closer", tOpt{Kind: "pipeline-tcp", Callers: 2, Srv: srvOpt{AnswerAll: true}, DialMenu: []int{0, 3}, Closer: true}, dt, 0, false),
		c07Scenario("pipeline-tcp-c2-seq2-peerclosed", tOpt{Kind: "pipeline-tcp", Callers: 2, Seq: 2, Srv: srvOpt{AnswerAll: true}, DialMenu: []int{0, 4}, CtxMode: []int{1, 1}}, dt-1, 0, false),
		c07Scenario("reuse-c2-dial-vs-closer", tOpt{Kind: "reuse", Callers: 2, Srv: srvOpt{AnswerAll: true}, Closer: true, CtxMode: []int{1, 1}}, d, 0, false),
		c07Scenario("pipeline-udp-c1-faults-deadline", tOpt{Kind: "pipeline-udp", Callers: 1, Srv: faults, CtxMode: []int{1}}, dt, 0, false),
		c07Scenario("reuse-c2-closer-srvclose", tOpt{Kind: "reuse", Callers: 2, Srv: srvOpt{CloseBudget: 1, Silent: true}, Closer: true}, dt, 0, false),
		c07Scenario("reuse-c1-seq2-writefail", tOpt{Kind: "reuse", Callers: 1, Seq: 2, Srv: srvOpt{AnswerAll: true}, WriteFailNth: 2}, d, 0, false),
		c07Scenario("reuse-c1-dialfaults-deadline", tOpt{Kind: "reuse", Callers: 1, Srv: faults, DialMenu: []int{0, 1, 2}, CtxMode: []int{1}}, d, 0, false),
		// (d): mute server, unbounded context: only the transports' own timeouts end the call
		c07Scenario("mute-tdc-tcp", tOpt{Kind: "tdc-tcp", Callers: 1, Srv: srvOpt{Mute: true}}, d, 0, true),
		c07Scenario("mute-tdc-udp-idle5m", tOpt{Kind: "tdc-udp", Callers: 1, Srv: srvOpt{Mute: true}, IdleTimeout: 5 * time.Minute}, d, 0, true),
		c07Scenario("mute-pipeline-udp-idle5m", tOpt{Kind: "pipeline-udp", Callers: 1, Srv: srvOpt{Mute: true}, IdleTimeout: 5 * time.Minute}, d, 0, true),
		c07Scenario("mute-pipeline-tcp-c2", tOpt{Kind: "pipeline-tcp", Callers: 2, Srv: srvOpt{Mute: true}}, dt, 0, true),
		c07Scenario("runt-then-silent-tdc-udp", tOpt{Kind: "tdc-udp", Callers: 1, Srv: srvOpt{Short: true, Silent: true}}, d, 0, true),
		c07Scenario("mute-reuse-seq2", tOpt{Kind: "reuse", Callers: 1, Seq: 2, Srv: srvOpt{Mute: true}}, d, 0, true),
		// early timer firings (deadline expires between two steps): termination clauses only
		c07Scenario("earlytimer-tdc-tcp", tOpt{Kind: "tdc-tcp", Callers: 1, Srv: srvOpt{CloseBudget: 1, Silent: true}, CtxMode: []int{1}}, 1, 1, false),
		c07Scenario("earlytimer-reuse", tOpt{Kind: "reuse", Callers: 1, Seq: 2, Srv: srvOpt{Silent: true}, CtxMode: []int{1}}, 1, 1, false),
		c07Scenario("earlytimer-pipeline-udp", tOpt{Kind: "pipeline-udp", Callers: 1, Srv: srvOpt{Silent: true}, CtxMode: []int{1}}, 1, 1, false),
	}
	vr.RunScenarios("C07", scs)
}
