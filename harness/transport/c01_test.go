package transport

import (
	"fmt"
	"strings"
	"testing"
	"time"

	"github.com/IrineSistiana/mosdns/v5/zz_verif/fk"
	"github.com/IrineSistiana/mosdns/v5/zz_verif/vr"
	"github.com/IrineSistiana/mosdns/v5/zz_verif/vs"
)

// C01: every upstream exchange returns the reply to its own query.
//
// Questions are distinct per call, every answer the server actor produces
// carries the question of the wire query it answers plus a fresh nonce, so a
// reply delivered to the wrong caller, a stray reply, a poisoned (released)
// buffer or a wrong ID are all visible in the returned bytes.

func c01Scenario(name string, o tOpt, d int) vr.Scenario {
	var sys *tsys
	body := func() {
		sys = &tsys{opt: o}
		sys.run()
	}
	check := func(x *vs.Exec) (string, *vs.Violation) {
		s := sys
		V := func(oracle, why string) (string, *vs.Violation) {
			return oracle, &vs.Violation{Sig: name + "/" + oracle, Desc: why + "\n" + s.describe()}
		}
		if x.Panic != "" {
			return V("panic", x.Panic)
		}
		if !s.finished || len(x.Blocked) > 0 {
			return V("stuck", fmt.Sprintf("execution did not finish, parked: %v", x.Blocked))
		}
		var key []string
		for _, c := range s.calls {
			if c.refused {
				key = append(key, "refused")
				continue
			}
			key = append(key, errStr(c.err))
			if c.err != nil {
				continue
			}
			if len(c.resp) < 12 {
				return V("short-reply", fmt.Sprintf("call %d succeeded with %d bytes", c.idx, len(c.resp)))
			}
			if fk.ID(c.resp) != fk.ID(c.q) {
				return V("id-not-restored", fmt.Sprintf("call %d: caller ID %#04x, returned ID %#04x", c.idx, fk.ID(c.q), fk.ID(c.resp)))
			}
			if !s.ownAnswer(c) {
				what := "bytes no server answer for its question consists of (corrupted / released buffer?)"
				if qn := fk.QName(c.resp); qn != "" && qn != fk.QName(c.q) {
					what = fmt.Sprintf("a reply for question %q (its own question is %q)", qn, fk.QName(c.q))
				}
				return V("foreign-reply", fmt.Sprintf("call %d returned %s", c.idx, what))
			}
		}
		for _, cn := range s.conns {
			key = append(key, "srv:"+cn.actLog)
		}
		return strings.Join(key, ","), nil
	}
	return vr.Scenario{Name: name, P: d, D: d, Horizon: 2 * time.Minute, Body: body, Check: check, Params: o}
}

func TestVerifC01(t *testing.T) {
	e := vr.GetEnv()
	d, d3 := 2, 1
	if e.Tier == "thorough" {
		d, d3 = 3, 2
	}
	adv := srvOpt{Reorder: true, Dup: 1, Stray: 1}
	scs := []vr.Scenario{
		c01Scenario("tdc-tcp-c2-id0", tOpt{Kind: "tdc-tcp", Callers: 2, IDs: []uint16{0, 0}, Srv: adv}, d),
		c01Scenario("tdc-tcp-c3-wrap-skip", tOpt{Kind: "tdc-tcp", Callers: 3, IDs: []uint16{0xFFFF, 0xFFFF, 0x1234}, Srv: srvOpt{Reorder: true}, StartQid: 0xFFFE, SeedQueue: 2}, d3),
		c01Scenario("tdc-tcp-c2-seq2-idwrap-inflight", tOpt{Kind: "tdc-tcp", Callers: 2, Seq: 2, IDs: []uint16{9, 9, 9, 9}, Srv: srvOpt{Reorder: true}, StartQid: 0xFFFF, RewindQid: true}, d),
		c01Scenario("tdc-udp-c3-idwrap-inflight", tOpt{Kind: "tdc-udp", Callers: 3, Srv: srvOpt{Reorder: true}, StartQid: 0, RewindQid: true}, d3),
		c01Scenario("tdc-udp-c2-cancel-dup-short", tOpt{Kind: "tdc-udp", Callers: 2, IDs: []uint16{0x1234, 0x1234}, Srv: srvOpt{Reorder: true, Dup: 1, Short: true}, CtxMode: []int{2, 0}}, d),
		c01Scenario("tdc-tcp-c2-cancel-late", tOpt{Kind: "tdc-tcp", Callers: 2, Seq: 2, IDs: []uint16{1, 1, 1, 1}, Srv: srvOpt{Reorder: true}, CtxMode: []int{2, 0}}, d3),
		c01Scenario("tdc-tcp-c1-seq2-exhaust", tOpt{Kind: "tdc-tcp", Callers: 1, Seq: 2, Srv: srvOpt{AnswerAll: true}, StartQid: 0xFFF0, SeedQueue: 100}, d),
		c01Scenario("pipeline-tcp-c3-L2", tOpt{Kind: "pipeline-tcp", Callers: 3, MaxCq: 2, LazyQueue: 2, IDs: []uint16{0, 0xFFFF, 0}, Srv: srvOpt{Reorder: true, Dup: 1}}, d3),
		c01Scenario("pipeline-udp-c2-stray", tOpt{Kind: "pipeline-udp", Callers: 2, IDs: []uint16{7, 7}, Srv: adv}, d3),
		c01Scenario("reuse-c2-seq2-cancel-late", tOpt{Kind: "reuse", Callers: 2, Seq: 2, IDs: []uint16{5, 5, 5, 5}, CtxMode: []int{2, 0}}, d3),
		c01Scenario("pipeline-udp-L1-c2-loss-resend", tOpt{Kind: "pipeline-udp", Callers: 2, MaxCq: 1, IDs: []uint16{3, 3}, Srv: srvOpt{AnswerAll: true, DropFirst: 1}, CtxMode: []int{1, 1}, KeepReleased: true}, d3),
		c01Scenario("tdc-udp-c2-loss-resend", tOpt{Kind: "tdc-udp", Callers: 2, IDs: []uint16{3, 3}, Srv: srvOpt{Reorder: true, DropFirst: 1}, CtxMode: []int{1, 1}}, d3),
		c01Scenario("reuse-c2-seq2-cancel-reorder", tOpt{Kind: "reuse", Callers: 2, Seq: 2, IDs: []uint16{5, 5, 5, 5}, Srv: srvOpt{Reorder: true}, CtxMode: []int{2, 0}}, d3),
		c01Scenario("tdc-tcp-c1-seq3-dup", tOpt{Kind: "tdc-tcp", Callers: 1, Seq: 3, IDs: []uint16{7, 7, 7}, Srv: srvOpt{Dup: 2}}, d),
		c01Scenario("tdc-udp-c2-seq2-dup-stray", tOpt{Kind: "tdc-udp", Callers: 2, Seq: 2, Srv: srvOpt{Reorder: true, Dup: 1, Stray: 1}}, d3),
		c01Scenario("reuse-c1-seq3-srvclose", tOpt{Kind: "reuse", Callers: 1, Seq: 3, IDs: []uint16{0, 0xFFFF, 0}, Srv: srvOpt{CloseBudget: 1}}, d),
	}
	// a server that pauses inside a reply frame for longer than the idle timeout; the tail of the
	// frame, taken alone, looks like a reply to the other outstanding query
	scs = append(scs,
		c01Scenario("tdc-tcp-c2-stall-in-frame", tOpt{Kind: "tdc-tcp", Callers: 2, IdleTimeout: 2 * time.Second, Srv: srvOpt{Reorder: true, SplitStall: 3 * time.Second}}, d),
		c01Scenario("tdc-tcp-c3-stall-in-frame", tOpt{Kind: "tdc-tcp", Callers: 3, IDs: []uint16{0, 0xFFFF, 0xFFFF}, IdleTimeout: 2 * time.Second, Srv: srvOpt{AnswerAll: true, SplitStall: 3 * time.Second}}, d3))
	vr.RunScenarios("C01", scs)
}
