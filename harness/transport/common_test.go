package transport

// Shared pieces of the transport harnesses (mounted into package transport by
// the overlay; see /verif/DESIGN.md §4).

import (
	"bytes"
	"context"
	"fmt"
	"time"

	"github.com/IrineSistiana/mosdns/v5/pkg/pool"
	"github.com/IrineSistiana/mosdns/v5/zz_verif/fk"
	"github.com/IrineSistiana/mosdns/v5/zz_verif/vs"
)

var origReleaseBuf = pool.ReleaseBuf

func init() {
	// poison released buffers: a reply buffer released while a caller still
	// reads it shows up as a corrupted answer.
	pool.ReleaseBuf = func(b *[]byte) {
		if b != nil {
			s := (*b)[:cap(*b)]
			for i := range s {
				s[i] = 0xDD
			}
		}
		origReleaseBuf(b)
	}
}

// call is the record of one exchange issued by the harness.
type call struct {
	idx      int
	q        []byte // query as given by the caller (caller's own ID)
	started  bool
	done     bool
	resp     []byte // copy of the returned payload
	err      error
	retAt    time.Duration
	ctxDoneAtRet bool
	refused  bool // ReserveNewQuery returned nil
	refusedClosed bool
	startAt  time.Duration
	cancelAt time.Duration
	cancelled bool
	answerConsumed bool // its answer was fully read by the client side
	withdrawn bool
	activeMax int  // max number of other reservations held while this call was inside ReserveNewQuery
	reservingNow bool
	streamIdx int
}

// answerRec is one answer produced by the server actor.
type answerRec struct {
	forQuery   []byte // the wire query it answers
	payload    []byte // answer payload as sent (wire ID)
	recID      int
	consumedAt time.Duration
	consumed   bool
	ctxDoneAtConsume map[int]bool
}

func sameAnswer(resp []byte, ans []byte, callerID uint16) bool {
	return bytes.Equal(resp, fk.WithID(ans, callerID))
}

func errStr(err error) string {
	if err == nil {
		return "ok"
	}
	s := err.Error()
	if len(s) > 40 {
		s = s[:40]
	}
	return s
}

var bg = context.Background()

func qname(i int) string { return fmt.Sprintf("q%d.example.", i) }

var _ = vs.Active
