package transport

// Shared pieces of the transport harnesses (mounted into package transport by
// the overlay; see /verif/DESIGN.md §4).

import (
	"bytes"
	"context"
	"fmt"
	"reflect"
	"unsafe"
	"time"

	"github.com/IrineSistiana/mosdns/v5/zz_verif/fk"
	"github.com/IrineSistiana/mosdns/v5/zz_verif/vs"
)

// deterministic, poisoning buffer pool: a reply buffer released while a caller
// still reads it, or a query buffer transmitted after its release, shows up as
// 0xDD garbage in every execution (see fk.PoisonPool)
func init() { fk.PoisonPool() }

// call is the record of one exchange issued by the harness.
type call struct {
	idx      int
	q        []byte // query as given by the caller (caller's own ID)
	started  bool
	done     bool
	resp     []byte // copy of the returned payload
	err      error
	retAt    time.Duration
	ctxDoneAtRet bool
	refused  bool // ReserveNewQuery returned nil
	refusedClosed bool
	startAt  time.Duration
	cancelAt time.Duration
	cancelled bool
	answerConsumed bool // its answer was fully read by the client side
	withdrawn bool
	activeMax int  // max number of other reservations held while this call was inside ReserveNewQuery
	reservingNow bool
	streamIdx int
}

// answerRec is one answer produced by the server actor.
type answerRec struct {
	forQuery   []byte // the wire query it answers
	payload    []byte // answer payload as sent (wire ID)
	recID      int
	consumedAt time.Duration
	consumed   bool
	ctxDoneAtConsume map[int]bool
}

func sameAnswer(resp []byte, ans []byte, callerID uint16) bool {
	return bytes.Equal(resp, fk.WithID(ans, callerID))
}

func errStr(err error) string {
	if err == nil {
		return "ok"
	}
	s := err.Error()
	if len(s) > 40 {
		s = s[:40]
	}
	return s
}

var bg = context.Background()

func qname(i int) string { return fmt.Sprintf("q%d.example.", i) }

var _ = vs.Active

// intField reads an unexported integer-like field of *ptr by name through
// reflection, so that the harness keeps compiling when a change turns a plain
// counter into an atomic one (or back): int kinds are read directly, a struct
// (atomic.Int32, the scheduler's shim around it) is searched for its integer.
// A missing field reads as 0.
func intField(ptr any, name string) int {
	v := reflect.ValueOf(ptr)
	for v.Kind() == reflect.Ptr {
		v = v.Elem()
	}
	f := v.FieldByName(name)
	if !f.IsValid() {
		return 0
	}
	n, _ := intOf(f)
	return int(n)
}

func intOf(v reflect.Value) (int64, bool) {
	switch v.Kind() {
	case reflect.Int, reflect.Int8, reflect.Int16, reflect.Int32, reflect.Int64:
		return v.Int(), true
	case reflect.Uint, reflect.Uint8, reflect.Uint16, reflect.Uint32, reflect.Uint64:
		return int64(v.Uint()), true
	case reflect.Struct:
		for i := v.NumField() - 1; i >= 0; i-- { // the value is the last field of sync/atomic's types
			if n, ok := intOf(v.Field(i)); ok {
				return n, true
			}
		}
	}
	return 0, false
}

// setUintField sets an unexported unsigned-integer field of *ptr by name
// whatever its width (the wire-ID counter may be widened by a change).
func setUintField(ptr any, name string, v uint64) {
	f := reflect.ValueOf(ptr).Elem().FieldByName(name)
	if !f.IsValid() {
		return
	}
	f = reflect.NewAt(f.Type(), unsafe.Pointer(f.UnsafeAddr())).Elem()
	switch f.Kind() {
	case reflect.Uint, reflect.Uint8, reflect.Uint16, reflect.Uint32, reflect.Uint64:
		f.SetUint(v)
	case reflect.Int, reflect.Int8, reflect.Int16, reflect.Int32, reflect.Int64:
		f.SetInt(int64(v))
	}
}

// ---- reflective access to the internals of the code under test: the harness
// keeps compiling (and reading the same facts) when a field changes its type

func fieldOf(obj any, name string) (reflect.Value, bool) {
	v := reflect.ValueOf(obj)
	for v.Kind() == reflect.Ptr {
		if v.IsNil() {
			return reflect.Value{}, false
		}
		v = v.Elem()
	}
	if v.Kind() != reflect.Struct {
		return reflect.Value{}, false
	}
	f := v.FieldByName(name)
	if !f.IsValid() || !f.CanAddr() {
		return reflect.Value{}, false
	}
	return reflect.NewAt(f.Type(), unsafe.Pointer(f.UnsafeAddr())).Elem(), true
}

// withLock runs fn while holding the lock in field name of obj (any type with
// Lock / Unlock methods); without such a field fn just runs.
func withLock(obj any, name string, fn func()) {
	if f, ok := fieldOf(obj, name); ok {
		if l, ok := f.Addr().Interface().(interface {
			Lock()
			Unlock()
		}); ok {
			l.Lock()
			defer l.Unlock()
		}
	}
	fn()
}

// lenField is the number of elements of a map / slice / channel field (0 if absent).
func lenField(obj any, name string) int {
	f, ok := fieldOf(obj, name)
	if !ok {
		return 0
	}
	switch f.Kind() {
	case reflect.Map, reflect.Slice, reflect.Array, reflect.Chan:
		return f.Len()
	}
	return 0
}

// elemsIn lists what a container field holds (map keys and values, slice elements)
// that is of type T.
func elemsIn[T any](obj any, name string) []T {
	f, ok := fieldOf(obj, name)
	if !ok {
		return nil
	}
	var out []T
	add := func(v reflect.Value) {
		if v.CanInterface() {
			if x, ok := v.Interface().(T); ok && !(v.Kind() == reflect.Ptr && v.IsNil()) {
				out = append(out, x)
			}
		}
	}
	switch f.Kind() {
	case reflect.Map:
		for it := f.MapRange(); it.Next(); {
			add(it.Key())
			add(it.Value())
		}
	case reflect.Slice, reflect.Array:
		for i := 0; i < f.Len(); i++ {
			add(f.Index(i))
		}
	}
	return out
}

// occupyMapKey puts a fresh zero-ish value (a buffered channel for channel
// elements) under key k of a map field, whatever the key's integer width.
func occupyMapKey(obj any, name string, k uint64) {
	f, ok := fieldOf(obj, name)
	if !ok || f.Kind() != reflect.Map {
		return
	}
	kv := reflect.New(f.Type().Key()).Elem()
	switch kv.Kind() {
	case reflect.Uint, reflect.Uint8, reflect.Uint16, reflect.Uint32, reflect.Uint64:
		kv.SetUint(k)
	case reflect.Int, reflect.Int8, reflect.Int16, reflect.Int32, reflect.Int64:
		kv.SetInt(int64(k))
	default:
		return
	}
	et := f.Type().Elem()
	ev := reflect.Zero(et)
	if et.Kind() == reflect.Chan {
		ev = reflect.MakeChan(et, 1)
	}
	if f.IsNil() {
		f.Set(reflect.MakeMap(f.Type()))
	}
	f.SetMapIndex(kv, ev)
}

// chanFieldClosed reports whether the channel in field name of obj is closed
// (false if there is no such channel field).
func chanFieldClosed(obj any, name string) bool {
	f, ok := fieldOf(obj, name)
	if !ok || f.Kind() != reflect.Chan || f.IsNil() {
		return false
	}
	x, ok := f.TryRecv() // would block: invalid x; closed: zero x, ok == false
	return x.IsValid() && !ok
}
