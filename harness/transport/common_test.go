package transport

// Shared pieces of the transport harnesses (mounted into package transport by
// the overlay; see /verif/DESIGN.md §4).

import (
	"bytes"
	"context"
	"fmt"
	"reflect"
	"unsafe"
	"time"

	"github.com/IrineSistiana/mosdns/v5/zz_verif/fk"
	"github.com/IrineSistiana/mosdns/v5/zz_verif/vs"
)

// deterministic, poisoning buffer pool: a reply buffer released while a caller
// still reads it, or a query buffer transmitted after its release, shows up as
// 0xDD garbage in every execution (see fk.PoisonPool)
func init() { fk.PoisonPool() }

// call is the record of one exchange issued by the harness.
type call struct {
	idx      int
	q        []byte // query as given by the caller (caller's own ID)
	started  bool
	done     bool
	resp     []byte // copy of the returned payload
	err      error
	retAt    time.Duration
	ctxDoneAtRet bool
	refused  bool // ReserveNewQuery returned nil
	refusedClosed bool
	startAt  time.Duration
	cancelAt time.Duration
	cancelled bool
	answerConsumed bool // its answer was fully read by the client side
	withdrawn bool
	activeMax int  // max number of other reservations held while this call was inside ReserveNewQuery
	reservingNow bool
	streamIdx int
}

// answerRec is one answer produced by the server actor.
type answerRec struct {
	forQuery   []byte // the wire query it answers
	payload    []byte // answer payload as sent (wire ID)
	recID      int
	consumedAt time.Duration
	consumed   bool
	ctxDoneAtConsume map[int]bool
}

func sameAnswer(resp []byte, ans []byte, callerID uint16) bool {
	return bytes.Equal(resp, fk.WithID(ans, callerID))
}

func errStr(err error) string {
	if err == nil {
		return "ok"
	}
	s := err.Error()
	if len(s) > 40 {
		s = s[:40]
	}
	return s
}

var bg = context.Background()

func qname(i int) string { return fmt.Sprintf("q%d.example.", i) }

var _ = vs.Active

// intField reads an unexported integer-like field of *ptr by name through
// reflection, so that the harness keeps compiling when a change turns a plain
// counter into an atomic one (or back): int kinds are read directly, a struct
// (atomic.Int32, the scheduler's shim around it) is searched for its integer.
// A missing field reads as 0.
func intField(ptr any, name string) int {
	v := reflect.ValueOf(ptr)
	for v.Kind() == reflect.Ptr {
		v = v.Elem()
	}
	f := v.FieldByName(name)
	if !f.IsValid() {
		return 0
	}
	n, _ := intOf(f)
	return int(n)
}

func intOf(v reflect.Value) (int64, bool) {
	switch v.Kind() {
	case reflect.Int, reflect.Int8, reflect.Int16, reflect.Int32, reflect.Int64:
		return v.Int(), true
	case reflect.Uint, reflect.Uint8, reflect.Uint16, reflect.Uint32, reflect.Uint64:
		return int64(v.Uint()), true
	case reflect.Struct:
		for i := v.NumField() - 1; i >= 0; i-- { // the value is the last field of sync/atomic's types
			if n, ok := intOf(v.Field(i)); ok {
				return n, true
			}
		}
	}
	return 0, false
}

// setUintField sets an unexported unsigned-integer field of *ptr by name
// whatever its width (the wire-ID counter may be widened by a change).
func setUintField(ptr any, name string, v uint64) {
	f := reflect.ValueOf(ptr).Elem().FieldByName(name)
	if !f.IsValid() {
		return
	}
	f = reflect.NewAt(f.Type(), unsafe.Pointer(f.UnsafeAddr())).Elem()
	switch f.Kind() {
	case reflect.Uint, reflect.Uint8, reflect.Uint16, reflect.Uint32, reflect.Uint64:
		f.SetUint(v)
	case reflect.Int, reflect.Int8, reflect.Int16, reflect.Int32, reflect.Int64:
		f.SetInt(int64(v))
	}
}
