package transport

import (
	"fmt"
	"strings"
	"testing"
	"time"

	"github.com/IrineSistiana/mosdns/v5/zz_verif/vr"
	"github.com/IrineSistiana/mosdns/v5/zz_verif/vs"
)

// C08: failures of reused connections are retried, fresh ones reported.

func distinct(xs []int) int {
	m := map[int]bool{}
	for _, x := range xs {
		m[x] = true
	}
	return len(m)
}

// c08NoFault: scenarios in which nothing fails (dials succeed, the server answers all and closes nothing)
var c08NoFault = map[string]bool{}

func c08Scenario(name string, o tOpt, d int, allMustSucceed bool) vr.Scenario {
	var sys *tsys
	var stalePooled string
	body := func() {
		sys = &tsys{opt: o}
		stalePooled = ""
		s := sys
		s.beforeClose = func() {
			// let the read loops digest what the server did (EOF after the last answer)
			vs.Sleep(time.Millisecond)
			switch t := s.tr.(type) {
			case *ReuseConnTransport:
				withLock(t, "m", func() {
					for _, c := range elemsIn[*reusableConn](t, "idleConns") {
						if chanFieldClosed(c, "closeNotify") {
							stalePooled = "a closed connection is still in the idle pool"
						}
					}
					for _, c := range elemsIn[*reusableConn](t, "conns") {
						if chanFieldClosed(c, "closeNotify") {
							stalePooled = "a closed connection is still registered in the transport"
						}
					}
				})
			}
		}
		s.run()
	}
	check := func(x *vs.Exec) (string, *vs.Violation) {
		s := sys
		V := func(oracle, why string) (string, *vs.Violation) {
			return oracle, &vs.Violation{Sig: name + "/" + oracle, Desc: why + "\n" + s.describe()}
		}
		if x.Panic != "" {
			return V("panic", x.Panic)
		}
		if !s.finished || len(x.Blocked) > 0 {
			return V("stuck", fmt.Sprintf("execution did not finish, parked: %v", x.Blocked))
		}
		var key []string
		for _, c := range s.calls {
			conns := s.connsOf(c.idx)
			nconn := distinct(conns)
			key = append(key, fmt.Sprintf("%s/%dconn", errStr(c.err), nconn))
			// (i) never transmitted on more connections than the bound
			if nconn > 4 {
				return V("too-many-attempts", fmt.Sprintf("call %d was transmitted on %d connections", c.idx, nconn))
			}
			if c.err == nil {
				if !s.ownAnswer(c) {
					return V("wrong-answer", fmt.Sprintf("call %d succeeded with bytes that are not an answer to its query", c.idx))
				}
				continue
			}
			if x.EarlyTimers > 0 {
				continue
			}
			// the last attempt used a connection opened for this call
			lastFresh := len(conns) > 0 && s.conns[conns[len(conns)-1]].openedFor == c.idx
			// (iii) connections only go stale (closed after their only outstanding
			// query was answered) and fresh dials work: a failure can only be an
			// attempt on a connection opened for the call itself
			if allMustSucceed && !lastFresh {
				return V("stale-connection-surfaced", fmt.Sprintf("call %d failed with %q although only idle, previously used connections were killed and a fresh connection works", c.idx, c.err))
			}
			// (ii) a reported failure must be justified
			justified := c.ctxDoneAtRet || (s.closeCalled && c.retAt >= s.closeAt) || lastFresh
			if len(conns) == 0 {
				justified = true // never got a connection (dial failed)
				if c08NoFault[name] && !c.ctxDoneAtRet && !(s.closeCalled && c.retAt >= s.closeAt) {
					// nothing fails in this scenario: every dial succeeds, the server answers everything
					// and closes nothing; a query whose context is alive cannot fail without ever
					// having been transmitted
					return V("failed-without-attempt", fmt.Sprintf("call %d failed with %q although it was never transmitted, its context was alive, every dial succeeded and the server closed nothing", c.idx, c.err))
				}
			}
			if nconn >= 2 && nconn <= 4 && !justified {
				// several attempts, all failed: allowed by the statement ("a small bounded number of attempts all failed")
				justified = true
			}
			for _, d := range s.dialLog {
				if d != "ok" {
					justified = true // a dial for it failed
				}
			}
			if !justified {
				return V("unjustified-failure", fmt.Sprintf("call %d failed with %q after a single attempt on a connection that was already in use, without retry", c.idx, c.err))
			}
		}
		if stalePooled != "" && x.EarlyTimers == 0 {
			return V("stale-in-pool", stalePooled)
		}
		key = append(key, fmt.Sprintf("dials=%d", s.dials))
		return strings.Join(key, ","), nil
	}
	return vr.Scenario{Name: name, P: d, D: d, Horizon: 5 * time.Minute, Body: body, Check: check, Params: o}
}

func TestVerifC08(t *testing.T) {
	e := vr.GetEnv()
	d, d2, budget := 2, 1, 1
	if e.Tier == "thorough" {
		d, d2, budget = 3, 2, 2
	}
	stale := srvOpt{CloseBudget: budget, CloseAfterAnswerOnly: true}
	staleRst := srvOpt{CloseBudget: budget, CloseAfterAnswerOnly: true, ResetOnWrite: true}
	kill := srvOpt{CloseBudget: 2}
	scs := []vr.Scenario{
		c08Scenario("reuse-seq3-stale", tOpt{Kind: "reuse", Callers: 1, Seq: 3, Srv: stale}, d, true),
		c08Scenario("reuse-seq3-stale-rst", tOpt{Kind: "reuse", Callers: 1, Seq: 3, Srv: staleRst}, d, true),
		c08Scenario("reuse-c2-seq2-stale", tOpt{Kind: "reuse", Callers: 2, Seq: 2, Srv: stale}, d2, true),
		c08Scenario("pipeline-tcp-seq3-stale", tOpt{Kind: "pipeline-tcp", Callers: 1, Seq: 3, Srv: stale}, d, true),
		c08Scenario("pipeline-tcp-c2-seq2-stale", tOpt{Kind: "pipeline-tcp", Callers: 2, Seq: 2, Srv: stale}, d2, true),
		c08Scenario("pipeline-udp-seq3-stale-rst", tOpt{Kind: "pipeline-udp", Callers: 1, Seq: 3, Srv: staleRst}, d, true),
		c08Scenario("reuse-c4+1-all-stale", tOpt{Kind: "reuse", Callers: 5, StageTwo: 1, Srv: srvOpt{CloseBudget: 4, CloseEveryAnswer: true, ResetOnWrite: true, SilentDeath: true}}, 1, false),
		c08Scenario("pipeline-tcp-c3+1-all-stale", tOpt{Kind: "pipeline-tcp", Callers: 4, StageTwo: 1, MaxCq: 1, LazyQueue: 1, Srv: srvOpt{CloseBudget: 3, CloseEveryAnswer: true, ResetOnWrite: true, SilentDeath: true}}, 1, false),
		c08Scenario("pipeline-tcp-c2-peerclosed-at-dial", tOpt{Kind: "pipeline-tcp", Callers: 2, Seq: 2, Srv: srvOpt{AnswerAll: true}, DialMenu: []int{0, 4}, CtxMode: []int{1, 1}}, d2, false),
		// a pooled connection that goes silent (black hole): the failure is a read timeout, not an EOF / reset
		c08Scenario("pipeline-tcp-seq2-blackhole", tOpt{Kind: "pipeline-tcp", Callers: 1, Seq: 2, Srv: srvOpt{Silent: true}}, d, false),
		c08Scenario("reuse-seq2-blackhole", tOpt{Kind: "reuse", Callers: 1, Seq: 2, Srv: srvOpt{Silent: true}}, d, false),
		c08Scenario("pipeline-udp-c2-seq2-blackhole", tOpt{Kind: "pipeline-udp", Callers: 2, Seq: 2, Srv: srvOpt{Silent: true}}, d2, false),
		// five idle, healthy connections; then the server goes mute and one more query with a 3 s deadline arrives
		c08Scenario("reuse-c5+1-idle-pool-then-mute", tOpt{Kind: "reuse", Callers: 6, StageTwo: 1, Srv: srvOpt{AnswerAll: true, MuteAfter: 5}, CtxMode: []int{0, 0, 0, 0, 0, 1}, FreezeStage1: true}, 1, false),
		// three / four idle, healthy connections; the server closes some of them one by one in any order; then one more query
		c08Scenario("reuse-c3+1-idle-pool-closed-in-any-order", tOpt{Kind: "reuse", Callers: 4, StageTwo: 1, Srv: srvOpt{AnswerAll: true}, CloseIdleOrder: true, FreezeStage1: true}, 1, true),
		c08Scenario("reuse-c4+1-idle-pool-closed-in-any-order", tOpt{Kind: "reuse", Callers: 5, StageTwo: 1, Srv: srvOpt{AnswerAll: true}, CloseIdleOrder: true, FreezeStage1: true}, 1, true),
		// the first dial is slow (4 s); the connection goes stale; the next query has 3 s left: a fresh dial
		// (fast or slow) is its due - its failure needs a reason of its own, not the cost of an earlier dial
		c08Scenario("pipeline-tcp-c1+1-slowdial-then-stale", tOpt{Kind: "pipeline-tcp", Callers: 2, StageTwo: 1, DialMenu: []int{5, 0}, Srv: srvOpt{CloseBudget: 1, CloseEveryAnswer: true, ResetOnWrite: true, SilentDeath: true}, CtxMode: []int{0, 1}, FreezeStage1: true}, d, false),
		c08Scenario("pipeline-udp-c1+1-slowdial-then-stale-rst", tOpt{Kind: "pipeline-udp", Callers: 2, StageTwo: 1, DialMenu: []int{5, 0}, Srv: srvOpt{CloseBudget: 1, CloseEveryAnswer: true, ResetOnWrite: true, SilentDeath: true}, CtxMode: []int{0, 1}, FreezeStage1: true}, d2, false),
		c08Scenario("reuse-seq3-kill", tOpt{Kind: "reuse", Callers: 1, Seq: 3, Srv: kill}, d, false),
		// a slow dial (4 s); a query queued behind it gives up after 3 s; two more join the queue before the
		// connection is up: limits of queue and connection are equal, nobody may fail but the impatient one
		c08Scenario("pipeline-tcp-L2-q2-c4-queued-giveup-then-burst", tOpt{Kind: "pipeline-tcp", Callers: 4, MaxCq: 2, LazyQueue: 2, DialMenu: []int{5}, Srv: srvOpt{AnswerAll: true},
			CtxMode: []int{0, 1, 0, 0}, StartAt: []time.Duration{0, 0, 3500 * time.Millisecond, 3500 * time.Millisecond}, FreezeUntil: 3499 * time.Millisecond}, d, false),
		c08Scenario("reuse-c2-seq2-kill", tOpt{Kind: "reuse", Callers: 2, Seq: 2, Srv: kill}, d2, false),
		c08Scenario("pipeline-tcp-c2-seq2-kill", tOpt{Kind: "pipeline-tcp", Callers: 2, Seq: 2, Srv: kill}, d2, false),
		c08Scenario("pipeline-tcp-c3-kill-inflight", tOpt{Kind: "pipeline-tcp", Callers: 3, Srv: srvOpt{CloseBudget: 1, Reorder: true}}, d2, false),
	}
	c08NoFault["pipeline-tcp-L2-q2-c4-queued-giveup-then-burst"] = true
	vr.RunScenarios("C08", scs)
}
