package transport

import (
	"context"
	"fmt"
	"strings"
	"testing"
	"time"

	"github.com/IrineSistiana/mosdns/v5/zz_verif/fk"
	"github.com/IrineSistiana/mosdns/v5/zz_verif/vr"
	"github.com/IrineSistiana/mosdns/v5/zz_verif/vs"
)

// C02: a reply that arrives in time is never lost.
//
// System: one TraditionalDnsConn (tcp framing or datagram) over a fake
// connection, 1..2 callers, a server that may answer *inside* the client's
// Write (synchronous arrival, "before the send call returns") or later from its
// own thread, and that may end the connection (EOF / read error) right after
// an answer. Oracle: an answer fully consumed by the read loop while its
// caller's context was not done must be what exchange returns, at the same
// virtual instant (no timeout, no close error, no wait for a UDP resend).

type c02sys struct {
	tcp      bool
	ncallers int
	calls    []*call
	answers  []*answerRec
	ctxDone  []bool // per call: context observed done (deadline fired)
}

func c02Scenario(name string, kind string, ncallers int, p int) vr.Scenario {
	tcp := kind != "tdc-udp" && kind != "pipeline-udp"
	var sys *c02sys
	body := func() {
		sys = &c02sys{tcp: tcp, ncallers: ncallers}
		s := sys
		nonce := uint32(100)
		var a, b *fk.Conn
		mk := func() {
		a, b = fk.NewPipe("c0", !tcp)
		a, b := a, b
		closing := false
		// server: answer query bytes qb (wire format as written by the client)
		answer := func(qb []byte) {
			wire := qb
			if tcp {
				wire = qb[2:]
			}
			nonce++
			ans := fk.Answer(wire, nonce)
			rec := &answerRec{forQuery: wire, payload: ans}
			out := ans
			if tcp {
				out = fk.Frame(ans)
			}
			rec.recID = a.Deliver(out)
			s.answers = append(s.answers, rec)
			// after the answer: connection stays / EOF / read error
			if !closing {
				switch vs.Choose(3) {
				case 1:
					closing = true
					b.ShutdownPeer()
				case 2:
					closing = true
					b.InjectPeerReadErr(fk.ErrInjected, false)
				}
			}
		}
		a.OnConsumed = func(id int) {
			for _, r := range s.answers {
				if r.recID == id {
					r.consumed = true
					r.consumedAt = vs.Elapsed()
					r.ctxDoneAtConsume = map[int]bool{}
					for i, d := range s.ctxDone {
						r.ctxDoneAtConsume[i] = d
					}
				}
			}
		}
		a.WriteHook = func(c *fk.Conn, wb []byte, nth int) error {
			if closing {
				return nil // the peer is gone: the bytes vanish
			}
			if vs.Choose(2) == 1 {
				answer(wb) // reply arrives before Write returns
				return nil
			}
			b.Deliver(wb)
			return nil
		}
		vs.GoNamed("server", func() {
			for {
				qb, ok := b.Take()
				if !ok {
					return
				}
				if closing {
					continue
				}
				answer(qb)
			}
		})
		}
		var dc *TraditionalDnsConn
		var tr interface {
			ExchangeContext(ctx context.Context, m []byte) (*[]byte, error)
			Close() error
		}
		switch kind {
		case "tdc-tcp", "tdc-udp":
			mk()
			dc = NewDnsConn(TraditionalDnsConnOpts{WithLengthHeader: tcp}, a)
		case "reuse":
			tr = NewReuseConnTransport(ReuseConnOpts{DialContext: func(ctx context.Context) (NetConn, error) { mk(); return a, nil }})
		case "pipeline-tcp", "pipeline-udp":
			tr = NewPipelineTransport(PipelineOpts{DialContext: func(ctx context.Context) (DnsConn, error) {
				mk()
				return NewDnsConn(TraditionalDnsConnOpts{WithLengthHeader: tcp}, a), nil
			}})
		}
		var wg vs.WaitGroup
		s.ctxDone = make([]bool, ncallers)
		for i := 0; i < ncallers; i++ {
			c := &call{idx: i, q: fk.Query(uint16(0x1000+i), qname(i), 1)}
			s.calls = append(s.calls, c)
			wg.Add(1)
			vs.GoNamed(fmt.Sprintf("caller%d", i), func() {
				defer wg.Done()
				ctx, cancel := vs.WithTimeout(bg, 3*time.Second)
				defer cancel()
				var r *[]byte
				var err error
				if tr != nil {
					c.started = true
					r, err = tr.ExchangeContext(ctx, c.q)
				} else {
					re, _ := dc.ReserveNewQuery()
					if re == nil {
						c.refused = true
						return
					}
					c.started = true
					r, err = re.ExchangeReserved(ctx, c.q)
				}
				c.done, c.err, c.retAt = true, err, vs.Elapsed()
				c.ctxDoneAtRet = ctx.Err() != nil
				if r != nil {
					c.resp = append([]byte(nil), (*r)...)
				}
			})
		}
		wg.Wait()
		if tr != nil {
			tr.Close()
		} else {
			dc.Close()
		}
		if b != nil {
			b.Close()
		}
	}
	check := func(x *vs.Exec) (string, *vs.Violation) {
		s := sys
		var key []string
		if x.Panic != "" {
			return "panic", &vs.Violation{Sig: name + "/panic", Desc: x.Panic}
		}
		if !x.Quiescent || len(x.Blocked) > 0 {
			return "stuck", &vs.Violation{Sig: name + "/stuck", Desc: fmt.Sprintf("execution did not finish: parked=%v horizon=%v", x.Blocked, x.HorizonHit)}
		}
		var viol *vs.Violation
		for _, c := range s.calls {
			if !c.started {
				key = append(key, "refused")
				continue
			}
			// the answer for this call: produced for its question and consumed
			var got *answerRec
			for _, r := range s.answers {
				if r.consumed && fk.QName(r.forQuery) == fk.QName(c.q) && got == nil {
					got = r
				}
			}
			k := errStr(c.err)
			if got != nil {
				k += "+consumed"
			}
			key = append(key, k)
			if got == nil || x.EarlyTimers > 0 {
				continue
			}
			// consumed while the caller's context was still live (deadline is at
			// 3s virtual; only fires at quiescence in T=0 executions)
			if got.consumedAt >= 3*time.Second {
				continue
			}
			switch {
			case c.err != nil:
				viol = &vs.Violation{Sig: name + "/lost:" + classify(c.err),
					Desc: fmt.Sprintf("caller %d: its reply was fully read from the connection at t=%v (context live) but exchange returned error %q at t=%v", c.idx, got.consumedAt, c.err, c.retAt)}
			case !sameAnswer(c.resp, got.payload, fk.ID(c.q)):
				viol = &vs.Violation{Sig: name + "/wrong-bytes", Desc: fmt.Sprintf("caller %d: returned bytes differ from the consumed reply", c.idx)}
			case c.retAt != got.consumedAt:
				viol = &vs.Violation{Sig: name + "/late", Desc: fmt.Sprintf("caller %d: reply consumed at t=%v but exchange returned at t=%v (waited for a retransmission or a timer)", c.idx, got.consumedAt, c.retAt)}
			}
		}
		return strings.Join(key, ","), viol
	}
	return vr.Scenario{Name: name, P: p, D: p, Horizon: 20 * time.Second, Body: body, Check: check,
		Params: map[string]any{"kind": kind, "callers": ncallers}}
}

func classify(err error) string {
	s := err.Error()
	switch {
	case strings.Contains(s, "deadline"):
		return "timeout"
	case strings.Contains(s, "read err"), strings.Contains(s, "closed"), strings.Contains(s, "EOF"):
		return "close-error"
	}
	return "other"
}

func TestVerifC02(t *testing.T) {
	e := vr.GetEnv()
	p1, p2, pp1, pp2 := 3, 2, 2, 1
	if e.Tier == "thorough" {
		p1, p2, pp1, pp2 = 4, 3, 3, 2
	}
	scs := []vr.Scenario{
		c02Scenario("tdc-tcp-1", "tdc-tcp", 1, p1),
		c02Scenario("tdc-udp-1", "tdc-udp", 1, p1),
		c02Scenario("reuse-1", "reuse", 1, p1),
		c02Scenario("pipeline-tcp-1", "pipeline-tcp", 1, pp1),
		c02Scenario("pipeline-udp-1", "pipeline-udp", 1, pp1),
		c02Scenario("tdc-tcp-2", "tdc-tcp", 2, p2),
		c02Scenario("tdc-udp-2", "tdc-udp", 2, p2),
		c02Scenario("pipeline-tcp-2", "pipeline-tcp", 2, pp2),
		c02Tsys("async-tdc-tcp-c2-seq2-idwrap", tOpt{Kind: "tdc-tcp", Callers: 2, Seq: 2, Srv: srvOpt{Reorder: true}, StartQid: 0xFFFF, RewindQid: true, CtxMode: []int{1, 1}}, p2),
		c02Tsys("async-tdc-tcp-c2-seq2-abandon", tOpt{Kind: "tdc-tcp", Callers: 2, Seq: 2, Srv: srvOpt{Reorder: true}, CtxMode: []int{2, 1}}, p2),
		c02Tsys("async-tdc-udp-c3-reorder", tOpt{Kind: "tdc-udp", Callers: 3, Srv: srvOpt{Reorder: true, Dup: 1}, CtxMode: []int{1, 1, 1}}, pp2),
		c02Tsys("async-tdc-udp-c1-slow1300ms", tOpt{Kind: "tdc-udp", Callers: 1, Srv: srvOpt{AnswerAll: true, Delay: 1300 * time.Millisecond}, CtxMode: []int{1}}, p1),
		c02Tsys("async-pipeline-udp-c2-slow1300ms", tOpt{Kind: "pipeline-udp", Callers: 2, Srv: srvOpt{AnswerAll: true, Delay: 1300 * time.Millisecond}, CtxMode: []int{1, 1}}, pp2),
		// a slow dial (4 s) and a slow server (2 s): together longer than the dial timeout, the caller's context is unbounded
		c02Tsys("async-pipeline-tcp-c2-slowdial-slowsrv", tOpt{Kind: "pipeline-tcp", Callers: 2, MaxCq: 2, LazyQueue: 2, DialMenu: []int{5}, Srv: srvOpt{AnswerAll: true, Delay: 2 * time.Second}}, pp2),
		c02Tsys("async-reuse-c1-slowdial-slowsrv", tOpt{Kind: "reuse", Callers: 1, DialMenu: []int{5}, Srv: srvOpt{AnswerAll: true, Delay: 2 * time.Second}}, p2),
		// after its first answer the server does not read for 2 s: the next caller's Write blocks that long,
		// the answer that is already here must be returned at once all the same
		c02Tsys("async-tdc-tcp-c2-blocked-write", tOpt{Kind: "tdc-tcp", Callers: 2, Srv: srvOpt{AnswerAll: true, PauseAfterAnswer: 2 * time.Second}, CtxMode: []int{1, 0}}, p2),
		c02Tsys("async-pipeline-tcp-c3-blocked-write", tOpt{Kind: "pipeline-tcp", Callers: 3, MaxCq: 3, LazyQueue: 3, Srv: srvOpt{AnswerAll: true, PauseAfterAnswer: 2 * time.Second}, CtxMode: []int{1, 1, 0}}, pp2),
		// legal replies that do not echo the question byte for byte
		c02Tsys("async-tdc-udp-c2-reply-forms", tOpt{Kind: "tdc-udp", Callers: 2, Srv: srvOpt{Reorder: true, AnswerForms: []int{0, 1, 2}}, CtxMode: []int{1, 1}}, p2),
		c02Tsys("async-tdc-tcp-c2-reply-forms", tOpt{Kind: "tdc-tcp", Callers: 2, Srv: srvOpt{Reorder: true, AnswerForms: []int{1, 2}}, CtxMode: []int{1, 1}}, pp2),
		c02Tsys("async-tdc-udp-c2-runt", tOpt{Kind: "tdc-udp", Callers: 2, Srv: srvOpt{Reorder: true, Short: true}, CtxMode: []int{1, 1}}, p2),
		c02Tsys("async-reuse-c2-seq2", tOpt{Kind: "reuse", Callers: 2, Seq: 2, Srv: srvOpt{CloseBudget: 1, CloseAfterAnswerOnly: true}, CtxMode: []int{1, 1}}, pp2),
	}
	vr.RunScenarios("C02", scs)
}

// c02Tsys: the same oracle on the shared transport system (asynchronous server
// actor that may reorder): an answer for a call's question that the client side
// fully read while the call was still waiting (context live, not cancelled) must
// be what the call returns, at that virtual instant.
func c02Tsys(name string, o tOpt, d int) vr.Scenario {
	var sys *tsys
	body := func() {
		sys = &tsys{opt: o}
		sys.run()
	}
	check := func(x *vs.Exec) (string, *vs.Violation) {
		s := sys
		V := func(oracle, why string) (string, *vs.Violation) {
			return oracle, &vs.Violation{Sig: name + "/" + oracle, Desc: why + "\n" + s.describe()}
		}
		if x.Panic != "" {
			return V("panic", x.Panic)
		}
		if !s.finished || len(x.Blocked) > 0 {
			return V("stuck", fmt.Sprintf("execution did not finish, parked: %v", x.Blocked))
		}
		var key []string
		for _, c := range s.calls {
			key = append(key, errStr(c.err))
			if !c.refused && c.err == nil && !s.ownAnswer(c) {
				return V("returned-another-reply", fmt.Sprintf("call %d returned bytes that are not the reply to its query although its own reply was sent", c.idx))
			}
			if c.refused || c.cancelled || x.EarlyTimers > 0 {
				continue
			}
			var first *answerRec
			for _, cn := range s.conns {
				for _, a := range cn.answers {
					if a.consumed && fk.QName(a.forQuery) == fk.QName(c.q) && a.consumedAt >= c.startAt && a.consumedAt <= c.retAt && (first == nil || a.consumedAt < first.consumedAt) {
						first = a
					}
				}
			}
			if first == nil {
				continue
			}
			if c.err != nil {
				return V("lost:"+classify(c.err), fmt.Sprintf("call %d: a reply to its query was fully read from the connection at t=%v while it was waiting, but it returned error %q at t=%v", c.idx, first.consumedAt, c.err, c.retAt))
			}
			if c.retAt != first.consumedAt {
				return V("late", fmt.Sprintf("call %d: reply read at t=%v, returned at t=%v", c.idx, first.consumedAt, c.retAt))
			}
		}
		return strings.Join(key, ","), nil
	}
	return vr.Scenario{Name: name, P: d, D: d, Horizon: time.Minute, Body: body, Check: check, Params: o}
}
