package transport

import (
	"errors"
	"fmt"
	"strings"
	"testing"
	"time"

	"github.com/IrineSistiana/mosdns/v5/pkg/pool"
	"github.com/IrineSistiana/mosdns/v5/zz_verif/fk"
	"github.com/IrineSistiana/mosdns/v5/zz_verif/vr"
	"github.com/IrineSistiana/mosdns/v5/zz_verif/vs"
)

// C09: per-connection concurrency limits hold and capacity never leaks.

type c09extra struct {
	lazyCounters []int // reservedQuery of every lazy connection at quiescence
	after, fresh int // successive ReserveNewQuery successes after the history / on a fresh connection
	measured     bool
	reservedEnd  int
	queueEnd     int
	// transports: a probe query issued after all calls returned
	probed       bool
	probeHealthy int // live, healthy, drained connections at that moment
	probeDials   int // dials the probe caused
}

// scenarios whose schedule space leaves no room for the probe phase in the quick budget
var c09NoProbe = map[string]bool{"pipeline-tcp-L2-q2-c3": true}

func c09Scenario(name string, o tOpt, p int, expectAllOK bool) vr.Scenario {
	var sys *tsys
	var ex *c09extra
	limit := o.MaxCq
	if o.Kind == "reuse" {
		limit = 1
	}
	body := func() {
		sys = &tsys{opt: o}
		ex = &c09extra{}
		s := sys
		s.beforeClose = func() {
			if pt, ok := s.tr.(*PipelineTransport); ok {
				vs.Sleep(time.Millisecond)
				withLock(pt, "m", func() {
					for _, lc := range elemsIn[*lazyDnsConn](pt, "conns") {
						withLock(lc, "mu", func() {
							ex.lazyCounters = append(ex.lazyCounters, intField(lc, "reservedQuery"))
						})
					}
				})
			}
			// capacity of the transport: with a live, healthy, drained connection at
			// hand (nothing unanswered, nothing unread, nobody closed it) one more
			// query must be admitted by it, not cause a dial
			if s.tr == nil || o.Closer || len(o.DialMenu) > 0 || o.WriteFailNth > 0 || c09NoProbe[name] {
				return
			}
			vs.Sleep(time.Millisecond)
			for _, cn := range s.conns {
				if !cn.a.Closed() && !cn.b.Closed() && !cn.closedBySrv && !cn.silent && len(cn.pending) == 0 && cn.a.Pending() == 0 && cn.b.Pending() == 0 {
					ex.probeHealthy++
				}
			}
			// as many concurrent probes as these connections have room for, answers
			// held back until all of them are on the wire
			d0 := s.dials
			s.hold = true
			vs.Freeze() // the probes are an instrument: default schedule from here on
			var pw vs.WaitGroup
			for i := 0; i < ex.probeHealthy*limit; i++ {
				i := i
				pw.Add(1)
				vs.GoNamed(fmt.Sprintf("probe%d", i), func() {
					defer pw.Done()
					ctx, cancel := vs.WithTimeout(bg, 3*time.Second)
					defer cancel()
					if r, _ := s.tr.ExchangeContext(ctx, fk.Query(uint16(0x7780+i), "probe.example.", 1)); r != nil {
						pool.ReleaseBuf(r)
					}
				})
			}
			vs.Sleep(time.Millisecond)
			ex.probed, ex.probeDials = true, s.dials-d0
			s.hold = false
			pw.Wait()
		}
		s.run()
		// capacity differential on the directly driven connection: only when it
		// is still alive (no close by anybody)
		if s.dc != nil && !s.dc.IsClosed() {
			// run() closed it at the end; so measure on a sibling built the same way? No:
			// measure must happen before Close. See runTdcCapacity below.
		}
	}
	if strings.HasPrefix(o.Kind, "tdc") {
		// tdc kinds: measure capacity before the final Close
		body = func() {
			sys = &tsys{opt: o}
			ex = &c09extra{}
			s := sys
			s.beforeClose = func() {
				if s.dc.IsClosed() {
					return
				}
				sawClosed := false
				count := func(dc *TraditionalDnsConn) int {
					var held []ReservedExchanger
					for len(held) < 1000 {
						re, closed := dc.ReserveNewQuery()
						if re == nil {
							sawClosed = sawClosed || closed
							break
						}
						held = append(held, re)
					}
					for _, re := range held {
						re.WithdrawReserved()
					}
					return len(held)
				}
				ex.after = count(s.dc)
				a, _ := fk.NewPipe("fresh", !s.tcp)
				f := NewDnsConn(TraditionalDnsConnOpts{WithLengthHeader: s.tcp, MaxConcurrentQuery: o.MaxCq}, a)
				ex.fresh = count(f)
				f.Close()
				// the connection may die (peer close being processed by the read
				// loop) while we measure: capacity of a dead connection is not defined
				ex.measured = !sawClosed
				withLock(s.dc, "queueMu", func() {
					ex.reservedEnd, ex.queueEnd = intField(s.dc, "reservedQuery"), lenField(s.dc, "queue")
				})
			}
			s.run()
		}
	}
	check := func(x *vs.Exec) (string, *vs.Violation) {
		s := sys
		V := func(oracle, why string) (string, *vs.Violation) {
			return oracle, &vs.Violation{Sig: name + "/" + oracle, Desc: why + "\n" + s.describe()}
		}
		if x.Panic != "" {
			return V("panic", x.Panic)
		}
		if !s.finished || len(x.Blocked) > 0 {
			return V("stuck", fmt.Sprintf("execution did not finish, parked: %v", x.Blocked))
		}
		var key []string
		for _, n := range ex.lazyCounters {
			if n != 0 {
				return V("counter", fmt.Sprintf("a lazy connection's reservedQuery is %d at quiescence (all calls returned)", n))
			}
		}
		for _, cn := range s.conns {
			if o.Kind == "reuse" && cn.maxPendingAtArrival >= 1 {
				return V("limit-exceeded", fmt.Sprintf("non-pipelined connection %d received a further query while %d earlier ones were still unanswered", cn.idx, cn.maxPendingAtArrival))
			}
			if cn.maxInflight > limit && limit > 0 {
				return V("limit-exceeded", fmt.Sprintf("connection %d carried %d unanswered queries, limit %d", cn.idx, cn.maxInflight, limit))
			}
		}
		for _, c := range s.calls {
			switch {
			case c.refused && !c.refusedClosed:
				key = append(key, "refused")
				if c.activeMax < limit {
					return V("refused-below-limit", fmt.Sprintf("call %d was refused although at most %d reservations were held (limit %d)", c.idx, c.activeMax, limit))
				}
			case c.refused:
				key = append(key, "closed")
			case c.withdrawn:
				key = append(key, "withdrawn")
			default:
				key = append(key, errStr(c.err))
				if c.err != nil && (errors.Is(c.err, ErrLazyConnCannotReserveQueryExchanger) || errors.Is(c.err, ErrTDCTooManyQueries) || errors.Is(c.err, ErrNewConnCannotReserveQueryExchanger)) && expectAllOK {
					return V("queued-query-refused", fmt.Sprintf("call %d failed with %q although limits are equal and every connection is healthy", c.idx, c.err))
				}
				if c.err != nil && expectAllOK && x.EarlyTimers == 0 && !c.cancelled {
					return V("unexpected-failure", fmt.Sprintf("call %d failed with %q in a fault-free scenario", c.idx, c.err))
				}
			}
		}
		if ex.measured {
			key = append(key, fmt.Sprintf("cap%d/%d", ex.after, ex.fresh))
			if ex.after != ex.fresh {
				return V("capacity-lost", fmt.Sprintf("after the history the live connection admits %d new queries, a fresh one %d", ex.after, ex.fresh))
			}
			if ex.reservedEnd != 0 {
				return V("counter", fmt.Sprintf("reservedQuery = %d at quiescence", ex.reservedEnd))
			}
			if ex.queueEnd != o.SeedQueue {
				return V("waiter-leak", fmt.Sprintf("%d waiters left in the queue at quiescence", ex.queueEnd-o.SeedQueue))
			}
		}
		if ex.probed && x.EarlyTimers == 0 {
			key = append(key, fmt.Sprintf("probe%d/%d", ex.probeHealthy, ex.probeDials))
			if ex.probeHealthy > 0 && ex.probeDials > 0 {
				return V("capacity-lost", fmt.Sprintf("after all calls returned %d healthy connection(s) without any unanswered query existed (limit %d each), yet %d further concurrent queries caused %d dial(s): a live connection admits fewer queries than a fresh one", ex.probeHealthy, limit, ex.probeHealthy*limit, ex.probeDials))
			}
		}
		key = append(key, fmt.Sprintf("dials%d", s.dials))
		return strings.Join(key, ","), nil
	}
	return vr.Scenario{Name: name, P: p, D: p, Horizon: 60 * time.Second, Body: body, Check: check, Params: o}
}

func TestVerifC09(t *testing.T) {
	e := vr.GetEnv()
	th := e.Tier == "thorough"
	pp := func(q, t int) int {
		if th {
			return t
		}
		return q
	}
	all := srvOpt{AnswerAll: true}
	scs := []vr.Scenario{
		c09Scenario("tdc-tcp-L1-c2", tOpt{Kind: "tdc-tcp", Callers: 2, MaxCq: 1, Srv: all}, pp(2, 3), false),
		c09Scenario("tdc-tcp-L2-c3-withdraw", tOpt{Kind: "tdc-tcp", Callers: 3, MaxCq: 2, Srv: all, Withdraw: true}, pp(2, 3), false),
		c09Scenario("tdc-tcp-L2-c2-seq2", tOpt{Kind: "tdc-tcp", Callers: 2, Seq: 2, MaxCq: 2, Srv: all}, pp(2, 3), true),
		c09Scenario("tdc-udp-L2-c3-cancel", tOpt{Kind: "tdc-udp", Callers: 3, MaxCq: 2, Srv: srvOpt{Reorder: true}, CtxMode: []int{2, 0, 0}}, pp(2, 3), false),
		c09Scenario("tdc-tcp-L2-c2-srvclose", tOpt{Kind: "tdc-tcp", Callers: 2, MaxCq: 2, Srv: srvOpt{CloseBudget: 1}}, pp(2, 3), false),
		c09Scenario("pipeline-tcp-L2-q2-c2", tOpt{Kind: "pipeline-tcp", Callers: 2, MaxCq: 2, LazyQueue: 2, Srv: all}, pp(2, 3), true),
		c09Scenario("pipeline-tcp-L2-q2-c3", tOpt{Kind: "pipeline-tcp", Callers: 3, MaxCq: 2, LazyQueue: 2, Srv: all}, pp(2, 3), true),
		c09Scenario("pipeline-udp-L1-q1-c2", tOpt{Kind: "pipeline-udp", Callers: 2, MaxCq: 1, LazyQueue: 1, Srv: all}, pp(2, 3), true),
		c09Scenario("pipeline-tcp-L2-q2-c3-cancel", tOpt{Kind: "pipeline-tcp", Callers: 3, Seq: 2, MaxCq: 2, LazyQueue: 2, Srv: all, CtxMode: []int{2, 0, 0}}, pp(1, 2), true),
		c09Scenario("pipeline-tcp-L2-c2-dialfail-closer", tOpt{Kind: "pipeline-tcp", Callers: 2, MaxCq: 2, LazyQueue: 2, Srv: all, DialMenu: []int{0, 1}, Closer: true}, pp(1, 2), false),
		c09Scenario("lazy-tcp-L2-q2-c3-withdraw", tOpt{Kind: "lazy-tcp", Callers: 3, MaxCq: 2, LazyQueue: 2, Srv: all, Withdraw: true}, pp(2, 3), false),
		c09Scenario("lazy-tcp-L2-q2-c2-seq2-withdraw-slowdial", tOpt{Kind: "lazy-tcp", Callers: 2, Seq: 2, MaxCq: 2, LazyQueue: 2, Srv: all, Withdraw: true, DialMenu: []int{5}}, pp(1, 2), false),
		// every wire ID of the next 100 is taken: the query is refused ("too many queries") - and its slot must come back
		c09Scenario("tdc-udp-L3-c2-seq2-qid-exhausted", tOpt{Kind: "tdc-udp", Callers: 2, Seq: 2, MaxCq: 3, Srv: all, StartQid: 0xFFF0, SeedQueue: 100}, pp(1, 2), false),
		c09Scenario("tdc-tcp-L2-c1-seq3-qid-exhausted", tOpt{Kind: "tdc-tcp", Callers: 1, Seq: 3, MaxCq: 2, Srv: all, StartQid: 0x0010, SeedQueue: 100}, pp(1, 2), false),
		c09Scenario("reuse-c2-seq2-cancel", tOpt{Kind: "reuse", Callers: 2, Seq: 2, Srv: srvOpt{Reorder: true}, CtxMode: []int{2, 0}}, pp(1, 2), false),
		c09Scenario("reuse-c2-seq2", tOpt{Kind: "reuse", Callers: 2, Seq: 2, Srv: all}, pp(2, 3), true),
	}
	vr.RunScenarios("C09", scs)
}
