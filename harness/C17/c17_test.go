package upstream

import (
	"bytes"
	"context"
	"errors"
	"fmt"
	stdnet "net"
	"testing"
	"time"

	"github.com/IrineSistiana/mosdns/v5/pkg/pool"
	"github.com/IrineSistiana/mosdns/v5/zz_verif/fk"
	"github.com/IrineSistiana/mosdns/v5/zz_verif/vnet"
	"github.com/IrineSistiana/mosdns/v5/zz_verif/vr"
	"github.com/IrineSistiana/mosdns/v5/zz_verif/vs"
	"go.uber.org/zap"
)

// C17: truncated UDP replies are retried over TCP.
//
// The real NewUpstream("udp://192.0.2.1") (PipelineTransport over UDP +
// ReuseConnTransport over TCP) runs with the import "net" bound to the vnet
// shim: every dial is recorded and answered by an in-memory fk connection.
// Part a enumerates every header flag combination of the UDP reply x reply
// size x TCP-side behaviour on the default schedule; part b explores the
// schedules (deviation-bounded) of a reduced product.

func init() { fk.PoisonPool() }

const (
	c17TcpAnswers = iota
	c17TcpRefuses
	c17TcpFailsMid
	c17TcpStale // every TCP connection answers its first query and is closed by the server when a second one arrives
	c17TcpAnswersTC // answers, and the TCP reply itself has the TC bit set (an answer that does not fit 64 KiB): it is still what the caller gets
	c17TcpSlowFirst // the first query over TCP is answered after 4 s only (later than the deadline of the exchange that sent it), the others at once
)

type c17sys struct {
	flags   uint16
	size    int
	tcpMode int
	runt     int // the server sends a runt datagram before its reply: 1 = five bytes, 2 = empty
	warmFail int // earlier exchanges whose TCP retry was refused (history of failures)
	tcpDown  bool // the TCP side refuses connections right now
	nonce    uint32
	slowDone bool
	slowPending bool
	slowQueue   [][]byte
	warm    bool // an earlier exchange of the same kind has left its TCP connection in the pool
	socks5  bool // Opt.Socks5 is set (not implemented for UDP upstreams: both legs must still go to the server itself)
	q       []byte
	udpRep  []byte
	tcpRep  []byte
	dials   []string
	tcpGot  [][]byte
	udpGot  [][]byte
	resp    []byte
	err     error
	done    bool
}

type c17sink struct{ s *c17sys }

var c17dialErr = errors.New("connection refused (injected)")

func (k c17sink) Dial(ctx context.Context, network, addr string) (stdnet.Conn, error) {
	s := k.s
	s.dials = append(s.dials, network+" "+addr)
	if addr != "192.0.2.1:5353" {
		// nothing listens anywhere else; the dial itself is what gets judged (and an
		// uninstrumented SOCKS5 client must not start a handshake with goroutines of
		// its own on a scheduler-owned connection)
		return nil, c17dialErr
	}
	switch network {
	case "udp":
		a, _ := fk.NewPipe("udp", true)
		a.WriteHook = func(c *fk.Conn, wb []byte, nth int) error {
			s.udpGot = append(s.udpGot, wb)
			// reply: wire ID of the query, header bytes 2-3 as chosen, padded to size
			rep := make([]byte, s.size)
			copy(rep, wb[:2])
			rep[2], rep[3] = byte(s.flags>>8), byte(s.flags)
			for i := 4; i < len(rep); i++ {
				rep[i] = byte(i * 7)
			}
			if nth == 0 {
				s.udpRep = rep
			}
			switch s.runt {
			case 1:
				a.Deliver([]byte{1, 2, 3, 4, 5})
			case 2:
				a.Deliver([]byte{})
			}
			a.Deliver(append([]byte(nil), rep...))
			return nil
		}
		return a, nil
	case "tcp":
		if s.tcpMode == c17TcpRefuses || s.tcpDown {
			return nil, c17dialErr
		}
		a, b := fk.NewPipe("tcp", false)
		var stream []byte
		served := 0
		a.WriteHook = func(c *fk.Conn, wb []byte, nth int) error {
			stream = append(stream, wb...)
			msgs, rest := fk.Unframe(stream)
			stream = rest
			if len(msgs) == 0 && len(stream) >= 2 && fk.QName(stream[2:]) == "" && len(stream) > 14 {
				s.tcpGot = append(s.tcpGot, append([]byte(nil), stream...)) // not a framed DNS query at all
			}
			for _, m := range msgs {
				s.tcpGot = append(s.tcpGot, m)
				served++
				if s.tcpMode == c17TcpStale && served > 1 {
					b.ShutdownPeer()
					continue
				}
				if s.tcpMode == c17TcpFailsMid {
					b.ShutdownPeer()
					continue
				}
				s.nonce++
				rep := fk.Answer(m, 4242+s.nonce)
				if s.tcpMode == c17TcpAnswersTC {
					rep[2] |= 0x02
				}
				if s.tcpMode == c17TcpSlowFirst && !s.slowDone {
					// an in-order server: the first answer takes 4 s, answers to later
					// queries on this connection queue up behind it
					s.slowDone, s.slowPending = true, true
					vs.GoNamed("slow-tcp-answer", func() {
						vs.Sleep(4 * time.Second)
						a.Deliver(fk.Frame(rep))
						for _, q := range s.slowQueue {
							a.Deliver(fk.Frame(q))
						}
						s.slowPending, s.slowQueue = false, nil
					})
					continue
				}
				s.tcpRep = rep
				if s.slowPending && served > 1 {
					s.slowQueue = append(s.slowQueue, rep)
					continue
				}
				a.Deliver(fk.Frame(rep))
			}
			return nil
		}
		return a, nil
	}
	return nil, fmt.Errorf("unexpected network %q", network)
}

func (k c17sink) ListenPacket(ctx context.Context, network, addr string) (stdnet.PacketConn, error) {
	return nil, errors.New("not used")
}
func (k c17sink) ResolveUDPAddr(network, addr string) (*stdnet.UDPAddr, error) {
	return nil, errors.New("not used")
}
func (k c17sink) DialUDP(network string, laddr, raddr *stdnet.UDPAddr) (stdnet.Conn, error) {
	return nil, errors.New("not used")
}

func (s *c17sys) run() {
	vnet.SetSink(c17sink{s})
	s.q = fk.Query(0x4D53, "c17.example.", 1)
	opt := Opt{Logger: zap.NewNop()}
	if s.socks5 {
		opt.Socks5 = "192.0.2.99:1080"
	}
	u, err := NewUpstream("udp://192.0.2.1:5353", opt)
	if err != nil {
		panic(err)
	}
	for k := 0; k < s.warmFail; k++ {
		s.tcpDown = true
		fctx, fcancel := vs.WithTimeout(context.Background(), 3*time.Second)
		if fr, _ := u.ExchangeContext(fctx, s.q); fr != nil {
			pool.ReleaseBuf(fr)
		}
		fcancel()
	}
	if s.warmFail > 0 {
		// the TCP side is back; only what follows is judged
		s.tcpDown, s.dials, s.tcpGot = false, nil, nil
	}
	if s.warm {
		wctx, wcancel := vs.WithTimeout(context.Background(), 3*time.Second)
		if wr, _ := u.ExchangeContext(wctx, s.q); wr != nil {
			pool.ReleaseBuf(wr)
		}
		wcancel()
	}
	ctx, cancel := vs.WithTimeout(context.Background(), 3*time.Second)
	r, err := u.ExchangeContext(ctx, s.q)
	cancel()
	s.err = err
	if r != nil {
		s.resp = append([]byte(nil), (*r)...)
	}
	s.done = true
	u.Close()
}

// judge returns an outcome class and an optional violation (oracle, description).
func (s *c17sys) judge(x *vs.Exec) (string, string, string) {
	tc := s.flags&0x0200 != 0
	desc := fmt.Sprintf("udp reply flags=%#04x size=%d tcpMode=%d socks5=%v warm=%v failedBefore=%d runt=%d -> err=%v resp=%d bytes dials=%v tcpQueries=%d", s.flags, s.size, s.tcpMode, s.socks5, s.warm, s.warmFail, s.runt, s.err, len(s.resp), s.dials, len(s.tcpGot))
	if x.Panic != "" {
		return "panic", "panic", x.Panic + "\n" + desc
	}
	if x.Livelock {
		return "livelock", "livelock", "the exchange spins: the execution exhausted its event budget\n" + desc
	}
	if !s.done || len(x.Blocked) > 0 {
		return "stuck", "stuck", fmt.Sprintf("did not finish, parked %v\n%s", x.Blocked, desc)
	}
	ntcp := 0
	for _, d := range s.dials {
		if d == "tcp 192.0.2.1:5353" {
			ntcp++
		} else if d != "udp 192.0.2.1:5353" {
			return "dial", "wrong-dial-target", "dial to " + d + "\n" + desc
		}
	}
	if !tc {
		if ntcp != 0 || len(s.tcpGot) != 0 {
			return "notc", "tcp-opened-without-tc", "a TCP connection was opened although the UDP reply has no TC bit\n" + desc
		}
		if s.err != nil {
			return "notc", "udp-reply-not-returned", "the UDP reply was not returned\n" + desc
		}
		want := fk.WithID(s.udpRep, fk.ID(s.q))
		if !bytes.Equal(s.resp, want) {
			return "notc", "udp-reply-altered", "the returned bytes differ from the UDP reply\n" + desc
		}
		return fmt.Sprintf("notc/size%d", s.size), "", ""
	}
	// TC set: the same query goes to the same server over TCP, and that outcome is returned
	if ntcp == 0 {
		return "tc", "no-tcp-retry", "TC bit set but no TCP connection to the server was opened\n" + desc
	}
	if s.tcpMode != c17TcpRefuses {
		if len(s.tcpGot) == 0 {
			return "tc", "no-tcp-query", "TC bit set but no query was sent over TCP\n" + desc
		}
		for _, m := range s.tcpGot {
			if !bytes.Equal(m, s.q) {
				return "tc", "tcp-query-differs", fmt.Sprintf("the query sent over TCP (% x) is not the caller's query (% x)\n%s", m, s.q, desc)
			}
		}
	}
	switch s.tcpMode {
	case c17TcpAnswers, c17TcpStale, c17TcpSlowFirst, c17TcpAnswersTC:
		if s.tcpMode == c17TcpSlowFirst && !s.warm {
			break // the judged exchange itself hit the slow answer: it may time out
		}
		if s.err != nil || !bytes.Equal(s.resp, s.tcpRep) {
			return "tc", "tcp-reply-not-returned", "the TCP reply is not what the caller got\n" + desc
		}
	default:
		if s.err == nil {
			return "tc", "tcp-failure-masked", "the TCP side failed but the call returned a reply\n" + desc
		}
	}
	return fmt.Sprintf("tc/tcpmode%d/size%d/warm%v/attempts%d", s.tcpMode, s.size, s.warm, ntcp), "", ""
}

var c17Sizes = []int{12, 512, 4095}

// part a: complete enumeration on the default schedule
func TestVerifC17a(t *testing.T) {
	e := vr.GetEnv()
	res := vr.New("C17", e)
	res.Rule = "part a: one case = (bytes 2-3 of the UDP reply header, reply size, TCP-side behaviour) run through the real udp upstream on the default schedule under the vs scheduler; part b: schedules of a reduced product; outcome classes: TC/no-TC x size x TCP behaviour x attempts"
	type in struct {
		Flags   uint16 `json:"flags"`
		Size    int    `json:"size"`
		TcpMode int    `json:"tcp_mode"`
		Socks5  bool   `json:"socks5,omitempty"`
		Warm    bool   `json:"warm,omitempty"`
		WarmFail int   `json:"warm_fail,omitempty"`
		Runt     int   `json:"runt,omitempty"`
	}
	runOne := func(c in) (string, string, string) {
		s := &c17sys{flags: c.Flags, size: c.Size, tcpMode: c.TcpMode, socks5: c.Socks5, warm: c.Warm, warmFail: c.WarmFail, runt: c.Runt}
		x := vs.Run1(vs.Config{Horizon: time.Minute, MaxEvents: 3_000_000, LivelockOK: true}, s.run)
		res.Transitions += int64(x.Events)
		return s.judge(x)
	}
	if raw, ok := vr.ReplayInput(); ok {
		var c in
		if err := jsonUnmarshal(raw, &c); err != nil {
			t.Fatal(err)
		}
		k, o, d := runOne(c)
		fmt.Println("outcome:", k)
		if o != "" {
			fmt.Printf("REPLAY-VIOLATION property=C17 sig=udpfallback/%s\n  %s\n", o, d)
		} else {
			fmt.Println("REPLAY-OK")
		}
		return
	}
	var cases []in
	if e.Tier == "thorough" {
		for f := 0; f < 65536; f++ {
			for _, sz := range c17Sizes {
				for m := 0; m < 3; m++ {
					cases = append(cases, in{Flags: uint16(f), Size: sz, TcpMode: m})
				}
			}
		}
		res.Bounds["flags"] = "all 65536 values of header bytes 2-3"
	} else {
		// all 65536 flag values with one size and an answering TCP side; every
		// value of byte 2 x 4 values of byte 3 with every size and TCP behaviour
		for f := 0; f < 65536; f++ {
			cases = append(cases, in{Flags: uint16(f), Size: 512, TcpMode: c17TcpAnswers})
		}
		for b2 := 0; b2 < 256; b2++ {
			for _, b3 := range []int{0x00, 0x80, 0x0F, 0xFF} {
				for _, sz := range c17Sizes {
					for m := 0; m < 3; m++ {
						cases = append(cases, in{Flags: uint16(b2<<8 | b3), Size: sz, TcpMode: m})
					}
				}
			}
		}
		res.Bounds["flags"] = "all 65536 values (size 512, TCP answers) + all 256 values of byte 2 x {00,80,0F,FF} x sizes x TCP behaviours"
	}
	// Opt.Socks5 set (the forward plugin copies its global socks5 setting into every upstream)
	for b2 := 0; b2 < 256; b2++ {
		for _, sz := range c17Sizes {
			for m := 0; m < 3; m++ {
				cases = append(cases, in{Flags: uint16(b2<<8 | 0x80), Size: sz, TcpMode: m, Socks5: true})
			}
		}
	}
	// a pooled TCP connection from an earlier truncated exchange, healthy or gone stale
	for b2 := 0; b2 < 256; b2++ {
		for _, sz := range c17Sizes {
			for _, m := range []int{c17TcpAnswers, c17TcpFailsMid, c17TcpStale} {
				cases = append(cases, in{Flags: uint16(b2<<8 | 0x80), Size: sz, TcpMode: m, Warm: true})
			}
		}
	}
	for b2 := 0; b2 < 256; b2++ {
		cases = append(cases, in{Flags: uint16(b2<<8 | 0x80), Size: 512, TcpMode: c17TcpSlowFirst, Warm: true})
		cases = append(cases, in{Flags: uint16(b2<<8 | 0x80), Size: 512, TcpMode: c17TcpAnswersTC})
	}
	// a runt datagram (5 bytes / empty) ahead of the reply
	for b2 := 0; b2 < 256; b2++ {
		for _, rn := range []int{1, 2} {
			cases = append(cases, in{Flags: uint16(b2<<8 | 0x80), Size: 512, TcpMode: c17TcpAnswers, Runt: rn})
		}
	}
	// a history of failed TCP retries (1, 15, 16, 17, 40 of them), then the TCP side is back
	for _, k := range []int{1, 15, 16, 17, 40} {
		for _, fl := range []uint16{0x8380, 0x8180, 0x0200, 0xFFFF} {
			cases = append(cases, in{Flags: fl, Size: 512, TcpMode: c17TcpAnswers, WarmFail: k})
		}
	}
	res.Bounds["history"] = "1/15/16/17/40 earlier exchanges whose TCP retry was refused, then a working TCP side; a first TCP answer that arrives after the deadline of the exchange that asked for it, then another truncated exchange"
	res.Bounds["warm"] = "after an earlier exchange of the same kind: all 256 values of byte 2 x sizes x TCP side {answers, fails mid-exchange, pooled connection closed by the server on reuse}"
	res.Bounds["socks5"] = "Opt.Socks5 set: all 256 values of byte 2 x sizes x TCP behaviours"
	res.Bounds["sizes"] = c17Sizes
	res.Bounds["tcp_side"] = []string{"answers", "refuses connection", "fails mid-exchange"}
	for i, c := range cases {
		if !e.Mine(int64(i)) {
			continue
		}
		if i&0x3ff == 0 && e.Expired() {
			res.Exhaustive = false
			res.Notes = append(res.Notes, fmt.Sprintf("budget expired at case %d of %d", i, len(cases)))
			break
		}
		k, o, d := runOne(c)
		res.Evaluations++
		res.States++
		res.Outcome(k)
		if res.Evaluations%5000 == 1 {
			res.Sample(c)
		}
		if o != "" {
			res.ViolateInput("udpfallback/"+o, d, c)
		}
	}
	res.Write(e)
}

// part b: schedules
func TestVerifC17b(t *testing.T) {
	e := vr.GetEnv()
	d := 2
	if e.Tier == "thorough" {
		d = 3
	}
	var sys *c17sys
	flagsMenu := []uint16{0x0200, 0x8180, 0x8380, 0xFDFF}
	sc := vr.Scenario{Name: "udpfallback-schedules", P: d, D: d, Horizon: time.Minute,
		Body: func() {
			sys = &c17sys{}
			sys.flags = flagsMenu[vs.Choose(len(flagsMenu))]
			sys.size = c17Sizes[vs.Choose(2)]
			sys.tcpMode = vs.Choose(6)
			sys.socks5 = vs.Choose(2) == 1
			sys.warm = vs.Choose(2) == 1
			sys.runt = vs.Choose(2) * 2 // none / an empty datagram
			sys.run()
		},
		Check: func(x *vs.Exec) (string, *vs.Violation) {
			k, o, dsc := sys.judge(x)
			if o != "" {
				return k, &vs.Violation{Sig: "udpfallback-schedules/" + o, Desc: dsc}
			}
			return k, nil
		}}
	vr.RunScenarios("C17", []vr.Scenario{sc})
}
