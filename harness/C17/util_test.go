package upstream

import "encoding/json"

func jsonUnmarshal(b []byte, v any) error { return json.Unmarshal(b, v) }
