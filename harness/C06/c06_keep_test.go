package sequence

import (
	"bytes"
	"encoding/json"
	"flag"
	"fmt"
	"os"
	"os/exec"
	"path/filepath"
	"runtime/debug"
	"strings"
	"testing"
	"time"

	"github.com/IrineSistiana/mosdns/v5/zz_verif/vr"
)

// C06 family "keep": a wrapping plugin may keep the continuation it was given
// and run it after its own Exec - and the jump that led to it - has returned
// (the cache plugin does exactly that for its background refresh). "Every time
// it is run ... it executes the same remaining rules": the harness runs every
// kept continuation once more after the whole program has returned, on a copy
// of the query as it was when the continuation was handed over, and compares
// with the reference interpreter, which keeps the stack of pending returns by
// value. All programs of 3 sequences over the alphabet below.

var c06KeepActs = []c06K{c06A, c06Wkeep, c06Wpost, c06Accept, c06Return, c06Jump, c06Goto}

// c06Supervise runs the test in a child process; when the child dies with a
// fatal runtime error the program it was running (left in a mark file) is the
// violation.
func c06Supervise(t *testing.T) {
	dir := t.TempDir()
	mark := filepath.Join(dir, "mark.json")
	timeout := 30 * time.Minute
	if f := flag.Lookup("test.timeout"); f != nil {
		if d, err := time.ParseDuration(f.Value.String()); err == nil && d > time.Minute {
			timeout = d - 30*time.Second
		}
	}
	cmd := exec.Command(os.Args[0], "-test.run", "^TestVerifC06keep$", "-test.timeout", timeout.String(), "-test.v")
	cmd.Env = append(os.Environ(), "VERIF_C06_CHILD=1", "VERIF_C06_MARK="+mark)
	outp := filepath.Join(dir, "child.txt")
	of, err := os.Create(outp)
	if err != nil {
		t.Fatal(err)
	}
	cmd.Stdout, cmd.Stderr = of, of
	runErr := cmd.Run()
	of.Close()
	out, _ := os.ReadFile(outp)
	i := bytes.Index(out, []byte("fatal error:"))
	if runErr == nil || i < 0 || bytes.Contains(out, []byte("INFRA:")) {
		if len(out) > 1<<16 {
			out = out[len(out)-(1<<16):]
		}
		fmt.Printf("%s\n", out)
		if runErr != nil {
			t.Fatalf("child process failed: %v", runErr)
		}
		return
	}
	fatal := strings.SplitN(string(out[i:min(len(out), i+300)]), "\n", 2)[0]
	var in c06Input
	if mb, err := os.ReadFile(mark); err == nil {
		if j := bytes.IndexByte(mb, '\n'); j >= 0 {
			mb = mb[:j]
		}
		json.Unmarshal(mb, &in)
	}
	sig := "keep/fatal-runtime-error"
	desc := fmt.Sprintf("the process died with an unrecoverable runtime error (%s) while a continuation kept by a wrapper was run again after the program had returned (it no longer executes the remaining rules: endless recursion):\n%s", fatal, in.Text)
	if _, ok := vr.ReplayInput(); ok {
		fmt.Printf("REPLAY-VIOLATION property=C06 sig=%s\n  %s\n", sig, strings.ReplaceAll(desc, "\n", "\n  "))
		return
	}
	e := vr.GetEnv()
	res := vr.New("C06", e)
	res.Rule = c06RuleText
	res.Exhaustive = false
	res.Evaluations = 1
	res.Notes = append(res.Notes, "the enumerating child process died with a fatal runtime error; counts of this shard are lost")
	res.ViolateInput(sig, desc, in)
	res.Write(e)
}

func TestVerifC06keep(t *testing.T) {
	if os.Getenv("VERIF_C06_CHILD") == "" {
		c06Supervise(t)
		return
	}
	if p := os.Getenv("VERIF_C06_MARK"); p != "" {
		if f, err := os.OpenFile(p, os.O_CREATE|os.O_WRONLY|os.O_TRUNC, 0o600); err == nil {
			last := 0
			c06Mark = func(space string, pr *c06Prog) {
				b, _ := json.Marshal(c06Input{Space: space, Prog: *pr, Text: c06ProgText(pr)})
				b = append(b, '\n')
				n := len(b)
				for len(b) < last {
					b = append(b, ' ')
				}
				last = n
				f.WriteAt(b, 0)
			}
		}
	}
	debug.SetMaxStack(64 << 20) // a runaway recursion ends soon
	if in, ok := vr.ReplayInput(); ok {
		c06Replay(in)
		return
	}
	e := vr.GetEnv()
	debug.SetGCPercent(1600)
	res := vr.New("C06", e)
	res.Rule = c06RuleText
	maxN := 4
	if e.Tier == "thorough" {
		maxN = 5
	}
	res.Bounds["keep_max_total_rules"] = maxN
	res.Bounds["keep_rule_alphabet"] = "action {a, wkeep, wpost, accept, return, jump t, goto t} + {matcher E, a}; at most 3 continuations are kept per program, each is run once more after the program returned"
	w := c06NewWorld()
	var unit int64
	r := &c06Runner{w: w, res: res, space: "keep"}
	covered, exp, done := r.controlFlow(e, c06KeepActs, false, maxN, false, &unit)
	res.Bounds["keep_programs"] = exp
	if res.Infra == "" && done && unit != exp {
		res.Infra = fmt.Sprintf("enumeration count mismatch: keep %d/%d", unit, exp)
	}
	if !done {
		res.Exhaustive = false
		if len(res.Violations) == 0 || e.Expired() {
			res.Notes = append(res.Notes, fmt.Sprintf("shard %d: budget expired; keep family fully covered up to n=%d total rules", e.Shard, covered))
		}
	}
	res.Write(e)
}
