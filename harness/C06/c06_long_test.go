package sequence

import (
	"fmt"
	"testing"

	"github.com/IrineSistiana/mosdns/v5/zz_verif/vr"
)

// C06 family "long": rules with many matchers. "Evaluates each rule's matchers
// left to right stopping at the first that is false (after applying '!'
// negation)" has no bound on the number of matchers: rules of 1..maxLen
// matchers, all true except that one or two positions are varied over
// {T, F, E} x {plain, negated}; a second rule shows whether the walk went on.

func TestVerifC06long(t *testing.T) {
	if in, ok := vr.ReplayInput(); ok {
		c06Replay(in)
		return
	}
	e := vr.GetEnv()
	res := vr.New("C06", e)
	res.Rule = c06RuleText
	var lens []int
	if e.Tier == "thorough" {
		for n := 1; n <= 200; n++ {
			lens = append(lens, n)
		}
		lens = append(lens, 255, 256, 257, 300)
	} else {
		lens = []int{1, 2, 7, 8, 9, 15, 16, 17, 31, 32, 33, 63, 64, 65, 66, 100, 127, 128, 129, 130}
	}
	res.Bounds["long.matchers_per_rule"] = lens
	res.Bounds["long.varied"] = "one position p in {0, 1, n/2, n-2, n-1, 62, 63, 64, 65} takes every value of {T, F, E} x {plain, !}, all other matchers are T; and pairs (p, n-1) of such positions"
	w := c06NewWorld()
	r := &c06Runner{w: w, res: res, space: "long"}
	vals := []c06Match{{V: "T"}, {V: "F"}, {V: "E"}, {V: "T", Neg: true}, {V: "F", Neg: true}, {V: "E", Neg: true}}
	var unit int64
	run := func(ms []c06Match) bool {
		unit++
		if !e.Mine(unit) {
			return true
		}
		if unit&63 == 0 && e.Expired() {
			return false
		}
		var p c06Prog
		p.Seqs[2] = []c06Rule{{M: ms, A: c06Act{K: c06A}}, {A: c06Act{K: c06A}}}
		r.runCase(&p, c06ArgsOf(&p), false)
		return res.Infra == ""
	}
	done := true
outer:
	for _, n := range lens {
		pos := map[int]bool{}
		for _, p := range []int{0, 1, n / 2, n - 2, n - 1, 62, 63, 64, 65} {
			if p >= 0 && p < n {
				pos[p] = true
			}
		}
		for p := range pos {
			for _, v := range vals {
				ms := make([]c06Match, n)
				for i := range ms {
					ms[i] = c06Match{V: "T"}
				}
				ms[p] = v
				if !run(ms) {
					done = false
					break outer
				}
				if p != n-1 {
					for _, v2 := range vals {
						ms2 := append([]c06Match(nil), ms...)
						ms2[n-1] = v2
						if !run(ms2) {
							done = false
							break outer
						}
					}
				}
			}
		}
	}
	res.Bounds["long.programs"] = unit
	if !done {
		res.Exhaustive = false
		res.Notes = append(res.Notes, fmt.Sprintf("shard %d: budget expired in the long-rule family", e.Shard))
	}
	res.Write(e)
}
