package sequence

// C06: sequences execute exactly as their rules say.
//
// Bounded-exhaustive enumeration of sequence PROGRAMS (three sequences s0, s1,
// s2; s2 is the entry; a sequence may jump/goto only to a sequence that was
// loaded before it, the only references the plugin loader can resolve). Every
// program is rendered to rule TEXT, built by the real loader entry point
// (Init -> NewSequence -> parseArgs/parseMatch/parseExec -> buildChain), run on
// the real ChainWalker with recording fake plugins, and compared with a naive
// reference interpreter (explicit return stack, written from the property
// statement) that runs on the program AST.
//
// Oracle: identical ordered trace of matcher/action invocations (each event
// carries the site label "s<seq>r<rule>[m<matcher>]" that went through the
// real argument parser), same final response (absent / rcode), same
// error-or-not (and the reported error is the one the failing plugin returned).

import (
	"context"
	"encoding/json"
	"errors"
	"fmt"
	"os"
	"os/exec"
	"path/filepath"
	"runtime/debug"
	"strconv"
	"strings"
	"sync"
	"testing"

	"github.com/IrineSistiana/mosdns/v5/coremain"
	"github.com/IrineSistiana/mosdns/v5/pkg/query_context"
	"github.com/IrineSistiana/mosdns/v5/zz_verif/vr"
	"github.com/miekg/dns"
)

// ---------------------------------------------------------------------------
// program AST

type c06K uint8

const (
	c06A       c06K = iota // plain action: records
	c06Aerr                // plain action: records, then fails
	c06Wcont               // wrapper: records, runs the continuation once
	c06Wstop               // wrapper: records, does not run the continuation
	c06Wpost               // wrapper: runs the continuation, then records what it sees
	c06Wtwice              // wrapper: runs the continuation twice on the same query
	c06Wcopies             // wrapper: runs the continuation on two copies, one after the other
	c06Wpar                // wrapper: runs the continuation on two copies concurrently
	c06Wkeep               // wrapper: runs the continuation once and KEEPS it: the harness runs it again (on a copy of the query as it was) after the whole program has returned
	c06Accept
	c06Reject
	c06Return
	c06Jump
	c06Goto
	c06NK
)

var c06KNames = [...]string{"a", "aerr", "wcont", "wstop", "wpost", "wtwice", "wcopies", "wpar", "wkeep", "accept", "reject", "return", "jump", "goto"}

func (k c06K) String() string               { return c06KNames[k] }
func (k c06K) MarshalText() ([]byte, error) { return []byte(c06KNames[k]), nil }
func (k *c06K) UnmarshalText(b []byte) error {
	for i, n := range c06KNames {
		if n == string(b) {
			*k = c06K(i)
			return nil
		}
	}
	return fmt.Errorf("unknown action kind %q", b)
}
func (k c06K) builtin() bool { return k >= c06Accept }
func (k c06K) wrapper() bool { return k >= c06Wcont && k <= c06Wkeep }

// c06Match is one entry of a rule's matcher list.
//
//	V:  'T' matches, 'F' does not match, 'E' returns an error
//	St: how it is written: 0 "$mt <label>" (plugin tag), 1 "vmt <label>" (registered
//	    matcher type), 2 plugin tag with extra blanks, 3 built-in _true/_false (does not record)
type c06Match struct {
	V   string `json:"v"`
	Neg bool   `json:"neg,omitempty"`
	St  int    `json:"st,omitempty"`
}

// c06Act: St 0 "$a <label>" / "jump s0", 1 "va <label>" (registered type; built-ins: same as 0),
// 2 extra blanks.
type c06Act struct {
	K  c06K `json:"k"`
	To int  `json:"to,omitempty"`
	St int  `json:"st,omitempty"`
}

type c06Rule struct {
	M []c06Match `json:"m,omitempty"`
	A c06Act     `json:"a"`
}

type c06Prog struct {
	Seqs [3][]c06Rule `json:"seqs"`
}

const c06Entry = 2

func c06Label(s, i int) string { return "s" + strconv.Itoa(s) + "r" + strconv.Itoa(i) }

// rcode a reject rule at (s,i) is configured with; the first rule of the entry
// sequence uses the bare "reject" (default REFUSED).
func c06RejectCode(s, i int) (code int, arg string) {
	if s == c06Entry && i == 0 {
		return dns.RcodeRefused, ""
	}
	c := 100 + 10*s + i
	return c, strconv.Itoa(c)
}

// ---------------------------------------------------------------------------
// rendering to rule text (what a user writes in the config)

func c06MatchText(m c06Match, label string) string {
	low := strings.ToLower(m.V)
	var s string
	switch m.St {
	case 0:
		s = "$m" + low + " " + label
		if m.Neg {
			s = "!" + s
		}
	case 1:
		s = "vm" + low + " " + label
		if m.Neg {
			s = "!" + s
		}
	case 2:
		s = "$m" + low + "   " + label + " "
		if m.Neg {
			s = " !  " + s
		} else {
			s = "  " + s
		}
	case 3:
		if m.V == "T" {
			s = "_true"
		} else {
			s = "_false"
		}
		if m.Neg {
			s = " ! " + s + " "
		}
	}
	return s
}

func c06ActText(a c06Act, s, i int) string {
	var t string
	switch {
	case !a.K.builtin():
		switch a.St {
		case 0:
			t = "$" + a.K.String() + " " + c06Label(s, i)
		case 1:
			t = "v" + a.K.String() + " " + c06Label(s, i)
		default:
			t = "  $" + a.K.String() + "    " + c06Label(s, i) + "  "
		}
		return t
	case a.K == c06Reject:
		_, arg := c06RejectCode(s, i)
		t = "reject"
		if arg != "" {
			t += " " + arg
		}
	case a.K == c06Jump || a.K == c06Goto:
		t = a.K.String() + " s" + strconv.Itoa(a.To)
	default:
		t = a.K.String()
	}
	if a.St == 2 {
		t = "  " + strings.Replace(t, " ", "    ", 1) + " "
	}
	return t
}

func c06RuleArgs(r c06Rule, s, i int) RuleArgs {
	ra := RuleArgs{Exec: c06ActText(r.A, s, i)}
	for j, m := range r.M {
		ra.Matches = append(ra.Matches, c06MatchText(m, c06Label(s, i)+"m"+strconv.Itoa(j)))
	}
	return ra
}

func c06ProgText(p *c06Prog) string {
	var sb strings.Builder
	for s := 0; s < 3; s++ {
		fmt.Fprintf(&sb, "s%d:", s)
		for i, r := range p.Seqs[s] {
			ra := c06RuleArgs(r, s, i)
			fmt.Fprintf(&sb, " {matches:%q exec:%q}", ra.Matches, ra.Exec)
		}
		sb.WriteString("\n")
	}
	return sb.String()
}

// ---------------------------------------------------------------------------
// trace (shared event formatting; one trace per query context / copy)

const c06TraceCap = 1 << 16

type c06Runaway struct{}

type c06Trace struct{ b []byte }

func (t *c06Trace) add(parts ...string) {
	for _, p := range parts {
		t.b = append(t.b, p...)
	}
	if len(t.b) > c06TraceCap {
		panic(c06Runaway{})
	}
}

func c06RespStr(r int) string {
	if r < 0 {
		return "-"
	}
	return strconv.Itoa(r)
}

func c06B(b bool) string {
	if b {
		return "1"
	}
	return "0"
}

func (t *c06Trace) evMatch(v, label string)  { t.add("m", v, "@", label, ";") }
func (t *c06Trace) evPlain(k c06K, l string) { t.add(k.String(), "@", l, ";") }
func (t *c06Trace) evOpen(k c06K, l string)  { t.add(k.String(), "@", l, "(") }
func (t *c06Trace) evPostClose(l string, resp int, failed bool) {
	t.add(")wpost@", l, ":r=", c06RespStr(resp), ":e=", c06B(failed), ";")
}
func (t *c06Trace) evCopy(sub *c06Trace, resp int, failed bool) {
	t.add("{")
	t.b = append(t.b, sub.b...)
	t.add("}r=", c06RespStr(resp), ":e=", c06B(failed))
}

// c06Err is the error a failing fake returns (comparable: errors.Is works by value).
type c06Err struct{ site string }

func (e c06Err) Error() string { return "c06 injected failure at " + e.site }

// ---------------------------------------------------------------------------
// fake plugins for the REAL run

var c06Key = query_context.RegKey()

func c06TraceOf(q *query_context.Context) *c06Trace {
	v, _ := q.GetValue(c06Key)
	return v.(*c06Trace)
}

func c06RealResp(q *query_context.Context) int {
	if r := q.R(); r != nil {
		return r.Rcode
	}
	return -1
}

type c06FM struct {
	v     string
	label string
}

func (m *c06FM) Match(_ context.Context, q *query_context.Context) (bool, error) {
	c06TraceOf(q).evMatch(m.v, m.label)
	switch m.v {
	case "T":
		return true, nil
	case "F":
		return false, nil
	}
	return true, c06Err{"m@" + m.label}
}

func (m *c06FM) QuickConfigureMatch(args string) (Matcher, error) {
	return &c06FM{v: m.v, label: args}, nil
}

type c06FE struct {
	k     c06K
	label string
}

func (f *c06FE) Exec(_ context.Context, q *query_context.Context) error {
	c06TraceOf(q).evPlain(f.k, f.label)
	if f.k == c06Aerr {
		return c06Err{"a@" + f.label}
	}
	return nil
}

type c06FW struct {
	k     c06K
	label string
}

// continuations kept by wkeep wrappers (like the cache plugin keeps the rest of
// the chain for its background refresh): run once more after the program returned
const c06KeepMax = 3

var c06KeepKey = query_context.RegKey()

type c06Kept struct {
	label string
	next  ChainWalker
	q     *query_context.Context
}

type c06KeptList struct {
	items  []c06Kept
	frozen bool
}

func (f *c06FW) Exec(ctx context.Context, q *query_context.Context, next ChainWalker) error {
	t := c06TraceOf(q)
	switch f.k {
	case c06Wcont:
		t.evPlain(f.k, f.label)
		return next.ExecNext(ctx, q)
	case c06Wstop:
		t.evPlain(f.k, f.label)
		return nil
	case c06Wkeep:
		t.evPlain(f.k, f.label)
		if l, _ := q.GetValue(c06KeepKey); l != nil {
			if kl := l.(*c06KeptList); !kl.frozen && len(kl.items) < c06KeepMax {
				kl.items = append(kl.items, c06Kept{label: f.label, next: next, q: q.Copy()})
			}
		}
		return next.ExecNext(ctx, q)
	case c06Wpost:
		t.evOpen(f.k, f.label)
		err := next.ExecNext(ctx, q)
		t.evPostClose(f.label, c06RealResp(q), err != nil)
		return err
	case c06Wtwice:
		t.evOpen(f.k, f.label)
		if err := next.ExecNext(ctx, q); err != nil {
			t.add("!);")
			return err
		}
		t.add("|")
		err := next.ExecNext(ctx, q)
		t.add(");")
		return err
	case c06Wcopies, c06Wpar:
		var cs [2]*query_context.Context
		var ts [2]*c06Trace
		var errs [2]error
		var pan [2]any
		for i := range cs {
			cs[i] = q.Copy()
			ts[i] = &c06Trace{}
			cs[i].StoreValue(c06Key, ts[i])
		}
		if f.k == c06Wcopies {
			errs[0] = next.ExecNext(ctx, cs[0])
			errs[1] = next.ExecNext(ctx, cs[1])
		} else {
			var wg sync.WaitGroup
			for i := range cs {
				wg.Add(1)
				go func() {
					defer wg.Done()
					defer func() { pan[i] = recover() }()
					errs[i] = next.ExecNext(ctx, cs[i])
				}()
			}
			wg.Wait()
			for _, p := range pan {
				if p != nil {
					panic(p)
				}
			}
		}
		t.add(f.k.String(), "@", f.label)
		t.evCopy(ts[0], c06RealResp(cs[0]), errs[0] != nil)
		t.evCopy(ts[1], c06RealResp(cs[1]), errs[1] != nil)
		t.add(";")
		if errs[0] != nil {
			return errs[0]
		}
		return errs[1]
	}
	panic("c06: bad wrapper kind")
}

// c06Cfg is what is registered under a plugin tag: "$a <label>" configures a
// site-bound instance through QuickConfigureExec.
type c06Cfg struct{ k c06K }

func (c *c06Cfg) QuickConfigureExec(args string) (any, error) { return c06NewExec(c.k, args), nil }

func c06NewExec(k c06K, label string) any {
	if k.wrapper() {
		return &c06FW{k: k, label: label}
	}
	return &c06FE{k: k, label: label}
}

var c06RegOnce sync.Once

type c06World struct {
	m  *coremain.Mosdns
	ps map[string]any
}

func c06NewWorld() *c06World {
	c06RegOnce.Do(func() {
		for k := c06A; k <= c06Wkeep; k++ {
			MustRegExecQuickSetup("v"+k.String(), func(_ BQ, args string) (any, error) { return c06NewExec(k, args), nil })
		}
		for _, v := range []string{"T", "F", "E"} {
			MustRegMatchQuickSetup("vm"+strings.ToLower(v), func(_ BQ, args string) (Matcher, error) { return &c06FM{v: v, label: args}, nil })
		}
	})
	w := &c06World{ps: map[string]any{}}
	for k := c06A; k <= c06Wkeep; k++ {
		w.ps[k.String()] = &c06Cfg{k: k}
	}
	for _, v := range []string{"T", "F", "E"} {
		w.ps["m"+strings.ToLower(v)] = &c06FM{v: v}
	}
	w.m = coremain.NewTestMosdnsWithPlugins(w.ps)
	return w
}

var c06SeqTags = [3]string{"s0", "s1", "s2"}

// build loads the three sequences in order through the function the plugin
// loader calls (Init); each becomes visible to later ones only.
func (w *c06World) build(args *[3]Args) (*Sequence, error) {
	for _, tag := range c06SeqTags {
		delete(w.ps, tag)
	}
	var last *Sequence
	for s, tag := range c06SeqTags {
		a := args[s]
		v, err := Init(coremain.NewBP(tag, w.m), &a)
		if err != nil {
			return nil, fmt.Errorf("sequence %s: %w", tag, err)
		}
		w.ps[tag] = v
		last = v.(*Sequence)
	}
	return last, nil
}

type c06Obs struct {
	trace    string
	resp     int
	err      error
	panicked string
}

func c06RunReal(seq *Sequence) (obs c06Obs) {
	q := new(dns.Msg)
	q.Id = 0x0c06
	q.RecursionDesired = true
	q.Question = []dns.Question{{Name: "c06.test.", Qtype: dns.TypeA, Qclass: dns.ClassINET}}
	qc := query_context.NewContext(q)
	t := &c06Trace{}
	qc.StoreValue(c06Key, t)
	defer func() {
		if r := recover(); r != nil {
			obs = c06Obs{trace: string(t.b), resp: c06RealResp(qc), panicked: fmt.Sprint(r)}
			if _, ok := r.(c06Runaway); ok {
				obs.panicked = "runaway execution: trace longer than " + strconv.Itoa(c06TraceCap) + " bytes"
			}
		}
	}()
	kl := &c06KeptList{}
	qc.StoreValue(c06KeepKey, kl)
	err := seq.Exec(context.Background(), qc)
	resp := c06RealResp(qc)
	kl.frozen = true
	for _, it := range kl.items {
		sub := &c06Trace{}
		it.q.StoreValue(c06Key, sub)
		e2 := it.next.ExecNext(context.Background(), it.q)
		t.add("kept@", it.label)
		t.evCopy(sub, c06RealResp(it.q), e2 != nil)
		t.add(";")
	}
	return c06Obs{trace: string(t.b), resp: resp, err: err}
}

// ---------------------------------------------------------------------------
// reference interpreter (from the property statement; knows nothing of ChainWalker)
//
// A position is a stack of frames; the top frame is the sequence being executed,
// the frames below are the pending jump returns. "The rest of the chain" handed
// to a wrapping plugin is such a stack; running it never modifies it.

type c06Frame struct{ s, pc int }

type c06RQ struct {
	resp int
	tr   *c06Trace
}

type c06RefKept struct {
	label string
	st    []c06Frame
	resp  int
}

type c06Ref struct {
	kept     []c06RefKept
	frozen   bool
	p        *c06Prog
	steps    int64 // rule evaluations
	conts    int   // continuation runs started by wrappers
	maxDepth int
	mevals   int // matcher evaluations
}

func (r *c06Ref) run(cont []c06Frame, q *c06RQ) (end string, err error) {
	st := append([]c06Frame(nil), cont...) // private copy
	for {
		if len(st) == 0 {
			return "end", nil // ran off the end with nothing to return to
		}
		if len(st)-1 > r.maxDepth {
			r.maxDepth = len(st) - 1
		}
		top := &st[len(st)-1]
		rules := r.p.Seqs[top.s]
		if top.pc >= len(rules) {
			st = st[:len(st)-1] // end of a sequence: resume after the calling jump
			continue
		}
		s, i := top.s, top.pc
		rule := &rules[i]
		top.pc++ // st is now "everything after this rule"
		r.steps++
		lab := c06Label(s, i)

		matched := true
		for j, m := range rule.M {
			r.mevals++
			if m.St != 3 {
				q.tr.evMatch(m.V, lab+"m"+strconv.Itoa(j))
			}
			if m.V == "E" {
				return "err-matcher", c06Err{"m@" + lab + "m" + strconv.Itoa(j)}
			}
			v := m.V == "T"
			if m.Neg {
				v = !v
			}
			if !v {
				matched = false
				break
			}
		}
		if !matched {
			continue
		}

		switch k := rule.A.K; k {
		case c06A:
			q.tr.evPlain(k, lab)
		case c06Aerr:
			q.tr.evPlain(k, lab)
			return "err-action", c06Err{"a@" + lab}
		case c06Accept:
			return "accept", nil
		case c06Reject:
			q.resp, _ = c06RejectCode(s, i)
			return "reject", nil
		case c06Return:
			st = st[:len(st)-1]
			if len(st) == 0 {
				return "return-top", nil
			}
		case c06Jump:
			st = append(st, c06Frame{rule.A.To, 0})
		case c06Goto:
			st = []c06Frame{{rule.A.To, 0}} // never comes back: pending returns are forgotten
		case c06Wcont:
			q.tr.evPlain(k, lab)
			r.conts++
			return r.run(st, q)
		case c06Wstop:
			q.tr.evPlain(k, lab)
			return "wstop", nil
		case c06Wkeep:
			q.tr.evPlain(k, lab)
			if !r.frozen && len(r.kept) < c06KeepMax {
				r.kept = append(r.kept, c06RefKept{lab, append([]c06Frame(nil), st...), q.resp})
			}
			r.conts++
			return r.run(st, q)
		case c06Wpost:
			q.tr.evOpen(k, lab)
			r.conts++
			end, err := r.run(st, q)
			q.tr.evPostClose(lab, q.resp, err != nil)
			return end, err
		case c06Wtwice:
			q.tr.evOpen(k, lab)
			r.conts++
			if end, err := r.run(st, q); err != nil {
				q.tr.add("!);")
				return end, err
			}
			q.tr.add("|")
			r.conts++
			end, err := r.run(st, q)
			q.tr.add(");")
			return end, err
		case c06Wcopies, c06Wpar:
			c1 := &c06RQ{resp: q.resp, tr: &c06Trace{}}
			c2 := &c06RQ{resp: q.resp, tr: &c06Trace{}}
			r.conts += 2
			_, e1 := r.run(st, c1)
			_, e2 := r.run(st, c2)
			q.tr.add(k.String(), "@", lab)
			q.tr.evCopy(c1.tr, c1.resp, e1 != nil)
			q.tr.evCopy(c2.tr, c2.resp, e2 != nil)
			q.tr.add(";")
			if e1 != nil {
				return "copies-err", e1
			}
			if e2 != nil {
				return "copies-err", e2
			}
			return "copies", nil
		default:
			panic("c06 reference: bad action")
		}
	}
}

type c06RefOut struct {
	obs   c06Obs
	end   string
	steps int64
	conts int
	depth int
	meval int
}

func c06RunRef(p *c06Prog) (out c06RefOut) {
	r := &c06Ref{p: p}
	q := &c06RQ{resp: -1, tr: &c06Trace{}}
	defer func() {
		if x := recover(); x != nil {
			out = c06RefOut{obs: c06Obs{trace: string(q.tr.b), resp: q.resp, panicked: fmt.Sprint(x)}, end: "runaway"}
		}
	}()
	end, err := r.run([]c06Frame{{c06Entry, 0}}, q)
	resp := q.resp
	r.frozen = true
	for _, it := range r.kept {
		c := &c06RQ{resp: it.resp, tr: &c06Trace{}}
		r.conts++
		_, e2 := r.run(it.st, c)
		q.tr.add("kept@", it.label)
		q.tr.evCopy(c.tr, c.resp, e2 != nil)
		q.tr.add(";")
	}
	q.resp = resp
	return c06RefOut{obs: c06Obs{trace: string(q.tr.b), resp: q.resp, err: err}, end: end, steps: r.steps, conts: r.conts, depth: r.maxDepth, meval: r.mevals}
}

// ---------------------------------------------------------------------------
// one case: build, run real, run reference, compare

type c06Input struct {
	Space string  `json:"space"`
	Prog  c06Prog `json:"prog"`
	Text  string  `json:"text"`
}

type c06Runner struct {
	w       *c06World
	res     *vr.Result
	space   string
	sampled map[string]int
}

func c06Bucket(n int) string {
	if n >= 2 {
		return "2+"
	}
	return strconv.Itoa(n)
}

// compare returns "" when real and reference agree, else (oracle, description).
func c06Compare(real, ref c06Obs) (string, string) {
	switch {
	case real.panicked != "":
		return "panic", "the real code panicked: " + real.panicked
	case real.trace != ref.trace:
		return "trace", "the ordered trace of matcher/action invocations differs"
	case (real.err != nil) != (ref.err != nil):
		return "error", fmt.Sprintf("error reported to the caller: real=%v reference=%v", real.err, ref.err)
	case ref.err != nil && !errors.Is(real.err, ref.err) && !strings.Contains(real.err.Error(), ref.err.Error()):
		return "error", fmt.Sprintf("a different error was reported: real=%v reference=%v", real.err, ref.err)
	case real.resp != ref.resp:
		return "response", fmt.Sprintf("final response differs: real=%s reference=%s ('-' = none, else rcode)", c06RespStr(real.resp), c06RespStr(ref.resp))
	}
	return "", ""
}

// c06Mark, when set, is told the program that is about to run (the keep family
// runs in a child process: a kept continuation gone wrong can recurse until the
// runtime kills the process, which cannot be recovered from in-process).
var c06Mark func(space string, p *c06Prog)

func (r *c06Runner) runCase(p *c06Prog, args *[3]Args, verbose bool) bool {
	res := r.res
	if c06Mark != nil {
		c06Mark(r.space, p)
	}
	ref := c06RunRef(p)
	if ref.end == "runaway" {
		res.Infra = "reference interpreter ran away on " + c06ProgText(p)
		return false
	}
	seq, berr := r.w.build(args)
	res.Evaluations++
	res.States++
	res.Transitions += ref.steps
	class := r.space + "/" + ref.end + "/depth" + strconv.Itoa(ref.depth) + "/contruns" + c06Bucket(ref.conts)
	if r.space != "cf" && r.space != "cc" {
		class = r.space + "/" + ref.end + "/matchers-evaluated" + strconv.Itoa(ref.meval)
	}
	res.Outcome(class)
	var oracle, desc string
	real := c06Obs{resp: -1}
	if berr != nil {
		oracle, desc = "build", "the loader rejected a valid program: "+berr.Error()
	} else {
		real = c06RunReal(seq)
		oracle, desc = c06Compare(real, ref.obs)
		if oracle == "" {
			// History: a built sequence serves every query. The harness plugins keep
			// nothing between queries, so a second query through the same built
			// sequence must be handled exactly like the first one.
			if again := c06RunReal(seq); true {
				if o2, d2 := c06Compare(again, ref.obs); o2 != "" {
					oracle, desc, real = "second-run-"+o2, "second query through the same built sequence: "+d2, again
				}
			}
		}
	}
	if verbose {
		fmt.Printf("program:\n%s", c06ProgText(p))
		fmt.Printf("reference: end=%s trace=%q response=%s err=%v\n", ref.end, ref.obs.trace, c06RespStr(ref.obs.resp), ref.obs.err)
		if berr == nil {
			fmt.Printf("real:      trace=%q response=%s err=%v panic=%q\n", real.trace, c06RespStr(real.resp), real.err, real.panicked)
		} else {
			fmt.Printf("real:      build error %v\n", berr)
		}
	}
	if len(res.Samples) < 6 && r.sampled[r.space] < 2 {
		interesting := ref.depth >= 1 && ref.conts >= 1 && ref.steps >= 4
		if r.space == "m2" || r.space == "mt" {
			interesting = ref.meval >= 3 && ref.steps >= 2
		}
		if interesting {
			if r.sampled == nil {
				r.sampled = map[string]int{}
			}
			r.sampled[r.space]++
			res.Sample(map[string]any{"space": r.space, "program": c06ProgText(p), "trace": ref.obs.trace, "end": ref.end,
				"response": c06RespStr(ref.obs.resp), "error": ref.obs.err != nil})
		}
	}
	if oracle == "" {
		return true
	}
	text := c06ProgText(p)
	d := fmt.Sprintf("%s\nprogram (entry s2):\n%sreal trace:      %q\nreference trace: %q\nreal: response=%s err=%v\nreference: response=%s err=%v (terminates by %s)",
		desc, text, real.trace, ref.obs.trace, c06RespStr(real.resp), real.err, c06RespStr(ref.obs.resp), ref.obs.err, ref.end)
	before := len(res.Violations)
	icls := "no-wrapper" // input class: did a wrapping plugin run a continuation?
	if ref.conts > 0 {
		icls = "continuation"
	}
	res.ViolateInput(r.space+"/"+oracle+"/"+icls, d, c06Input{Space: r.space, Prog: *p, Text: text})
	if len(res.Violations) > before { // the merge keeps the cheapest (= shortest) program per signature
		res.Violations[before].Cost = len(p.Seqs[0]) + len(p.Seqs[1]) + len(p.Seqs[2])
	}
	return false
}

func c06ArgsOf(p *c06Prog) *[3]Args {
	var a [3]Args
	for s := range p.Seqs {
		a[s] = make(Args, 0, len(p.Seqs[s]))
		for i, r := range p.Seqs[s] {
			a[s] = append(a[s], c06RuleArgs(r, s, i))
		}
	}
	return &a
}

// ---------------------------------------------------------------------------
// space 1: control flow ("cf") and its concurrent variant ("cc")

// shapes of a rule in sequence s: matcher {none, F} x action, plus one rule whose matcher errors.
func c06Shapes(s int, acts []c06K, withFalse bool) []c06Rule {
	var al []c06Act
	for _, k := range acts {
		if k == c06Jump || k == c06Goto {
			for t := 0; t < s; t++ {
				al = append(al, c06Act{K: k, To: t})
			}
			continue
		}
		al = append(al, c06Act{K: k})
	}
	var out []c06Rule
	for _, a := range al {
		out = append(out, c06Rule{A: a})
	}
	if withFalse {
		for _, a := range al {
			out = append(out, c06Rule{M: []c06Match{{V: "F"}}, A: a})
		}
	}
	out = append(out, c06Rule{M: []c06Match{{V: "E"}}, A: c06Act{K: c06A}})
	return out
}

// place fixes the text style of a shape by its position: (s+i) even -> plugin
// tag form, odd -> registered type form / blank-padded built-in.
func c06Place(r c06Rule, s, i int) c06Rule {
	odd := (s+i)%2 == 1
	o := c06Rule{A: r.A}
	if odd {
		if r.A.K.builtin() {
			o.A.St = 2
		} else {
			o.A.St = 1
		}
	}
	for _, m := range r.M {
		if odd {
			m.St = 1
		}
		o.M = append(o.M, m)
	}
	return o
}

var c06CfActs = []c06K{c06A, c06Aerr, c06Wcont, c06Wstop, c06Wpost, c06Wtwice, c06Wcopies, c06Accept, c06Reject, c06Return, c06Jump, c06Goto}
var c06CcActs = []c06K{c06A, c06Aerr, c06Wpar, c06Wpost, c06Wtwice, c06Accept, c06Reject, c06Return, c06Jump, c06Goto}

func c06Pow(b, e int) int64 {
	r := int64(1)
	for ; e > 0; e-- {
		r *= int64(b)
	}
	return r
}

// enumerates all programs with n total rules (entry non-empty unless n==0);
// returns false when the budget expired or a fatal condition occurred.
func (r *c06Runner) controlFlow(e vr.Env, acts []c06K, withFalse bool, maxN int, needPar bool, unit *int64) (covered int, expected int64, done bool) {
	var shapes [3][]c06Rule
	for s := 0; s < 3; s++ {
		shapes[s] = c06Shapes(s, acts, withFalse)
	}
	// tables: placed rule + rendered text by (sequence, index, shape)
	type cell struct {
		rule c06Rule
		args RuleArgs
	}
	var tab [3][][]cell
	for s := 0; s < 3; s++ {
		tab[s] = make([][]cell, maxN)
		for i := 0; i < maxN; i++ {
			for _, sh := range shapes[s] {
				pr := c06Place(sh, s, i)
				tab[s][i] = append(tab[s][i], cell{pr, c06RuleArgs(pr, s, i)})
			}
		}
	}
	covered = -1
	var evals int64
	for n := 0; n <= maxN; n++ {
		for k2 := 0; k2 <= n; k2++ {
			if k2 == 0 && n > 0 {
				continue
			}
			for k1 := 0; k1 <= n-k2; k1++ {
				k := [3]int{n - k2 - k1, k1, k2}
				expected += c06Pow(len(shapes[0]), k[0]) * c06Pow(len(shapes[1]), k[1]) * c06Pow(len(shapes[2]), k[2])
				// positions in enumeration order: entry sequence first (its first rule varies slowest)
				var pos [][2]int
				for _, s := range []int{2, 1, 0} {
					for i := 0; i < k[s]; i++ {
						pos = append(pos, [2]int{s, i})
					}
				}
				idx := make([]int, n)
				for {
					if e.Mine(*unit) {
						var p c06Prog
						var args [3]Args
						par := false
						for j, ps := range pos {
							c := &tab[ps[0]][ps[1]][idx[j]]
							p.Seqs[ps[0]] = append(p.Seqs[ps[0]], c.rule)
							args[ps[0]] = append(args[ps[0]], c.args)
							par = par || c.rule.A.K == c06Wpar
						}
						if !needPar || par {
							r.runCase(&p, &args, false)
							evals++
							if r.res.Infra != "" {
								return covered, expected, false
							}
							if evals&1023 == 0 && e.Expired() {
								return covered, expected, false
							}
						}
					}
					*unit++
					j := n - 1
					for ; j >= 0; j-- {
						idx[j]++
						if idx[j] < len(shapes[pos[j][0]]) {
							break
						}
						idx[j] = 0
					}
					if j < 0 {
						break
					}
				}
			}
		}
		covered = n
	}
	return covered, expected, true
}

// ---------------------------------------------------------------------------
// space 2: matcher semantics

func c06Lists(atoms []c06Match, maxLen int) [][]c06Match {
	out := [][]c06Match{nil}
	prev := [][]c06Match{nil}
	for l := 1; l <= maxLen; l++ {
		var cur [][]c06Match
		for _, p := range prev {
			for _, a := range atoms {
				cur = append(cur, append(append([]c06Match(nil), p...), a))
			}
		}
		out = append(out, cur...)
		prev = cur
	}
	return out
}

// "m2": entry sequence of one or two rules, each = list(<=3 over T F E !T !F !E) x {plain, wrapper}.
func (r *c06Runner) matcherCore(e vr.Env, unit *int64) (expected int64, done bool) {
	var atoms []c06Match
	for _, neg := range []bool{false, true} {
		for _, v := range []string{"T", "F", "E"} {
			atoms = append(atoms, c06Match{V: v, Neg: neg})
		}
	}
	lists := c06Lists(atoms, 3)
	var rules []c06Rule
	for _, l := range lists {
		for _, k := range []c06K{c06A, c06Wcont} {
			rules = append(rules, c06Rule{M: l, A: c06Act{K: k}})
		}
	}
	nr := int64(len(rules))
	expected = nr + nr*nr
	var evals int64
	run := func(p *c06Prog) bool {
		if e.Mine(*unit) {
			r.runCase(p, c06ArgsOf(p), false)
			evals++
			if r.res.Infra != "" || (evals&1023 == 0 && e.Expired()) {
				return false
			}
		}
		*unit++
		return true
	}
	for _, a := range rules {
		p := c06Prog{}
		p.Seqs[c06Entry] = []c06Rule{a}
		if !run(&p) {
			return expected, false
		}
	}
	for _, a := range rules {
		for _, b := range rules {
			p := c06Prog{}
			p.Seqs[c06Entry] = []c06Rule{a, c06Place(b, c06Entry, 1)}
			if !run(&p) {
				return expected, false
			}
		}
	}
	return expected, true
}

// "mt": rule TEXT variants. One rule with a matcher list over every spelling
// (plugin tag, registered type, blank-padded, built-in _true/_false, each plain
// and negated) x five action spellings, followed by a witness rule "$a s2r1".
func (r *c06Runner) matcherText(e vr.Env, maxLen int, unit *int64) (expected int64, done bool) {
	var atoms []c06Match
	for st := 0; st <= 3; st++ {
		for _, neg := range []bool{false, true} {
			for _, v := range []string{"T", "F", "E"} {
				if st == 3 && v == "E" {
					continue
				}
				atoms = append(atoms, c06Match{V: v, Neg: neg, St: st})
			}
		}
	}
	lists := c06Lists(atoms, maxLen)
	acts := []c06Act{{K: c06A, St: 0}, {K: c06A, St: 1}, {K: c06A, St: 2}, {K: c06Wpost, St: 0}, {K: c06Wcont, St: 1}}
	expected = int64(len(lists) * len(acts))
	var evals int64
	for _, l := range lists {
		for _, a := range acts {
			if e.Mine(*unit) {
				p := c06Prog{}
				p.Seqs[c06Entry] = []c06Rule{{M: l, A: a}, {A: c06Act{K: c06A}}}
				r.runCase(&p, c06ArgsOf(&p), false)
				evals++
				if r.res.Infra != "" || (evals&1023 == 0 && e.Expired()) {
					return expected, false
				}
			}
			*unit++
		}
	}
	return expected, true
}

// ---------------------------------------------------------------------------
// tests

const c06RuleText = "one evaluation = one sequence program (3 sequences, entry s2) rendered to rule text, loaded through Init/NewSequence/parseArgs and executed once on the real ChainWalker with recording fake plugins, compared with the reference interpreter (trace, response, error); states = distinct programs, transitions = rule evaluations; an outcome class = space / how the program terminates (end, accept, reject, return-top, wstop, err-matcher, err-action, copies...) / deepest jump nesting / how often wrappers ran a continuation (spaces cf and cc; cc = programs with a wrapper running the continuation concurrently on two copies, race-detector build), or space / termination / number of matcher evaluations (matcher spaces m2, mt)"

func c06Replay(in json.RawMessage) {
	var ci c06Input
	if err := json.Unmarshal(in, &ci); err != nil {
		fmt.Println("INFRA: bad replay input:", err)
		os.Exit(2)
	}
	e := vr.GetEnv()
	res := vr.New("C06", e)
	r := &c06Runner{w: c06NewWorld(), res: res, space: ci.Space}
	ok := r.runCase(&ci.Prog, c06ArgsOf(&ci.Prog), true)
	if res.Infra != "" {
		fmt.Println("INFRA:", res.Infra)
		os.Exit(2)
	}
	if ok {
		fmt.Println("REPLAY-OK: real code and reference interpreter agree on this program")
		return
	}
	v := res.Violations[0]
	fmt.Printf("REPLAY-VIOLATION property=C06 sig=%s\n  %s\n", v.Sig, strings.ReplaceAll(v.Desc, "\n", "\n  "))
}

func TestVerifC06(t *testing.T) {
	if in, ok := vr.ReplayInput(); ok {
		c06Replay(in)
		return
	}
	e := vr.GetEnv()
	debug.SetGCPercent(1600) // the loader allocates a lot per program; the live heap is tiny
	res := vr.New("C06", e)
	res.Rule = c06RuleText
	maxN, maxTxt := 4, 3
	if e.Tier == "thorough" {
		maxN, maxTxt = 5, 4
	}
	res.Bounds["sequences"] = 3
	res.Bounds["references"] = "jump/goto from s1 to s0, from s2 to s0 or s1 (the loader resolves earlier plugins only); entry s2, non-empty"
	res.Bounds["cf_max_total_rules"] = maxN
	res.Bounds["cf_rule_alphabet"] = "matcher {none, F} x action {a, aerr, wcont, wstop, wpost, wtwice, wcopies, accept, reject[ code], return, jump t, goto t} + {matcher E, a}: 21 shapes in s0, 25 in s1, 29 in s2; text style alternates with position (plugin tag '$a lbl' / registered type 'va lbl' / blank-padded built-ins)"
	res.Bounds["m2"] = "entry sequence of 1..2 rules; rule = matcher list (length<=3 over T F E !T !F !E) x {plain a, wrapper wcont}"
	res.Bounds["mt"] = fmt.Sprintf("1 rule: matcher list (length<=%d over 22 spellings: {T,F,E}x{plain,!}x{'$m lbl','vm lbl','  $m   lbl '} + _true _false ' ! _true ' ' ! _false ') x 5 action spellings, + witness rule", maxTxt)

	w := c06NewWorld()
	var unit int64
	r := &c06Runner{w: w, res: res, space: "m2"}
	exp2, done2 := r.matcherCore(e, &unit)
	u2 := unit
	r.space = "mt"
	expT, doneT := r.matcherText(e, maxTxt, &unit)
	uT := unit - u2
	r.space = "cf"
	unit0 := unit
	covered, expCf, doneCf := r.controlFlow(e, c06CfActs, true, maxN, false, &unit)
	res.Bounds["m2_programs"] = exp2
	res.Bounds["mt_programs"] = expT
	res.Bounds["cf_programs"] = expCf
	if res.Infra == "" {
		if (done2 && u2 != exp2) || (doneT && uT != expT) || (doneCf && unit-unit0 != expCf) {
			res.Infra = fmt.Sprintf("enumeration count mismatch: m2 %d/%d mt %d/%d cf %d/%d", u2, exp2, uT, expT, unit-unit0, expCf)
		}
	}
	if !done2 || !doneT || !doneCf {
		res.Exhaustive = false
		if len(res.Violations) == 0 || e.Expired() {
			res.Notes = append(res.Notes, fmt.Sprintf("shard %d: budget expired; matcher spaces complete: m2=%v mt=%v; control-flow space fully covered up to n=%d total rules (n=%d partial)", e.Shard, done2, doneT, covered, covered+1))
		}
	}
	res.Write(e)
}

// TestVerifC06Conc: wrappers that run the continuation on two copies of the
// query CONCURRENTLY, in a binary built with the Go race detector. The test
// re-executes itself with GORACE pointing to a log file: a reported data race in
// the walker is a violation (the continuation is not reusable concurrently).
func TestVerifC06Conc(t *testing.T) {
	if in, ok := vr.ReplayInput(); ok {
		var ci c06Input
		if json.Unmarshal(in, &ci) == nil && ci.Space == "cc" && ci.Text != "race" {
			c06Replay(in)
			return
		}
	}
	e := vr.GetEnv()
	if os.Getenv("C06_CONC_CHILD") == "" {
		dir := t.TempDir()
		cmd := exec.Command(os.Args[0], "-test.run", "^TestVerifC06Conc$", "-test.timeout", "3h")
		cmd.Env = append(os.Environ(), "C06_CONC_CHILD=1", "GORACE=halt_on_error=0 exitcode=0 log_path="+filepath.Join(dir, "race"))
		out, err := cmd.CombinedOutput()
		logs, _ := filepath.Glob(filepath.Join(dir, "race*"))
		var race string
		for _, l := range logs {
			b, _ := os.ReadFile(l)
			race += string(b)
		}
		if err != nil && race == "" {
			fmt.Printf("INFRA: concurrent child failed: %v\n%s\n", err, out)
			t.Fatal("child failed")
		}
		if e.Replay != "" {
			fmt.Printf("%s\n", out)
			if race != "" {
				fmt.Printf("REPLAY-VIOLATION property=C06 sig=cc/race/data-race\n%s\n", c06Head(race, 4000))
			} else {
				fmt.Println("REPLAY-OK: no data race reported")
			}
			return
		}
		if race == "" || e.Out == "" {
			if race != "" {
				fmt.Println(race)
			}
			return
		}
		b, rerr := os.ReadFile(e.Out)
		var res vr.Result
		if rerr != nil || json.Unmarshal(b, &res) != nil {
			res = *vr.New("C06", e)
		}
		res.ViolateInput("cc/race/data-race", "the Go race detector reported a data race while a wrapper ran the continuation concurrently on two copies of the query:\n"+c06Head(race, 2500),
			c06Input{Space: "cc", Text: "race"})
		res.Write(e)
		return
	}
	debug.SetGCPercent(1600)
	res := vr.New("C06", e)
	res.Rule = c06RuleText
	maxN := 4
	if e.Tier == "thorough" {
		maxN = 5
	}
	if e.Replay != "" {
		maxN = 3
	}
	res.Bounds["cc_max_total_rules"] = maxN
	res.Bounds["cc_rule_alphabet"] = "action {a, aerr, wpar, wpost, wtwice, accept, reject, return, jump t, goto t} without matcher + {matcher E, a}; only programs with >=1 wpar are run"
	r := &c06Runner{w: c06NewWorld(), res: res, space: "cc"}
	var unit int64
	covered, _, done := r.controlFlow(e, c06CcActs, false, maxN, true, &unit)
	if !done {
		res.Exhaustive = false
		res.Notes = append(res.Notes, fmt.Sprintf("shard %d: budget expired; concurrent space fully covered up to n=%d", e.Shard, covered))
	}
	res.Write(e)
}

func c06Head(s string, n int) string {
	if len(s) > n {
		return s[:n] + "..."
	}
	return s
}
