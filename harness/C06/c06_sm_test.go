package sequence

// C06 family "sm": matchers whose answer depends on what earlier actions did.
// The main enumeration uses matchers with a fixed answer, each rule with an
// instance of its own; here one matcher plugin instance ("$hm": the query
// carries a mark) guards several rules of a sequence, and unconditional actions
// set / clear the mark in between. "Visits rules in order, evaluates each rule's
// matchers ... and runs the rule's action only if all matched": every rule is
// judged with the state the rules above it left behind.

import (
	"context"
	"encoding/json"
	"fmt"
	"strings"
	"testing"

	"github.com/IrineSistiana/mosdns/v5/coremain"
	"github.com/IrineSistiana/mosdns/v5/pkg/query_context"
	"github.com/IrineSistiana/mosdns/v5/zz_verif/vr"
	"github.com/miekg/dns"
)

var smMarkKey = query_context.RegKey()

// smHasMark is ONE plugin instance used by every rule that names it.
type smHasMark struct{}

func (m *smHasMark) Match(_ context.Context, q *query_context.Context) (bool, error) {
	_, ok := q.GetValue(smMarkKey)
	c06TraceOf(q).add("hm=", fmt.Sprint(ok), ";")
	return ok, nil
}

type smAct struct{ kind string } // set | clear

func (a *smAct) Exec(_ context.Context, q *query_context.Context) error {
	c06TraceOf(q).add(a.kind, ";")
	if a.kind == "set" {
		q.StoreValue(smMarkKey, true)
	} else {
		q.DeleteValue(smMarkKey)
	}
	return nil
}

// rule alphabet (text, reference semantics)
var smRules = []string{
	"$hm $a g",        // guarded plain action
	"!$hm $a n",       // guarded by the negation
	"$set",            // unconditional: sets the mark
	"$clear",          // unconditional: clears it
	"$a u",            // unconditional plain action
	"$mf x $a never",  // an ordinary false matcher with an instance of its own
	"$hm $set",        // guarded action that changes the state the guard reads
	"$hm accept",      // guarded built-in
	"!$hm return",     // guarded built-in
	"$hm $wcont w",    // guarded wrapper
}

func smRef(prog []int) string {
	var tr strings.Builder
	mark := false
	hm := func() bool { fmt.Fprintf(&tr, "hm=%v;", mark); return mark }
	for _, ri := range prog {
		switch ri {
		case 0:
			if hm() {
				tr.WriteString("a@g;")
			}
		case 1:
			if !hm() {
				tr.WriteString("a@n;")
			}
		case 2:
			tr.WriteString("set;")
			mark = true
		case 3:
			tr.WriteString("clear;")
			mark = false
		case 4:
			tr.WriteString("a@u;")
		case 5:
			tr.WriteString("mF@x;")
		case 6:
			if hm() {
				tr.WriteString("set;")
				mark = true
			}
		case 7:
			if hm() {
				return tr.String() + "|accept"
			}
		case 8:
			if !hm() {
				return tr.String() + "|return"
			}
		case 9:
			if hm() {
				tr.WriteString("wcont@w;")
			}
		}
	}
	return tr.String() + "|end"
}

func smReal(prog []int) (string, error) {
	w := c06NewWorld()
	w.ps["hm"] = &smHasMark{}
	w.ps["set"] = &smAct{"set"}
	w.ps["clear"] = &smAct{"clear"}
	w.m = coremain.NewTestMosdnsWithPlugins(w.ps)
	var args Args
	for _, ri := range prog {
		f := strings.Fields(smRules[ri])
		var r RuleArgs
		k := 0
		for k < len(f) && (strings.HasPrefix(f[k], "$hm") || strings.HasPrefix(f[k], "!$hm") || f[k] == "$mf") {
			if f[k] == "$mf" {
				r.Matches = append(r.Matches, f[k]+" "+f[k+1])
				k += 2
				continue
			}
			r.Matches = append(r.Matches, f[k])
			k++
		}
		r.Exec = strings.Join(f[k:], " ")
		args = append(args, r)
	}
	v, err := Init(coremain.NewBP("sm", w.m), &args)
	if err != nil {
		return "", err
	}
	q := new(dns.Msg)
	q.SetQuestion("c06.test.", dns.TypeA)
	qc := query_context.NewContext(q)
	t := &c06Trace{}
	qc.StoreValue(c06Key, t)
	err = v.(*Sequence).Exec(context.Background(), qc)
	return string(t.b), err
}

// smNorm maps the real trace onto the reference's vocabulary.
func smNorm(tr string) string {
	return tr
}

func TestVerifC06sm(t *testing.T) {
	e := vr.GetEnv()
	if raw, ok := vr.ReplayInput(); ok {
		var prog []int
		if err := json.Unmarshal(raw, &prog); err != nil {
			t.Fatal(err)
		}
		got, err := smReal(prog)
		fmt.Printf("program %v\n  real      %s (err %v)\n  reference %s\n", prog, got, err, smRef(prog))
		return
	}
	res := vr.New("C06", e)
	res.Rule = "family sm: one evaluation = one sequence of up to N rules over 10 rule shapes sharing ONE stateful matcher instance ($hm: the query carries a mark) with unconditional set / clear actions in between, executed by the real sequence plugin and by a reference that evaluates every guard in the state the rules above left; the event traces (matcher evaluations with their answers, actions) must be equal; outcome class = multiset of rule shapes"
	depth := 4
	if e.Tier == "thorough" {
		depth = 6
	}
	res.Bounds["sm.rules"] = smRules
	res.Bounds["sm.depth"] = depth
	idx := int64(0)
	prog := make([]int, 0, depth)
	var rec func()
	rec = func() {
		if len(prog) > 0 {
			idx++
			if e.Mine(idx) {
				res.Evaluations++
				res.Transitions += int64(len(prog))
				res.States++
				got, err := smReal(prog)
				want := smRef(prog)
				wantTrace := want[:strings.LastIndex(want, "|")]
				res.Outcome(fmt.Sprintf("sm/len%d/%s", len(prog), want[strings.LastIndex(want, "|")+1:]))
				var texts []string
				for _, ri := range prog {
					texts = append(texts, smRules[ri])
				}
				switch {
				case err != nil:
					res.ViolateInput("sm/error", fmt.Sprintf("sequence %q failed: %v", texts, err), append([]int{}, prog...))
				case smNorm(got) != wantTrace:
					res.ViolateInput("sm/trace", fmt.Sprintf("sequence %q:\n  real trace      %s\n  reference trace %s\n(hm=<answer>: one evaluation of the shared matcher; a guard must be evaluated in the state the rules above it left behind)", texts, got, wantTrace), append([]int{}, prog...))
				}
			}
		}
		if len(prog) == depth {
			return
		}
		for i := range smRules {
			prog = append(prog, i)
			rec()
			prog = prog[:len(prog)-1]
		}
	}
	rec()
	res.Sample(map[string]any{"program": []string{"$hm $a g", "$set", "$hm $a g"}, "reference_trace": smRef([]int{0, 2, 0})})
	res.Write(e)
}
