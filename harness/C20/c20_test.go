package fallback

import (
	"context"
	"errors"
	"fmt"
	"net"
	"strings"
	"testing"
	"time"

	"github.com/IrineSistiana/mosdns/v5/pkg/query_context"
	"github.com/IrineSistiana/mosdns/v5/zz_verif/vr"
	"github.com/IrineSistiana/mosdns/v5/zz_verif/vs"
	"github.com/miekg/dns"
	"go.uber.org/zap"
)

// C20: fallback prefers the primary and fails over only when it should.
//
// Closed system: the real doFallback with scripted primary / secondary
// executables (outcome x virtual duration), always_standby on/off and a caller
// context (none / deadline / cancelled by a concurrent thread). All parameters
// are environment choices, all interleavings of the worker threads within the
// preemption bound are explored; the oracle is a reference model of the
// statement evaluated in virtual time.

const (
	oAnswer = iota
	oNone
	oError
	oErrorWithResp // returns an error although it left a response in the query context: a failure
)

var c20Durs = []time.Duration{0, 200 * time.Millisecond, 800 * time.Millisecond, -1} // -1: until its context ends
const c20Th = 500 * time.Millisecond

type c20exec struct {
	sys     *c20sys
	who     string
	dur     time.Duration
	outcome int
	started bool
	startAt time.Duration
	endAt   time.Duration
	ended   bool
}

var errScript = errors.New("scripted failure")

func (s *c20exec) Exec(ctx context.Context, qCtx *query_context.Context) error {
	s.started, s.startAt = true, vs.Elapsed()-s.sys.base
	defer func() { s.ended, s.endAt = true, vs.Elapsed()-s.sys.base }()
	if s.dur < 0 {
		vs.Recv(ctx.Done())
		return context.Cause(ctx)
	}
	if s.dur > 0 {
		tm := vs.NewTimer(s.dur)
		k0, k1 := vs.RecvCase(tm.C), vs.RecvCase(ctx.Done())
		if vs.Select(k0, k1) == 1 {
			tm.Stop()
			return context.Cause(ctx)
		}
	}
	switch s.outcome {
	case oError:
		return errScript
	case oNone:
		return nil
	}
	if s.outcome == oErrorWithResp {
		r := new(dns.Msg)
		r.SetReply(qCtx.Q())
		r.Answer = append(r.Answer, &dns.A{Hdr: dns.RR_Header{Name: "example.", Rrtype: dns.TypeA, Class: dns.ClassINET, Ttl: 60}, A: net.IPv4(9, 9, 9, 9)})
		qCtx.SetResponse(r)
		return errScript
	}
	r := new(dns.Msg)
	r.SetReply(qCtx.Q())
	ip := net.IPv4(1, 1, 1, 1)
	if s.who == "secondary" {
		ip = net.IPv4(2, 2, 2, 2)
	}
	r.Answer = append(r.Answer, &dns.A{Hdr: dns.RR_Header{Name: "example.", Rrtype: dns.TypeA, Class: dns.ClassINET, Ttl: 60}, A: ip})
	qCtx.SetResponse(r)
	return nil
}

type c20sys struct {
	base           time.Duration // virtual time at which this call started
	pd, po, sd, so int
	standby        bool
	cmode          int // 0 none, 1 deadline 300ms, 2 deadline 650ms, 3 deadline 2s, 4 cancelled by a concurrent thread
	prim, sec      *c20exec
	err            error
	who            string // "", "primary", "secondary"
	retAt          time.Duration
	returned       bool
	cancelAt       time.Duration
	cancelled      bool
	qCtx           *query_context.Context // the caller's query context
	respAtReturn   *dns.Msg               // what it held when Exec returned
}

var c20Deadlines = []time.Duration{0, 300 * time.Millisecond, 650 * time.Millisecond, 2 * time.Second}

// c20Call runs one fallback call with the parameters already chosen in s.
func c20Call(s *c20sys) {
	s.base = vs.Elapsed()
	s.prim = &c20exec{sys: s, who: "primary", dur: c20Durs[s.pd], outcome: s.po}
	s.sec = &c20exec{sys: s, who: "secondary", dur: c20Durs[s.sd], outcome: s.so}
	f := &fallback{logger: zap.NewNop(), primary: s.prim, secondary: s.sec, fastFallbackDuration: c20Th, alwaysStandby: s.standby}
	q := new(dns.Msg)
	q.SetQuestion("example.", dns.TypeA)
	qCtx := query_context.NewContext(q)
	ctx := context.Background()
	var cancel context.CancelFunc = func() {}
	switch s.cmode {
	case 1, 2, 3:
		ctx, cancel = vs.WithTimeout(ctx, c20Deadlines[s.cmode])
	case 4:
		ctx, cancel = vs.WithCancel(ctx)
		c := cancel
		vs.GoNamed("canceller", func() {
			s.cancelled, s.cancelAt = true, vs.Elapsed()-s.base
			c()
		})
	}
	s.qCtx = qCtx
	s.err = f.Exec(ctx, qCtx)
	s.retAt, s.returned = vs.Elapsed()-s.base, true
	s.respAtReturn = qCtx.R()
	if r := qCtx.R(); r != nil && len(r.Answer) == 1 {
		if a, ok := r.Answer[0].(*dns.A); ok {
			if a.A.Equal(net.IPv4(1, 1, 1, 1)) {
				s.who = "primary"
			} else if a.A.Equal(net.IPv4(2, 2, 2, 2)) {
				s.who = "secondary"
			}
		}
	}
	cancel()
}

func c20Choose(s *c20sys) {
	s.pd, s.po = vs.Choose(len(c20Durs)), 0
	if c20Durs[s.pd] >= 0 {
		s.po = vs.Choose(4)
	} else {
		s.po = oError
	}
	s.sd = vs.Choose(len(c20Durs))
	if c20Durs[s.sd] >= 0 {
		s.so = vs.Choose(4)
	} else {
		s.so = oError
	}
	s.standby = vs.Choose(2) == 1
	s.cmode = vs.Choose(5)
}

func c20Scenario(name string, p, t int) vr.Scenario {
	var sys *c20sys
	body := func() {
		s := &c20sys{}
		sys = s
		c20Choose(s)
		c20Call(s)
	}
	check := func(x *vs.Exec) (string, *vs.Violation) { return c20Judge(sys, x) }
	return vr.Scenario{Name: name, P: p, T: t, Horizon: 30 * time.Second, Body: body, Check: check}
}

// c20TwoCalls: two sequential calls in one execution share the timer pool: the
// first one is chosen so that its threshold timer fires without being read.
func c20TwoCalls(name string, p int) vr.Scenario { return c20TwoCallsX(name, p, false) }

func c20TwoCallsX(name string, p int, abandoned bool) vr.Scenario {
	var a, b *c20sys
	body := func() {
		a, b = &c20sys{}, &c20sys{}
		// first call: primary fails or answers early/late, secondary long or short
		a.pd, a.po = vs.Choose(3), []int{oAnswer, oError}[vs.Choose(2)]
		a.sd, a.so = []int{0, 2}[vs.Choose(2)], oAnswer
		a.standby = vs.Choose(2) == 1
		if abandoned {
			// the first caller gives up early (deadline 300 ms / cancelled at once) while its slow
			// primary is still running; the second call starts while goroutines of the first are around
			a.pd, a.po = len(c20Durs)-2, oAnswer
			a.cmode = []int{1, 4}[vs.Choose(2)]
		}
		c20Call(a)
		if abandoned {
			vs.Sleep(time.Millisecond)
		} else {
			vs.Sleep(10 * time.Second) // every goroutine of the first call is done, its timer is back in the pool
		}
		b.pd, b.po = []int{1, 2}[vs.Choose(2)], oAnswer
		b.sd, b.so = vs.Choose(2), oAnswer
		b.standby = vs.Choose(2) == 1
		c20Call(b)
	}
	check := func(x *vs.Exec) (string, *vs.Violation) {
		k1, v := c20Judge(a, x)
		if v != nil {
			v.Sig = strings.Replace(v.Sig, "fallback/", name+"/first/", 1)
			return k1, v
		}
		if !a.returned {
			return k1, nil
		}
		k2, v := c20Judge(b, x)
		if v != nil {
			v.Sig = strings.Replace(v.Sig, "fallback/", name+"/second/", 1)
			v.Desc += "\n(second call of the execution; first call: " + k1 + ")"
		}
		return k1 + " ; " + k2, v
	}
	return vr.Scenario{Name: name, P: p, Horizon: time.Minute, Body: body, Check: check}
}

func c20Judge(s *c20sys, x *vs.Exec) (string, *vs.Violation) {

	desc := fmt.Sprintf("primary{dur=%v outcome=%d} secondary{dur=%v outcome=%d} standby=%v ctxmode=%d -> err=%v answer-of=%q ret@%v secStarted=%v@%v",
		c20Durs[s.pd], s.po, c20Durs[s.sd], s.so, s.standby, s.cmode, s.err, s.who, s.retAt, s.sec.started, s.sec.startAt)
	key := fmt.Sprintf("P%d.%d/S%d.%d/sb%v/c%d=>%s", s.pd, s.po, s.sd, s.so, s.standby, s.cmode, c20Res(s))
	V := func(oracle string, why string) (string, *vs.Violation) {
		return key, &vs.Violation{Sig: "fallback/" + oracle, Desc: why + "\n" + desc}
	}
	if x.Panic != "" {
		return V("panic", x.Panic)
	}
	if !s.returned {
		return V("no-return", fmt.Sprintf("Exec never returned (parked: %v)", x.Blocked))
	}
	// the call is over: what the caller holds is the outcome, a worker that finishes later must not touch it
	if now := s.qCtx.R(); now != s.respAtReturn {
		what := func(m *dns.Msg) string {
			if m == nil {
				return "no response"
			}
			if len(m.Answer) == 1 {
				return "the answer " + m.Answer[0].String()
			}
			return "a response without answer"
		}
		return V("response-changed-after-return", fmt.Sprintf("when Exec returned the caller's query context held %s, at the end of the execution it holds %s", what(s.respAtReturn), what(now)))
	}
	if x.EarlyTimers > 0 {
		return key, nil // timing clauses are only evaluated when timers fire at quiescence
	}
	// ---- reference model (virtual time) ----
	const inf = time.Duration(1<<62 - 1)
	ctxEnd := inf
	switch s.cmode {
	case 1, 2, 3:
		ctxEnd = c20Deadlines[s.cmode]
	case 4:
		ctxEnd = 0 // the canceller is runnable from t=0 on, it always runs at t=0
	}
	subEnd := 5 * time.Second // makeDdlCtx: caller's deadline, else 5s
	if s.cmode >= 1 && s.cmode <= 3 {
		subEnd = ctxEnd
	}
	// primary completion
	pT, pAns := c20Durs[s.pd], s.po == oAnswer
	if pT < 0 || pT > subEnd {
		pT, pAns = subEnd, false
	} else if pT == subEnd && pAns {
		return key, nil // tie between completion and sub-context deadline: unspecified
	}
	// secondary start and availability
	sStart := time.Duration(0)
	sRuns := true
	if !s.standby {
		switch {
		case pAns && pT < c20Th:
			sRuns = false
		case pAns && pT == c20Th:
			return key, nil
		case !pAns && pT < c20Th:
			sStart = pT
		default:
			sStart = c20Th
		}
	}
	sT, sAns := inf, false
	var sSubEnd time.Duration = sStart + 5*time.Second
	if s.cmode >= 1 && s.cmode <= 3 {
		sSubEnd = ctxEnd
	}
	if sRuns {
		d := c20Durs[s.sd]
		if d < 0 || sStart+d > sSubEnd {
			sT, sAns = sSubEnd, false
		} else {
			if sStart+d == sSubEnd && s.so == oAnswer {
				return key, nil
			}
			sT, sAns = sStart+d, s.so == oAnswer
		}
	}
	// when may the secondary's answer be used: primary failed, or threshold passed
	sAvail := inf
	if sAns {
		rel := c20Th
		if !pAns && pT < rel {
			rel = pT
		}
		if pAns && pT < c20Th {
			sAvail = inf // discarded
		} else if pAns && pT == c20Th {
			return key, nil
		} else {
			sAvail = sT
			if sAvail < rel {
				sAvail = rel
			}
		}
	}
	pAvail := inf
	if pAns {
		pAvail = pT
	}
	// secondary must not be started early
	if !s.standby && s.sec.started {
		if !sRuns {
			return V("secondary-started-although-primary-answered-in-time", "the secondary's Exec was entered")
		}
		if s.sec.startAt < sStart {
			return V("secondary-started-early", fmt.Sprintf("secondary entered at %v, allowed from %v", s.sec.startAt, sStart))
		}
	}
	first := pAvail
	if sAvail < first {
		first = sAvail
	}
	allowed := map[string]bool{}
	var expAt time.Duration
	switch {
	case first == inf:
		// both fail: error when the later one has finished
		end := pT
		if sRuns && sT > end {
			end = sT
		}
		if end < ctxEnd {
			allowed["failed"], expAt = true, end
		} else if end == ctxEnd {
			allowed["failed"], allowed["ctx"], expAt = true, true, end
		} else {
			allowed["ctx"], expAt = true, ctxEnd
		}
	case first < ctxEnd:
		if pAvail == first {
			allowed["primary"] = true
		}
		if sAvail == first {
			allowed["secondary"] = true
		}
		expAt = first
	case first == ctxEnd:
		allowed["ctx"] = true
		if pAvail == first {
			allowed["primary"] = true
		}
		if sAvail == first {
			allowed["secondary"] = true
		}
		expAt = first
	default:
		allowed["ctx"], expAt = true, ctxEnd
	}
	if s.cmode == 4 {
		// cancellation races with everything that happens at t=0
		allowed["ctx"] = true
		if pAvail == 0 {
			allowed["primary"] = true
		}
		if sAvail == 0 {
			allowed["secondary"] = true
		}
		if first == inf && pT == 0 && (!sRuns || sT == 0) {
			allowed["failed"] = true
		}
	}
	got := c20Res(s)
	if !allowed[got] {
		oracle := "wrong-result"
		switch {
		case got == "secondary" && pAns && pT < c20Th:
			oracle = "secondary-answer-although-primary-answered-in-time"
		case got == "failed":
			oracle = "error-although-an-answer-was-available"
		case got == "ctx":
			oracle = "context-error-although-answer-in-time"
		case got == "other-error":
			oracle = "unexpected-error"
		}
		return V(oracle, fmt.Sprintf("result %q, the statement allows %v", got, keys(allowed)))
	}
	if s.cmode != 4 && s.retAt != expAt {
		return V("return-time", fmt.Sprintf("returned at %v, expected %v", s.retAt, expAt))
	}
	return key, nil
}

func keys(m map[string]bool) []string {
	var r []string
	for k := range m {
		r = append(r, k)
	}
	return r
}

func c20Res(s *c20sys) string {
	switch {
	case s.err == nil && s.who != "":
		return s.who
	case s.err == nil:
		return "nil-without-answer"
	case errors.Is(s.err, ErrFailed):
		return "failed"
	case errors.Is(s.err, context.Canceled), errors.Is(s.err, context.DeadlineExceeded):
		return "ctx"
	}
	return "other-error"
}

func TestVerifC20(t *testing.T) {
	e := vr.GetEnv()
	p, pt, tt, p2 := 2, 0, 1, 2
	if e.Tier == "thorough" {
		p, pt, tt, p2 = 4, 1, 1, 3
	}
	vr.RunScenarios("C20", []vr.Scenario{c20Scenario("fallback", p, 0), c20Scenario("fallback-earlytimers", pt, tt), c20TwoCalls("fallback-2calls", p2), c20TwoCallsX("fallback-2calls-first-abandoned", p2, true)})
}
