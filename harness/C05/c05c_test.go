package cache

import (
	"encoding/json"
	"fmt"
	"net"
	"testing"
	"time"

	"github.com/IrineSistiana/mosdns/v5/zz_verif/vr"
	"github.com/IrineSistiana/mosdns/v5/zz_verif/vs"
	"github.com/miekg/dns"
)

// C05 part c: the expiry clauses across a restart with a changed configuration.
// A cache is filled under one lazy_cache_ttl setting, dumped through the API and
// the dump is loaded into an instance with another setting (lazy on -> off, off
// -> on, on -> on with another value): what the second instance serves is judged
// by the C05 rules for ITS configuration - with lazy caching off nothing is
// served once its smallest TTL has run out; with it on, a stale answer carries
// TTL 5 and a refresh is started; fresh answers are aged by whole seconds.
// (Uses the plugin-level helpers of the C19 harness: c19Exec, c19Get, c19Post.)

type c05cIn struct {
	LazyA int `json:"lazy_original"`
	LazyB int `json:"lazy_reloaded"`
	TTL   uint32 `json:"ttl"`
	Rcode int `json:"rcode"`
	StoreAtMs int `json:"store_at_ms"`
	LoadAtS   int `json:"load_at_s"`
}

func c05cRun(in c05cIn) (evals int64, sig, why string) {
	x := vs.Run1(c19Cfg, func() {
		id, _ := vs.CurThread()
		build := func(q *dns.Msg) *dns.Msg {
			m := new(dns.Msg)
			m.SetRcode(q, in.Rcode)
			m.RecursionAvailable = true
			if in.Rcode == dns.RcodeSuccess {
				m.Answer = append(m.Answer, &dns.A{Hdr: dns.RR_Header{Name: q.Question[0].Name, Rrtype: dns.TypeA, Class: dns.ClassINET, Ttl: in.TTL}, A: net.IPv4(192, 0, 2, 1).To4()})
			} else {
				m.Ns = append(m.Ns, &dns.SOA{Hdr: dns.RR_Header{Name: "c05c.test.", Rrtype: dns.TypeSOA, Class: dns.ClassINET, Ttl: in.TTL}, Ns: "ns.c05c.test.", Mbox: "h.c05c.test.", Minttl: in.TTL})
			}
			return m
		}
		ua := &c19Up{mainID: id, answer: build}
		a := NewCache(&Args{Size: c19Size, LazyCacheTTL: in.LazyA}, Opts{})
		c19Yield()
		vs.Advance(time.Duration(in.StoreAtMs) * time.Millisecond)
		const name = "c05c.test."
		c19Exec(a, ua, name, 1)
		storedAt := vs.Elapsed()
		code, dump := c19Get(a)
		a.Close()
		if code != 200 {
			sig, why = "crossconfig/dump-failed", fmt.Sprintf("GET /dump returned %d", code)
			return
		}
		life := time.Duration(in.TTL) * time.Second
		switch in.Rcode {
		case dns.RcodeNameError:
			life = min(life, 30*time.Second)
		case dns.RcodeServerFailure:
			life = min(life, 5*time.Second)
		}
		vs.Advance(time.Duration(in.LoadAtS)*time.Second - vs.Elapsed())
		ub := &c19Up{mainID: id}
		refreshed := 0
		ub.answer = func(q *dns.Msg) *dns.Msg { refreshed++; return build(q) }
		b := NewCache(&Args{Size: c19Size, LazyCacheTTL: in.LazyB}, Opts{})
		defer b.Close() // its tickers would keep the virtual clock running for ever
		c19Yield()
		if st, body := c19Post(b, dump); st != 200 {
			sig, why = "crossconfig/load-failed", fmt.Sprintf("POST /load_dump of an intact dump returned %d %s", st, body)
			return
		}
		// probe instants around the end of the answer's life (relative to its storing)
		for _, off := range []time.Duration{-time.Second, -time.Nanosecond, time.Nanosecond, time.Second, 2 * time.Second, 40 * time.Second} {
			at := storedAt + life + off
			if at <= vs.Elapsed() {
				continue
			}
			vs.Advance(at - vs.Elapsed())
			c19Yield()
			before := refreshed
			hit, r := c19Exec(b, ub, name, 7)
			c19Yield()
			evals++
			age := vs.Elapsed() - storedAt
			desc := fmt.Sprintf("answer (rcode %d, TTL %d) stored at t=%v under lazy_cache_ttl=%d, dumped, loaded at t=%ds into an instance with lazy_cache_ttl=%d, asked at t=%v (age %v, life %v): served from cache=%v", in.Rcode, in.TTL, storedAt, in.LazyA, in.LoadAtS, in.LazyB, vs.Elapsed(), age, life, hit)
			// whole-second resolution of the dump: leave the last second before the expiry alone
			if age > life-time.Second && age <= life+time.Second && storedAt%time.Second != 0 {
				if refreshed > before {
					return // replaced by a fresh answer: the history of this case ends here
				}
				continue
			}
			expired := age > life
			switch {
			case hit && expired && in.LazyB == 0:
				sig, why = "crossconfig/expired-served-without-lazy", desc+": lazy caching is off, the answer's smallest TTL has run out, yet it was served"
				return
			case hit && expired && in.LazyB > 0:
				for _, rr := range append(append([]dns.RR{}, r.Answer...), r.Ns...) {
					if rr.Header().Ttl != 5 {
						sig, why = "crossconfig/stale-ttl", desc+fmt.Sprintf(": stale answer served with TTL %d, want 5", rr.Header().Ttl)
						return
					}
				}
				if refreshed == before {
					sig, why = "crossconfig/stale-without-refresh", desc+": a stale answer was served but no refresh was started"
					return
				}
			case hit && !expired:
				want := in.TTL - uint32(age/time.Second)
				for _, rr := range append(append([]dns.RR{}, r.Answer...), r.Ns...) {
					if got := rr.Header().Ttl; got > want || got+1 < want || got < 1 {
						sig, why = "crossconfig/ttl", desc+fmt.Sprintf(": served TTL %d, want %d (original TTL lowered by the whole seconds elapsed)", got, want)
						return
					}
				}
			}
			if refreshed > before {
				return // the entry has been replaced by a fresh one: the history of this case ends here
			}
		}
	})
	if sig == "" && x.Panic != "" {
		sig, why = "crossconfig/panic", x.Panic
	}
	return
}

func TestVerifC05c(t *testing.T) {
	e := vr.GetEnv()
	if raw, ok := vr.ReplayInput(); ok {
		var in c05cIn
		if err := json.Unmarshal(raw, &in); err != nil {
			t.Fatal(err)
		}
		_, sig, why := c05cRun(in)
		fmt.Printf("replay %+v: sig=%q %s\n", in, sig, why)
		return
	}
	res := vr.New("C05", e)
	res.Rule = "part c: one case = (lazy_cache_ttl of the original, of the reloaded instance, answer TTL, rcode, storing instant, reload instant); the answer is stored, dumped, loaded into the second instance and asked at six instants around the end of its life; outcome class = configuration change x rcode"
	lazies := []int{0, 10, 86400}
	ttls := []uint32{1, 2, 5, 29, 30, 31, 300, 301}
	rcodes := []int{dns.RcodeSuccess, dns.RcodeNameError, dns.RcodeServerFailure}
	stores := []int{0, 500}
	loads := []int{1, 3, 20}
	if e.Tier == "thorough" {
		ttls = []uint32{1, 2, 3, 4, 5, 6, 9, 10, 11, 29, 30, 31, 59, 60, 299, 300, 301, 3600}
		stores = []int{0, 1, 500, 999}
		loads = []int{1, 2, 3, 6, 11, 20, 31, 100}
	}
	res.Bounds["c.lazy"] = lazies
	res.Bounds["c.ttls"] = ttls
	res.Bounds["c.rcodes"] = rcodes
	res.Bounds["c.store_at_ms"] = stores
	res.Bounds["c.load_at_s"] = loads
	idx := int64(0)
	for _, la := range lazies {
		for _, lb := range lazies {
			for _, ttl := range ttls {
				for _, rc := range rcodes {
					for _, st := range stores {
						for _, ld := range loads {
							idx++
							if !e.Mine(idx) {
								continue
							}
							in := c05cIn{la, lb, ttl, rc, st, ld}
							ev, sig, why := c05cRun(in)
							res.Evaluations += ev
							res.Transitions += ev
							res.States++
							res.Outcome(fmt.Sprintf("crossconfig/lazy%d->%d/rcode%d", la, lb, rc))
							if sig != "" {
								res.ViolateInput(sig, why, in)
							}
						}
					}
				}
			}
		}
	}
	res.Sample(c05cIn{10, 0, 5, 0, 0, 3})
	res.Write(e)
}
