package cache

import (
	"context"
	"fmt"
	"net"
	"strings"
	"testing"
	"time"

	"github.com/IrineSistiana/mosdns/v5/pkg/query_context"
	"github.com/IrineSistiana/mosdns/v5/plugin/executable/sequence"
	"github.com/IrineSistiana/mosdns/v5/zz_verif/vr"
	"github.com/IrineSistiana/mosdns/v5/zz_verif/vs"
	"github.com/miekg/dns"
)

// C05 part b: a burst of concurrent queries hitting a stale (lazy) entry.
// All interleavings within the deviation bound of 2-3 query threads, the
// background refresh goroutine(s) started through singleflight (instrumented
// copy) and the cache sweeper are explored. Invariant at every state: at most
// one background refresh for the question is executing; every burst query is
// served (stale answer with the 5 s TTL, or the refreshed answer); after the
// refresh completed the entry is fresh.

type c05bUp struct {
	inflight, maxInflight int
	bgCalls, fgCalls      int
	gen                   int
	slow                  bool
}

func (u *c05bUp) Exec(ctx context.Context, qCtx *query_context.Context) error {
	if qCtx.R() != nil {
		return nil // cache hit: nothing to fetch
	}
	_, bg := ctx.Deadline() // the lazy refresh runs under its own 5s timeout, foreground queries under Background
	if bg {
		u.bgCalls++
		u.inflight++
		if u.inflight > u.maxInflight {
			u.maxInflight = u.inflight
		}
		defer func() { u.inflight-- }()
		if u.slow {
			vs.Sleep(time.Second)
		} else {
			vs.Point("upstream", nil)
		}
	} else {
		u.fgCalls++
	}
	u.gen++
	r := new(dns.Msg)
	r.SetReply(qCtx.Q())
	r.Answer = append(r.Answer, &dns.A{Hdr: dns.RR_Header{Name: qCtx.Q().Question[0].Name, Rrtype: dns.TypeA, Class: dns.ClassINET, Ttl: 10}, A: net.IPv4(10, 0, 0, byte(u.gen))})
	qCtx.SetResponse(r)
	return nil
}

type c05bObs struct {
	id   uint16
	ttl  uint32
	gen  byte
	ok   bool
	rid  uint16
	err  error
}

// c05bRename is the redirect plugin's shape: the rest of the chain (the cache and
// everything behind it) runs with another name in the question, which is put
// back when the chain returns. The refresh must be a refresh of the question
// the cache saw.
type c05bRename struct{}

func (c05bRename) Exec(ctx context.Context, qCtx *query_context.Context, next sequence.ChainWalker) error {
	old := qCtx.Q().Question[0].Name
	qCtx.Q().Question[0].Name = "target.example."
	err := next.ExecNext(ctx, qCtx)
	qCtx.Q().Question[0].Name = old
	return err
}

func c05bScenario(name string, nburst int, d int) vr.Scenario {
	return c05bScenarioR(name, nburst, d, false)
}

func c05bScenarioR(name string, nburst int, d int, renamed bool) vr.Scenario {
	var up *c05bUp
	var burst []*c05bObs
	var final *c05bObs
	var finished bool
	query := func(c *Cache, id uint16) *c05bObs {
		q := new(dns.Msg)
		q.SetQuestion("burst.example.", dns.TypeA)
		q.Id = id
		qCtx := query_context.NewContext(q)
		w := sequence.NewChainWalker([]*sequence.ChainNode{{E: up}}, nil)
		o := &c05bObs{id: id}
		if renamed {
			w = sequence.NewChainWalker([]*sequence.ChainNode{{RE: c05bRename{}}, {RE: c}, {E: up}}, nil)
			o.err = w.ExecNext(context.Background(), qCtx)
		} else {
			o.err = c.Exec(context.Background(), qCtx, w)
		}
		if r := qCtx.R(); r != nil && len(r.Answer) == 1 {
			a := r.Answer[0].(*dns.A)
			o.ok, o.ttl, o.gen, o.rid = true, a.Hdr.Ttl, a.A.To4()[3], r.Id
		}
		return o
	}
	body := func() {
		finished = false
		up = &c05bUp{}
		burst = nil
		c := NewCache(&Args{Size: 1024, LazyCacheTTL: 1000}, Opts{})
		up.slow = vs.Choose(2) == 1
		query(c, 1)               // miss: stored with TTL 10 (generation 1)
		vs.Sleep(20 * time.Second) // the message expired, the entry is kept for lazy serving
		var wg vs.WaitGroup
		for i := 0; i < nburst; i++ {
			i := i
			o := &c05bObs{}
			burst = append(burst, o)
			wg.Add(1)
			vs.GoNamed(fmt.Sprintf("q%d", i), func() {
				defer wg.Done()
				*o = *query(c, uint16(100+i))
			})
		}
		wg.Wait()
		vs.Sleep(3 * time.Second) // let the refresh finish
		final = query(c, 999)
		finished = true
		c.Close()
	}
	check := func(x *vs.Exec) (string, *vs.Violation) {
		V := func(oracle, why string) (string, *vs.Violation) {
			return oracle, &vs.Violation{Sig: name + "/" + oracle, Desc: fmt.Sprintf("%s\nupstream: bg=%d fg=%d maxInflight=%d slow=%v burst=%+v final=%+v", why, up.bgCalls, up.fgCalls, up.maxInflight, up.slow, deref(burst), final)}
		}
		if x.Panic != "" {
			return V("panic", x.Panic)
		}
		if !finished || len(x.Blocked) > 0 {
			return V("stuck", fmt.Sprintf("did not finish; parked %v", x.Blocked))
		}
		if up.maxInflight > 1 {
			return V("concurrent-refreshes", fmt.Sprintf("%d background refreshes of the same question were executing at the same time", up.maxInflight))
		}
		var key []string
		for _, o := range burst {
			switch {
			case o.err != nil || !o.ok:
				return V("burst-query-not-served", "a query hitting the stale entry got no answer")
			case o.rid != o.id:
				return V("wrong-id", fmt.Sprintf("query %d got a reply with ID %d", o.id, o.rid))
			case o.gen == 1 && o.ttl != 5:
				return V("stale-ttl", fmt.Sprintf("the stale answer was served with TTL %d, want 5", o.ttl))
			case o.gen > 1 && (o.ttl > 10 || o.ttl < 1):
				return V("fresh-ttl", fmt.Sprintf("refreshed answer served with TTL %d", o.ttl))
			}
			if o.gen == 1 {
				key = append(key, "stale")
			} else {
				key = append(key, "fresh")
			}
		}
		if up.bgCalls == 0 {
			return V("no-refresh", "stale hits did not start a background refresh")
		}
		if x.EarlyTimers == 0 {
			if final.err != nil || !final.ok || final.gen < 2 {
				return V("entry-not-refreshed", "after the refresh completed a later query is still not served the refreshed entry")
			}
			if up.fgCalls != 1 {
				return V("foreground-fetch", fmt.Sprintf("%d foreground fetches (want 1: only the initial miss)", up.fgCalls))
			}
		}
		key = append(key, fmt.Sprintf("bg%d", up.bgCalls))
		return strings.Join(key, ","), nil
	}
	return vr.Scenario{Name: name, P: d, D: d, Horizon: 10 * time.Minute, Body: body, Check: check}
}

func deref(xs []*c05bObs) []c05bObs {
	var r []c05bObs
	for _, x := range xs {
		r = append(r, *x)
	}
	return r
}

func TestVerifC05b(t *testing.T) {
	e := vr.GetEnv()
	scs := []vr.Scenario{c05bScenario("burst2", 2, 4), c05bScenario("burst3", 3, 2), c05bScenarioR("burst2-behind-a-redirect", 2, 3, true)}
	if e.Tier == "thorough" {
		scs = []vr.Scenario{c05bScenario("burst2", 2, 6), c05bScenario("burst3", 3, 4), c05bScenarioR("burst2-behind-a-redirect", 2, 5, true)}
	}
	vr.RunScenarios("C05", scs)
}
