package cache

// C05 part a: cached answers age correctly and expire on time (sequential part).
//
// Bounded-exhaustive enumeration: upstream answers x lazy_cache_ttl x clock
// points, each executed on the real cache.Exec under the vs virtual clock and
// compared with a reference written from the property text. See check.json.

import (
	"context"
	"encoding/json"
	"fmt"
	"math"
	"net"
	"sort"
	"strings"
	"testing"
	"time"

	"github.com/IrineSistiana/mosdns/v5/pkg/query_context"
	"github.com/IrineSistiana/mosdns/v5/plugin/executable/sequence"
	"github.com/IrineSistiana/mosdns/v5/zz_verif/vr"
	"github.com/IrineSistiana/mosdns/v5/zz_verif/vs"
	"github.com/miekg/dns"
)

const (
	c05Name   = "c05.test."
	c05OptTTL = 0x8000 // DO bit: the "TTL" of an OPT pseudo-record is flags, not time
)

// ---------------------------------------------------------------------------
// input alphabet

type c05Rec struct {
	Sec int    `json:"sec"` // 0 answer, 1 authority, 2 additional
	TTL uint32 `json:"ttl"`
}

type c05Ans struct {
	Recs  []c05Rec `json:"recs"`
	Opt   int      `json:"opt"` // 0 none, 1 OPT in the upstream reply (taken out by the query context), 2 OPT left in the response
	Rcode int      `json:"rcode"`
	TC    bool     `json:"tc"`
	None  bool     `json:"none,omitempty"` // upstream fails: no response, error
	Mark  byte     `json:"mark,omitempty"` // distinguishes rdata of different scripted answers
}

var c05TTLs = []uint32{0, 1, 2, 5, 29, 30, 31, 299, 300, 301, 1 << 31, math.MaxUint32}

func c05MakeRR(i int, r c05Rec, ttl uint32, mark byte) dns.RR {
	switch r.Sec {
	case 0:
		return &dns.A{Hdr: dns.RR_Header{Name: c05Name, Rrtype: dns.TypeA, Class: dns.ClassINET, Ttl: ttl}, A: net.IPv4(10, mark, 0, byte(i+1)).To4()}
	case 1:
		return &dns.SOA{Hdr: dns.RR_Header{Name: "test.", Rrtype: dns.TypeSOA, Class: dns.ClassINET, Ttl: ttl},
			Ns: "ns.test.", Mbox: "m.test.", Serial: uint32(i + 1), Refresh: 1800, Retry: 900, Expire: 604800, Minttl: 86400}
	default:
		return &dns.AAAA{Hdr: dns.RR_Header{Name: "ns.test.", Rrtype: dns.TypeAAAA, Class: dns.ClassINET, Ttl: ttl}, AAAA: net.IP{0x20, 1, 0xd, 0xb8, mark, 0, 0, 0, 0, 0, 0, 0, 0, 0, 0, byte(i + 1)}}
	}
}

func c05NewOpt() *dns.OPT {
	o := &dns.OPT{Hdr: dns.RR_Header{Name: ".", Rrtype: dns.TypeOPT, Class: 1232, Ttl: c05OptTTL}}
	return o
}

// c05Build returns the upstream reply for q (OPT mode 1 included; mode 2 is
// added by the fake plugin after SetResponse).
func c05Build(a c05Ans, q *dns.Msg) *dns.Msg {
	m := new(dns.Msg)
	m.SetRcode(q, a.Rcode)
	m.RecursionAvailable = true
	m.Truncated = a.TC
	for i, r := range a.Recs {
		rr := c05MakeRR(i, r, r.TTL, a.Mark)
		switch r.Sec {
		case 0:
			m.Answer = append(m.Answer, rr)
		case 1:
			m.Ns = append(m.Ns, rr)
		default:
			m.Extra = append(m.Extra, rr)
		}
	}
	if a.Opt == 1 {
		m.Extra = append(m.Extra, c05NewOpt())
	}
	return m
}

func (a c05Ans) minTTL() (has bool, min uint32) {
	min = math.MaxUint32
	for _, r := range a.Recs {
		has = true
		if r.TTL < min {
			min = r.TTL
		}
	}
	return
}

func (a c05Ans) hasAnswer() bool {
	for _, r := range a.Recs {
		if r.Sec == 0 {
			return true
		}
	}
	return false
}

func (a c05Ans) headerAdmissible() bool {
	return !a.TC && !a.None && (a.Rcode == dns.RcodeSuccess || a.Rcode == dns.RcodeNameError || a.Rcode == dns.RcodeServerFailure)
}

func (a c05Ans) class() string {
	switch {
	case a.None:
		return "no-response"
	case a.TC:
		return "tc"
	case a.Rcode == dns.RcodeNameError:
		return "nxdomain"
	case a.Rcode == dns.RcodeServerFailure:
		return "servfail"
	case a.Rcode != dns.RcodeSuccess:
		return "rcode-other"
	case !a.hasAnswer():
		return "noerror-empty"
	}
	return "noerror"
}

// ---------------------------------------------------------------------------
// reference model (from the property text only)

// c05Ref: may the answer be stored at all, and after how many seconds must it
// no longer be served as a fresh answer.
func c05Ref(a c05Ans) (admit bool, why string, life uint64) {
	if a.None {
		return false, "no-response", 0
	}
	if a.TC {
		return false, "tc", 0
	}
	if a.Rcode != dns.RcodeSuccess && a.Rcode != dns.RcodeNameError && a.Rcode != dns.RcodeServerFailure {
		return false, "rcode", 0
	}
	has, min := a.minTTL()
	if has && min == 0 {
		return false, "zero-ttl", 0
	}
	lim := func(cap uint64) uint64 {
		if has && uint64(min) < cap {
			return uint64(min)
		}
		return cap
	}
	switch {
	case a.Rcode == dns.RcodeNameError:
		return true, "", lim(30)
	case a.Rcode == dns.RcodeServerFailure:
		return true, "", lim(5)
	case !a.hasAnswer():
		return true, "", lim(300)
	}
	return true, "", uint64(min)
}

func c05FreshTTL(ttl uint32, elapsed time.Duration) uint32 {
	sec := uint64(elapsed / time.Second)
	if uint64(ttl) > sec {
		return uint32(uint64(ttl) - sec)
	}
	return 1
}

// c05Diff compares the served message with answer a whose TTLs are mapped by f.
func c05Diff(resp *dns.Msg, a c05Ans, f func(uint32) uint32) string {
	if resp.Rcode != a.Rcode {
		return fmt.Sprintf("rcode %d, stored answer had %d", resp.Rcode, a.Rcode)
	}
	var want [3][]string
	for i, r := range a.Recs {
		want[r.Sec] = append(want[r.Sec], c05MakeRR(i, r, f(r.TTL), a.Mark).String())
	}
	for s, sec := range [3][]dns.RR{resp.Answer, resp.Ns, resp.Extra} {
		var got []string
		for _, rr := range sec {
			if rr.Header().Rrtype == dns.TypeOPT {
				if rr.Header().Ttl != c05OptTTL {
					return fmt.Sprintf("OPT pseudo-record flags changed to %#x (TTL arithmetic applied to OPT)", rr.Header().Ttl)
				}
				continue
			}
			got = append(got, rr.String())
		}
		if len(got) != len(want[s]) {
			return fmt.Sprintf("section %d has %d records, want %d", s, len(got), len(want[s]))
		}
		for i := range got {
			if got[i] != want[s][i] {
				return fmt.Sprintf("section %d record %d is %q, want %q", s, i, strings.ReplaceAll(got[i], "\t", " "), strings.ReplaceAll(want[s][i], "\t", " "))
			}
		}
	}
	return ""
}

// ---------------------------------------------------------------------------
// fake next plugin

type c05Call struct {
	At      time.Duration
	HadResp bool
	Bg      bool
	Fetch   int // index of the upstream fetch, -1 when a response was present
	Done    bool
	DoneAt  time.Duration
	Ans     c05Ans
}

type c05Up struct {
	mainID     int
	script     func(n int) c05Ans
	bgDelay    time.Duration
	calls      []*c05Call
	fetches    int
	inflightBg int
	overlapBg  int // background fetches started while another one was in flight
}

func (u *c05Up) Exec(ctx context.Context, qCtx *query_context.Context) error {
	id, _ := vs.CurThread()
	c := &c05Call{At: vs.Elapsed(), HadResp: qCtx.R() != nil, Bg: id != u.mainID, Fetch: -1}
	u.calls = append(u.calls, c)
	if c.HadResp {
		c.Done, c.DoneAt = true, vs.Elapsed()
		return nil
	}
	c.Fetch = u.fetches
	u.fetches++
	a := u.script(c.Fetch)
	c.Ans = a
	if c.Bg {
		if u.inflightBg > 0 {
			u.overlapBg++
		}
		u.inflightBg++
		defer func() { u.inflightBg-- }()
		if u.bgDelay > 0 {
			vs.Sleep(u.bgDelay)
		}
	}
	c.Done, c.DoneAt = true, vs.Elapsed()
	if err := ctx.Err(); err != nil {
		c.Ans = c05Ans{None: true}
		return err
	}
	if a.None {
		return fmt.Errorf("c05: upstream failed")
	}
	qCtx.SetResponse(c05Build(a, qCtx.Q()))
	if a.Opt == 2 {
		r := qCtx.R()
		r.Extra = append([]dns.RR{c05NewOpt()}, r.Extra...)
	}
	return nil
}

func (u *c05Up) bgFetchesSince(n int) (started int) {
	for _, c := range u.calls[n:] {
		if c.Bg && c.Fetch >= 0 {
			started++
		}
	}
	return
}

type c05Obs struct {
	Hit   bool
	Resp  *dns.Msg
	UpOpt *dns.OPT // OPT that the query context took out of the response it was given
	Err   error
}

func c05Query(c *Cache, u *c05Up, id uint16) c05Obs {
	q := new(dns.Msg)
	q.SetQuestion(c05Name, dns.TypeA)
	q.Id = id
	qCtx := query_context.NewContext(q)
	n := len(u.calls)
	w := sequence.NewChainWalker([]*sequence.ChainNode{{E: u}}, nil)
	err := c.Exec(context.Background(), qCtx, w)
	o := c05Obs{Err: err, Resp: qCtx.R(), UpOpt: qCtx.UpstreamOpt()}
	for _, cl := range u.calls[n:] {
		if !cl.Bg {
			o.Hit = cl.HadResp
			break
		}
	}
	return o
}

// c05Yield lets every other runnable vs thread (sweeper, background refresh)
// run until it blocks, without moving the clock.
func c05Yield() {
	var wg vs.WaitGroup
	wg.Add(1)
	vs.Go(func() { wg.Done() })
	wg.Wait()
}

var c05Cfg = vs.Config{NoWatchdog: true, Horizon: time.Duration(math.MaxInt64), MaxEvents: 1 << 40}

var c05Marker = c05Ans{Recs: []c05Rec{{0, 77}}, Mark: 9}

// ---------------------------------------------------------------------------
// scenario 1: one stored answer, one later query at a chosen instant

type c05Point struct {
	T     time.Duration
	Label string
}

// c05Points: the clock points of one (answer, lazy) input, labelled relative to
// the reference lifetime ("life") or to the other boundaries the property names.
func c05Points(a c05Ans, lazy int) []c05Point {
	pts := []c05Point{{0, "t0"}, {1, "t0+1ns"}, {time.Second - 1, "1s-1ns"}, {time.Second, "1s"}}
	_, _, life := c05Ref(a)
	type bnd struct {
		s    uint64
		name string
	}
	var bs []bnd
	has, min := a.minTTL()
	if has && min > 0 {
		bs = append(bs, bnd{uint64(min), "minttl"})
	}
	if a.headerAdmissible() {
		switch a.class() {
		case "nxdomain":
			bs = append(bs, bnd{30, "cap"})
		case "servfail":
			bs = append(bs, bnd{5, "cap"})
		case "noerror-empty":
			bs = append(bs, bnd{300, "cap"})
		}
		if lazy > 0 {
			bs = append(bs, bnd{uint64(lazy), "lazyttl"})
		}
	}
	for _, b := range bs {
		name := b.name
		if a.headerAdmissible() && b.s == life {
			name = "life"
		}
		d := time.Duration(b.s) * time.Second
		pts = append(pts, c05Point{d - time.Second, name + "-1s"}, c05Point{d - 1, name + "-1ns"}, c05Point{d, name},
			c05Point{d + 1, name + "+1ns"}, c05Point{d + time.Second, name + "+1s"})
	}
	// dedupe by instant: "life" labels win, then the first one listed
	sort.SliceStable(pts, func(i, j int) bool {
		if pts[i].T != pts[j].T {
			return pts[i].T < pts[j].T
		}
		return strings.HasPrefix(pts[i].Label, "life") && !strings.HasPrefix(pts[j].Label, "life")
	})
	out := pts[:0]
	for _, p := range pts {
		if p.T < 0 || (len(out) > 0 && out[len(out)-1].T == p.T) {
			continue
		}
		out = append(out, p)
	}
	return out
}

type c05PointIn struct {
	Scenario string `json:"scenario"`
	Ans      c05Ans `json:"ans"`
	Lazy     int    `json:"lazy"`
	TNs      int64  `json:"t_ns"`
	Label    string `json:"label"`
}

type c05Verdict struct {
	Outcome string
	Sig     string
	Desc    string
	Calls   int // real-code calls made
	Infra   string
}

func c05GcOff(a c05Ans, t time.Duration) bool {
	if t <= 400*time.Second {
		return false
	}
	return !(len(a.Recs) <= 1 && t <= 86401*time.Second)
}

func c05RunPoint(in c05PointIn, verbose bool) c05Verdict {
	a, lazy, t := in.Ans, in.Lazy, time.Duration(in.TNs)
	var first, obs c05Obs
	var stored, swept int
	var bgStarted, overlap int
	var calls int
	x := vs.Run1(c05Cfg, func() {
		id, _ := vs.CurThread()
		c := NewCache(&Args{Size: 1024, LazyCacheTTL: lazy}, Opts{})
		c05Yield() // the plugin's background goroutines (sweeper, dump loop) start now
		u := &c05Up{mainID: id, script: func(n int) c05Ans {
			if n == 0 {
				return a
			}
			return c05Marker
		}}
		first = c05Query(c, u, 0x1001)
		stored = c.backend.Len()
		if c05GcOff(a, t) {
			c.backend.Close()
			c05Yield()
		}
		vs.Advance(t)
		c05Yield()
		swept = c.backend.Len()
		n := len(u.calls)
		obs = c05Query(c, u, 0x1002)
		c05Yield()
		bgStarted, overlap = u.bgFetchesSince(n), u.overlapBg
		calls = 4
		c.Close()
	})
	v := c05Verdict{Calls: calls}
	if x.Panic != "" || !x.Quiescent || x.Livelock {
		v.Infra = fmt.Sprintf("execution did not end cleanly: panic=%q quiescent=%v livelock=%v blocked=%v", x.Panic, x.Quiescent, x.Livelock, x.Blocked)
		if x.Panic != "" {
			v.Sig, v.Desc, v.Infra = "panic/"+a.class(), x.Panic, ""
		}
		return v
	}
	admit, why, life := c05Ref(a)
	cls := a.class()
	lz := "off"
	if lazy > 0 {
		lz = "on"
	}
	key := func(res string) string { return cls + "/lazy-" + lz + "/" + in.Label + "/" + res }
	show := func() string {
		s := fmt.Sprintf("upstream answer %s (rcode %d, tc=%v, opt mode %d), lazy_cache_ttl=%d, stored at t=0, queried at t=%v", c05RecsStr(a), a.Rcode, a.TC, a.Opt, lazy, t)
		if obs.Hit && obs.Resp != nil {
			s += "; served: " + c05MsgStr(obs.Resp)
		} else {
			s += "; not served (next plugin saw no response)"
		}
		return s
	}
	if verbose {
		fmt.Println(show())
		fmt.Printf("reference: admit=%v (%s) lifetime=%ds; entries in store after the first query: %d, before the second query (after the sweeper ran): %d; background fetches after the second query: %d\n", admit, why, life, stored, swept, bgStarted)
	}
	if first.Hit {
		v.Sig, v.Desc = "hit-on-empty-cache/"+cls, "first query on an empty cache was served from cache; "+show()
		return v
	}
	if !admit {
		if stored > 0 || obs.Hit {
			v.Sig = "nonadmissible-stored/" + why + "/" + cls
			v.Desc = fmt.Sprintf("an answer that must never be stored (%s) was stored (entries in store: %d, served again: %v); %s", why, stored, obs.Hit, show())
			v.Outcome = key("VIOLATION-stored")
			return v
		}
		v.Outcome = key("not-stored")
		return v
	}
	if !obs.Hit {
		res := "miss"
		if stored == 0 {
			res = "miss-not-stored"
		}
		if bgStarted != 0 {
			res += "+bgfetch" // not forbidden by the property
		}
		v.Outcome = key(res)
		return v
	}
	if obs.Resp == nil {
		v.Sig, v.Desc = "hit-without-response/"+cls, show()
		return v
	}
	if obs.UpOpt != nil && obs.UpOpt.Hdr.Ttl != c05OptTTL {
		v.Sig, v.Desc = "opt-aged/"+cls, fmt.Sprintf("the cached answer carried an OPT pseudo-record whose flags field changed from %#x to %#x (TTL arithmetic applied to OPT); %s", c05OptTTL, obs.UpOpt.Hdr.Ttl, show())
		return v
	}
	age := ""
	if t >= (1<<22)*time.Second {
		age = "/age>=2^22s"
	}
	if uint64(t/time.Second) < life {
		// live: TTLs lowered by the whole seconds elapsed, never below 1
		if d := c05Diff(obs.Resp, a, func(ttl uint32) uint32 { return c05FreshTTL(ttl, t) }); d != "" {
			v.Sig, v.Desc = "ttl-mismatch/"+cls+age, "live entry served with wrong content: "+d+"; "+show()
			v.Outcome = key("VIOLATION-ttl")
			return v
		}
		if bgStarted != 0 {
			v.Outcome = key("fresh+refresh")
			return v
		}
		v.Outcome = key("fresh")
		return v
	}
	// elapsed >= lifetime
	if lazy <= 0 || bgStarted == 0 {
		v.Sig = "served-expired/" + cls
		v.Desc = fmt.Sprintf("answer served %v after it was stored although its lifetime is %d s (smallest TTL / rcode cap) and no stale-refresh was started; %s", t, life, show())
		v.Outcome = key("VIOLATION-expired")
		return v
	}
	if d := c05Diff(obs.Resp, a, func(uint32) uint32 { return 5 }); d != "" {
		v.Sig, v.Desc = "stale-ttl/"+cls, "stale entry must be served with TTL 5 on every record: "+d+"; "+show()
		v.Outcome = key("VIOLATION-stale-ttl")
		return v
	}
	if bgStarted != 1 || overlap != 0 {
		v.Sig, v.Desc = "stale-refresh-count/"+cls, fmt.Sprintf("one stale hit started %d background fetches (overlapping: %d); %s", bgStarted, overlap, show())
		return v
	}
	v.Outcome = key("stale+1refresh")
	return v
}

func c05RecsStr(a c05Ans) string {
	if a.None {
		return "<none>"
	}
	var p []string
	for _, r := range a.Recs {
		p = append(p, fmt.Sprintf("%s:%d", [...]string{"an", "ns", "ar"}[r.Sec], r.TTL))
	}
	return "[" + strings.Join(p, " ") + "]"
}

func c05MsgStr(m *dns.Msg) string {
	var p []string
	for s, sec := range [3][]dns.RR{m.Answer, m.Ns, m.Extra} {
		for _, rr := range sec {
			p = append(p, fmt.Sprintf("%s:%s:%d", [...]string{"an", "ns", "ar"}[s], dns.TypeToString[rr.Header().Rrtype], rr.Header().Ttl))
		}
	}
	return fmt.Sprintf("rcode %d [%s]", m.Rcode, strings.Join(p, " "))
}

// c05Messages enumerates record lists with 0..n records: sections are
// non-decreasing (a message is answer list, authority list, additional list),
// TTL vectors are the full product of the alphabet.
func c05Messages(maxN int, ttls []uint32, f func([]c05Rec)) {
	f(nil)
	for n := 1; n <= maxN; n++ {
		secs := make([]int, n)
		var recSec func(i, lo int)
		recSec = func(i, lo int) {
			if i == n {
				idx := make([]int, n)
				for {
					recs := make([]c05Rec, n)
					for k := range recs {
						recs[k] = c05Rec{secs[k], ttls[idx[k]]}
					}
					f(recs)
					k := n - 1
					for k >= 0 {
						idx[k]++
						if idx[k] < len(ttls) {
							break
						}
						idx[k] = 0
						k--
					}
					if k < 0 {
						return
					}
				}
			}
			for s := lo; s <= 2; s++ {
				secs[i] = s
				recSec(i+1, s)
			}
		}
		recSec(0, 0)
	}
}

// ---------------------------------------------------------------------------
// scenario 2: stale hit -> one refresh -> fresh entry

type c05SeqIn struct {
	Scenario string `json:"scenario"`
	A1       c05Ans `json:"a1"`
	A2       c05Ans `json:"a2"`
	Lazy     int    `json:"lazy"`
	StaleNs  int64  `json:"stale_ns"` // first stale query, relative to the store
	DelayNs  int64  `json:"delay_ns"` // virtual latency of the upstream for background fetches
}

// c05Model is the reference state: the latest admissible upstream answer.
type c05Model struct {
	has bool
	ans c05Ans
	at  time.Duration
}

func c05RunSeq(in c05SeqIn, verbose bool) c05Verdict {
	delay := time.Duration(in.DelayNs)
	a3 := c05Ans{Recs: []c05Rec{{0, 77}, {2, 40}}, Mark: 3}
	type step struct {
		at      time.Duration
		obs     c05Obs
		bgNew   int // background fetches started by this query (after yielding)
		inflBef int
		model   c05Model
		name    string
	}
	var steps []step
	var overlap, calls int
	var u *c05Up
	x := vs.Run1(c05Cfg, func() {
		id, _ := vs.CurThread()
		c := NewCache(&Args{Size: 1024, LazyCacheTTL: in.Lazy}, Opts{})
		c05Yield() // the plugin's background goroutines (sweeper, dump loop) start now
		u = &c05Up{mainID: id, bgDelay: delay, script: func(n int) c05Ans {
			switch n {
			case 0:
				return in.A1
			case 1:
				return in.A2
			}
			return a3
		}}
		model := func() c05Model {
			var m c05Model
			for _, cl := range u.calls {
				if cl.Fetch >= 0 && cl.Done {
					if ok, _, _ := c05Ref(cl.Ans); ok {
						m = c05Model{true, cl.Ans, cl.DoneAt}
					}
				}
			}
			return m
		}
		query := func(name string) {
			c05Yield()
			st := step{at: vs.Elapsed(), name: name, inflBef: u.inflightBg, model: model()}
			n := len(u.calls)
			st.obs = c05Query(c, u, uint16(0x2000+len(steps)))
			c05Yield()
			st.bgNew = u.bgFetchesSince(n)
			steps = append(steps, st)
			calls++
		}
		query("store")
		vs.Advance(time.Duration(in.StaleNs))
		query("stale-1")
		if delay > 0 {
			vs.Advance(delay / 2)
			query("during-refresh")
			vs.Advance(delay - delay/2)
		}
		query("after-refresh")
		vs.Advance(time.Second - 1)
		query("after-refresh+1s-1ns")
		vs.Advance(1)
		query("after-refresh+1s")
		overlap = u.overlapBg
		c.Close()
	})
	v := c05Verdict{Calls: calls + 1}
	cls := in.A1.class()
	if x.Panic != "" {
		v.Sig, v.Desc = "seq/panic", x.Panic
		return v
	}
	if !x.Quiescent || x.Livelock {
		v.Infra = fmt.Sprintf("sequence did not end cleanly: quiescent=%v livelock=%v blocked=%v", x.Quiescent, x.Livelock, x.Blocked)
		return v
	}
	if verbose {
		fmt.Printf("a1=%s a2=%s(rcode %d tc=%v none=%v) lazy=%d stale=%v delay=%v\n", c05RecsStr(in.A1), c05RecsStr(in.A2), in.A2.Rcode, in.A2.TC, in.A2.None, in.Lazy, time.Duration(in.StaleNs), delay)
		for _, cl := range u.calls {
			fmt.Printf("  next plugin called at t=%v background=%v response-present=%v fetch=%d done-at=%v\n", cl.At, cl.Bg, cl.HadResp, cl.Fetch, cl.DoneAt)
		}
	}
	var path []string
	for _, st := range steps {
		desc := func(msg string) string {
			s := fmt.Sprintf("step %q at t=%v: %s; first answer %s, refresh answer %s (rcode %d tc=%v none=%v), lazy_cache_ttl=%d, first stale query at %v, upstream latency %v", st.name, st.at, msg,
				c05RecsStr(in.A1), c05RecsStr(in.A2), in.A2.Rcode, in.A2.TC, in.A2.None, in.Lazy, time.Duration(in.StaleNs), delay)
			if st.obs.Hit && st.obs.Resp != nil {
				s += "; served " + c05MsgStr(st.obs.Resp)
			}
			return s
		}
		if verbose {
			fmt.Printf("  %-22s t=%-14v hit=%-5v bg-started=%d in-flight-before=%d model={has=%v %s at=%v}", st.name, st.at, st.obs.Hit, st.bgNew, st.inflBef, st.model.has, c05RecsStr(st.model.ans), st.model.at)
			if st.obs.Hit && st.obs.Resp != nil {
				fmt.Printf(" served %s", c05MsgStr(st.obs.Resp))
			}
			fmt.Println()
		}
		if !st.obs.Hit {
			if st.bgNew != 0 {
				path = append(path, "miss+bgfetch") // not forbidden by the property
			} else {
				path = append(path, "miss")
			}
			continue
		}
		if !st.model.has || st.obs.Resp == nil {
			v.Sig, v.Desc = "seq/hit-without-entry/"+cls, desc("served from cache although no admissible answer was ever fetched")
			return v
		}
		m := st.model
		el := st.at - m.at
		_, _, life := c05Ref(m.ans)
		if uint64(el/time.Second) < life {
			if d := c05Diff(st.obs.Resp, m.ans, func(ttl uint32) uint32 { return c05FreshTTL(ttl, el) }); d != "" {
				sig := "seq/not-latest-entry/"
				if st.name == "store" || st.name == "stale-1" {
					sig = "seq/ttl-mismatch/"
				}
				v.Sig, v.Desc = sig+cls, desc("the latest fetched answer ("+c05RecsStr(m.ans)+fmt.Sprintf(", fetched at t=%v", m.at)+") is live but something else was served: "+d)
				return v
			}
			path = append(path, "fresh")
			continue
		}
		// the latest admissible answer has run out: only a stale serve is allowed
		if in.Lazy <= 0 {
			v.Sig, v.Desc = "seq/served-expired/"+cls, desc("expired entry served with lazy caching off")
			return v
		}
		if d := c05Diff(st.obs.Resp, m.ans, func(uint32) uint32 { return 5 }); d != "" {
			if st.bgNew == 0 && st.inflBef == 0 {
				v.Sig, v.Desc = "seq/served-expired/"+cls, desc(fmt.Sprintf("entry served %v after its fetch although its lifetime is %d s, not in stale form and without refresh: %s", el, life, d))
			} else {
				v.Sig, v.Desc = "seq/stale-ttl/"+cls, desc("stale entry must be the latest fetched answer with TTL 5: "+d)
			}
			return v
		}
		switch {
		case st.inflBef == 0 && st.bgNew == 1:
			path = append(path, "stale+refresh")
		case st.inflBef == 1 && st.bgNew == 0:
			path = append(path, "stale-inflight")
		default:
			v.Sig, v.Desc = "seq/stale-refresh-count/"+cls, desc(fmt.Sprintf("stale hit with %d refresh(es) already in flight started %d new background fetch(es); exactly one must be in flight", st.inflBef, st.bgNew))
			return v
		}
	}
	if overlap != 0 {
		v.Sig, v.Desc = "seq/refresh-overlap/"+cls, fmt.Sprintf("%d background fetches were started while another one was in flight", overlap)
		return v
	}
	dl := "d0"
	switch {
	case delay > 5*time.Second:
		dl = "d>timeout"
	case delay > 0:
		dl = "d<timeout"
	}
	a2c := in.A2.class()
	if ok, why, _ := c05Ref(in.A2); !ok && why == "zero-ttl" {
		a2c += "-zero-ttl"
	}
	v.Outcome = "seq/refresh=" + a2c + "/" + dl + "/" + strings.Join(path[1:], ",")
	return v
}

// ---------------------------------------------------------------------------

func TestVerifC05a(t *testing.T) {
	e := vr.GetEnv()
	if raw, ok := vr.ReplayInput(); ok {
		var head struct {
			Scenario string `json:"scenario"`
		}
		json.Unmarshal(raw, &head)
		var v c05Verdict
		if head.Scenario == "seq" {
			var in c05SeqIn
			if err := json.Unmarshal(raw, &in); err != nil {
				t.Fatal(err)
			}
			v = c05RunSeq(in, true)
		} else {
			var in c05PointIn
			if err := json.Unmarshal(raw, &in); err != nil {
				t.Fatal(err)
			}
			v = c05RunPoint(in, true)
		}
		fmt.Println("outcome:", v.Outcome)
		if v.Infra != "" {
			fmt.Println("INFRA:", v.Infra)
			t.Fatal("infra")
		}
		if v.Sig != "" {
			fmt.Printf("REPLAY-VIOLATION property=C05 sig=%s\n  %s\n", v.Sig, v.Desc)
		} else {
			fmt.Println("REPLAY-OK: this input does not violate the property on the current tree")
		}
		return
	}

	res := vr.New("C05", e)
	res.Rule = "point scenario: one evaluation = (upstream answer, lazy_cache_ttl, clock point): store through cache.Exec at t=0, advance the virtual clock, query again, compare with the reference; " +
		"outcome class = answer class (noerror / noerror-empty / nxdomain / servfail / rcode-other / tc) x lazy on/off x position of the clock point relative to the boundary (life, minttl, cap, lazyttl: -1s,-1ns,0,+1ns,+1s; t0..1s) x result (not-stored, miss, fresh, stale+1refresh). " +
		"seq scenario: one evaluation = (first answer, refresh answer, lazy_cache_ttl, stale point, upstream latency): 5-6 queries around one background refresh; outcome class = refresh answer class x latency class x sequence of results"
	start := time.Now()
	n1, n2 := 2, 1
	seqTTLs := []uint32{1, 5, 30, 300}
	if e.Tier == "thorough" {
		n1, n2 = 3, 2
		seqTTLs = []uint32{1, 2, 5, 29, 30, 31, 299, 300, 301}
	}
	lazies := []int{0, 10, 86400}
	res.Bounds["ttl_alphabet"] = c05TTLs
	res.Bounds["max_records_admissible_header"] = n1
	res.Bounds["max_records_other_rcode_or_tc"] = n2
	res.Bounds["lazy_cache_ttl"] = lazies
	res.Bounds["opt_modes"] = []string{"none", "in upstream reply (taken out by query context)", "left in response"}
	res.Bounds["rcodes"] = "0..15"
	res.Bounds["clock_points"] = "{0,1ns,1s-1ns,1s} + {b-1s,b-1ns,b,b+1ns,b+1s} for b in {smallest TTL, rcode cap 30/5/300 s, lazy_cache_ttl}"
	res.Bounds["seq_first_ttls"] = seqTTLs

	var unit int64
	stop := false
	record := func(v c05Verdict, in any) {
		res.Evaluations++
		res.Transitions += int64(v.Calls)
		if v.Infra != "" && res.Infra == "" {
			res.Infra = v.Infra
		}
		if v.Outcome != "" {
			res.Outcome(v.Outcome)
		}
		if v.Sig != "" {
			res.ViolateInput(v.Sig, v.Desc, in)
		}
	}

	// scenario 1
	var completedN = -1
	for n := 0; n <= n1 && !stop; n++ {
		var msgs [][]c05Rec
		c05Messages(n, c05TTLs, func(r []c05Rec) {
			if len(r) == n {
				msgs = append(msgs, r)
			}
		})
		for _, recs := range msgs {
			if stop {
				break
			}
			for opt := 0; opt <= 2 && !stop; opt++ {
				for rcode := 0; rcode <= 15 && !stop; rcode++ {
					for tc := 0; tc <= 1; tc++ {
						a := c05Ans{Recs: recs, Opt: opt, Rcode: rcode, TC: tc == 1}
						if !a.headerAdmissible() && n > n2 {
							continue
						}
						unit++
						if !e.Mine(unit) {
							continue
						}
						if e.Expired() {
							stop = true
							break
						}
						for _, lazy := range lazies {
							res.States++
							for _, p := range c05Points(a, lazy) {
								in := c05PointIn{Scenario: "point", Ans: a, Lazy: lazy, TNs: int64(p.T), Label: p.Label}
								v := c05RunPoint(in, false)
								record(v, in)
								if res.Evaluations%997 == 1 {
									res.Sample(map[string]any{"input": in, "outcome": v.Outcome})
								}
							}
						}
					}
				}
			}
		}
		if !stop {
			completedN = n
		}
	}
	res.Bounds["point_units_total"] = unit

	// scenario 2
	seqDone := false
	if !stop {
		refresh := []c05Ans{
			{Recs: []c05Rec{{0, 7}}, Mark: 2},
			{Recs: []c05Rec{{0, 1}, {1, 60}}, Mark: 2},
			{Recs: []c05Rec{{0, 300}, {2, 300}}, Opt: 1, Mark: 2},
			{Recs: []c05Rec{{1, 60}}, Rcode: dns.RcodeNameError, Mark: 2},
			{Rcode: dns.RcodeServerFailure},
			{Recs: []c05Rec{{0, 60}}, TC: true, Mark: 2},
			{Recs: []c05Rec{{0, 0}}, Mark: 2},
			{Recs: []c05Rec{{0, 60}}, Rcode: dns.RcodeRefused, Mark: 2},
			{None: true},
		}
		delays := []time.Duration{0, time.Second, 6 * time.Second}
		var firsts []c05Ans
		for _, t1 := range seqTTLs {
			firsts = append(firsts, c05Ans{Recs: []c05Rec{{0, t1}}})
			firsts = append(firsts, c05Ans{Recs: []c05Rec{{0, t1}, {1, 301}, {2, math.MaxUint32}}, Opt: 2})
		}
		var su int64
	seq:
		for _, a1 := range firsts {
			for _, lazy := range []int{10, 86400} {
				_, _, life := c05Ref(a1)
				l := time.Duration(life) * time.Second
				for _, so := range []time.Duration{l, l + 1, l + time.Second, l + 4*time.Second} {
					for _, a2 := range refresh {
						for _, d := range delays {
							su++
							if !e.Mine(su) {
								continue
							}
							if e.Expired() {
								stop = true
								break seq
							}
							in := c05SeqIn{Scenario: "seq", A1: a1, A2: a2, Lazy: lazy, StaleNs: int64(so), DelayNs: int64(d)}
							res.States++
							v := c05RunSeq(in, false)
							record(v, in)
							if su%97 == 1 {
								res.Sample(map[string]any{"input": in, "outcome": v.Outcome})
							}
						}
					}
				}
			}
		}
		res.Bounds["seq_units_total"] = su
		seqDone = !stop
	}
	if stop {
		res.Exhaustive = false
		res.Notes = append(res.Notes, fmt.Sprintf("budget expired: point scenario fully covered up to %d records per answer, seq scenario complete: %v", completedN, seqDone))
	}
	res.Bounds["wall_s"] = time.Since(start).Seconds()
	res.Write(e)
}
