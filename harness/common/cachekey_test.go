package cache

import (
	"reflect"

	"github.com/IrineSistiana/mosdns/v5/zz_verif/fk"
	"github.com/miekg/dns"
)

// Released pool buffers are poisoned in every cache-plugin check: a key or a
// message that aliases a buffer released too early turns into garbage.
func init() { fk.PoisonPool() }

// verifMsgKey calls the real getMsgKey through reflection so that the
// harnesses keep compiling when a change gives it extra results (e.g. a pooled
// buffer to release): the first result is the key.
func verifMsgKey(q *dns.Msg) string {
	out := reflect.ValueOf(getMsgKey).Call([]reflect.Value{reflect.ValueOf(q)})
	k := out[0].String()
	return string(append([]byte(nil), k...)) // private copy: the key may alias a pooled buffer
}
