package upstream

import (
	"context"
	"errors"
	"fmt"
	stdnet "net"
	"strings"
	"testing"
	"time"

	"github.com/IrineSistiana/mosdns/v5/pkg/pool"
	"github.com/IrineSistiana/mosdns/v5/zz_verif/fk"
	"github.com/IrineSistiana/mosdns/v5/zz_verif/vnet"
	"github.com/IrineSistiana/mosdns/v5/zz_verif/vr"
	"github.com/IrineSistiana/mosdns/v5/zz_verif/vs"
	"go.uber.org/zap"
)

// C07, upstream level: the objects NewUpstream builds around the transports
// (the UDP upstream with its TCP fallback, tcp and tcp+pipeline) are run over
// the in-memory network with 1-2 callers and a concurrent Close. Oracle: every
// call and Close return; a call made after Close returned fails at once and
// opens nothing; one millisecond after Close returned and all calls are back,
// every connection the upstream opened is closed and stays the only ones; at
// quiescence no thread of the upstream is left.

type c07uSys struct {
	scheme  string
	tc      bool // UDP replies are truncated
	callers int
	tcpSilent bool          // the TCP side accepts the connection and never answers
	timeout   time.Duration // callers' deadline (default 3 s)
	retAt     []time.Duration
	conns   []*fk.Conn
	dials   []string
	errs    []error
	done    int
	closeReturned bool
	openAfterClose  []string
	lateDials       int
	probeErr        error
	probeTook       time.Duration
	probed          bool
	finished        bool
	gate            int // when the closer starts: 0 at once, 1 after the client consumed the first UDP reply (or the first TCP reply for tcp schemes), 2 after a second connection was dialed
	firstConsumed   bool
}

type c07uSink struct{ s *c07uSys }

func (k c07uSink) Dial(ctx context.Context, network, addr string) (stdnet.Conn, error) {
	s := k.s
	s.dials = append(s.dials, network+" "+addr)
	switch network {
	case "udp":
		a, _ := fk.NewPipe(fmt.Sprintf("udp#%d", len(s.conns)), true)
		a.WriteHook = func(c *fk.Conn, wb []byte, nth int) error {
			rep := fk.Answer(wb, 77)
			if s.tc {
				rep[2] |= 0x02
			}
			a.Deliver(rep)
			return nil
		}
		a.OnConsumed = func(int) { s.firstConsumed = true }
		s.conns = append(s.conns, a)
		return a, nil
	case "tcp":
		a, _ := fk.NewPipe(fmt.Sprintf("tcp#%d", len(s.conns)), false)
		var stream []byte
		a.WriteHook = func(c *fk.Conn, wb []byte, nth int) error {
			stream = append(stream, wb...)
			msgs, rest := fk.Unframe(stream)
			stream = rest
			for _, m := range msgs {
				if s.tcpSilent {
					continue
				}
				a.Deliver(fk.Frame(fk.Answer(m, 78)))
			}
			return nil
		}
		if len(s.conns) == 0 {
			a.OnConsumed = func(int) { s.firstConsumed = true }
		}
		s.conns = append(s.conns, a)
		return a, nil
	}
	return nil, fmt.Errorf("unexpected network %q", network)
}

func (k c07uSink) ListenPacket(ctx context.Context, network, addr string) (stdnet.PacketConn, error) {
	return nil, errors.New("not used")
}
func (k c07uSink) ResolveUDPAddr(network, addr string) (*stdnet.UDPAddr, error) {
	return nil, errors.New("not used")
}
func (k c07uSink) DialUDP(network string, laddr, raddr *stdnet.UDPAddr) (stdnet.Conn, error) {
	return nil, errors.New("not used")
}

func (s *c07uSys) run() {
	vnet.SetSink(c07uSink{s})
	u, err := NewUpstream(s.scheme+"://192.0.2.1:5353", Opt{Logger: zap.NewNop()})
	if err != nil {
		panic(err)
	}
	s.errs = make([]error, s.callers)
	s.retAt = make([]time.Duration, s.callers)
	if s.timeout == 0 {
		s.timeout = 3 * time.Second
	}
	var wg vs.WaitGroup
	for i := 0; i < s.callers; i++ {
		i := i
		wg.Add(1)
		vs.GoNamed(fmt.Sprintf("caller%d", i), func() {
			defer wg.Done()
			ctx, cancel := vs.WithTimeout(context.Background(), s.timeout)
			defer cancel()
			r, err := u.ExchangeContext(ctx, fk.Query(uint16(0x4D00+i), fmt.Sprintf("c07u-%d.example.", i), 1))
			s.errs[i], s.retAt[i] = err, vs.Elapsed()
			if r != nil {
				pool.ReleaseBuf(r)
			}
			s.done++
		})
	}
	wg.Add(1)
	vs.GoNamed("closer", func() {
		defer wg.Done()
		// the closer's start is an environment choice: it keeps the interesting
		// windows (a reply just handed over, the fallback just dialed) within
		// reach of a small deviation bound
		switch s.gate {
		case 1:
			vs.Block("closer.gate", nil, func() bool { return s.firstConsumed || s.done == s.callers })
		case 2:
			vs.Block("closer.gate", nil, func() bool { return len(s.conns) >= 2 || s.done == s.callers })
		case 3:
			vs.Block("closer.gate", nil, func() bool { return s.done == s.callers })
		}
		u.Close()
		s.closeReturned = true
	})
	wg.Wait()
	vs.Freeze() // what follows is measurement
	vs.Sleep(time.Millisecond)
	for _, c := range s.conns {
		if !c.Closed() {
			s.openAfterClose = append(s.openAfterClose, c.Name)
		}
	}
	d0 := len(s.dials)
	t0 := vs.Elapsed()
	r, err := u.ExchangeContext(context.Background(), fk.Query(0x4DFF, "afterclose.example.", 1))
	if r != nil {
		pool.ReleaseBuf(r)
	}
	s.probeErr, s.probeTook, s.lateDials, s.probed = err, vs.Elapsed()-t0, len(s.dials)-d0, true
	s.finished = true
}

func c07uScenario(name, scheme string, tc bool, callers, d int) vr.Scenario {
	return c07uScenarioT(name, scheme, tc, callers, d, false, 0)
}

func c07uScenarioT(name, scheme string, tc bool, callers, d int, tcpSilent bool, timeout time.Duration) vr.Scenario {
	var sys *c07uSys
	return vr.Scenario{Name: name, P: d, D: d, Horizon: 10 * time.Minute,
		Body: func() {
			sys = &c07uSys{scheme: scheme, tc: tc, callers: callers, tcpSilent: tcpSilent, timeout: timeout}
			sys.gate = vs.Choose(3)
			if tcpSilent {
				sys.gate = 3 // Close only after the calls are back: their own deadline must end them
			}
			sys.run()
		},
		Check: func(x *vs.Exec) (string, *vs.Violation) {
			s := sys
			desc := fmt.Sprintf("\n  %s tc=%v callers=%d closer-gate=%d: errs=%v dials=%v closeReturned=%v open1msAfterClose=%v probe: err=%v took=%v dials=%d", s.scheme, s.tc, s.callers, s.gate, s.errs, s.dials, s.closeReturned, s.openAfterClose, s.probeErr, s.probeTook, s.lateDials)
			V := func(o, why string) (string, *vs.Violation) {
				return o, &vs.Violation{Sig: name + "/" + o, Desc: why + desc}
			}
			if x.Panic != "" {
				return V("panic", x.Panic)
			}
			if x.Livelock {
				return V("livelock", "the execution exceeded the event budget")
			}
			if !s.finished || s.done != s.callers || !s.closeReturned {
				return V("hang", fmt.Sprintf("callers or Close never returned; parked: %v", x.Blocked))
			}
			for i, at := range s.retAt {
				if x.EarlyTimers == 0 && at > s.timeout {
					return V("late-after-deadline", fmt.Sprintf("call %d had a deadline of %v and returned at %v", i, s.timeout, at))
				}
			}
			if len(x.Blocked) > 0 {
				return V("goroutine-leak", fmt.Sprintf("threads of the upstream are still parked at quiescence: %v", x.Blocked))
			}
			if len(s.openAfterClose) > 0 {
				return V("conn-leak-after-close", fmt.Sprintf("connections still open 1 ms after Close returned and every call was back: %v", s.openAfterClose))
			}
			if s.probeErr == nil {
				return V("call-after-close-succeeds", "an exchange started after Close returned a reply")
			}
			if s.lateDials > 0 {
				return V("dial-after-close", fmt.Sprintf("an exchange started after Close opened %d connection(s)", s.lateDials))
			}
			if s.probeTook > 0 {
				return V("call-after-close-slow", fmt.Sprintf("an exchange started after Close took %v to fail", s.probeTook))
			}
			var key []string
			for _, e := range s.errs {
				if e == nil {
					key = append(key, "ok")
				} else {
					key = append(key, "err")
				}
			}
			return strings.Join(key, ",") + fmt.Sprintf("/dials%d", len(s.dials)), nil
		}}
}

func TestVerifC07u(t *testing.T) {
	e := vr.GetEnv()
	d := 2
	if e.Tier == "thorough" {
		d = 3
	}
	scs := []vr.Scenario{
		c07uScenario("udp-tc-c1-closer", "udp", true, 1, d+1),
		c07uScenario("udp-tc-c2-closer", "udp", true, 2, d),
		c07uScenario("udp-notc-c2-closer", "udp", false, 2, d),
		c07uScenarioT("udp-tc-c1-tcp-silent-deadline1s", "udp", true, 1, d, true, time.Second),
		c07uScenarioT("tcp-c1-silent-deadline1s", "tcp", false, 1, d, true, time.Second),
		c07uScenario("tcp-c2-closer", "tcp", false, 2, d),
		c07uScenario("tcp+pipeline-c2-closer", "tcp+pipeline", false, 2, d),
	}
	vr.RunScenarios("C07", scs)
}
