package cache

import (
	"fmt"
	"sort"
	"strings"
	"testing"
	"time"

	"github.com/IrineSistiana/mosdns/v5/pkg/concurrent_map"
	"github.com/IrineSistiana/mosdns/v5/zz_verif/vr"
	"github.com/IrineSistiana/mosdns/v5/zz_verif/vs"
)

// C11: the cache store is safe, exact and bounded under concurrency.
//
// Part a (engine vs): 2-3 threads, each running 1-2 operations chosen by the
// explorer from {Get, Store (fresh / short-lived / already expired), Flush, Len,
// Range, gc, clock advance} over three keys of which two collide in one shard
// (the harness key type chooses its own Sum()), on the real pkg/cache over
// pkg/concurrent_map with a capacity of one entry per shard. Every lookup is
// judged against the recorded history; the in-explorer vector-clock race
// detector watches the map-typed fields. Part b: capacity for every size class.

type c11key struct {
	id  int
	sum uint64
}

func (k c11key) Sum() uint64 { return k.sum }

var c11keys = []c11key{{0, 0}, {1, 64}, {2, 1}, {3, 0},
	// nine more keys of shard 0 (scenarios with shards of 16 entries)
	{4, 128}, {5, 192}, {6, 256}, {7, 320}, {8, 384}, {9, 448}, {10, 512}, {11, 576}, {12, 640}} // k0 and k1 share shard 0; k3 has the very same Sum() as k0 (a full hash collision: the keys still differ)

type c11op struct {
	thread     int
	kind       string
	key        int
	val        int
	exp        time.Duration // expiry as an offset from the epoch
	begin, end int
	at         time.Duration
	got        int // Get: value (0 = miss); Len: length
	gotExp     time.Time
	rng        map[int]int // Range: key -> value
	ignored    bool
	missWith    int // Get: value handed out together with ok == false
	missWithExp time.Time
}

type c11sys struct {
	ops  []*c11op
	seq  int
	val  int
	c    *Cache[c11key, int]
	size int
	lenAtEnd int
}

const (
	c11Far   = time.Hour
	c11Short = time.Second
	c11Frac  = 200 * time.Millisecond
)


func (s *c11sys) do(th int, name string) {
	o := &c11op{thread: th, kind: name}
	s.seq++
	o.begin, o.at = s.seq, vs.Elapsed()
	store := func(k int, exp time.Duration) {
		s.val++
		o.kind, o.key, o.val, o.exp = "store", k, s.val, vs.Elapsed()+exp
		s.ops = append(s.ops, o) // visible to concurrent judges while it runs
		s.c.Store(c11keys[k], o.val, vs.Epoch.Add(o.exp))
	}
	switch name {
	case "get0", "get1", "get3":
		o.kind, o.key = "get", int(name[3]-'0')
		v, e, ok := s.c.Get(c11keys[o.key])
		if ok {
			o.got, o.gotExp = v, e
		} else if v != 0 || !e.IsZero() {
			// "returns nothing": the in-tree callers look at the value, not at ok
			o.missWith, o.missWithExp = v, e
		}
		s.ops = append(s.ops, o)
	case "storeA0":
		store(0, c11Far)
	case "storeShort0":
		store(0, c11Short)
	case "storeFrac0":
		store(0, c11Frac) // expires within the current second
	case "storeExpired0":
		store(0, -time.Nanosecond)
		o.ignored = true
	case "store1":
		store(1, c11Far)
	case "store2":
		store(2, c11Far)
	case "store3":
		store(3, c11Far)
	case "storeShortMany":
		// nine short-lived entries in shard 0 (one op per entry in the history)
		for k := 4; k <= 12; k++ {
			if k > 4 {
				s.seq++
				o.end = s.seq
				o = &c11op{thread: th, kind: name}
				s.seq++
				o.begin, o.at = s.seq, vs.Elapsed()
			}
			store(k, c11Short)
		}
	case "flush":
		s.ops = append(s.ops, o)
		s.c.Flush()
	case "len":
		o.got = s.c.Len()
		s.ops = append(s.ops, o)
	case "range":
		o.rng = map[int]int{}
		s.c.Range(func(k c11key, v int, _ time.Time) error { o.rng[k.id] = v; return nil })
		s.ops = append(s.ops, o)
	case "gc":
		s.ops = append(s.ops, o)
		s.c.gc(vs.Now())
	case "advance2s":
		s.ops = append(s.ops, o)
		vs.Sleep(2 * time.Second)
	case "advance300ms":
		s.ops = append(s.ops, o)
		vs.Sleep(300 * time.Millisecond)
	}
	s.seq++
	o.end = s.seq
}

var c11point = []string{"get0", "get1", "get3", "storeA0", "storeShort0", "storeFrac0", "storeExpired0", "store1", "store2", "store3", "advance2s", "advance300ms"}
var c11full = []string{"flush", "len", "range", "gc"}

// c11Scenario: progs[t] lists, per operation slot of thread t, the menu the
// explorer chooses from.
// c11ScenarioX: like c11Scenario with a sequential prologue (run before the
// workers start) and epilogue (after they joined), both by the main thread.
func c11ScenarioX(name string, pre []string, progs [][][]string, post []string, d int) vr.Scenario {
	sc := c11Scenario(name, progs, d, false)
	c11pre[name], c11post[name] = pre, post
	return sc
}

var c11pre, c11post = map[string][]string{}, map[string][]string{}
var c11big = map[string]bool{}

func c11Scenario(name string, progs [][][]string, d int, prefill bool) vr.Scenario {
	threads := len(progs)
	var sys *c11sys
	body := func() {
		s := &c11sys{size: 64}
		if c11big[name] {
			s.size = 1024 // 16 entries per shard
		}
		sys = s
		// one entry per shard, so that k0 / k1 (same shard) exercise eviction;
		// built by hand because New() enforces the minimum size of 1024
		s.c = &Cache[c11key, int]{closeNotify: make(chan struct{}), m: concurrent_map.NewMapCache[c11key, *elem[int]](s.size)}
		if prefill {
			s.do(-1, "storeA0")
			s.do(-1, "store1") // same shard, capacity 1: evicts
		}
		for _, op := range c11pre[name] {
			s.do(-1, op)
		}
		var wg vs.WaitGroup
		for t := 0; t < threads; t++ {
			t := t
			wg.Add(1)
			vs.GoNamed(fmt.Sprintf("w%d", t), func() {
				defer wg.Done()
				for _, menu := range progs[t] {
					s.do(t, menu[vs.Choose(len(menu))])
				}
			})
		}
		wg.Wait()
		for _, op := range c11post[name] {
			s.do(-1, op)
		}
		s.lenAtEnd = s.c.Len()
		s.c.Close()
	}
	check := func(x *vs.Exec) (string, *vs.Violation) {
		s := sys
		var kinds []string
		for _, o := range s.ops {
			if o.thread >= 0 {
				kinds = append(kinds, o.kind)
			}
		}
		sort.Strings(kinds)
		key := strings.Join(kinds, "+")
		hist := func() string {
			var b strings.Builder
			for _, o := range s.ops {
				fmt.Fprintf(&b, "\n  w%d %s key=%d val=%d exp=%v [%d,%d] t=%v got=%d rng=%v", o.thread, o.kind, o.key, o.val, o.exp, o.begin, o.end, o.at, o.got, o.rng)
			}
			return b.String()
		}
		V := func(oracle, why string) (string, *vs.Violation) {
			return key, &vs.Violation{Sig: name + "/" + oracle, Desc: why + hist()}
		}
		if x.Panic != "" {
			return V("panic", x.Panic)
		}
		if len(x.Races) > 0 {
			return V("data-race", "unsynchronised accesses (no happens-before edge): "+strings.Join(x.Races, "; "))
		}
		if len(x.Blocked) > 0 || !x.Quiescent {
			return V("stuck", fmt.Sprintf("parked at the end: %v", x.Blocked))
		}
		judge := func(g *c11op, k, v int, isGet bool) (string, string) {
			var w *c11op
			for _, o := range s.ops {
				if o.kind == "store" && o.val == v {
					w = o
				}
			}
			if w == nil {
				return "phantom-value", fmt.Sprintf("value %d was never stored", v)
			}
			if w.key != k {
				return "wrong-key", fmt.Sprintf("value %d was stored under key %d, returned for key %d", v, w.key, k)
			}
			if w.begin > g.end {
				return "future-value", "the value's Store began after the lookup returned"
			}
			if w.ignored {
				return "expired-at-store", "a value whose expiry was already in the past when stored was returned"
			}
			if isGet && w.exp < g.at {
				return "expired-value", fmt.Sprintf("value expired at %v, lookup at %v", w.exp, g.at)
			}
			for _, o := range s.ops {
				if o.end == 0 || o.end >= g.begin || o.begin <= w.end {
					continue // not strictly between the store's end and the lookup's begin
				}
				if o.kind == "store" && o.key == k && !o.ignored {
					return "overwritten-value", fmt.Sprintf("value %d had been overwritten by value %d before the lookup began", v, o.val)
				}
				if o.kind == "flush" {
					return "flushed-value", fmt.Sprintf("value %d had been flushed before the lookup began", v)
				}
			}
			return "", ""
		}
		// the harness cache holds one entry per shard; k0 and k1 live in shard 0, k2 in shard 1
		capBound := func(before int) int {
			sh := map[uint64]map[int]bool{}
			for _, o := range s.ops {
				if o.kind == "store" && o.begin < before {
					i := c11keys[o.key].sum % 64
					if sh[i] == nil {
						sh[i] = map[int]bool{}
					}
					sh[i][o.key] = true
				}
			}
			n := 0
			for _, ks := range sh {
				n += min(len(ks), s.size/64)
			}
			return n
		}
		for _, o := range s.ops {
			switch o.kind {
			case "get":
				if o.missWith != 0 || !o.missWithExp.IsZero() {
					return V("get/value-with-miss", fmt.Sprintf("Get(key %d) reported a miss (ok == false) and handed out value %d / expiry %v all the same: a miss returns nothing", o.key, o.missWith, o.missWithExp))
				}
				if o.got != 0 {
					if orc, why := judge(o, o.key, o.got, true); orc != "" {
						return V("get/"+orc, why)
					}
				}
			case "range":
				for k, v := range o.rng {
					if orc, why := judge(o, k, v, false); orc != "" {
						return V("range/"+orc, why)
					}
				}
				if len(o.rng) > capBound(o.end) {
					return V("len/over-capacity", fmt.Sprintf("Range saw %d entries, capacity of the written shards is %d", len(o.rng), capBound(o.end)))
				}
			case "len":
				if o.got > capBound(o.end) || o.got < 0 {
					return V("len/over-capacity", fmt.Sprintf("Len() = %d although the shards that were ever written hold at most %d entries (one entry per shard)", o.got, capBound(o.end)))
				}
			}
		}
		if s.lenAtEnd > capBound(1<<30) {
			return V("len/over-capacity", fmt.Sprintf("Len() = %d at the end, capacity of the written shards is %d", s.lenAtEnd, capBound(1<<30)))
		}
		return key, nil
	}
	return vr.Scenario{Name: name, P: d, D: d, Horizon: 3 * time.Hour, Race: true, SharedOnly: true, Body: body, Check: check}
}

func TestVerifC11(t *testing.T) {
	e := vr.GetEnv()
	P, F := c11point, c11full
	all := append(append([]string{}, P...), F...)
	type m = [][]string
	scs := []vr.Scenario{
		c11Scenario("point2-point1", []m{{P, P}, {P}}, 2, false),
		c11Scenario("point2-point2-prefilled", []m{{P, P}, {P, P}}, 1, true),
		c11Scenario("full1-point2-prefilled", []m{{F}, {P, P}}, 2, true),
		c11Scenario("point1full1-point1", []m{{P, F}, {P}}, 2, false),
		c11Scenario("point1full1-point1-prefilled", []m{{P, F}, {P}}, 2, true),
		c11Scenario("full1-full1-prefilled", []m{{F}, {F}}, 1, true),
		// two lookups race on an entry that has expired, then the shard is refilled: capacity must still hold
		c11ScenarioX("expired-get-get-then-refill", []string{"storeShort0", "advance2s"}, []m{{{"get0", "get3"}}, {{"get0", "gc", "flush"}}}, []string{"storeA0", "store1", "len", "store3", "range", "len"}, 3),
	}
	// a sweep / dump walk over a shard in which most entries have expired, against a writer of a live key of that shard
	c11big["sweep-many-expired-vs-writer"] = true
	sweep := c11ScenarioX("sweep-many-expired-vs-writer", []string{"storeShortMany", "storeA0", "advance2s"},
		[]m{{{"gc", "range"}}, {{"storeA0", "flush", "store1"}, {"get0"}}}, []string{"get0", "get1", "range"}, 1)
	// a store overlapping a flush of its shard, then a flush alone: whatever survived the first one must be gone
	sf := c11ScenarioX("store-vs-flush-then-flush", []string{"store1"}, []m{{{"storeA0", "store3"}}, {{"flush"}}}, []string{"flush", "get0", "get3", "len", "range"}, 1)
	scs = append(scs, sweep, sf)
	if e.Tier == "thorough" {
		scs = []vr.Scenario{sweep, sf,
			c11Scenario("point2-point2", []m{{P, P}, {P, P}}, 3, false),
			c11Scenario("point2-point1-prefilled", []m{{P, P}, {P}}, 4, true),
			c11Scenario("point1-point1-point1-prefilled", []m{{P}, {P}, {P}}, 3, true),
			c11Scenario("full1-point2-prefilled", []m{{F}, {P, P}}, 3, true),
			c11Scenario("point1full1-point1full1", []m{{P, F}, {P, F}}, 1, false),
			c11Scenario("full1-full1-prefilled", []m{{F}, {F}}, 2, true),
			c11Scenario("any1-any1-point1", []m{{all}, {all}, {P}}, 1, true),
			c11ScenarioX("expired-get-get-then-refill", []string{"storeShort0", "advance2s"}, []m{{{"get0", "get3"}}, {{"get0", "gc", "flush"}}, {{"get0", "storeA0"}}}, []string{"storeA0", "store1", "len", "store3", "range", "len"}, 3),
		}
	}
	vr.RunScenarios("C11", scs)
}

// part b: capacity for every configured size class
func TestVerifC11b(t *testing.T) {
	e := vr.GetEnv()
	res := vr.New("C11", e)
	res.Rule = "part b: for each configured size insert 3*max(size,1024) distinct keys spread over all shards (and, separately, all into one shard) and read Len() after every insert; outcome class = size class x fill pattern"
	sizes := []int{-5, 0, 1, 10, 63, 64, 65, 100, 127, 128, 1000, 1024, 1025, 4096}
	if e.Tier == "thorough" {
		sizes = append(sizes, -1, 2, 32, 129, 511, 512, 1023, 2048, 65536)
	}
	res.Bounds["sizes"] = sizes
	type in struct {
		Size    int    `json:"size"`
		Pattern string `json:"pattern"`
	}
	idx := int64(0)
	for _, size := range sizes {
		for _, pattern := range []string{"spread", "one-shard"} {
			idx++
			if !e.Mine(idx) {
				continue
			}
			capacity := size
			if capacity < 1024 {
				capacity = 1024
			}
			n := 3 * capacity
			worst := 0
			vs.Run1(vs.Config{NoWatchdog: true}, func() {
				c := New[c11key, int](Opts{Size: size, CleanerInterval: time.Hour})
				for i := 0; i < n; i++ {
					k := c11key{id: i, sum: uint64(i)}
					if pattern == "one-shard" {
						k.sum = uint64(i) * 64
					}
					c.Store(k, i, vs.Now().Add(time.Hour))
					res.Transitions++
					if l := c.Len(); l > worst {
						worst = l
					}
				}
				c.Close()
			})
			res.Evaluations++
			res.States++
			cls := "size>=1024"
			switch {
			case size <= 0:
				cls = "size<=0"
			case size < 64:
				cls = "size1..63"
			case size < 1024:
				cls = "size64..1023"
			}
			res.Outcome(cls + "/" + pattern)
			res.Sample(map[string]any{"size": size, "pattern": pattern, "inserted": n, "max_len": worst})
			if worst > capacity {
				res.ViolateInput("capacity/"+cls, fmt.Sprintf("configured size %d: %d entries after inserting %d distinct keys (%s); capacity is max(size,1024) = %d", size, worst, n, pattern, capacity), in{size, pattern})
			}
		}
	}
	res.Write(e)
}
