package concurrent_lru

import (
	"encoding/json"
	"fmt"
	"sort"
	"strings"
	"testing"
	"time"

	"github.com/IrineSistiana/mosdns/v5/zz_verif/vr"
	"github.com/IrineSistiana/mosdns/v5/zz_verif/vs"
)

// C11 part c: the sharded LRU store (pkg/concurrent_lru over pkg/lru and
// pkg/list, both anchors of the property).
//
//   - TestVerifC11c (engine vs): 2-3 threads x 1-2 operations chosen by the
//     explorer from {Get, Add, Del, Clean, Flush, Len} over four keys (three in
//     one shard of capacity 2, so eviction runs) on the real ShardedLRU; every
//     lookup is judged against the recorded history, Len against the capacity,
//     the list/map consistency is probed sequentially at quiescence and the
//     in-explorer race detector watches every field of the three packages.
//   - TestVerifC11cSeq (enumeration): every operation sequence up to a depth on
//     one ShardedLRU, judged by the same rules sequentially.

type lkey struct {
	id  int
	sum uint64
}

func (k lkey) Sum() uint64 { return k.sum }

// k0,k1,k2 share shard 0 (capacity 2); k3 lives in shard 1
var lkeys = []lkey{{0, 0}, {1, 2}, {2, 4}, {3, 1}}

const (
	lShards   = 2
	lPerShard = 2
)

type lop struct {
	thread     int
	kind       string
	key, val   int
	begin, end int
	got        int  // get: value (0 = miss); len: length; clean: removed
	ok         bool // get
}

type lsys struct {
	ops      []*lop
	seq, val int
	c        *ShardedLRU[lkey, int]
	evicted  [][2]int // callback log (key id, value)
	present  map[int]int
	lenAtEnd int
}

func (s *lsys) do(th int, name string) {
	o := &lop{thread: th, kind: name}
	s.seq++
	o.begin = s.seq
	s.ops = append(s.ops, o) // visible to concurrent judges while it runs
	switch {
	case strings.HasPrefix(name, "get"):
		o.kind, o.key = "get", int(name[3]-'0')
		o.got, o.ok = s.c.Get(lkeys[o.key])
	case strings.HasPrefix(name, "add"):
		s.val++
		o.kind, o.key, o.val = "add", int(name[3]-'0'), s.val
		s.c.Add(lkeys[o.key], o.val)
	case strings.HasPrefix(name, "del"):
		o.kind, o.key = "del", int(name[3]-'0')
		s.c.Del(lkeys[o.key])
	case name == "cleanOdd":
		o.got = s.c.Clean(func(_ lkey, v int) bool { return v%2 == 1 })
	case name == "flush":
		s.c.Flush()
	case name == "len":
		o.got = s.c.Len()
	default:
		panic("unknown op " + name)
	}
	s.seq++
	o.end = s.seq
}

var lPoint = []string{"get0", "get1", "get3", "add0", "add1", "add2", "add3", "del0", "del1"}
var lFull = []string{"cleanOdd", "flush", "len"}

func c11cScenario(name string, progs [][][]string, d int, prefill bool) vr.Scenario {
	threads := len(progs)
	var sys *lsys
	body := func() {
		s := &lsys{}
		sys = s
		s.c = NewShardedLRU[lkey, int](lShards, lPerShard, func(k lkey, v int) { s.evicted = append(s.evicted, [2]int{k.id, v}) })
		if prefill {
			s.do(-1, "add0")
			s.do(-1, "add1") // shard 0 is full now; k0 is the oldest
			s.do(-1, "add3")
		}
		var wg vs.WaitGroup
		for t := 0; t < threads; t++ {
			t := t
			wg.Add(1)
			vs.GoNamed(fmt.Sprintf("w%d", t), func() {
				defer wg.Done()
				for _, menu := range progs[t] {
					s.do(t, menu[vs.Choose(len(menu))])
				}
			})
		}
		wg.Wait()
		// sequential probe at quiescence: the list and the map must agree
		s.lenAtEnd = s.c.Len()
		s.present = map[int]int{}
		for _, k := range lkeys {
			if v, ok := s.c.Get(k); ok {
				s.present[k.id] = v
			}
		}
	}
	check := func(x *vs.Exec) (string, *vs.Violation) {
		s := sys
		var kinds []string
		for _, o := range s.ops {
			if o.thread >= 0 {
				kinds = append(kinds, o.kind)
			}
		}
		sort.Strings(kinds)
		key := strings.Join(kinds, "+")
		hist := func() string {
			var b strings.Builder
			for _, o := range s.ops {
				fmt.Fprintf(&b, "\n  w%d %s key=%d val=%d [%d,%d] got=%d ok=%v", o.thread, o.kind, o.key, o.val, o.begin, o.end, o.got, o.ok)
			}
			fmt.Fprintf(&b, "\n  at quiescence: Len()=%d present=%v evicted=%v", s.lenAtEnd, s.present, s.evicted)
			return b.String()
		}
		V := func(oracle, why string) (string, *vs.Violation) {
			return key, &vs.Violation{Sig: name + "/" + oracle, Desc: why + hist()}
		}
		if x.Panic != "" {
			return V("panic", x.Panic)
		}
		if len(x.Races) > 0 {
			return V("data-race", "unsynchronised accesses (no happens-before edge): "+strings.Join(x.Races, "; "))
		}
		if len(x.Blocked) > 0 || !x.Quiescent {
			return V("stuck", fmt.Sprintf("parked at the end: %v", x.Blocked))
		}
		judge := func(gBegin, gEnd, k, v int) (string, string) {
			var w *lop
			for _, o := range s.ops {
				if o.kind == "add" && o.val == v {
					w = o
				}
			}
			if w == nil {
				return "phantom-value", fmt.Sprintf("value %d was never stored", v)
			}
			if w.key != k {
				return "wrong-key", fmt.Sprintf("value %d was stored under key %d, returned for key %d", v, w.key, k)
			}
			if w.begin > gEnd {
				return "future-value", "the value's Add began after the lookup returned"
			}
			for _, o := range s.ops {
				if o.end == 0 || o.end >= gBegin || o.begin <= w.end {
					continue // not strictly between the Add's end and the lookup's begin
				}
				switch {
				case o.kind == "add" && o.key == k:
					return "overwritten-value", fmt.Sprintf("value %d had been overwritten by value %d before the lookup began", v, o.val)
				case o.kind == "del" && o.key == k:
					return "deleted-value", fmt.Sprintf("value %d had been deleted before the lookup began", v)
				case o.kind == "flush":
					return "flushed-value", fmt.Sprintf("value %d had been flushed before the lookup began", v)
				case o.kind == "cleanOdd" && v%2 == 1:
					return "cleaned-value", fmt.Sprintf("value %d had been removed by Clean before the lookup began", v)
				}
			}
			return "", ""
		}
		for _, o := range s.ops {
			switch o.kind {
			case "get":
				if o.ok {
					if orc, why := judge(o.begin, o.end, o.key, o.got); orc != "" {
						return V("get/"+orc, why)
					}
				} else if o.got != 0 {
					return V("get/value-with-miss", fmt.Sprintf("Get reported a miss together with value %d", o.got))
				}
			case "len":
				if o.got < 0 || o.got > lShards*lPerShard {
					return V("len/over-capacity", fmt.Sprintf("Len() = %d, capacity is %d", o.got, lShards*lPerShard))
				}
			}
		}
		for k, v := range s.present {
			if orc, why := judge(1<<30, 1<<30, k, v); orc != "" {
				return V("final/"+orc, "at quiescence: "+why)
			}
		}
		if s.lenAtEnd < 0 || s.lenAtEnd > lShards*lPerShard {
			return V("len/over-capacity", fmt.Sprintf("at quiescence Len() = %d, capacity is %d", s.lenAtEnd, lShards*lPerShard))
		}
		perShard := map[uint64]int{}
		for k := range s.present {
			perShard[lkeys[k].sum%lShards]++
		}
		for sh, n := range perShard {
			if n > lPerShard {
				return V("len/over-capacity", fmt.Sprintf("shard %d holds %d entries at quiescence, its capacity is %d", sh, n, lPerShard))
			}
		}
		return key, nil
	}
	return vr.Scenario{Name: name, P: d, D: d, Horizon: time.Hour, Race: true, SharedOnly: true, Body: body, Check: check}
}

func TestVerifC11c(t *testing.T) {
	e := vr.GetEnv()
	P, F := lPoint, lFull
	all := append(append([]string{}, P...), F...)
	type m = [][]string
	scs := []vr.Scenario{
		c11cScenario("lru-point2-point1-prefilled", []m{{P, P}, {P}}, 2, true),
		c11cScenario("lru-point1-point1", []m{{P}, {P}}, 2, false),
		c11cScenario("lru-full1-point2-prefilled", []m{{F}, {P, P}}, 2, true),
		c11cScenario("lru-any1-any1-prefilled", []m{{all}, {all}}, 2, true),
	}
	if e.Tier == "thorough" {
		scs = []vr.Scenario{
			c11cScenario("lru-point2-point2-prefilled", []m{{P, P}, {P, P}}, 3, true),
			c11cScenario("lru-point2-point1", []m{{P, P}, {P}}, 3, false),
			c11cScenario("lru-point1-point1-point1-prefilled", []m{{P}, {P}, {P}}, 3, true),
			c11cScenario("lru-full1-point2-prefilled", []m{{F}, {P, P}}, 3, true),
			c11cScenario("lru-any2-any1-prefilled", []m{{all, all}, {all}}, 2, true),
		}
	}
	vr.RunScenarios("C11", scs)
}

// ---------------------------------------------------------------------------
// sequential reference comparison

// The statement does not fix which entry is evicted (only that the capacity is
// kept) and allows a miss at any time, so the sequential oracle is: a hit is the
// latest value added under that key and not removed since by Del / Flush / a
// matching Clean; Len and the number of retrievable keys per shard stay within
// the capacity; nothing panics.

var lSeqOps = []string{"add0", "add1", "add2", "add3", "get0", "get1", "get2", "get3", "del0", "del2", "cleanOdd", "flush", "len"}

// c11cRunSeq executes one operation sequence on a fresh real store; it returns
// a description of the first step that breaks the oracle.
func c11cRunSeq(seq []int) (sig string, why string) {
	c := NewShardedLRU[lkey, int](lShards, lPerShard, func(k lkey, v int) {})
	latest := map[int]int{} // key -> value a hit must carry (absent: must miss)
	val := 0
	var trace strings.Builder
	step := 0
	defer func() {
		if r := recover(); r != nil {
			sig, why = "seq/panic", fmt.Sprintf("step %d of [%s ]: panic: %v", step, trace.String(), r)
		}
	}()
	probe := func(k int) (string, string) {
		v, ok := c.Get(lkeys[k])
		want, have := latest[k]
		switch {
		case !ok && v != 0:
			return "seq/get", fmt.Sprintf("Get(k%d) reported a miss together with value %d", k, v)
		case ok && !have:
			return "seq/get-removed", fmt.Sprintf("Get(k%d) = %d although the key was never stored or has been removed (Del / Flush / Clean)", k, v)
		case ok && v != want:
			return "seq/get-stale", fmt.Sprintf("Get(k%d) = %d, the value stored last under that key is %d", k, v, want)
		}
		if !ok {
			delete(latest, k) // evicted: stays away until stored again
		}
		return "", ""
	}
	for i, oi := range seq {
		step = i
		name := lSeqOps[oi]
		fmt.Fprintf(&trace, " %s", name)
		switch {
		case strings.HasPrefix(name, "add"):
			val++
			k := int(name[3] - '0')
			c.Add(lkeys[k], val)
			latest[k] = val
		case strings.HasPrefix(name, "get"):
			if s, w := probe(int(name[3] - '0')); s != "" {
				return s, fmt.Sprintf("step %d of [%s ]: %s", i, trace.String(), w)
			}
		case strings.HasPrefix(name, "del"):
			k := int(name[3] - '0')
			c.Del(lkeys[k])
			delete(latest, k)
		case name == "cleanOdd":
			c.Clean(func(_ lkey, v int) bool { return v%2 == 1 })
			for k, v := range latest {
				if v%2 == 1 {
					delete(latest, k)
				}
			}
		case name == "flush":
			c.Flush()
			latest = map[int]int{}
		case name == "len":
		}
		if l := c.Len(); l < 0 || l > lShards*lPerShard {
			return "seq/len", fmt.Sprintf("after step %d of [%s ]: Len() = %d, capacity is %d", i, trace.String(), l, lShards*lPerShard)
		}
	}
	// final probe of every key: values and per-shard population
	step = len(seq)
	perShard := map[uint64]int{}
	for k := range lkeys {
		if s, w := probe(k); s != "" {
			return s, fmt.Sprintf("final probe after [%s ]: %s", trace.String(), w)
		}
		if _, ok := latest[k]; ok {
			perShard[lkeys[k].sum%lShards]++
		}
	}
	for sh, n := range perShard {
		if n > lPerShard {
			return "seq/over-capacity", fmt.Sprintf("after [%s ]: shard %d serves %d keys, its capacity is %d", trace.String(), sh, n, lPerShard)
		}
	}
	return "", ""
}

func TestVerifC11cSeq(t *testing.T) {
	e := vr.GetEnv()
	if raw, ok := vr.ReplayInput(); ok {
		var seq []int
		if err := json.Unmarshal(raw, &seq); err != nil {
			t.Fatal(err)
		}
		sig, why := c11cRunSeq(seq)
		fmt.Printf("replay: sig=%q %s\n", sig, why)
		if sig == "" {
			fmt.Println("replay: no violation")
		}
		return
	}
	res := vr.New("C11", e)
	res.Rule = "part c (sequential): one evaluation = one operation sequence on a fresh real ShardedLRU (2 shards x 2 entries) judged step by step (a hit carries the latest value stored under that key and not removed since; Len and the keys served per shard within the capacity; no panic), every key probed at the end; outcome class = multiset of operation kinds"
	depth := 5
	if e.Tier == "thorough" {
		depth = 6
	}
	res.Bounds["seq_ops"] = lSeqOps
	res.Bounds["seq_depth"] = depth
	n := len(lSeqOps)
	idx := int64(0)
	seq := make([]int, 0, depth)
	var rec func()
	rec = func() {
		if len(seq) > 0 {
			idx++
			if e.Mine(idx) {
				// only maximal sequences and those not extended are run in full; a prefix is
				// covered by its extensions, so evaluate leaves only
				if len(seq) == depth {
					res.Evaluations++
					res.Transitions += int64(depth)
					res.States++
					sig, why := c11cRunSeq(seq)
					kinds := make([]string, 0, depth)
					for _, oi := range seq {
						kinds = append(kinds, lSeqOps[oi][:3])
					}
					sort.Strings(kinds)
					res.Outcome("seq/" + strings.Join(kinds, ""))
					if sig != "" {
						res.ViolateInput(sig, why, append([]int{}, seq...))
					}
				}
			}
		}
		if len(seq) == depth {
			return
		}
		for i := 0; i < n; i++ {
			seq = append(seq, i)
			rec()
			seq = seq[:len(seq)-1]
		}
	}
	rec()
	res.Sample(map[string]any{"sequence": []string{"add0", "add1", "get0", "add2", "len"}, "note": "k0,k1,k2 share a shard of capacity 2: add2 must evict one of them"})
	res.Write(e)
}
