package netlist

import (
	"encoding/json"
	"fmt"
	"io"
	"net/netip"
	"strings"
	"testing"
	"testing/iotest"

	"github.com/IrineSistiana/mosdns/v5/zz_verif/vr"
)

// C13 part "bulk": long prefix lists. The main enumeration loads at most four
// prefixes; here lists of 1 .. 20000 entries are loaded through the real text
// loader (one file into an empty list; a file after inline prefixes; two files),
// under several ways of delivering the bytes, and EVERY entry is checked: an
// address inside it (first and last address, plain and IPv4-mapped notation)
// must be contained, addresses between the entries must not.
//
// Entry i is, by i mod 3, the /32 10.A.B.(4k) (single address without length),
// the /30 172.16+.. block, or the /64 2001:db8:i::/64: all entries are
// pairwise disjoint, with gaps between neighbours.

func c13bulkEntry(i int) (text string, inside []netip.Addr, outside netip.Addr) {
	hi, lo := byte(i>>8), byte(i)
	switch i % 3 {
	case 0:
		a := netip.AddrFrom4([4]byte{10, hi, lo, 8})
		return a.String(), []netip.Addr{a, netip.AddrFrom16(a.As16())}, netip.AddrFrom4([4]byte{10, hi, lo, 9})
	case 1:
		first := netip.AddrFrom4([4]byte{172, hi, lo, 16})
		last := netip.AddrFrom4([4]byte{172, hi, lo, 19})
		return first.String() + "/30", []netip.Addr{first, last, netip.AddrFrom16(last.As16())}, netip.AddrFrom4([4]byte{172, hi, lo, 20})
	}
	var b [16]byte
	copy(b[:], []byte{0x20, 0x01, 0x0d, 0xb8, hi, lo, 0, 1})
	first := netip.AddrFrom16(b)
	last := b
	for k := 8; k < 16; k++ {
		last[k] = 0xff
	}
	out := b
	out[7] = 2
	return first.String() + "/64", []netip.Addr{first, netip.AddrFrom16(last)}, netip.AddrFrom16(out)
}

func c13bulkText(from, to int) string {
	var sb strings.Builder
	for i := from; i < to; i++ {
		t, _, _ := c13bulkEntry(i)
		if i%9 == 2 {
			sb.WriteString("# comment\n\n")
		}
		sb.WriteString(t)
		if i%6 == 1 {
			sb.WriteString("  # note")
		}
		sb.WriteString("\n")
	}
	return sb.String()
}

type c13chunkReader struct {
	s   string
	max int
}

func (r *c13chunkReader) Read(p []byte) (int, error) {
	if len(r.s) == 0 {
		return 0, io.EOF
	}
	n := min(len(p), r.max, len(r.s))
	copy(p, r.s[:n])
	r.s = r.s[n:]
	return n, nil
}

type c13bulkIn struct {
	N        int    `json:"entries"`
	Layout   string `json:"layout"` // one-file | inline+file | two-files | file+inline
	Delivery string `json:"delivery"`
	// Wide: one more rule, a prefix that spans many first octets, next to the N small ones
	Wide string `json:"wide,omitempty"`
}

// prefixes shorter than /8 (plain, IPv4-mapped spelling, an IPv6 prefix covering part of the mapped range)
var c13bulkWide = []string{"224.0.0.0/4", "192.0.0.0/3", "128.0.0.0/1", "0.0.0.0/0", "::ffff:96.0.0.0/99", "::ffff:0:0/97", "::/80", "2400::/6"}

// c13wideProbes: the first and last address of p and of every /8 (IPv4) inside
// it, plain and IPv4-mapped; for IPv6 prefixes the first and last address.
func c13wideProbes(p netip.Prefix) []netip.Addr {
	p = p.Masked()
	var out []netip.Addr
	last := func(q netip.Prefix) netip.Addr {
		b := q.Addr().As16()
		bits := q.Bits()
		if q.Addr().Is4() {
			bits += 96
		}
		for i := bits; i < 128; i++ {
			b[i/8] |= 1 << (7 - uint(i%8))
		}
		a := netip.AddrFrom16(b)
		if q.Addr().Is4() {
			a = a.Unmap()
		}
		return a
	}
	out = append(out, p.Addr(), last(p))
	v4 := p
	if p.Addr().Is4In6() && p.Bits() >= 96 {
		v4 = netip.PrefixFrom(p.Addr().Unmap(), p.Bits()-96)
	}
	if v4.Addr().Is4() && v4.Bits() < 8 {
		for o := 0; o < 256; o++ {
			a := netip.AddrFrom4([4]byte{byte(o), 0, 0, 0})
			if v4.Contains(a) {
				z := netip.AddrFrom4([4]byte{byte(o), 255, 255, 255})
				out = append(out, a, z, netip.AddrFrom16(a.As16()), netip.AddrFrom16(z.As16()))
			}
		}
	}
	return out
}

var c13bulkLayouts = []string{"one-file", "inline+file", "two-files", "file+inline"}
var c13bulkDeliveries = []string{"whole", "one-byte-reads", "1000-byte-reads", "whole-no-final-newline"}

func c13bulkRun(in c13bulkIn) (evals int64, sig, why string) {
	rd := func(text string) io.Reader {
		if in.Delivery == "whole-no-final-newline" {
			text = strings.TrimSuffix(text, "\n") // the last entry is not terminated
		}
		switch in.Delivery {
		case "one-byte-reads":
			return iotest.OneByteReader(strings.NewReader(text))
		case "1000-byte-reads":
			return &c13chunkReader{s: text, max: 1000}
		}
		return strings.NewReader(text)
	}
	l := NewList()
	load := func(from, to int) error { return LoadFromReader(l, rd(c13bulkText(from, to))) }
	inline := func(from, to int) {
		for i := from; i < to; i++ {
			t, _, _ := c13bulkEntry(i)
			p, err := netip.ParsePrefix(t)
			if err != nil {
				a := netip.MustParseAddr(t)
				p = netip.PrefixFrom(a, a.BitLen())
			}
			l.Append(p)
		}
	}
	var err error
	k := min(3, in.N)
	switch in.Layout {
	case "one-file":
		err = load(0, in.N)
	case "inline+file":
		inline(0, k)
		err = load(k, in.N)
	case "two-files":
		if err = load(0, in.N/2); err == nil {
			err = load(in.N/2, in.N)
		}
	case "file+inline":
		err = load(0, in.N-k)
		inline(in.N-k, in.N)
	}
	if err != nil {
		return 1, "bulk/load-error", fmt.Sprintf("loading %d well-formed entries (%s, %s) failed: %v", in.N, in.Layout, in.Delivery, err)
	}
	var wide netip.Prefix
	if in.Wide != "" {
		wide = netip.MustParsePrefix(in.Wide)
		if in.Layout == "one-file" || in.Layout == "two-files" {
			err = LoadFromReader(l, rd(in.Wide+"\n"))
		} else {
			l.Append(wide)
		}
		if err != nil {
			return 1, "bulk/load-error", fmt.Sprintf("loading %q failed: %v", in.Wide, err)
		}
	}
	covered := func(a netip.Addr) bool {
		if !wide.IsValid() {
			return false
		}
		if wide.Contains(a) {
			return true
		}
		if a.Is4() {
			return wide.Contains(netip.AddrFrom16(a.As16()))
		}
		if a.Is4In6() {
			return wide.Contains(a.Unmap())
		}
		return false
	}
	l.Sort()
	missing, first := 0, ""
	if wide.IsValid() {
		for _, a := range c13wideProbes(wide) {
			evals++
			if !l.Contains(a) {
				missing++
				if first == "" {
					first = fmt.Sprintf("rule %q does not cover %v", in.Wide, a)
				}
			}
		}
	}
	for i := 0; i < in.N; i++ {
		t, inside, outside := c13bulkEntry(i)
		for _, a := range inside {
			evals++
			if !l.Contains(a) {
				missing++
				if first == "" {
					first = fmt.Sprintf("entry %d %q does not cover %v", i, t, a)
				}
			}
		}
		evals++
		if l.Contains(outside) && !covered(outside) {
			return evals, "bulk/false-positive", fmt.Sprintf("list of %d entries (%s, %s): %v is reported as contained, no entry covers it (it lies just above entry %d %q)", in.N, in.Layout, in.Delivery, outside, i, t)
		}
	}
	if missing > 0 {
		return evals, "bulk/false-negative", fmt.Sprintf("list of %d entries (%s, %s): %d covered addresses are reported as not contained; first: %s", in.N, in.Layout, in.Delivery, missing, first)
	}
	return evals, "", ""
}

func TestVerifC13Bulk(t *testing.T) {
	e := vr.GetEnv()
	if raw, ok := vr.ReplayInput(); ok {
		var in c13bulkIn
		if err := json.Unmarshal(raw, &in); err != nil {
			t.Fatal(err)
		}
		_, sig, why := c13bulkRun(in)
		fmt.Printf("replay %+v: sig=%q %s\n", in, sig, why)
		return
	}
	res := vr.New("C13", e)
	res.Rule = "bulk pass: one evaluation = one Contains on a List loaded from a long text (pairwise disjoint /32, /30 and /64 entries with gaps) in one of four layouts and three byte deliveries, then sorted; every entry's first/last address (IPv4 also as ::ffff:a.b.c.d) and the address just above it are queried; outcome class = size class x layout"
	sizes := []int{1, 2, 7, 100, 511, 512, 513, 700, 1024, 1025, 3000, 20000}
	if e.Tier == "thorough" {
		sizes = nil
		for n := 1; n <= 1100; n++ {
			sizes = append(sizes, n)
		}
		sizes = append(sizes, 1535, 1536, 1537, 2047, 2048, 2049, 3000, 4096, 4097, 10000, 20000, 65000)
	}
	res.Bounds["bulk.sizes"] = sizes
	res.Bounds["bulk.layouts"] = c13bulkLayouts
	res.Bounds["bulk.deliveries"] = c13bulkDeliveries
	idx := int64(0)
	for _, n := range sizes {
		for _, lay := range c13bulkLayouts {
			for _, how := range c13bulkDeliveries {
				idx++
				if !e.Mine(idx) {
					continue
				}
				if how == "one-byte-reads" && n > 5000 {
					continue
				}
				in := c13bulkIn{N: n, Layout: lay, Delivery: how}
				ev, sig, why := c13bulkRun(in)
				res.Evaluations += ev
				res.Transitions += ev
				res.States++
				cls := "n<=512"
				if n > 4096 {
					cls = "n>4096"
				} else if n > 512 {
					cls = "n513..4096"
				}
				res.Outcome("bulk/" + cls + "/" + lay)
				if sig != "" {
					res.ViolateInput(sig, why, in)
				}
			}
		}
	}
	// one more rule: a prefix shorter than /8 next to the N small ones
	res.Bounds["bulk.wide"] = c13bulkWide
	for _, n := range sizes {
		if n > 5000 {
			continue
		}
		for wi, w := range c13bulkWide {
			idx++
			if !e.Mine(idx) {
				continue
			}
			in := c13bulkIn{N: n, Layout: c13bulkLayouts[(wi+n)%len(c13bulkLayouts)], Delivery: "whole", Wide: w}
			ev, sig, why := c13bulkRun(in)
			res.Evaluations += ev
			res.Transitions += ev
			res.States++
			res.Outcome("bulk/wide/" + w)
			if sig != "" {
				res.ViolateInput(sig+"/wide", why+" (with the rule "+w+")", in)
			}
		}
	}
	res.Sample(map[string]any{"entries": 513, "layout": "one-file", "first_lines": c13bulkText(0, 4)})
	res.Write(e)
}
