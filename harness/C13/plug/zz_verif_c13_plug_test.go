package h_c13

// C13 part 1: the same reference through the ip_set plugin (args "ips" parsed
// by parseNetipPrefix, args "files" loaded by netlist.LoadFromReader).

import (
	"encoding/json"
	"fmt"
	"net/netip"
	"os"
	"path/filepath"
	"sort"
	"strings"
	"testing"

	"github.com/IrineSistiana/mosdns/v5/plugin/data_provider/ip_set"
	ref "github.com/IrineSistiana/mosdns/v5/zz_verif/c13ref"
	"github.com/IrineSistiana/mosdns/v5/zz_verif/vr"
)

type plugRunner struct {
	res                  *vr.Result
	sp                   *ref.Space
	dir                  string
	inputs, calls, evals int64
	verbose              bool
	classes              [1024]int64
}

const plugMaxLen = 3

var plugPaths = [...]string{"ip_set/ips", "ip_set/files"}

func (rn *plugRunner) fileName(pi, pos int) string {
	return filepath.Join(rn.dir, fmt.Sprintf("p_%d_%d.txt", pi, pos))
}

// one decorated file per (prefix, position); sequences are loaded as lists of files.
func (rn *plugRunner) genFiles() {
	for pi := range rn.sp.P {
		for pos := 0; pos < plugMaxLen; pos++ {
			if err := os.WriteFile(rn.fileName(pi, pos), []byte(ref.DecoratedText(pos, []string{rn.sp.P[pi].Text})), 0o644); err != nil {
				panic(err)
			}
		}
	}
}

func (rn *plugRunner) evalSeq(seq []int) {
	sp := rn.sp
	rn.inputs += int64(len(sp.A))
	files := []string{}
	for pos, pi := range seq {
		files = append(files, rn.fileName(pi, pos))
	}
	var sets [2]*ip_set.IPSet
	for v, args := range [...]*ip_set.Args{{IPs: sp.Texts(seq)}, {Files: files}} {
		rn.calls++
		s, err := ip_set.NewIPSet(nil, args)
		if err != nil {
			rn.res.ViolateInput(plugPaths[v]+"/load-error", fmt.Sprintf("ip_set: loading valid prefixes %q failed: %v", sp.Texts(seq), err), sp.Input(seq, 0, plugPaths[v]))
			return
		}
		sets[v] = s
	}
	shape := sp.Shape(seq)
	for ai := range sp.A {
		want := sp.Decide(seq, shape, ai)
		rn.classes[want.Key]++
		for v := range sets {
			rn.calls++
			rn.evals++
			got := sets[v].GetIPMatcher().Match(sp.A[ai].A)
			if got == want.In && !rn.verbose {
				continue
			}
			sig, desc := sp.Judge(seq, ai, want, got)
			if rn.verbose {
				fmt.Printf("  path=%-12s Match(%s) = %v  reference: %v (%s)\n", plugPaths[v], sp.A[ai].A, got, want.In, ref.ClassName(want.Key))
			}
			if sig != "" {
				n := len(rn.res.Violations)
				rn.res.ViolateInput(plugPaths[v]+"/"+sig, "ip_set plugin: "+desc, sp.Input(seq, ai, plugPaths[v]))
				if len(rn.res.Violations) > n {
					rn.res.Violations[n].Cost = ref.Cost(seq)
				}
			}
		}
	}
}

func TestVerifC13Plug(t *testing.T) {
	e := vr.GetEnv()
	dir := t.TempDir()
	if raw, ok := vr.ReplayInput(); ok {
		plugReplay(t, raw, dir)
		return
	}
	res := vr.New("C13", e)
	sp := ref.NewSpace(ref.UniverseTexts(), nil)
	rn := &plugRunner{res: res, sp: sp, dir: dir}
	maxLen := 2
	if e.Tier == "thorough" {
		maxLen = 3
	}
	res.Bounds["p1_sequences"] = fmt.Sprintf("ip_set plugin: all ordered sequences with repetition of length 0..%d over the same universe, all addresses; paths args.ips | args.files (one decorated file per prefix)", maxLen)
	rn.genFiles()
	n := len(sp.P)
	var unit int64
	expired := false
	completed := 0
	if e.Mine(unit) {
		rn.evalSeq([]int{})
	}
	unit++
	for length := 1; length <= maxLen && !expired; length++ {
		seq := make([]int, length)
		var rec func(pos int)
		rec = func(pos int) {
			if pos == length {
				rn.evalSeq(seq)
				return
			}
			for k := 0; k < n; k++ {
				seq[pos] = k
				rec(pos + 1)
			}
		}
		for i := 0; i < n; i++ {
			if e.Expired() {
				expired = true
				break
			}
			if e.Mine(unit) {
				seq[0] = i
				rec(1)
			}
			unit++
		}
		if !expired {
			completed = length
		}
	}
	if expired {
		res.Exhaustive = false
		res.Notes = append(res.Notes, fmt.Sprintf("part 1 (ip_set): budget expired; sequences of length <= %d fully covered", completed))
	}
	res.Bounds["p1_max_length_completed"] = completed
	for k, c := range rn.classes {
		if c > 0 {
			name := ref.ClassName(uint16(k)) // coarse class: without the list shape
			res.Outcomes["ip_set:"+name[strings.Index(name, "/")+1:]] += c
		}
	}
	res.States = rn.inputs
	res.Transitions = rn.calls
	res.Evaluations = rn.evals
	res.Write(e)
	for _, v := range res.Violations {
		t.Logf("violation %s: %s", v.Sig, v.Desc)
	}
}

func plugReplay(t *testing.T, raw json.RawMessage, dir string) {
	var in ref.Input
	if err := json.Unmarshal(raw, &in); err != nil {
		fmt.Println("INFRA: bad replay input:", err)
		t.FailNow()
	}
	addr, err := netip.ParseAddr(in.Addr)
	if err != nil {
		fmt.Println("INFRA: bad replay address:", err)
		t.FailNow()
	}
	res := vr.New("C13", vr.GetEnv())
	fmt.Printf("replay: prefixes=%q addr=%s (recorded path %s)\n", in.Prefixes, in.Addr, in.Path)
	sp := ref.NewSpace(in.Prefixes, []netip.Addr{addr})
	rn := &plugRunner{res: res, sp: sp, dir: dir, verbose: true}
	rn.genFiles()
	seq := make([]int, len(in.Prefixes))
	for i := range seq {
		seq[i] = i
	}
	rn.evalSeq(seq)
	if len(res.Violations) > 0 {
		sort.Slice(res.Violations, func(i, j int) bool { return res.Violations[i].Sig < res.Violations[j].Sig })
		for _, v := range res.Violations {
			fmt.Printf("REPLAY-VIOLATION property=C13 sig=%s\n  %s\n", v.Sig, v.Desc)
		}
		return
	}
	fmt.Println("REPLAY-OK: this input does not violate the property on the current tree")
}
