// Package h_c13 hosts the plugin-level part of check C13 (test files only).
package h_c13
