package h_c13

import (
	"fmt"
	"net/netip"
	"testing"
	"time"

	"github.com/IrineSistiana/mosdns/v5/plugin/data_provider/ip_set"
	"github.com/IrineSistiana/mosdns/v5/zz_verif/vr"
	"github.com/IrineSistiana/mosdns/v5/zz_verif/vs"
)

// C13 part c: a loaded IP set is queried by concurrent goroutines (every query
// of the server does). Lookups must be read-only: the in-explorer race detector
// (all fields of pkg/matcher/netlist are instrumented) reports any lookup that
// writes the set, e.g. a lazy sort on first use, and every thread must get the
// reference answer whatever the interleaving.

func TestVerifC13c(t *testing.T) {
	var got [][]bool
	var want []bool
	ips := []string{"10.1.0.0/16", "10.0.0.0/8", "192.0.2.7", "2001:db8::/32", "::ffff:203.0.113.0/120", "10.1.2.0/24"}
	qs := []netip.Addr{netip.MustParseAddr("10.2.0.1"), netip.MustParseAddr("10.1.2.3"), netip.MustParseAddr("192.0.2.8"),
		netip.MustParseAddr("2001:db8::1"), netip.MustParseAddr("203.0.113.9"), netip.MustParseAddr("::ffff:10.9.9.9")}
	want = []bool{true, true, false, true, true, true}
	sc := vr.Scenario{Name: "ipset-concurrent-first-lookups", P: 2, D: 2, Race: true, Horizon: time.Minute,
		Body: func() {
			got = nil
			s, err := ip_set.NewIPSet(nil, &ip_set.Args{IPs: ips})
			if err != nil {
				panic(err)
			}
			m := s.GetIPMatcher()
			var wg vs.WaitGroup
			for th := 0; th < 3; th++ {
				res := make([]bool, len(qs))
				got = append(got, res)
				wg.Add(1)
				vs.GoNamed(fmt.Sprintf("lookup%d", th), func() {
					defer wg.Done()
					for i, q := range qs {
						res[i] = m.Match(q)
						vs.Point("between-lookups", nil)
					}
				})
			}
			wg.Wait()
		},
		Check: func(x *vs.Exec) (string, *vs.Violation) {
			if x.Panic != "" {
				return "panic", &vs.Violation{Sig: "ipset-concurrent/panic", Desc: x.Panic}
			}
			if len(x.Races) > 0 {
				return "race", &vs.Violation{Sig: "ipset-concurrent/data-race", Desc: fmt.Sprintf("concurrent lookups are not read-only: %v", x.Races)}
			}
			for th, res := range got {
				for i := range res {
					if res[i] != want[i] {
						return "wrong", &vs.Violation{Sig: "ipset-concurrent/wrong-answer", Desc: fmt.Sprintf("thread %d: Match(%v) = %v, want %v", th, qs[i], res[i], want[i])}
					}
				}
			}
			return "ok", nil
		}}
	vr.RunScenarios("C13", []vr.Scenario{sc})
}
