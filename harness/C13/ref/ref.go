// Package c13ref is the reference model and the input universe of check C13
// (IP sets contain exactly the addresses their prefixes cover). Harness code,
// mounted virtually at zz_verif/c13ref; it imports no mosdns package.
//
// Reference: every prefix and every address is a point/range in one 128-bit
// space, IPv4 a.b.c.d being ::ffff:a.b.c.d (prefix length + 96). A list
// contains an address iff a linear scan finds a prefix whose first `bits` bits
// equal those of the address (bit-by-bit comparison, no sorting, no merging).
package c13ref

import (
	"fmt"
	"net/netip"
	"strings"
)

const (
	FormV4     = iota // written as IPv4
	FormMapped        // written as IPv4-mapped IPv6 (::ffff:a.b.c.d)
	FormV6            // other IPv6
)

var FormName = [...]string{"v4", "v4mapped", "v6"}

type Prefix struct {
	Text     string       // as written by the user ("a.b.c.d/n", "x::y/n", or a single address without "/")
	P        netip.Prefix // what a caller passes to List.Append (host bits NOT masked)
	Base     [16]byte     // masked base in the 128-bit space
	Last     [16]byte     // last covered address
	Bits     int          // 0..128 in the 128-bit space
	Form     int
	HostBits bool // written with host bits set
}

type Addr struct {
	A    netip.Addr
	B    [16]byte
	Form int
}

func bit(b *[16]byte, i int) byte { return (b[i/8] >> (7 - uint(i%8))) & 1 }

// Covers: naive bit-by-bit prefix test in the 128-bit space.
func Covers(p *Prefix, a *[16]byte) bool {
	for i := 0; i < p.Bits; i++ {
		if bit(&p.Base, i) != bit(a, i) {
			return false
		}
	}
	return true
}

func isMapped(b [16]byte) bool {
	for i := 0; i < 10; i++ {
		if b[i] != 0 {
			return false
		}
	}
	return b[10] == 0xff && b[11] == 0xff
}

func formOf(a netip.Addr) int {
	switch {
	case a.Is4():
		return FormV4
	case a.Is4In6():
		return FormMapped
	}
	return FormV6
}

// ParsePrefix builds the reference view of one universe entry (stdlib parsing is trusted).
func ParsePrefix(text string) Prefix {
	var np netip.Prefix
	if strings.Contains(text, "/") {
		np = netip.MustParsePrefix(text)
	} else {
		a := netip.MustParseAddr(text)
		np = netip.PrefixFrom(a, a.BitLen())
	}
	p := Prefix{Text: text, P: np, Form: formOf(np.Addr()), Bits: np.Bits()}
	if np.Addr().Is4() {
		p.Bits += 96
	}
	raw := np.Addr().As16() // IPv4 -> ::ffff:a.b.c.d
	for i := 0; i < 128; i++ {
		by, m := i/8, byte(1)<<(7-uint(i%8))
		if i < p.Bits {
			p.Base[by] |= raw[by] & m
			p.Last[by] |= raw[by] & m
		} else {
			p.Last[by] |= m
			if raw[by]&m != 0 {
				p.HostBits = true
			}
		}
	}
	return p
}

func inc(b [16]byte) ([16]byte, bool) {
	for i := 15; i >= 0; i-- {
		b[i]++
		if b[i] != 0 {
			return b, true
		}
	}
	return b, false
}

func dec(b [16]byte) ([16]byte, bool) {
	for i := 15; i >= 0; i-- {
		b[i]--
		if b[i] != 0xff {
			return b, true
		}
	}
	return b, false
}

func Less(a, b *[16]byte) bool {
	for i := 0; i < 16; i++ {
		if a[i] != b[i] {
			return a[i] < b[i]
		}
	}
	return false
}

// ---------------------------------------------------------------------------
// universe

const V4Block = "10.1.2.16/28"
const V6Block = "2001:db8::a0/124"

func UniverseTexts() []string {
	var u []string
	// every prefix /28../32 inside 10.1.2.16/28 (31)
	for bits := 28; bits <= 32; bits++ {
		step := 1 << (32 - bits)
		for h := 16; h < 32; h += step {
			u = append(u, fmt.Sprintf("10.1.2.%d/%d", h, bits))
		}
	}
	u = append(u,
		// around the block, adjacent blocks and neighbours
		"0.0.0.0/0", "10.0.0.0/8", "10.1.2.0/24", "10.1.2.0/27", "10.1.2.0/28", "10.1.2.32/28", "10.1.2.15/32", "10.1.2.32/32",
		// host bits set
		"10.1.2.21/30", "10.1.2.31/28", "10.200.3.4/8", "10.1.2.29/27", "1.2.3.4/0",
		// single address
		"10.1.2.21",
		// IPv4-mapped IPv6 spellings
		"::ffff:10.1.2.16/124", "::ffff:10.1.2.22/127", "::ffff:10.1.2.21/128", "::ffff:10.0.0.0/104", "::ffff:10.1.2.25/125", "::ffff:10.1.2.22",
		// IPv6 block 2001:db8::a0/124
		"2001:db8::a0/124", "2001:db8::a0/125", "2001:db8::a8/125", "2001:db8::a4/126", "2001:db8::a6/127",
		"2001:db8::a0/128", "2001:db8::a7/128", "2001:db8::af/128", "2001:db8::a5/126", "2001:db8::a7",
		// around it
		"2001:db8::/32", "2001:db8::b0/124", "2001:db8::90/124", "2001:db8::9f/128",
		// whole space, the IPv4 range and its neighbourhood
		"::/0", "::ffff:0:0/96", "::/95", "::fffe:0:0/95", "::/80", "::/96",
	)
	return u
}

type Space struct {
	P         []Prefix
	A         []Addr
	Rel       [][]uint8 // [prefix][addr] relation code
	pairShape [][]uint8 // [prefix][prefix] shape of the ordered pair
}

const (
	RelOut       = 0 // not covered, not adjacent, prefix lies above the address
	RelOutBelow  = 7 // not covered, not adjacent, prefix lies below the address
	RelInterior  = 1 // covered, neither first nor last address
	RelFirst     = 2 // covered, first address
	RelLast      = 3 // covered, last address
	RelOnly      = 4 // covered, prefix is a single address
	RelJustBelow = 5 // the address just before the first
	RelJustAbove = 6 // the address just after the last
)

func addrForms(b [16]byte) []Addr {
	a6 := netip.AddrFrom16(b)
	if isMapped(b) {
		a4 := netip.AddrFrom4([4]byte{b[12], b[13], b[14], b[15]})
		return []Addr{{A: a4, B: b, Form: FormV4}, {A: a6, B: b, Form: FormMapped}}
	}
	return []Addr{{A: a6, B: b, Form: FormV6}}
}

// NewSpace: prefixes from texts; addresses = every address of both blocks,
// first / last / just-below / just-above of every prefix, each IPv4 one in
// IPv4 and in IPv4-mapped form. Deterministic order, no duplicates.
func NewSpace(texts []string, extraAddrs []netip.Addr) *Space {
	sp := &Space{}
	for _, t := range texts {
		sp.P = append(sp.P, ParsePrefix(t))
	}
	seen := map[[16]byte]bool{}
	add := func(b [16]byte) {
		if !seen[b] {
			seen[b] = true
			sp.A = append(sp.A, addrForms(b)...)
		}
	}
	if extraAddrs == nil {
		for _, blk := range []string{V4Block, V6Block} {
			p := ParsePrefix(blk)
			for b, ok := p.Base, true; ok && !Less(&p.Last, &b); b, ok = inc(b) {
				add(b)
			}
		}
		for i := range sp.P {
			p := &sp.P[i]
			add(p.Base)
			add(p.Last)
			if b, ok := dec(p.Base); ok {
				add(b)
			}
			if b, ok := inc(p.Last); ok {
				add(b)
			}
		}
	} else {
		for _, a := range extraAddrs {
			sp.A = append(sp.A, Addr{A: a, B: a.As16(), Form: formOf(a)})
		}
	}
	sp.Rel = make([][]uint8, len(sp.P))
	for pi := range sp.P {
		p := &sp.P[pi]
		row := make([]uint8, len(sp.A))
		below, okB := dec(p.Base)
		above, okA := inc(p.Last)
		for ai := range sp.A {
			b := sp.A[ai].B
			switch {
			case Covers(p, &b):
				switch {
				case p.Bits == 128:
					row[ai] = RelOnly
				case b == p.Base:
					row[ai] = RelFirst
				case b == p.Last:
					row[ai] = RelLast
				default:
					row[ai] = RelInterior
				}
			case okB && b == below:
				row[ai] = RelJustBelow
			case okA && b == above:
				row[ai] = RelJustAbove
			case Less(&p.Last, &b):
				row[ai] = RelOutBelow
			}
		}
		sp.Rel[pi] = row
	}
	sp.pairShape = make([][]uint8, len(sp.P))
	for i := range sp.P {
		sp.pairShape[i] = make([]uint8, len(sp.P))
		for j := range sp.P {
			p, q := &sp.P[i], &sp.P[j]
			s := ShapeDisjoint
			switch {
			case p.Base == q.Base && p.Bits != q.Bits:
				s = ShapeSameBase
			case p.Base == q.Base:
				s = ShapeDuplicate
			case Covers(p, &q.Base) && p.Bits < q.Bits:
				s = ShapeNested
			default:
				if nx, ok := inc(p.Last); ok && nx == q.Base {
					s = ShapeAdjacent
				}
			}
			sp.pairShape[i][j] = uint8(s)
		}
	}
	return sp
}

// Shape of a prefix sequence (what makes Sort/merge interesting).
const (
	ShapeEmpty = iota
	ShapeSingle
	ShapeDisjoint
	ShapeAdjacent  // some prefix starts right after another ends
	ShapeNested    // some prefix lies inside another (different base)
	ShapeDuplicate // the same range twice
	ShapeSameBase  // same base address, different lengths
)

var ShapeName = [...]string{"empty", "single", "disjoint", "adjacent", "nested", "duplicate", "same-base-different-length"}

func (sp *Space) Shape(seq []int) int {
	switch len(seq) {
	case 0:
		return ShapeEmpty
	case 1:
		return ShapeSingle
	}
	sh := ShapeDisjoint
	for i := 0; i < len(seq); i++ {
		for j := 0; j < len(seq); j++ {
			if i != j {
				if s := int(sp.pairShape[seq[i]][seq[j]]); s > sh {
					sh = s
				}
			}
		}
	}
	return sh
}

type Verdict struct {
	In  bool
	Key uint16
}

// Decide: linear scan of the ORIGINAL prefixes.
func (sp *Space) Decide(seq []int, shape int, ai int) Verdict {
	a := &sp.A[ai]
	n := 0
	edge, cross := false, false
	neighbour := false
	anyBelow, anyAbove := false, false // some prefix entirely below / above the address
	for _, pi := range seq {
		switch r := sp.Rel[pi][ai]; r {
		case RelInterior, RelFirst, RelLast, RelOnly:
			n++
			if r != RelInterior {
				edge = true
			}
			if sp.P[pi].Form != a.Form {
				cross = true
			}
		default:
			if r == RelJustBelow || r == RelJustAbove {
				neighbour = true
			}
			if r == RelOutBelow || r == RelJustAbove {
				anyBelow = true
			} else {
				anyAbove = true
			}
		}
	}
	// key: bit0 in; bits1-3 detail; bits4-5 query form; bits 6-8 shape
	var k uint16
	if n > 0 {
		k = 1
		if edge {
			k |= 1 << 1
		}
		if n > 1 {
			k |= 1 << 2
		}
		if cross {
			k |= 1 << 3
		}
	} else {
		switch {
		case neighbour:
			k |= 1 << 1
		case anyBelow && anyAbove:
			k |= 2 << 1
		case anyBelow:
			k |= 3 << 1
		case anyAbove:
			k |= 4 << 1
		}
	}
	k |= uint16(a.Form) << 4
	k |= uint16(shape) << 6
	return Verdict{In: n > 0, Key: k}
}

func ClassName(k uint16) string {
	var sb strings.Builder
	sb.WriteString("list:" + ShapeName[(k>>6)&7] + "/query:" + FormName[(k>>4)&3] + "/")
	if k&1 != 0 {
		sb.WriteString("in")
		if k&(1<<1) != 0 {
			sb.WriteString("+first-or-last-address")
		}
		if k&(1<<2) != 0 {
			sb.WriteString("+covered-by-several")
		}
		if k&(1<<3) != 0 {
			sb.WriteString("+rule-in-other-notation")
		}
	} else {
		sb.WriteString("out")
		sb.WriteString([]string{"", "+just-outside-a-prefix", "+between-prefixes", "+above-all", "+below-all"}[(k>>1)&7])
	}
	return sb.String()
}

func (sp *Space) Texts(seq []int) []string {
	out := []string{}
	for _, pi := range seq {
		out = append(out, sp.P[pi].Text)
	}
	return out
}

// Covering lists, for messages, the prefixes of seq that cover address ai.
func (sp *Space) Covering(seq []int, ai int) []string {
	out := []string{}
	for _, pi := range seq {
		if r := sp.Rel[pi][ai]; r >= RelInterior && r <= RelOnly {
			out = append(out, sp.P[pi].Text)
		}
	}
	return out
}

// DecoratedText for the text loaders: comment lines, blank lines, leading and
// trailing blanks, trailing comments, CRLF, last line without newline.
func DecoratedText(first int, items []string) string {
	var sb strings.Builder
	sb.WriteString("# prefixes generated by the C13 harness\n\n")
	for i, s := range items {
		switch (first + i) % 3 {
		case 0:
			fmt.Fprintf(&sb, "  %s   # comment %d\n", s, i)
		case 1:
			fmt.Fprintf(&sb, "%s\r\n   \n#10.1.2.0/24\n", s)
		case 2:
			sb.WriteString(s)
			if i != len(items)-1 {
				sb.WriteString("\n")
			}
		}
	}
	return sb.String()
}

const TextDecoration = "comment lines, blank lines, leading/trailing blanks, trailing comment, CRLF, commented-out prefix, last line without newline"

type Input struct {
	Prefixes []string `json:"prefixes"`
	Addr     string   `json:"addr"`
	Path     string   `json:"path"`
}

func (sp *Space) Input(seq []int, ai int, path string) Input {
	return Input{Prefixes: sp.Texts(seq), Addr: sp.A[ai].A.String(), Path: path}
}

// Judge returns "" when got agrees with the reference, else signature suffix and description.
func (sp *Space) Judge(seq []int, ai int, want Verdict, got bool) (string, string) {
	if got == want.In {
		return "", ""
	}
	a := sp.A[ai].A
	if want.In {
		return "false-negative/list:" + ShapeName[(want.Key>>6)&7], fmt.Sprintf("list %q: address %s is reported as NOT contained, but it is covered by %q", sp.Texts(seq), a, sp.Covering(seq, ai))
	}
	return "false-positive/list:" + ShapeName[(want.Key>>6)&7], fmt.Sprintf("list %q: address %s is reported as contained, but none of the prefixes covers it", sp.Texts(seq), a)
}

// Cost orders counterexamples: shorter sequences first, then universe order
// (the driver keeps the cheapest violation per signature across shards).
func Cost(seq []int) int {
	c := len(seq)
	for _, i := range seq {
		c = c*1024 + i
	}
	return c
}
