package netlist

// C13 - IP sets contain exactly the addresses their prefixes cover (part 0: pkg/matcher/netlist).
//
// Bounded-exhaustive enumeration: every ORDERED sequence (with repetition) of
// <= N prefixes over a universe of ~70 prefixes is loaded into a real List in
// several ways (one Append call, Append+Sort after every prefix, LoadFromReader
// from a decorated text), and Contains/Match is compared for every address of
// the address set with the linear 128-bit scan of zz_verif/c13ref.

import (
	"encoding/json"
	"fmt"
	"net/netip"
	"sort"
	"strings"
	"testing"

	ref "github.com/IrineSistiana/mosdns/v5/zz_verif/c13ref"
	"github.com/IrineSistiana/mosdns/v5/zz_verif/vr"
)

type c13Runner struct {
	res                  *vr.Result
	sp                   *ref.Space
	inputs, calls, evals int64
	verbose              bool
	classes              [1024]int64
	buf                  []netip.Prefix
}

var c13Paths = [...]string{"append-all+sort", "append+sort-each", "text"}

// build loads seq into a fresh List through the given path.
func (rn *c13Runner) build(seq []int, path int) (*List, error) {
	sp := rn.sp
	l := NewList()
	switch path {
	case 0: // one variadic Append, one Sort
		rn.buf = rn.buf[:0]
		for _, pi := range seq {
			rn.buf = append(rn.buf, sp.P[pi].P)
		}
		rn.calls += 2
		l.Append(rn.buf...)
		l.Sort()
	case 1: // incremental: the list is sorted (merged) after every prefix, then extended again
		rn.calls++
		l.Sort()
		for _, pi := range seq {
			rn.calls += 2
			l.Append(sp.P[pi].P)
			l.Sort()
		}
	case 2:
		rn.calls += 2
		if err := LoadFromReader(l, strings.NewReader(ref.DecoratedText(0, sp.Texts(seq)))); err != nil {
			return nil, err
		}
		l.Sort()
	}
	return l, nil
}

func (rn *c13Runner) evalSeq(seq []int, paths []int) {
	sp := rn.sp
	rn.inputs += int64(len(sp.A))
	var ls [3]*List
	for _, p := range paths {
		l, err := rn.build(seq, p)
		if err != nil {
			rn.res.ViolateInput(c13Paths[p]+"/load-error", fmt.Sprintf("loading valid prefixes %q failed: %v", sp.Texts(seq), err), sp.Input(seq, 0, c13Paths[p]))
			return
		}
		ls[p] = l
	}
	shape := sp.Shape(seq)
	for ai := range sp.A {
		want := sp.Decide(seq, shape, ai)
		rn.classes[want.Key]++
		for _, p := range paths {
			rn.calls++
			rn.evals++
			var got bool
			if p == 1 {
				got = ls[p].Match(sp.A[ai].A)
			} else {
				got = ls[p].Contains(sp.A[ai].A)
			}
			if got != want.In || rn.verbose {
				rn.report(seq, ai, p, want, got)
			}
		}
	}
}

func (rn *c13Runner) report(seq []int, ai int, p int, want ref.Verdict, got bool) {
	sig, desc := rn.sp.Judge(seq, ai, want, got)
	if rn.verbose {
		verdict := "agree"
		if sig != "" {
			verdict = "DISAGREE"
		}
		fmt.Printf("  path=%-16s Contains(%s) = %v  reference: %v (%s) : %s\n", c13Paths[p], rn.sp.A[ai].A, got, want.In, ref.ClassName(want.Key), verdict)
	}
	if sig != "" {
		n := len(rn.res.Violations)
		rn.res.ViolateInput(c13Paths[p]+"/"+sig, desc, rn.sp.Input(seq, ai, c13Paths[p]))
		if len(rn.res.Violations) > n {
			rn.res.Violations[n].Cost = ref.Cost(seq) // the merged report keeps the shortest, simplest counterexample
		}
	}
}

func TestVerifC13(t *testing.T) {
	e := vr.GetEnv()
	if raw, ok := vr.ReplayInput(); ok {
		c13Replay(t, raw)
		return
	}
	res := vr.New("C13", e)
	res.Rule = "one evaluation = one Contains/Match(addr) call on a real List (part 0) or ip_set matcher (part 1) loaded with one ordered prefix sequence, compared with the linear 128-bit scan over the " +
		"original prefixes; inputs = all ordered sequences with repetition (shortest first, universe order) x all addresses; outcome class = shape of the sequence (disjoint / adjacent / nested / duplicate / " +
		"same base different length) x notation of the queried address (v4, v4-mapped, v6) x reference verdict (in: on the first/last address, covered by several, rule in the other notation; " +
		"out: just outside a prefix, between, above all, below all)"
	sp := ref.NewSpace(ref.UniverseTexts(), nil)
	maxLen := 3
	if e.Tier == "thorough" {
		maxLen = 4
	}
	res.Bounds["prefix_universe"] = ref.UniverseTexts()
	res.Bounds["prefixes"] = len(sp.P)
	res.Bounds["addresses"] = len(sp.A)
	res.Bounds["address_set"] = "every address of " + ref.V4Block + " and " + ref.V6Block + "; first, last, just-below, just-above address of every prefix of the universe; every IPv4 address both as a.b.c.d and as ::ffff:a.b.c.d"
	res.Bounds["p0_sequences"] = fmt.Sprintf("all ordered sequences with repetition of length 0..%d", maxLen)
	res.Bounds["p0_paths"] = "length<=3: Append(all)+Sort | (Append+Sort) per prefix | LoadFromReader(decorated text)+Sort; length 4: the first two"
	res.Bounds["text_decoration"] = ref.TextDecoration

	rn := &c13Runner{res: res, sp: sp}
	n := len(sp.P)
	all := []int{0, 1, 2}
	noText := []int{0, 1}
	var unit int64
	expired := false
	completed := 0
	check := func() bool {
		if !expired && e.Expired() {
			expired = true
		}
		return expired
	}
	if e.Mine(unit) {
		rn.evalSeq([]int{}, all)
	}
	unit++
	for i := 0; i < n; i++ {
		if e.Mine(unit) {
			rn.evalSeq([]int{i}, all)
		}
		unit++
	}
	completed = 1
	for i := 0; i < n && !check(); i++ {
		for j := 0; j < n; j++ {
			if e.Mine(unit) {
				rn.evalSeq([]int{i, j}, all)
			}
			unit++
		}
	}
	if !expired {
		completed = 2
	}
	for length := 3; length <= maxLen && !expired; length++ {
		paths := all
		if length > 3 {
			paths = noText
		}
		seq := make([]int, length)
	outer:
		for i := 0; i < n; i++ {
			for j := 0; j < n; j++ {
				if check() {
					break outer
				}
				if e.Mine(unit) {
					seq[0], seq[1] = i, j
					c13Rest(rn, seq, 2, paths)
				}
				unit++
			}
		}
		if !expired {
			completed = length
		}
	}
	if expired {
		res.Exhaustive = false
		res.Notes = append(res.Notes, fmt.Sprintf("part 0: budget expired; all sequences of length <= %d fully covered, length %d partly", completed, completed+1))
	}
	res.Bounds["p0_max_length_completed"] = completed
	for k, c := range rn.classes {
		if c > 0 {
			res.Outcomes[ref.ClassName(uint16(k))] += c
		}
	}
	res.States = rn.inputs
	res.Transitions = rn.calls
	res.Evaluations = rn.evals
	for _, s := range [][]int{{0}, {1, 0}, {40, 3}} {
		for _, ai := range []int{0, 1, 9} {
			want := sp.Decide(s, sp.Shape(s), ai)
			res.Sample(map[string]any{"prefixes": sp.Texts(s), "addr": sp.A[ai].A.String(), "reference_contains": want.In, "class": ref.ClassName(want.Key)})
		}
	}
	res.Write(e)
	for _, v := range res.Violations {
		t.Logf("violation %s: %s", v.Sig, v.Desc)
	}
}

// c13Rest enumerates seq[pos:] over the whole universe.
func c13Rest(rn *c13Runner, seq []int, pos int, paths []int) {
	if pos == len(seq) {
		rn.evalSeq(seq, paths)
		return
	}
	for k := range rn.sp.P {
		seq[pos] = k
		c13Rest(rn, seq, pos+1, paths)
	}
}

func c13Replay(t *testing.T, raw json.RawMessage) {
	var in ref.Input
	if err := json.Unmarshal(raw, &in); err != nil {
		fmt.Println("INFRA: bad replay input:", err)
		t.FailNow()
	}
	addr, err := netip.ParseAddr(in.Addr)
	if err != nil {
		fmt.Println("INFRA: bad replay address:", err)
		t.FailNow()
	}
	res := vr.New("C13", vr.GetEnv())
	fmt.Printf("replay: prefixes=%q addr=%s (recorded path %s)\n", in.Prefixes, in.Addr, in.Path)
	sp := ref.NewSpace(in.Prefixes, []netip.Addr{addr})
	for i := range sp.P {
		fmt.Printf("  prefix #%d %-24s = base %s /%d in the 128-bit space, covers the address: %v\n", i, sp.P[i].Text, netip.AddrFrom16(sp.P[i].Base), sp.P[i].Bits, ref.Covers(&sp.P[i], &sp.A[0].B))
	}
	rn := &c13Runner{res: res, sp: sp, verbose: true}
	seq := make([]int, len(in.Prefixes))
	for i := range seq {
		seq[i] = i
	}
	rn.evalSeq(seq, []int{0, 1, 2})
	if l, err := rn.build(seq, 0); err == nil {
		fmt.Printf("  sorted/merged list after Append(all)+Sort: %v\n", l.e)
	}
	if len(res.Violations) > 0 {
		sort.Slice(res.Violations, func(i, j int) bool { return res.Violations[i].Sig < res.Violations[j].Sig })
		for _, v := range res.Violations {
			fmt.Printf("REPLAY-VIOLATION property=C13 sig=%s\n  %s\n", v.Sig, v.Desc)
		}
		return
	}
	fmt.Println("REPLAY-OK: this input does not violate the property on the current tree")
}
