package cache

import (
	"context"
	"fmt"
	"strconv"
	"testing"
	"time"

	"github.com/IrineSistiana/mosdns/v5/pkg/query_context"
	"github.com/IrineSistiana/mosdns/v5/plugin/executable/sequence"
	"github.com/IrineSistiana/mosdns/v5/zz_verif/vr"
	"github.com/IrineSistiana/mosdns/v5/zz_verif/vs"
	"github.com/miekg/dns"
)

// C04 part b (engine vs): concurrent clients at one cache. Two or three threads
// ask questions that differ in exactly one coordinate of the identity (flags,
// type, class, name) - or not at all - while the upstream is slow enough for
// their misses to overlap; afterwards each question is asked once more. Every
// response, concurrent or later, must have been produced for a question of the
// same identity (the upstream marks its answers with the identity it saw).

type c04bSys struct {
	qs    []c04q
	obs   []c04obs
	later []c04obs
	infra string
}

func c04bScenario(name string, variants [][]c04q, d int) vr.Scenario {
	var sys *c04bSys
	body := func() {
		s := &c04bSys{}
		sys = s
		c := NewCache(&Args{Size: 1024}, Opts{})
		defer c.Close()
		up := sequence.ExecutableFunc(func(_ context.Context, qc *query_context.Context) error {
			if qc.R() != nil {
				return nil
			}
			at, ok := c04qOfCtx(qc)
			if !ok {
				return nil
			}
			vs.Sleep(10 * time.Millisecond) // the upstream takes a moment: misses overlap
			resp := new(dns.Msg)
			resp.SetReply(qc.Q())
			resp.Answer = append(resp.Answer, &dns.TXT{Hdr: dns.RR_Header{Name: qc.Q().Question[0].Name, Rrtype: dns.TypeTXT, Class: dns.ClassINET, Ttl: 1000000},
				Txt: []string{strconv.FormatUint(at.id(), 10)}})
			qc.SetResponse(resp)
			return nil
		})
		ask := func(i int, q c04q) c04obs {
			var o c04obs
			w := c04wireQuery(uint16(0x100+i), c04names[q.N].wire, q.T, q.C, q.F&1 != 0, q.F&2 != 0, 0, false, 1)
			qCtx, err := c04ctx(w, q.F&4 != 0)
			if err != nil {
				s.infra = err.Error()
				return o
			}
			next := sequence.NewChainWalker([]*sequence.ChainNode{{E: up}}, nil)
			if err := c.Exec(context.Background(), qCtx, next); err != nil {
				o.panicked = "exec error: " + err.Error()
				return o
			}
			if r := qCtx.R(); r != nil {
				o.hasResp = true
				o.marker, o.markerOK = c04marker(r)
			}
			return o
		}
		vset := variants[vs.Choose(len(variants))]
		s.qs = vset
		s.obs = make([]c04obs, len(vset))
		var wg vs.WaitGroup
		for i := range vset {
			i := i
			wg.Add(1)
			vs.GoNamed(fmt.Sprintf("client%d", i), func() {
				defer wg.Done()
				s.obs[i] = ask(i, vset[i])
			})
		}
		wg.Wait()
		for i := range vset {
			s.later = append(s.later, ask(10+i, vset[i]))
		}
	}
	check := func(x *vs.Exec) (string, *vs.Violation) {
		s := sys
		V := func(o, why string) (string, *vs.Violation) {
			return o, &vs.Violation{Sig: name + "/" + o, Desc: why}
		}
		if x.Panic != "" {
			return V("panic", x.Panic)
		}
		if s.infra != "" || len(x.Blocked) > 0 {
			return V("stuck", fmt.Sprintf("did not finish: %s parked=%v", s.infra, x.Blocked))
		}
		key := ""
		for phase, list := range [][]c04obs{s.obs, s.later} {
			for i, o := range list {
				q := s.qs[i]
				when := "concurrently"
				if phase == 1 {
					when = "afterwards"
				}
				switch {
				case o.panicked != "":
					return V("exec-error", o.panicked)
				case !o.hasResp || !o.markerOK:
					return V("no-answer", fmt.Sprintf("query %v asked %s got no marked answer", q, when))
				}
				src := c04fromID(o.marker)
				if src.ident() != q.ident() {
					return V("foreign-answer:"+c04kind(src, q), fmt.Sprintf("clients asked %v at one cache; the query %v, asked %s, was answered with the answer produced for %v (differing in: %s)", s.qs, q, when, src, c04kind(src, q)))
				}
				key += c04kind(s.qs[0], q) + ";"
			}
		}
		return key, nil
	}
	return vr.Scenario{Name: name, P: d, D: d, Horizon: time.Minute, Body: body, Check: check}
}

func TestVerifC04b(t *testing.T) {
	e := vr.GetEnv()
	c04initNames()
	d := 2
	if e.Tier == "thorough" {
		d = 3
	}
	base := c04q{N: 0, T: 1, C: 1, F: 0}
	var pairs [][]c04q
	for f := uint8(0); f < 8; f++ { // same question, other AD/CD/DO (incl. identical flags)
		pairs = append(pairs, []c04q{base, {N: 0, T: 1, C: 1, F: f}})
	}
	pairs = append(pairs,
		[]c04q{base, {N: 0, T: 28, C: 1}}, []c04q{base, {N: 0, T: 257, C: 1}}, []c04q{base, {N: 0, T: 1, C: 3}},
		[]c04q{base, {N: 0, T: 1, C: 257}}, []c04q{base, {N: 2, T: 1, C: 1}}, []c04q{base, {N: 1, T: 1, C: 1}})
	triples := [][]c04q{
		{base, {N: 0, T: 1, C: 1, F: 4}, {N: 0, T: 1, C: 1, F: 4}},
		{base, {N: 0, T: 1, C: 1, F: 2}, {N: 0, T: 28, C: 1, F: 0}},
		{{N: 0, T: 1, C: 1, F: 7}, base, {N: 0, T: 1, C: 1, F: 1}},
	}
	vr.RunScenarios("C04", []vr.Scenario{
		c04bScenario("concurrent-2", pairs, d),
		c04bScenario("concurrent-3", triples, d-1),
	})
}
