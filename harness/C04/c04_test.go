package cache

// C04: a cached answer is only served to the same question.
//
// Two bounded-exhaustive passes over a stated finite space of questions
// (name, type, class, AD, CD, DO), both on the real code:
//
//  K  key injectivity: getMsgKey is evaluated on the complete product
//     names x 65536 types x classes x 8 flag combinations (+ all 65536 classes
//     for a few types); no two questions with a different identity may map to
//     the same key. Every kind of collision is confirmed behaviourally through
//     Cache.Exec before it is reported.
//  B  behaviour: sequences of queries are run through one real Cache plugin
//     (Cache.Exec with a fake next executable that answers with a marker
//     naming the question it answered). Whatever response a query ends up
//     with must carry the marker of a question with the same identity.
//     Sweeps: all 65536 types, all 65536 classes (ascending and descending =
//     both store-then-lookup orders), groups of one-bit neighbours.
//
// Reference model (independent, boring): identity(q) = (wire name with ASCII
// letters lower-cased, type, class, AD, CD, DO). Names that differ only in
// letter case are the same DNS name: sharing or not sharing is both allowed.
//
// "The query" is the message the plugin sees (qCtx.Q()): query_context.NewContext
// terminates the client's EDNS0 (C15), so DO is set on the OPT of Q() here.

import (
	"context"
	"encoding/hex"
	"encoding/json"
	"fmt"
	"hash/maphash"
	"sort"
	"strconv"
	"strings"
	"testing"

	"github.com/IrineSistiana/mosdns/v5/pkg/query_context"
	"github.com/IrineSistiana/mosdns/v5/plugin/executable/sequence"
	"github.com/IrineSistiana/mosdns/v5/zz_verif/vr"
	"github.com/miekg/dns"
)

// ---------------------------------------------------------------- input model

type c04name struct {
	kind  string
	wire  []byte // wire format name
	pres  string // presentation format as produced by the dns library from wire
	canon int    // index of the first name equal to this one ignoring ASCII case
}

var c04names []c04name

type c04q struct {
	N    int // index into c04names
	T, C uint16
	F    uint8 // bit0 AD, bit1 CD, bit2 DO
}

func c04wireName(labels ...string) []byte {
	var b []byte
	for _, l := range labels {
		if len(l) == 0 || len(l) > 63 {
			panic("bad label")
		}
		b = append(b, byte(len(l)))
		b = append(b, l...)
	}
	b = append(b, 0)
	if len(b) > 255 {
		panic("name too long")
	}
	return b
}

func c04lower(w []byte) string {
	o := make([]byte, len(w))
	for i := 0; i < len(w); {
		n := int(w[i])
		o[i] = w[i]
		for j := 1; j <= n; j++ {
			c := w[i+j]
			if c >= 'A' && c <= 'Z' {
				c += 0x20
			}
			o[i+j] = c
		}
		i += n + 1
	}
	return string(o)
}

// c04wireQuery is the harness' own encoder of a query (RFC 1035 4.1).
func c04wireQuery(id uint16, name []byte, t, c uint16, ad, cd bool, opcode int, qr bool, nq int) []byte {
	fl := uint16(0x0100) // RD
	if qr {
		fl |= 0x8000
	}
	fl |= uint16(opcode&0xf) << 11
	if ad {
		fl |= 0x0020
	}
	if cd {
		fl |= 0x0010
	}
	b := []byte{byte(id >> 8), byte(id), byte(fl >> 8), byte(fl), 0, byte(nq), 0, 0, 0, 0, 0, 0}
	for i := 0; i < nq; i++ {
		b = append(b, name...)
		tt := t
		if i > 0 {
			tt = t + 1 // a second, different question
		}
		b = append(b, byte(tt>>8), byte(tt), byte(c>>8), byte(c))
	}
	return b
}

func c04addName(kind string, wire []byte) int {
	for i, n := range c04names {
		if string(n.wire) == string(wire) {
			return i
		}
	}
	m := new(dns.Msg)
	if err := m.Unpack(c04wireQuery(1, wire, 1, 1, false, false, 0, false, 1)); err != nil {
		panic(fmt.Sprintf("harness: cannot unpack own query for name %x: %v", wire, err))
	}
	n := c04name{kind: kind, wire: wire, pres: m.Question[0].Name, canon: len(c04names)}
	lw := c04lower(wire)
	for _, o := range c04names {
		if c04lower(o.wire) == lw {
			n.canon = o.canon
			break
		}
	}
	c04names = append(c04names, n)
	return len(c04names) - 1
}

func c04rep(s string, n int) string { return strings.Repeat(s, n) }

// name alphabet, simplest first. The first `quick` names are used by the quick tier.
func c04initNames() (quick int) {
	c04names = nil
	c04addName("1-octet-label", c04wireName("a"))
	c04addName("upper-case-variant", c04wireName("A"))
	c04addName("root", []byte{0})
	c04addName("63-octet-label", c04wireName(c04rep("a", 63)))
	c04addName("255-octet-name", c04wireName(c04rep("b", 63), c04rep("b", 63), c04rep("b", 63), c04rep("b", 61)))
	c04addName("header-like-bytes-0001", c04wireName("\x00\x01\x00\x01"))
	// presentation format of these two is 443 characters long (the octets of the first label are escaped as \DDD)
	c04addName("255-octet-name-escaped-0x00-label", c04wireName(c04rep("\x00", 63), c04rep("c", 63), c04rep("c", 63), c04rep("c", 61)))
	c04addName("255-octet-name-escaped-0x00-label-last-d", c04wireName(c04rep("\x00", 63), c04rep("c", 63), c04rep("c", 63), c04rep("c", 60)+"d"))
	quick = len(c04names)
	c04addName("escaped-dot-label", c04wireName("a.b"))
	c04addName("two-labels", c04wireName("a", "b"))
	c04addName("two-letters", c04wireName("ab"))
	c04addName("mixed-case-variant", c04wireName("aB"))
	c04addName("header-like-byte-07", c04wireName("\x07"))
	c04addName("digits-001", c04wireName("001"))
	c04addName("byte-0x01", c04wireName("\x01"))
	c04addName("double-letter", c04wireName("aa"))
	// field-boundary family (K2): names that extend one another by a one-octet
	// label; together with classes / types whose octets spell such a label plus
	// the dot they expose any key layout in which the end of the name is not
	// delimited from the fixed-width fields next to it.
	c04boundary = nil
	for _, labels := range [][]string{{"b"}, {"a", "a"}, {"a", "b"}, {"b", "a"}, {"b", "b"}, {"a", "a", "a"}} {
		c04boundary = append(c04boundary, c04addName("boundary:"+strings.Join(labels, "."), c04wireName(labels...)))
	}
	// a dot INSIDE a label (one label "a.b", presentation form a\.b) next to the two labels a.b
	c04boundary = append(c04boundary, c04addName("escaped-dot-label", c04wireName("a.b")), c04addName("boundary:escaped-dot-then-label", c04wireName("a.a", "a")))
	c04boundary = append([]int{0}, c04boundary...) // "a" itself
	return quick
}

var c04boundary []int

func (q c04q) id() uint64 {
	return uint64(q.N)<<35 | uint64(q.T)<<19 | uint64(q.C)<<3 | uint64(q.F&7)
}

func c04fromID(id uint64) c04q {
	return c04q{N: int(id >> 35), T: uint16(id >> 19), C: uint16(id >> 3), F: uint8(id & 7)}
}

// identity of the reference model
func (q c04q) ident() uint64 {
	q.N = c04names[q.N].canon
	return q.id()
}

func c04flagStr(f uint8) string {
	var s []string
	if f&1 != 0 {
		s = append(s, "AD")
	}
	if f&2 != 0 {
		s = append(s, "CD")
	}
	if f&4 != 0 {
		s = append(s, "DO")
	}
	if len(s) == 0 {
		return "none"
	}
	return strings.Join(s, "+")
}

func (q c04q) String() string {
	return fmt.Sprintf("{name %q (%s) type %d class %d flags %s}", c04names[q.N].pres, c04names[q.N].kind, q.T, q.C, c04flagStr(q.F))
}

type c04qJSON struct {
	NameWireHex string `json:"name_wire_hex"`
	Name        string `json:"name"`
	Type        uint16 `json:"type"`
	Class       uint16 `json:"class"`
	AD          bool   `json:"ad"`
	CD          bool   `json:"cd"`
	DO          bool   `json:"do"`
}

func (q c04q) json() c04qJSON {
	return c04qJSON{NameWireHex: hex.EncodeToString(c04names[q.N].wire), Name: c04names[q.N].pres, Type: q.T, Class: q.C,
		AD: q.F&1 != 0, CD: q.F&2 != 0, DO: q.F&4 != 0}
}

func c04fromJSON(j c04qJSON) (c04q, error) {
	w, err := hex.DecodeString(j.NameWireHex)
	if err != nil {
		return c04q{}, err
	}
	q := c04q{N: c04addName("replay", w), T: j.Type, C: j.Class}
	if j.AD {
		q.F |= 1
	}
	if j.CD {
		q.F |= 2
	}
	if j.DO {
		q.F |= 4
	}
	return q, nil
}

// kind of difference between two questions (which coordinates differ)
func c04kind(a, b c04q) string {
	var k []string
	if c04names[a.N].canon != c04names[b.N].canon {
		k = append(k, "name")
	}
	if d := a.T ^ b.T; d != 0 {
		switch {
		case d&0x00ff == 0:
			k = append(k, "type-high-byte")
		case d&0xff00 == 0:
			k = append(k, "type-low-byte")
		default:
			k = append(k, "type")
		}
	}
	if a.C != b.C {
		k = append(k, "class")
	}
	d := a.F ^ b.F
	if d&1 != 0 {
		k = append(k, "AD")
	}
	if d&2 != 0 {
		k = append(k, "CD")
	}
	if d&4 != 0 {
		k = append(k, "DO")
	}
	if len(k) == 0 {
		return "same"
	}
	return strings.Join(k, "+")
}

// ---------------------------------------------------------------- real code drivers

// keyer evaluates the real getMsgKey on a message shaped like qCtx.Q()
// (one question, an OPT record in Extra).
type c04keyer struct {
	m     *dns.Msg
	calls int64
}

func c04newKeyer() *c04keyer {
	opt := &dns.OPT{Hdr: dns.RR_Header{Name: ".", Rrtype: dns.TypeOPT}}
	opt.SetUDPSize(1200)
	return &c04keyer{m: &dns.Msg{Question: make([]dns.Question, 1), Extra: []dns.RR{opt}}}
}

func (k *c04keyer) key(q c04q) string {
	m := k.m
	m.RecursionDesired = true
	m.AuthenticatedData = q.F&1 != 0
	m.CheckingDisabled = q.F&2 != 0
	m.Extra[0].(*dns.OPT).SetDo(q.F&4 != 0)
	m.Question[0] = dns.Question{Name: c04names[q.N].pres, Qtype: q.T, Qclass: q.C}
	k.calls++
	return verifMsgKey(m)
}

// c04ctx builds the query context the way the server entry does: wire bytes ->
// dns.Msg.Unpack -> query_context.NewContext; DO is then set on the OPT of Q().
func c04ctx(wire []byte, do bool) (*query_context.Context, error) {
	m := new(dns.Msg)
	if err := m.Unpack(wire); err != nil {
		return nil, err
	}
	qCtx := query_context.NewContext(m)
	if do {
		qCtx.QOpt().SetDo()
	}
	return qCtx, nil
}

type c04rig struct {
	c     *Cache
	execs int64
	// kind of answer the fake upstream gives: "" = NOERROR with the marker as an answer
	// record; "nxdomain" / "nodata" = that kind of negative answer, the marker in the
	// authority section (where the SOA of a negative answer lives)
	answer string
}

func c04newRig(size int) *c04rig {
	return &c04rig{c: NewCache(&Args{Size: size}, Opts{})}
}

func (r *c04rig) close() { r.c.Close() }

type c04obs struct {
	nextReached bool
	fromCache   bool   // next saw a response that was already set (cache hit)
	hasResp     bool   // the query ended with a response
	marker      uint64 // id of the question the final response was produced for
	markerOK    bool
	panicked    string
}

func c04marker(r *dns.Msg) (uint64, bool) {
	for _, sec := range [][]dns.RR{r.Answer, r.Ns} {
		for _, rr := range sec {
			if t, ok := rr.(*dns.TXT); ok && len(t.Txt) == 1 {
				if v, err := strconv.ParseUint(t.Txt[0], 10, 64); err == nil {
					return v, true
				}
			}
		}
	}
	return 0, false
}

// execWire runs one query through the real Cache.Exec. The fake next
// executable answers (when no response is set yet) with a marker = id.
func (r *c04rig) execWire(wire []byte, do bool, id uint64) (o c04obs) {
	qCtx, err := c04ctx(wire, do)
	if err != nil {
		o.panicked = "harness: unpack: " + err.Error()
		return
	}
	next := sequence.NewChainWalker([]*sequence.ChainNode{{E: sequence.ExecutableFunc(func(_ context.Context, qc *query_context.Context) error {
		o.nextReached = true
		if qc.R() != nil {
			o.fromCache = true
			return nil
		}
		resp := new(dns.Msg)
		resp.SetReply(qc.Q())
		name := "."
		if len(qc.Q().Question) > 0 {
			name = qc.Q().Question[0].Name
		}
		mark := &dns.TXT{Hdr: dns.RR_Header{Name: name, Rrtype: dns.TypeTXT, Class: dns.ClassINET, Ttl: 1000000},
			Txt: []string{strconv.FormatUint(id, 10)}}
		switch r.answer {
		case "nxdomain":
			resp.Rcode = dns.RcodeNameError
			resp.Ns = append(resp.Ns, mark)
		case "nodata":
			resp.Ns = append(resp.Ns, mark)
		default:
			resp.Answer = append(resp.Answer, mark)
		}
		qc.SetResponse(resp)
		return nil
	})}}, nil)
	r.execs++
	func() {
		defer func() {
			if p := recover(); p != nil {
				o.panicked = fmt.Sprint(p)
			}
		}()
		if err := r.c.Exec(context.Background(), qCtx, next); err != nil {
			o.panicked = "exec error: " + err.Error()
		}
	}()
	if resp := qCtx.R(); resp != nil {
		o.hasResp = true
		o.marker, o.markerOK = c04marker(resp)
	}
	return
}

func (r *c04rig) exec(q c04q) c04obs {
	w := c04wireQuery(uint16(r.execs), c04names[q.N].wire, q.T, q.C, q.F&1 != 0, q.F&2 != 0, 0, false, 1)
	return r.execWire(w, q.F&4 != 0, q.id())
}

// c04pairRun stores a's answer then asks b on a fresh cache. It returns true
// when b was handed the answer produced for a.
func c04pairRun(a, b c04q) (foreign bool, desc string, execs int64) {
	return c04pairRunK(a, b, "")
}

func c04pairRunK(a, b c04q, answer string) (foreign bool, desc string, execs int64) {
	r := c04newRig(1024)
	r.answer = answer
	defer r.close()
	oa := r.exec(a)
	ob := r.exec(b)
	execs = r.execs
	desc = fmt.Sprintf("fresh cache: query %v -> from_cache=%v answer-for=%s; then query %v -> from_cache=%v answer-for=%s",
		a, oa.fromCache, c04markerStr(oa), b, ob.fromCache, c04markerStr(ob))
	foreign = ob.hasResp && ob.markerOK && c04fromID(ob.marker).ident() != b.ident()
	return
}

func c04markerStr(o c04obs) string {
	switch {
	case o.panicked != "":
		return "panic(" + o.panicked + ")"
	case !o.hasResp:
		return "no-response"
	case !o.markerOK:
		return "unmarked-response"
	}
	return c04fromID(o.marker).String()
}

// ---------------------------------------------------------------- chained caches

// c04qOfCtx reads the question a plugin sees back into the harness coordinates.
func c04qOfCtx(qc *query_context.Context) (c04q, bool) {
	m := qc.Q()
	if len(m.Question) != 1 {
		return c04q{}, false
	}
	qu := m.Question[0]
	n := -1
	for i := range c04names {
		if c04names[i].pres == qu.Name {
			n = i
			break
		}
	}
	if n < 0 {
		return c04q{}, false
	}
	var f uint8
	if m.AuthenticatedData {
		f |= 1
	}
	if m.CheckingDisabled {
		f |= 2
	}
	if o := qc.QOpt(); o != nil && o.Do() {
		f |= 4
	}
	return c04q{N: n, T: qu.Qtype, C: qu.Qclass, F: f}, true
}

// c04fork stands for the in-tree plugins that run the rest of the chain for a
// question of their own before (prefer_ipv4 / prefer_ipv6: a copy of the
// context with the other address type) or instead of the client's (redirect:
// another name): the rest of the chain first sees a copy of the context asking
// for type T^fork.xor, then the client's own context.
type c04fork struct{ xor uint16 }

func (f c04fork) Exec(ctx context.Context, qCtx *query_context.Context, next sequence.ChainWalker) error {
	cp := qCtx.Copy()
	cp.Q().Question[0].Qtype ^= f.xor
	if err := next.ExecNext(ctx, cp); err != nil {
		return err
	}
	return next.ExecNext(ctx, qCtx)
}

// c04guard wraps the second cache: whatever response it ends with (hit, or the
// upstream's answer on a miss) must have been produced for the question that
// reached it.
type c04guard struct {
	inner *Cache
	seen  func(at c04q, o c04obs)
}

func (g c04guard) Exec(ctx context.Context, qCtx *query_context.Context, next sequence.ChainWalker) error {
	at, ok := c04qOfCtx(qCtx)
	err := g.inner.Exec(ctx, qCtx, next)
	if ok && err == nil {
		var o c04obs
		if r := qCtx.R(); r != nil {
			o.hasResp = true
			o.marker, o.markerOK = c04marker(r)
			o.fromCache = true
		}
		g.seen(at, o)
	}
	return err
}

// c04chained runs the queries through cache A -> fork -> cache B -> upstream.
func (s *c04state) chained(qs []c04q, xor uint16, out func(string)) (execs int64) {
	a, b := NewCache(&Args{Size: 1024}, Opts{}), NewCache(&Args{Size: 1024}, Opts{})
	defer a.Close()
	defer b.Close()
	for i, q := range qs {
		w := c04wireQuery(uint16(i), c04names[q.N].wire, q.T, q.C, q.F&1 != 0, q.F&2 != 0, 0, false, 1)
		qCtx, err := c04ctx(w, q.F&4 != 0)
		if err != nil {
			continue
		}
		up := sequence.ExecutableFunc(func(_ context.Context, qc *query_context.Context) error {
			if qc.R() != nil {
				return nil
			}
			at, ok := c04qOfCtx(qc)
			if !ok {
				return nil
			}
			resp := new(dns.Msg)
			resp.SetReply(qc.Q())
			resp.Answer = append(resp.Answer, &dns.TXT{Hdr: dns.RR_Header{Name: qc.Q().Question[0].Name, Rrtype: dns.TypeTXT, Class: dns.ClassINET, Ttl: 1000000},
				Txt: []string{strconv.FormatUint(at.id(), 10)}})
			qc.SetResponse(resp)
			return nil
		})
		guard := c04guard{inner: b, seen: func(at c04q, o c04obs) {
			out("second-cache/" + s.check("chained-caches", at, o))
		}}
		next := sequence.NewChainWalker([]*sequence.ChainNode{{RE: c04fork{xor}}, {RE: guard}, {E: up}}, nil)
		execs += 3
		func() {
			defer func() {
				if p := recover(); p != nil && s.res.Infra == "" {
					s.res.Infra = fmt.Sprintf("chained-caches: panic on query %v: %v", q, p)
				}
			}()
			if err := a.Exec(context.Background(), qCtx, next); err != nil && s.res.Infra == "" {
				s.res.Infra = fmt.Sprintf("chained-caches: Exec failed on query %v: %v", q, err)
			}
		}()
		var o c04obs
		if r := qCtx.R(); r != nil {
			o.hasResp = true
			o.marker, o.markerOK = c04marker(r)
			o.fromCache = true
		}
		out("client/" + s.check("chained-caches", q, o))
	}
	return execs
}

// ---------------------------------------------------------------- a response made for another question

// c04preset answers the question it sees (like hosts / arbitrary / black_hole do)
// when it is the one it is configured for, and lets the chain go on.
type c04preset struct{ for_ c04q }

func (p c04preset) Exec(ctx context.Context, qCtx *query_context.Context, next sequence.ChainWalker) error {
	if at, ok := c04qOfCtx(qCtx); ok && at.ident() == p.for_.ident() {
		resp := new(dns.Msg)
		resp.SetReply(qCtx.Q())
		resp.Answer = append(resp.Answer, &dns.TXT{Hdr: dns.RR_Header{Name: qCtx.Q().Question[0].Name, Rrtype: dns.TypeTXT, Class: dns.ClassINET, Ttl: 1000000},
			Txt: []string{strconv.FormatUint(at.id(), 10)}})
		qCtx.SetResponse(resp)
	}
	return next.ExecNext(ctx, qCtx)
}

// c04rename is the redirect plugin's shape: the rest of the chain runs with
// another name in the question, which is put back afterwards.
type c04rename struct {
	from c04q
	to   string
}

func (r c04rename) Exec(ctx context.Context, qCtx *query_context.Context, next sequence.ChainWalker) error {
	at, ok := c04qOfCtx(qCtx)
	if !ok || at.ident() != r.from.ident() {
		return next.ExecNext(ctx, qCtx)
	}
	old := qCtx.Q().Question[0].Name
	qCtx.Q().Question[0].Name = r.to
	err := next.ExecNext(ctx, qCtx)
	qCtx.Q().Question[0].Name = old
	if resp := qCtx.R(); resp != nil && len(resp.Question) == 1 && resp.Question[0].Name == r.to {
		resp.Question[0].Name = old
	}
	return err
}

// c04swap is prefer_ipv4 / prefer_ipv6's shape for the address type they do not
// prefer: the rest of the chain runs on a copy of the context which then
// replaces the original.
type c04swap struct{}

func (c04swap) Exec(ctx context.Context, qCtx *query_context.Context, next sequence.ChainWalker) error {
	cp := qCtx.Copy()
	if err := next.ExecNext(ctx, cp); err != nil {
		return err
	}
	*qCtx = *cp
	return nil
}

// preset runs [a (answered in front of the cache, renamed to b's name behind it), b, b]
// through preset(a) -> rename(a -> name of b) -> cache -> (swap) -> upstream(if no response yet).
func (s *c04state) preset(a, b c04q, swap bool, out func(string)) (execs int64) {
	c := NewCache(&Args{Size: 1024}, Opts{})
	defer c.Close()
	for i, q := range []c04q{a, b, b} {
		w := c04wireQuery(uint16(i), c04names[q.N].wire, q.T, q.C, q.F&1 != 0, q.F&2 != 0, 0, false, 1)
		qCtx, err := c04ctx(w, q.F&4 != 0)
		if err != nil {
			continue
		}
		up := sequence.ExecutableFunc(func(_ context.Context, qc *query_context.Context) error {
			if qc.R() != nil {
				return nil
			}
			at, ok := c04qOfCtx(qc)
			if !ok {
				return nil
			}
			resp := new(dns.Msg)
			resp.SetReply(qc.Q())
			resp.Answer = append(resp.Answer, &dns.TXT{Hdr: dns.RR_Header{Name: qc.Q().Question[0].Name, Rrtype: dns.TypeTXT, Class: dns.ClassINET, Ttl: 1000000},
				Txt: []string{strconv.FormatUint(at.id(), 10)}})
			qc.SetResponse(resp)
			return nil
		})
		nodes := []*sequence.ChainNode{{RE: c04rename{from: a, to: c04names[b.N].pres}}, {RE: c}}
		if swap {
			nodes = append(nodes, &sequence.ChainNode{RE: c04swap{}})
		}
		nodes = append(nodes, &sequence.ChainNode{E: up})
		execs++
		func() {
			defer func() {
				if p := recover(); p != nil && s.res.Infra == "" {
					s.res.Infra = fmt.Sprintf("preset-response: panic on query %v: %v", q, p)
				}
			}()
			if err := (c04preset{a}).Exec(context.Background(), qCtx, sequence.NewChainWalker(nodes, nil)); err != nil && s.res.Infra == "" {
				s.res.Infra = fmt.Sprintf("preset-response: Exec failed on query %v: %v", q, err)
			}
		}()
		var o c04obs
		if r := qCtx.R(); r != nil {
			o.hasResp = true
			o.marker, o.markerOK = c04marker(r)
			o.fromCache = i == 2
		}
		k := s.check("preset-response", q, o)
		if i == 0 && k == "miss-forwarded" {
			k = "answered-in-front-of-the-cache"
		}
		out(fmt.Sprintf("q%d/%s", i, k))
	}
	return execs
}

// ---------------------------------------------------------------- the check

type c04pairJSON struct {
	A c04qJSON `json:"a"`
	B c04qJSON `json:"b"`
	// Chained: B was asked (alternating with A's type) at cache -> fork -> cache -> upstream
	Chained bool `json:"chained,omitempty"`
	// Preset: A was answered by a plugin in front of the cache and renamed to B's name behind it, then B was asked twice
	Preset bool `json:"preset,omitempty"`
	// Prev: the entries came from a hand-assembled dump in the previous build's format
	Prev bool `json:"prev,omitempty"`
	// Answer: kind of answer the upstream gave ("" NOERROR with data, "nxdomain", "nodata")
	Answer string `json:"answer,omitempty"`
}

type c04state struct {
	e   vr.Env
	res *vr.Result
	// first example of a foreign answer per kind (behaviour pass)
	foreign map[string][2]c04q
}

// check classifies the observation of query q in a sequence run.
func (s *c04state) check(scn string, q c04q, o c04obs) string {
	switch {
	case o.panicked != "":
		// a crash of the code under test is not what C04 is about: the check cannot decide
		if s.res.Infra == "" {
			s.res.Infra = fmt.Sprintf("%s: Cache.Exec panicked or failed on query %v: %s", scn, q, o.panicked)
		}
		return "panic"
	case !o.hasResp:
		return "no-response"
	case !o.markerOK:
		return "unmarked"
	}
	src := c04fromID(o.marker)
	if src.ident() == q.ident() {
		if src.id() != q.id() {
			return "served-case-variant(allowed)"
		}
		if o.fromCache {
			return "served-own-answer"
		}
		return "miss-forwarded"
	}
	kind := c04kind(src, q)
	if scn == "chained-caches" || scn == "preset-response" || scn == "previous-build-dump" {
		kind = scn + "/" + kind
	}
	if strings.HasPrefix(scn, "type-sweep-") {
		kind = "negative-answer/" + strings.TrimPrefix(scn, "type-sweep-") + "/" + kind
	}
	if _, ok := s.foreign[kind]; !ok {
		s.foreign[kind] = [2]c04q{src, q}
	}
	return "FOREIGN-ANSWER:" + kind
}

func TestVerifC04(t *testing.T) {
	e := vr.GetEnv()
	quickNames := c04initNames()
	if in, ok := vr.ReplayInput(); ok {
		c04replay(t, in)
		return
	}
	res := vr.New("C04", e)
	s := &c04state{e: e, res: res, foreign: map[string][2]c04q{}}
	thorough := e.Tier == "thorough"
	nNames := quickNames
	if thorough {
		nNames = len(c04names)
	}
	classes := []uint16{1, 0, 3, 4, 254, 255, 256, 257, 65535}
	if thorough {
		classes = append(classes, 0x6161)
	}
	sweepTypes := []uint16{1, 257}
	sweepNames := []int{0}
	if thorough {
		sweepTypes = []uint16{1, 257, 0, 2, 28, 255, 256, 65535}
		sweepNames = []int{0, 4}
	}
	res.Rule = "K: one evaluation = getMsgKey on one question of the complete product names x types x classes x AD/CD/DO (each shard evaluates every key and owns the keys whose shard-hash is its own, so equal keys always meet in one shard); B: one evaluation = one query through the real Cache.Exec with a fake next executable, the final response must be marked with a question of the same identity (lower-cased wire name, type, class, AD, CD, DO). Outcome classes: K by name kind / kind of collision, B by scenario and observation (miss-forwarded, served-own-answer, FOREIGN-ANSWER:<coordinates that differ>)"
	var kindNames []string
	for i := 0; i < nNames; i++ {
		kindNames = append(kindNames, c04names[i].kind)
	}
	res.Bounds["K.names"] = kindNames
	res.Bounds["K.types"] = "0..65535 (all)"
	res.Bounds["K.classes"] = classes
	res.Bounds["K.flags"] = "all 8 AD/CD/DO combinations"
	res.Bounds["K.class_sweep"] = fmt.Sprintf("all 65536 classes x types %v x 8 flags x %d name(s)", sweepTypes, len(sweepNames))

	// helpers of the behaviour passes (B); B5 is cheap and runs first so that a slow machine cannot starve it
	unit := int64(0)
	mine := func() bool { unit++; return e.Mine(unit - 1) }
	bOut := func(scn, k string) { res.Outcomes["exec/"+scn+"/"+k]++ }
	var execs int64
	expired := func(what string) bool {
		if e.Expired() {
			if res.Exhaustive {
				res.Notes = append(res.Notes, "B: budget expired before "+what)
			}
			res.Exhaustive = false
			return true
		}
		return false
	}

	// B5: two caches in one sequence with a plugin between them that runs the rest
	// of the chain for another question first (the shape of prefer_ipv4/6 and
	// redirect): what the second cache serves must belong to the question it sees.
	b5names := []int{0, 2, 4}
	b5xor := []uint16{1 ^ 28, 1, 0x8000}
	if thorough {
		b5names = []int{0, 1, 2, 3, 4, 5, 8, 9}
		b5xor = []uint16{1 ^ 28, 1, 2, 0x0100, 0x8000, 0xffff}
	}
	res.Bounds["B5.chained_caches"] = fmt.Sprintf("cache -> fork(type xor %v) -> cache -> upstream; %d names x types {1,28,255} x classes {1,3} x 8 flags; each base asked twice, alternating with its forked twin", b5xor, len(b5names))
	for _, n := range b5names {
		for _, ty := range []uint16{1, 28, 255} {
			for _, c := range []uint16{1, 3} {
				for f := uint8(0); f < 8; f++ {
					for _, x := range b5xor {
						if !mine() || expired("all chained-cache groups were done") {
							continue
						}
						q := c04q{N: n, T: ty, C: c, F: f}
						tw := q
						tw.T ^= x
						execs += s.chained([]c04q{q, tw, q, tw}, x, func(k string) { bOut("chained-caches", k) })
						res.States += 4
					}
				}
			}
		}
	}
	// B6: a plugin in front of the cache answers question A, a redirect-like plugin renames A
	// to B for the rest of the chain (cache -> [context swapped for a copy] -> upstream only if
	// there is no response yet); then B itself is asked twice. Whatever B gets was made for B.
	b6 := 0
	for _, na := range b5names {
		for _, nb := range b5names {
			if c04names[na].canon == c04names[nb].canon {
				continue
			}
			for _, ty := range []uint16{1, 28, 255} {
				for f := uint8(0); f < 8; f++ {
					for _, swap := range []bool{false, true} {
						if !mine() || expired("all preset-response groups were done") {
							continue
						}
						a, b := c04q{N: na, T: ty, C: 1, F: f}, c04q{N: nb, T: ty, C: 1, F: f}
						execs += s.preset(a, b, swap, func(k string) { bOut("preset-response", k) })
						res.States += 3
						b6++
					}
				}
			}
		}
	}
	res.Bounds["B6.preset_response"] = fmt.Sprintf("preset(A) -> rename(A to B's name) -> cache -> {nothing, context swapped for its copy} -> upstream if no response; ordered pairs of %d names x types {1,28,255} x 8 flags; queries A, B, B", len(b5names))
	// B7 (cheap, before the key product): the complete type sweep with an upstream that gives
	// negative answers (what is stored then has no answer record of the question's type: nothing
	// but the key ties it to its question)
	for _, kind := range []string{"nxdomain", "nodata"} {
		for _, desc := range []bool{false, true} {
			if !mine() || expired("all negative-answer type sweeps were done") {
				continue
			}
			r := c04newRig(4 * 65536)
			r.answer = kind
			for pass := 0; pass < 2; pass++ {
				for i := 0; i < 65536; i++ {
					j := i
					if desc {
						j = 65535 - i
					}
					q := c04q{N: 0, T: uint16(j + 1), C: 1, F: 0}
					bOut("type-sweep-"+kind, fmt.Sprintf("pass%d/%s", pass+1, s.check("type-sweep-"+kind, q, r.exec(q))))
				}
			}
			execs += r.execs
			res.States += 65536
			r.close()
		}
	}
	res.Bounds["B7.negative_answers"] = "all 65536 types x {ascending, descending} x 2 passes for one base question with an upstream answering NXDOMAIN / NODATA (marker in the authority section)"
	// B8: a dump written by the previous build (documented v2 layout, assembled by hand)
	for _, n := range b5names {
		for _, ty := range []uint16{1, 28, 255} {
			if !mine() || expired("all previous-build dumps were done") {
				continue
			}
			execs += s.prevBuild(n, ty, func(k string) { bOut("previous-build-dump", k) })
			res.States += 16
		}
	}
	res.Bounds["B8.previous_build_dump"] = fmt.Sprintf("hand-assembled v2 dump with the 8 AD/CD/DO variants of one question (%d names x types {1,28,255}) loaded through /load_dump, then all 16 RD/AD/CD/DO variants asked", len(b5names))
	// ------------------------------------------------------------ K: key injectivity
	keyer := c04newKeyer()
	seed := maphash.MakeSeed() // process-local table hash; the shard function below is deterministic
	tbl := make(map[uint64]uint64, 1<<20)
	overflow := map[string]uint64{}
	collisions := map[string][2]c04q{} // kind -> first example
	var owned, distinct int64
	perName := make([]int64, len(c04names))
	kOutcomes := map[string]int64{}
	shardOf := func(k string) int64 {
		// deterministic; a function of the key only (equal keys -> equal shard)
		h := uint64(14695981039346656037)
		mix := func(b byte) { h = (h ^ uint64(b)) * 1099511628211 }
		n := len(k)
		for i := 0; i < n && i < 24; i++ {
			mix(k[i])
		}
		for i := n - 24; i < n; i++ {
			if i >= 24 {
				mix(k[i])
			}
		}
		mix(byte(n))
		mix(byte(n >> 8))
		return int64(h % 1000003)
	}
	visit := func(q c04q) {
		k := keyer.key(q)
		if k == "" {
			kOutcomes["key/EMPTY-for-a-plain-query"]++
			return
		}
		if !e.Mine(shardOf(k)) {
			return
		}
		owned++
		id := q.id()
		h := maphash.String(seed, k)
		first, ok := tbl[h]
		if ok && first != id && keyer.key(c04fromID(first)) != k { // 64-bit table hash clash: exact fallback
			first, ok = overflow[k]
			if !ok {
				overflow[k] = id
			}
		} else if !ok {
			tbl[h] = id
		}
		if !ok {
			distinct++
			perName[q.N]++
			return
		}
		if first == id {
			return // the same input again (class sweep overlaps the product)
		}
		distinct++
		a := c04fromID(first)
		if a.ident() == q.ident() {
			kOutcomes["key/case-variant-shares-key(allowed)"]++
			return
		}
		kind := c04kind(a, q)
		kOutcomes["key/COLLISION:"+kind]++
		if _, ok := collisions[kind]; !ok {
			collisions[kind] = [2]c04q{a, q}
		}
	}
	// K2: field-boundary family (before the big product: it is the cheaper and the sharper one)
	b2classes := []uint16{1, 0x612e, 0x622e, 0x2e61, 0x2e62, 0x6161}
	b2types := []uint16{1, 0x612e, 0x2e61}
	res.Bounds["K2.boundary"] = fmt.Sprintf("names {a, b, a.a, a.b, b.a, b.b, a.a.a} x (all 65536 types x classes %v + all 65536 classes x types %v) x 8 flags", b2classes, b2types)
	for _, n := range c04boundary {
		if !res.Exhaustive {
			break
		}
		if e.Expired() {
			res.Exhaustive = false
			res.Notes = append(res.Notes, "K2: budget expired in the field-boundary family")
			break
		}
		for ti := 0; ti < 65536; ti++ {
			for _, c := range b2classes {
				for f := uint8(0); f < 8; f++ {
					visit(c04q{N: n, T: uint16(ti), C: c, F: f})
				}
			}
		}
		for c := 0; c < 65536; c++ {
			for _, ty := range b2types {
				for f := uint8(0); f < 8; f++ {
					visit(c04q{N: n, T: ty, C: uint16(c), F: f})
				}
			}
		}
	}
	namesDone := 0
	for n := 0; n < nNames && res.Exhaustive; n++ {
		for _, c := range classes {
			if e.Expired() {
				res.Exhaustive = false
				res.Notes = append(res.Notes, fmt.Sprintf("K: budget expired; product completed for the first %d names only", namesDone))
				break
			}
			for ti := 0; ti < 65536; ti++ {
				ty := uint16(ti + 1) // 1,2,...,65535,0: common types first
				for f := uint8(0); f < 8; f++ {
					visit(c04q{N: n, T: ty, C: c, F: f})
				}
			}
		}
		if res.Exhaustive {
			namesDone++
		}
	}
	sweepDone := 0
	inProduct := map[uint16]bool{}
	for _, c := range classes {
		inProduct[c] = true
	}
	for _, n := range sweepNames {
		for _, ty := range sweepTypes {
			if !res.Exhaustive {
				break
			}
			if e.Expired() {
				res.Exhaustive = false
				res.Notes = append(res.Notes, fmt.Sprintf("K: budget expired in the class sweep after %d (name,type) sweeps", sweepDone))
				break
			}
			for c := 0; c < 65536; c++ {
				if inProduct[uint16(c)] {
					continue // already part of the product above
				}
				for f := uint8(0); f < 8; f++ {
					visit(c04q{N: n, T: ty, C: uint16(c), F: f})
				}
			}
			sweepDone++
		}
	}
	for n, v := range perName {
		if v > 0 {
			kOutcomes["key/distinct/name="+c04names[n].kind] = v
		}
	}
	for k, v := range kOutcomes {
		res.Outcomes[k] += v
	}
	res.Evaluations += owned
	res.States += distinct
	tbl = nil

	// ------------------------------------------------------------ B: behaviour through Cache.Exec (B5 ran first, see above)
	// B1: all 65536 types on one cache, two passes, ascending and descending
	type base struct {
		n int
		c uint16
		f uint8
	}
	b1 := []base{{0, 1, 0}, {0, 1, 4}, {4, 1, 0}, {0, 255, 3}}
	if thorough {
		b1 = nil
		for _, n := range []int{0, 4, 5} {
			for _, c := range []uint16{1, 3, 255} {
				for f := uint8(0); f < 8; f++ {
					b1 = append(b1, base{n, c, f})
				}
			}
		}
	}
	res.Bounds["B1.type_sweeps"] = fmt.Sprintf("%d bases (name,class,flags) x {ascending,descending} x all 65536 types x 2 passes on one cache", len(b1))
	sweep := func(scn string, n int, gen func(i int) c04q, desc bool) {
		r := c04newRig(4 * 65536)
		defer r.close()
		for pass := 0; pass < 2; pass++ {
			for i := 0; i < n; i++ {
				j := i
				if desc {
					j = n - 1 - i
				}
				q := gen(j)
				bOut(scn, fmt.Sprintf("pass%d/%s", pass+1, s.check(scn, q, r.exec(q))))
			}
		}
		execs += r.execs
		res.States += int64(n)
	}
	for _, b := range b1 {
		for _, desc := range []bool{false, true} {
			if !mine() || expired("all type sweeps were done") {
				continue
			}
			b := b
			sweep("type-sweep", 65536, func(i int) c04q { return c04q{N: b.n, T: uint16(i + 1), C: b.c, F: b.f} }, desc)
		}
	}
	// B2: all 65536 classes
	type base2 struct {
		n int
		t uint16
		f uint8
	}
	b2 := []base2{{0, 1, 0}, {0, 257, 0}}
	if thorough {
		b2 = []base2{{0, 1, 0}, {0, 257, 0}, {0, 1, 7}, {4, 28, 0}, {0, 0, 4}, {0, 65535, 2}}
	}
	res.Bounds["B2.class_sweeps"] = fmt.Sprintf("%d bases (name,type,flags) x {ascending,descending} x all 65536 classes x 2 passes on one cache", len(b2))
	for _, b := range b2 {
		for _, desc := range []bool{false, true} {
			if !mine() || expired("all class sweeps were done") {
				continue
			}
			b := b
			sweep("class-sweep", 65536, func(i int) c04q { return c04q{N: b.n, T: b.t, C: uint16(i + 1), F: b.f} }, desc)
		}
	}
	// B3: groups of near neighbours: a base question, every question that differs
	// from it in exactly one bit of type or class, all 8 flag combinations, and
	// every other name of the alphabet; forward and backward, two passes.
	b3types := []uint16{1, 0, 2, 28, 255, 256, 257, 32768, 65535}
	b3classes := []uint16{1, 0, 3, 255, 256, 65535}
	b3names := []int{0, 2, 4} // 1-octet label, root, 255-octet name
	if thorough {
		b3types = append(b3types, 4, 8, 16, 64, 128, 512, 1024, 4096, 16384, 33, 65, 41, 65280)
		b3classes = append(b3classes, 2, 4, 254, 257, 32768, 0x6161)
		b3names = []int{0, 1, 2, 3, 4, 5, 6, 7, 8, 9, 10, 11, 12, 13, 14, 15}
	}
	res.Bounds["B3.neighbour_groups"] = fmt.Sprintf("bases: %d names x %d types x %d classes x 8 flags; group = base + 16 type-bit flips + 16 class-bit flips + 7 other flag combinations + %d other names; x {forward,backward} x 2 passes",
		len(b3names), len(b3types), len(b3classes), nNames-1)
	for _, n := range b3names {
		for _, ty := range b3types {
			for _, c := range b3classes {
				for f := uint8(0); f < 8; f++ {
					if !mine() || expired("all neighbour groups were done") {
						continue
					}
					baseQ := c04q{N: n, T: ty, C: c, F: f}
					grp := []c04q{baseQ}
					for bit := 0; bit < 16; bit++ {
						grp = append(grp, c04q{N: n, T: ty ^ 1<<bit, C: c, F: f})
					}
					for bit := 0; bit < 16; bit++ {
						grp = append(grp, c04q{N: n, T: ty, C: c ^ 1<<bit, F: f})
					}
					for g := uint8(0); g < 8; g++ {
						if g != f {
							grp = append(grp, c04q{N: n, T: ty, C: c, F: g})
						}
					}
					for m := 0; m < nNames; m++ {
						if m != n {
							grp = append(grp, c04q{N: m, T: ty, C: c, F: f})
						}
					}
					for _, back := range []bool{false, true} {
						r := c04newRig(1024)
						for pass := 0; pass < 2; pass++ {
							for i := range grp {
								q := grp[i]
								if back {
									q = grp[len(grp)-1-i]
								}
								o := r.exec(q)
								cls := s.check("neighbours", q, o)
								bOut("neighbours", fmt.Sprintf("pass%d/%s", pass+1, cls))
							}
						}
						execs += r.execs
						r.close()
					}
					res.States += int64(len(grp))
				}
			}
		}
	}
	// B4: the bypass rule (QR set / opcode != QUERY / != 1 question) is not part of
	// the statement of C04: observed and classified only, never a violation.
	for opcode := 0; opcode < 16; opcode++ {
		for _, qr := range []bool{false, true} {
			for nq := 0; nq <= 2; nq++ {
				if opcode == 0 && !qr && nq == 1 {
					continue
				}
				if !mine() {
					continue
				}
				r := c04newRig(1024)
				baseQ := c04q{N: 0, T: 1, C: 1}
				r.exec(baseQ)
				w := c04wireQuery(7, c04names[0].wire, 1, 1, false, false, opcode, qr, nq)
				o1 := r.execWire(w, false, 1<<60)
				o2 := r.execWire(w, false, 1<<60|1)
				cls := "passed-through,not-stored"
				switch {
				case o1.panicked != "" || o2.panicked != "":
					cls = "panic-or-error"
				case o1.fromCache:
					cls = "served-the-cached-answer-of-the-plain-query"
				case o2.fromCache:
					cls = "passed-through,stored"
				}
				what := "opcode!=0"
				switch {
				case nq != 1:
					what = fmt.Sprintf("questions=%d", nq)
				case qr:
					what = "QR=1"
				}
				bOut("bypass(observed-only)", what+"/"+cls)
				execs += r.execs
				res.States++
				r.close()
			}
		}
	}
	res.Evaluations += execs
	res.Transitions = keyer.calls + execs
	res.Bounds["units_behaviour"] = unit

	// ------------------------------------------------------------ violations
	var kinds []string
	for k := range collisions {
		kinds = append(kinds, k)
	}
	sort.Strings(kinds)
	single := map[string]bool{}
	for _, k := range kinds {
		if !strings.Contains(k, "+") {
			single[k] = true
		}
	}
	for _, k := range kinds {
		// a multi-coordinate collision whose every component already collides alone
		// is a consequence, not a new kind
		if strings.Contains(k, "+") {
			all := true
			for _, p := range strings.Split(k, "+") {
				all = all && single[p]
			}
			if all {
				res.Notes = append(res.Notes, "key collisions of kind "+k+" are implied by the single-coordinate collisions reported")
				continue
			}
		}
		p := collisions[k]
		f1, d1, n1 := c04pairRun(p[0], p[1])
		f2, d2, n2 := c04pairRun(p[1], p[0])
		res.Evaluations += n1 + n2
		res.Transitions += n1 + n2
		if !f1 && !f2 {
			res.Outcomes["key/collision-not-observable-through-Exec:"+k]++
			res.Notes = append(res.Notes, fmt.Sprintf("key collision %v / %v (kind %s) did not lead to a foreign answer through Exec: %s; %s", p[0], p[1], k, d1, d2))
			continue
		}
		res.Outcomes["key/collision-confirmed-through-Exec:"+k]++
		c04violate(res, p, "key/collision:"+k,
			fmt.Sprintf("two different questions have the same cache key %q and share a cache entry (differing in: %s).\n%s\n%s",
				keyer.key(p[0]), k, d1, d2))
	}
	kinds = kinds[:0]
	for k := range s.foreign {
		kinds = append(kinds, k)
	}
	sort.Strings(kinds)
	for _, k := range kinds {
		p := s.foreign[k]
		if strings.Contains(k, "+") {
			all := true
			for _, part := range strings.Split(k, "+") {
				_, ok := s.foreign[part]
				all = all && ok
			}
			if all {
				continue
			}
		}
		if strings.HasPrefix(k, "previous-build-dump/") {
			res.ViolateInput("exec/foreign-answer:"+k, fmt.Sprintf("a dump in the v2 format as the previous build wrote it (hand-assembled: flags octet AD=1 CD=2 DO=4, type, name, class) was accepted by /load_dump; "+
				"then a query was answered with the entry of a different question: stored for %v, served to %v", p[0], p[1]), c04pairJSON{A: p[0].json(), B: p[1].json(), Prev: true})
			continue
		}
		if strings.HasPrefix(k, "preset-response/") {
			res.ViolateInput("exec/foreign-answer:"+k, fmt.Sprintf("a plugin in front of the cache answered %v, a redirect-like plugin renamed the question for the rest of the chain (cache -> optional context swap -> upstream), then the other question was asked: "+
				"it was answered with a response made for a different question: made for %v, served to %v", p[0], p[0], p[1]), c04pairJSON{A: p[0].json(), B: p[1].json(), Preset: true})
			continue
		}
		if strings.HasPrefix(k, "negative-answer/") {
			ans := strings.SplitN(k, "/", 3)[1]
			_, d1, _ := c04pairRunK(p[0], p[1], ans)
			_, d2, _ := c04pairRunK(p[1], p[0], ans)
			res.ViolateInput("exec/foreign-answer:"+k, fmt.Sprintf("with an upstream that answers %s: a query was answered with the cached answer of a different question: stored for %v, served to %v.\npair alone: %s\nreverse order: %s", ans, p[0], p[1], d1, d2),
				c04pairJSON{A: p[0].json(), B: p[1].json(), Answer: ans})
			continue
		}
		if strings.HasPrefix(k, "chained-caches/") {
			res.ViolateInput("exec/foreign-answer:"+k, fmt.Sprintf("two cache plugins in one sequence with a plugin between them that runs the rest of the chain for another question first (cache -> fork -> cache -> upstream): "+
				"a query was answered with the cached answer of a different question: stored for %v, served to %v", p[0], p[1]), c04pairJSON{A: p[0].json(), B: p[1].json(), Chained: true})
			continue
		}
		_, d1, _ := c04pairRun(p[0], p[1])
		_, d2, _ := c04pairRun(p[1], p[0])
		c04violate(res, p, "exec/foreign-answer:"+k,
			fmt.Sprintf("a query was answered with the cached answer of a different question (differing in: %s): stored for %v, served to %v (keys %q / %q).\npair alone: %s\nreverse order: %s",
				k, p[0], p[1], keyer.key(p[0]), keyer.key(p[1]), d1, d2))
	}
	res.Sample(map[string]any{"question": c04q{N: 0, T: 1, C: 1, F: 0}.json(), "key_hex": hex.EncodeToString([]byte(keyer.key(c04q{N: 0, T: 1, C: 1, F: 0})))})
	res.Sample(map[string]any{"question": c04q{N: 0, T: 257, C: 1, F: 0}.json(), "key_hex": hex.EncodeToString([]byte(keyer.key(c04q{N: 0, T: 257, C: 1, F: 0})))})
	res.Sample(map[string]any{"question": c04q{N: 0, T: 1, C: 3, F: 4}.json(), "key_hex": hex.EncodeToString([]byte(keyer.key(c04q{N: 0, T: 1, C: 3, F: 4})))})
	res.Sample(map[string]any{"question": c04q{N: 6, T: 28, C: 1, F: 3}.json(), "key_hex": hex.EncodeToString([]byte(keyer.key(c04q{N: 6, T: 28, C: 1, F: 3})))})
	res.Bounds["K.questions_product"] = int64(namesDone) * int64(len(classes)) * 65536 * 8
	res.Bounds["K.questions_class_sweep_additional"] = int64(sweepDone) * int64(65536-len(classes)) * 8
	res.Notes = append(res.Notes, "the bypass rule (QR / opcode / question count) is not part of the statement: classified under exec/bypass(observed-only), never reported",
		"names differing only in ASCII letter case are the same name: sharing is allowed, not required")
	res.Write(e)
	if len(overflow) > 0 {
		t.Logf("table hash clashes resolved exactly: %d", len(overflow))
	}
}

// c04violate records a violation; its cost makes the merge over shards keep the
// simplest pair of a signature (shortest name, smallest type).
func c04violate(res *vr.Result, p [2]c04q, sig, desc string) {
	res.ViolateInput(sig, desc, c04pairJSON{A: p[0].json(), B: p[1].json()})
	ord := func(t uint16) int { // enumeration order of types: 1,2,...,65535,0
		if t == 0 {
			return 65536
		}
		return int(t)
	}
	cost := ord(p[0].T)
	if ord(p[1].T) < cost {
		cost = ord(p[1].T)
	}
	cost += 1 + len(c04names[p[0].N].wire)*70000
	for i := range res.Violations {
		if res.Violations[i].Sig == sig && res.Violations[i].Cost == 0 {
			res.Violations[i].Cost = cost
		}
	}
}

func c04replay(t *testing.T, in json.RawMessage) {
	var p c04pairJSON
	if err := json.Unmarshal(in, &p); err != nil {
		fmt.Println("INFRA: bad replay input:", err)
		t.Fatal(err)
	}
	a, err1 := c04fromJSON(p.A)
	b, err2 := c04fromJSON(p.B)
	if err1 != nil || err2 != nil {
		fmt.Println("INFRA: bad replay input:", err1, err2)
		t.Fatal("bad input")
	}
	if p.Prev {
		st := &c04state{res: vr.New("C04", vr.Env{}), foreign: map[string][2]c04q{}}
		st.prevBuild(b.N, b.T, func(k string) { fmt.Println("   ", k) })
		if len(st.foreign) > 0 {
			fmt.Println("REPLAY-VIOLATION property=C04 an entry of a dump written in the previous build's format was served to a query with other AD/CD/DO flags")
		} else {
			fmt.Println("REPLAY-OK")
		}
		return
	}
	if p.Preset {
		st := &c04state{res: vr.New("C04", vr.Env{}), foreign: map[string][2]c04q{}}
		for _, swap := range []bool{false, true} {
			fmt.Printf("preset(%v) -> rename -> cache -> swap=%v -> upstream; queries %v, %v, %v\n", a, swap, a, b, b)
			st.preset(a, b, swap, func(k string) { fmt.Println("   ", k) })
		}
		if len(st.foreign) > 0 {
			fmt.Println("REPLAY-VIOLATION property=C04 a response made for another question was served from the cache")
		} else {
			fmt.Println("REPLAY-OK: every response belongs to the question that was asked")
		}
		return
	}
	if p.Chained {
		st := &c04state{res: vr.New("C04", vr.Env{}), foreign: map[string][2]c04q{}}
		tw := b
		tw.T = a.T
		fmt.Printf("cache -> fork(type xor %#x) -> cache -> upstream; queries %v, %v, %v, %v\n", a.T^b.T, b, tw, b, tw)
		st.chained([]c04q{b, tw, b, tw}, a.T^b.T, func(k string) { fmt.Println("   ", k) })
		if len(st.foreign) > 0 {
			fmt.Println("REPLAY-VIOLATION property=C04 a cached answer was served to a different question in the chained-caches scenario")
		} else {
			fmt.Println("REPLAY-OK: every response belongs to the question its cache saw")
		}
		return
	}
	k := c04newKeyer()
	ka, kb := k.key(a), k.key(b)
	fmt.Printf("A = %v\n    getMsgKey = %x\nB = %v\n    getMsgKey = %x\n", a, ka, b, kb)
	fmt.Printf("same identity (reference model): %v; same key (real code): %v; differing coordinates: %s\n", a.ident() == b.ident(), ka == kb, c04kind(a, b))
	f1, d1, _ := c04pairRunK(a, b, p.Answer)
	f2, d2, _ := c04pairRunK(b, a, p.Answer)
	fmt.Println(d1)
	fmt.Println(d2)
	if f1 || f2 {
		fmt.Printf("REPLAY-VIOLATION property=C04 a cached answer was served to a different question (A then B: %v, B then A: %v)\n", f1, f2)
		return
	}
	fmt.Println("REPLAY-OK: neither query is served the other's cached answer on the current tree")
}
