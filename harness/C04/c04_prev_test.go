package cache

import (
	"bytes"
	"compress/gzip"
	"encoding/binary"
	"net/http"
	"net/http/httptest"
	"strconv"
	"time"

	"github.com/miekg/dns"
)

// C04 pass B8: entries stored by the PREVIOUS build. A dump in the documented v2
// format ("mosdns_cache_v2": gzip stream, 8-byte length + protobuf blocks of
// {key, msg, cache expiry, msg expiry, stored time}; key = flags octet AD=1 CD=2
// DO=4, type, name length, name, class) is assembled by hand - nothing of the
// tree under test is used to write it - with one entry per AD/CD/DO combination
// of one question, and loaded through /load_dump. Then every RD/AD/CD/DO variant
// is asked: whatever comes out of the cache was stored for the same AD/CD/DO
// flags. (A tree that changes the key layout has to refuse such a dump: then
// nothing is loaded and nothing can be served wrongly.)

func c04pbVarint(b []byte, v uint64) []byte {
	for v >= 0x80 {
		b = append(b, byte(v)|0x80)
		v >>= 7
	}
	return append(b, byte(v))
}

func c04pbBytes(b []byte, field int, v []byte) []byte {
	b = c04pbVarint(b, uint64(field<<3|2))
	b = c04pbVarint(b, uint64(len(v)))
	return append(b, v...)
}

func c04pbInt(b []byte, field int, v int64) []byte {
	b = c04pbVarint(b, uint64(field<<3|0))
	return c04pbVarint(b, uint64(v))
}

// c04prevDump: entries for question (name n, type t, class IN) x flags 0..7.
func c04prevDump(n int, t uint16) []byte {
	now := time.Now()
	var block []byte
	for f := uint8(0); f < 8; f++ {
		q := c04q{N: n, T: t, C: 1, F: f}
		name := c04names[n].pres
		key := []byte{f, byte(t >> 8), byte(t), byte(len(name))}
		key = append(key, name...)
		key = append(key, 0, 1)
		m := new(dns.Msg)
		m.Response = true
		m.RecursionDesired = true
		m.RecursionAvailable = true
		m.Question = []dns.Question{{Name: name, Qtype: t, Qclass: 1}}
		m.Answer = append(m.Answer, &dns.TXT{Hdr: dns.RR_Header{Name: name, Rrtype: dns.TypeTXT, Class: dns.ClassINET, Ttl: 3600},
			Txt: []string{strconv.FormatUint(q.id(), 10)}})
		wire, err := m.Pack()
		if err != nil {
			panic(err)
		}
		var e []byte
		e = c04pbBytes(e, 1, key)
		e = c04pbBytes(e, 2, wire)
		e = c04pbInt(e, 3, now.Add(time.Hour).Unix())
		e = c04pbInt(e, 4, now.Add(time.Hour).Unix())
		e = c04pbInt(e, 5, now.Add(-time.Minute).Unix())
		block = c04pbBytes(block, 1, e)
	}
	var out bytes.Buffer
	gw, _ := gzip.NewWriterLevel(&out, gzip.BestSpeed)
	gw.Name = "mosdns_cache_v2"
	l := make([]byte, 8)
	binary.BigEndian.PutUint64(l, uint64(len(block)))
	gw.Write(l)
	gw.Write(block)
	gw.Close()
	return out.Bytes()
}

// prevBuild loads the hand-made dump and asks all 16 RD/AD/CD/DO variants.
func (s *c04state) prevBuild(n int, t uint16, out func(string)) (execs int64) {
	r := c04newRig(1024)
	defer r.close()
	rec := httptest.NewRecorder()
	req := httptest.NewRequest(http.MethodPost, "/load_dump", bytes.NewReader(c04prevDump(n, t)))
	r.c.Api().ServeHTTP(rec, req)
	if rec.Code != 200 {
		out("dump-of-previous-build-refused") // legal (e.g. after a format change with a new header)
		return 0
	}
	for rd := 0; rd < 2; rd++ {
		for f := uint8(0); f < 8; f++ {
			q := c04q{N: n, T: t, C: 1, F: f}
			w := c04wireQuery(uint16(r.execs), c04names[q.N].wire, q.T, q.C, q.F&1 != 0, q.F&2 != 0, 0, false, 1)
			if rd == 0 {
				w[2] &^= 0x01 // RD off: not part of the identity
			}
			o := r.execWire(w, q.F&4 != 0, q.id())
			k := s.check("previous-build-dump", q, o)
			if !o.fromCache && k == "miss-forwarded" {
				k = "not-in-the-dump-forwarded"
			}
			out("rd" + strconv.Itoa(rd) + "/" + k)
		}
	}
	return r.execs
}
