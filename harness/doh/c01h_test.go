package doh

import (
	"bytes"
	"context"
	"encoding/base64"
	"errors"
	"fmt"
	"io"
	"net/http"
	"strings"
	"testing"
	"time"
	"unsafe"

	"github.com/IrineSistiana/mosdns/v5/pkg/pool"
	"github.com/IrineSistiana/mosdns/v5/zz_verif/fk"
	"github.com/IrineSistiana/mosdns/v5/zz_verif/vr"
	"github.com/IrineSistiana/mosdns/v5/zz_verif/vs"
)

// C01 / C07 over DoH: the real doh.Upstream over a fake http.RoundTripper. The
// server answers the outstanding requests in any order, with status 200 / 500,
// bodies shorter than a DNS header, a foreign message ID, or not at all.

func init() { fk.PoisonPool() }

type dohReq struct {
	wire   []byte
	done   bool
	resp   *http.Response
	err    error
	ctx    context.Context
	silent bool
}

func (r *dohReq) handled() bool { return r.silent }

type dohRT struct {
	reqs []*dohReq
}

func (rt *dohRT) RoundTrip(req *http.Request) (*http.Response, error) {
	// a real transport takes locks / hands the request to a connection goroutine
	// before the URL is serialised: a scheduling point between the caller's
	// preparation of the request and the moment its URL is read
	vs.Point("doh.rt.enter", unsafe.Pointer(rt))
	q := req.URL.Query().Get("dns")
	wire, err := base64.RawURLEncoding.DecodeString(q)
	if err != nil {
		return nil, err
	}
	r := &dohReq{wire: wire, ctx: req.Context()}
	rt.reqs = append(rt.reqs, r)
	vs.Block("doh.roundtrip", unsafe.Pointer(r), func() bool { return r.done || r.ctx.Err() != nil })
	if !r.done {
		return nil, r.ctx.Err()
	}
	return r.resp, r.err
}

func dohScenario(name string, callers int, ids []uint16, ctxMode []int, menu []string, d int) vr.Scenario {
	type hc struct {
		idx      int
		q        []byte
		resp     []byte
		err      error
		done     bool
		retAt    time.Duration
		cancelAt time.Duration
		cancelled bool
	}
	var calls []*hc
	var answers [][]byte
	var rt *dohRT
	var finished bool
	body := func() {
		finished = false
		calls, answers = nil, nil
		rt = &dohRT{}
		u, err := NewUpstream("https://doh.example/dns-query", rt, nil)
		if err != nil {
			panic(err)
		}
		stop := false
		nonce := uint32(0)
		vs.GoNamed("doh-server", func() {
			for {
				vs.Block("doh.wait", unsafe.Pointer(rt), func() bool {
					if stop {
						return true
					}
					for _, r := range rt.reqs {
						if !r.done && !r.handled() {
							return true
						}
					}
					return false
				})
				if stop {
					return
				}
				var open []*dohReq
				for _, r := range rt.reqs {
					if !r.done && !r.handled() {
						open = append(open, r)
					}
				}
				r := open[vs.Choose(len(open))]
				mk := func(code int, body []byte) *http.Response {
					return &http.Response{StatusCode: code, Body: io.NopCloser(bytes.NewReader(body)), Header: http.Header{}}
				}
				switch menu[vs.Choose(len(menu))] {
				case "answer":
					nonce++
					a := fk.Answer(r.wire, nonce)
					answers = append(answers, a)
					r.resp = mk(200, a)
				case "answer-foreign-id":
					nonce++
					a := fk.WithID(fk.Answer(r.wire, nonce), 0xABCD)
					answers = append(answers, a)
					r.resp = mk(200, a)
				case "500":
					r.resp = mk(500, []byte("oops"))
				case "short":
					r.resp = mk(200, []byte{1, 2, 3, 4, 5})
				case "error":
					r.err = errors.New("connection reset")
				case "silent":
					r.silent = true
					continue
				}
				r.done = true
			}
		})
		var wg vs.WaitGroup
		for i := 0; i < callers; i++ {
			id := uint16(0x2000 + i)
			if i < len(ids) {
				id = ids[i]
			}
			c := &hc{idx: i, q: fk.Query(id, fmt.Sprintf("h%d.example.", i), 1)}
			calls = append(calls, c)
			wg.Add(1)
			vs.GoNamed(fmt.Sprintf("caller%d", i), func() {
				defer wg.Done()
				mode := 0
				if c.idx < len(ctxMode) {
					mode = ctxMode[c.idx]
				}
				ctx := context.Background()
				var cancel context.CancelFunc = func() {}
				switch mode {
				case 1:
					ctx, cancel = vs.WithTimeout(ctx, 3*time.Second)
				case 2:
					ctx, cancel = vs.WithCancel(ctx)
					cc := cancel
					vs.GoNamed("cancel", func() { c.cancelled, c.cancelAt = true, vs.Elapsed(); cc() })
				}
				defer cancel()
				r, err := u.ExchangeContext(ctx, c.q)
				c.done, c.err, c.retAt = true, err, vs.Elapsed()
				if r != nil {
					c.resp = append([]byte(nil), (*r)...)
					pool.ReleaseBuf(r)
				}
			})
		}
		wg.Wait()
		vs.Sleep(10 * time.Second) // helper goroutines run under their own 6s timeout
		stop = true
		finished = true
	}
	check := func(x *vs.Exec) (string, *vs.Violation) {
		V := func(oracle, why string) (string, *vs.Violation) {
			return oracle, &vs.Violation{Sig: name + "/" + oracle, Desc: why}
		}
		if x.Panic != "" {
			return V("panic", x.Panic)
		}
		if !finished || len(x.Blocked) > 0 {
			return V("hang-or-leak", fmt.Sprintf("did not finish or goroutines still parked: %v", x.Blocked))
		}
		var key []string
		for _, c := range calls {
			k := "ok"
			if c.err != nil {
				k = c.err.Error()
				if len(k) > 30 {
					k = k[:30]
				}
			}
			key = append(key, k)
			if c.err == nil {
				if len(c.resp) < 12 {
					return V("short-reply", fmt.Sprintf("call %d succeeded with %d bytes", c.idx, len(c.resp)))
				}
				if fk.ID(c.resp) != fk.ID(c.q) {
					return V("id-not-restored", fmt.Sprintf("call %d: caller ID %#04x, returned %#04x", c.idx, fk.ID(c.q), fk.ID(c.resp)))
				}
				ok := false
				for _, a := range answers {
					if fk.QName(a) == fk.QName(c.q) && bytes.Equal(c.resp, fk.WithID(a, fk.ID(c.q))) {
						ok = true
					}
				}
				if !ok {
					return V("foreign-reply", fmt.Sprintf("call %d returned bytes that are not the server's answer to its query (question %q)", c.idx, fk.QName(c.resp)))
				}
			}
			if x.EarlyTimers == 0 && c.cancelled && c.err != nil && c.retAt > c.cancelAt {
				return V("late-after-cancel", fmt.Sprintf("call %d cancelled at %v returned at %v", c.idx, c.cancelAt, c.retAt))
			}
			if x.EarlyTimers == 0 && c.retAt > 6*time.Second+time.Millisecond {
				return V("outlives-timeout", fmt.Sprintf("call %d returned at %v", c.idx, c.retAt))
			}
		}
		for _, r := range rt.reqs {
			if fk.ID(r.wire) != 0 {
				return V("wire-id-not-zero", fmt.Sprintf("request carries message ID %#04x", fk.ID(r.wire)))
			}
		}
		return strings.Join(key, ","), nil
	}
	return vr.Scenario{Name: name, P: d, D: d, Horizon: 2 * time.Minute, Body: body, Check: check}
}

func TestVerifC01h(t *testing.T) {
	e := vr.GetEnv()
	d := 2
	if e.Tier == "thorough" {
		d = 3
	}
	scs := []vr.Scenario{
		dohScenario("doh-c2-sameid", 2, []uint16{0, 0}, nil, []string{"answer", "answer-foreign-id"}, d),
		dohScenario("doh-c3-faults", 3, []uint16{0xFFFF, 1, 0xFFFF}, []int{0, 1, 0}, []string{"answer", "500", "short", "error"}, d-1),
		dohScenario("doh-c2-cancel-silent", 2, nil, []int{2, 0}, []string{"answer", "silent"}, d),
	}
	vr.RunScenarios("C01", scs)
}
