package bootstrap

import (
	"context"
	"errors"
	"fmt"
	stdnet "net"
	"net/netip"
	"strings"
	"testing"
	"time"

	"github.com/IrineSistiana/mosdns/v5/zz_verif/fk"
	"github.com/IrineSistiana/mosdns/v5/zz_verif/vnet"
	"github.com/IrineSistiana/mosdns/v5/zz_verif/vr"
	"github.com/IrineSistiana/mosdns/v5/zz_verif/vs"
	"github.com/miekg/dns"
	"go.uber.org/zap"
)

// C18 part b (engine vs): the bootstrap resolver over time. "Connections are
// opened to exactly the host ... the user wrote": for a host name with
// `bootstrap` that is the address the bootstrap server gives for that name.
// The Bootstrap object is run under the scheduler in virtual time against a
// fake bootstrap server (in-memory datagram socket, answers after 100 ms):
// first resolution, then - minutes later, when a refresh is due - the server
// answers with another address while 1-2 dials ask for the address at the
// same time; 10 s later (the refresh has long completed) a new dial must be
// given the address the last completed resolution returned. During a refresh
// either address is fine.

type c18bSys struct {
	answer   string // what the fake server answers right now
	queries  int
	answered []string
	first    string
	during   []string
	final    string
	errs     []error
	done     bool
}

type c18bSink struct{ s *c18bSys }

func (k c18bSink) Dial(ctx context.Context, network, addr string) (stdnet.Conn, error) {
	return nil, errors.New("not used")
}
func (k c18bSink) ListenPacket(ctx context.Context, network, addr string) (stdnet.PacketConn, error) {
	return nil, errors.New("not used")
}
func (k c18bSink) ResolveUDPAddr(network, addr string) (*stdnet.UDPAddr, error) {
	return nil, errors.New("not used")
}
func (k c18bSink) DialUDP(network string, laddr, raddr *stdnet.UDPAddr) (stdnet.Conn, error) {
	s := k.s
	a, _ := fk.NewPipe(fmt.Sprintf("boot#%d", s.queries), true)
	a.WriteHook = func(c *fk.Conn, wb []byte, nth int) error {
		q := new(dns.Msg)
		if q.Unpack(wb) != nil || len(q.Question) != 1 {
			return nil
		}
		s.queries++
		ans := s.answer // the server's data at the time the query arrives
		vs.GoNamed("bootsrv", func() {
			vs.Sleep(100 * time.Millisecond)
			r := new(dns.Msg)
			r.SetReply(q)
			if q.Question[0].Qtype == dns.TypeA {
				r.Answer = append(r.Answer, &dns.A{Hdr: dns.RR_Header{Name: q.Question[0].Name, Rrtype: dns.TypeA, Class: dns.ClassINET, Ttl: 60}, A: stdnet.ParseIP(ans)})
			}
			b, err := r.Pack()
			if err != nil {
				panic(err)
			}
			if !a.Closed() {
				a.Deliver(b)
				s.answered = append(s.answered, ans)
			}
		})
		return nil
	}
	return a, nil
}

func c18bScenario(name string, dials, d int) vr.Scenario {
	var sys *c18bSys
	body := func() {
		s := &c18bSys{answer: "198.51.100.1"}
		sys = s
		vnet.SetSink(c18bSink{s})
		bs, err := New("dns.c18b.test", 8853, netip.MustParseAddrPort("192.0.2.53:53"), 0, zap.NewNop())
		if err != nil {
			panic(err)
		}
		get := func() (string, error) {
			ctx, cancel := vs.WithTimeout(context.Background(), 5*time.Second)
			defer cancel()
			return bs.GetAddrPortStr(ctx)
		}
		vs.Freeze() // the first resolution is a prologue
		var e error
		if s.first, e = get(); e != nil {
			s.errs = append(s.errs, e)
		}
		vs.Sleep(10 * time.Minute) // a refresh is due now (ttl 60 s, at least 5 minutes)
		s.answer = "198.51.100.2"  // the host has moved
		vs.Unfreeze()
		s.during = make([]string, dials)
		var wg vs.WaitGroup
		for i := 0; i < dials; i++ {
			i := i
			wg.Add(1)
			vs.GoNamed(fmt.Sprintf("dial%d", i), func() {
				defer wg.Done()
				a, err := get()
				if err != nil {
					s.errs = append(s.errs, err)
				}
				s.during[i] = a
				if i == 0 {
					// a connection that is opened a little later, while the refresh may still be on its way
					vs.Sleep(50 * time.Millisecond)
					if _, err := get(); err != nil {
						s.errs = append(s.errs, err)
					}
				}
			})
		}
		wg.Wait()
		vs.Sleep(10 * time.Second)
		vs.Freeze()
		if s.final, e = get(); e != nil {
			s.errs = append(s.errs, e)
		}
		s.done = true
	}
	check := func(x *vs.Exec) (string, *vs.Violation) {
		s := sys
		V := func(o, why string) (string, *vs.Violation) {
			return o, &vs.Violation{Sig: name + "/" + o, Desc: why + fmt.Sprintf("\nfirst=%q during the refresh=%v final=%q bootstrap queries=%d answers delivered=%v errors=%v", s.first, s.during, s.final, s.queries, s.answered, s.errs)}
		}
		if x.Panic != "" {
			return V("panic", x.Panic)
		}
		if !s.done {
			return V("hang", fmt.Sprintf("parked: %v", x.Blocked))
		}
		if len(s.errs) > 0 {
			return V("error", "GetAddrPortStr failed although the bootstrap server answers every query within 100 ms")
		}
		if s.first != "198.51.100.1:8853" {
			return V("first-resolution", "the first resolution did not return the address the server gave, with the configured port")
		}
		for _, a := range s.during {
			if a != "198.51.100.1:8853" && a != "198.51.100.2:8853" {
				return V("address-from-nowhere", fmt.Sprintf("a dial during the refresh was given %q", a))
			}
		}
		if x.EarlyTimers > 0 {
			return "early-timers", nil
		}
		last := ""
		if n := len(s.answered); n > 0 {
			last = s.answered[n-1] + ":8853"
		}
		if len(s.answered) >= 2 && s.final != last {
			return V("stale-address-after-refresh", fmt.Sprintf("10 s after the last bootstrap reply (%s) a new connection is still given %q", last, s.final))
		}
		return strings.Join(s.during, ",") + "=>" + s.final, nil
	}
	return vr.Scenario{Name: name, P: d, D: d, Horizon: 30 * time.Minute, Body: body, Check: check}
}

func TestVerifC18b(t *testing.T) {
	e := vr.GetEnv()
	scs := []vr.Scenario{c18bScenario("refresh-1dial", 1, 2), c18bScenario("refresh-2dials", 2, 2)}
	if e.Tier == "thorough" {
		scs = []vr.Scenario{c18bScenario("refresh-1dial", 1, 4), c18bScenario("refresh-2dials", 2, 3), c18bScenario("refresh-3dials", 3, 2)}
	}
	vr.RunScenarios("C18", scs)
}
