package upstream

import (
	"bufio"
	"context"
	"crypto/ecdsa"
	"crypto/elliptic"
	"crypto/rand"
	"crypto/tls"
	"crypto/x509"
	"crypto/x509/pkix"
	"encoding/base64"
	"encoding/binary"
	"errors"
	"fmt"
	"io"
	"math/big"
	"net"
	"net/http"
	"net/netip"
	"os"
	"strings"
	"sync"
	"sync/atomic"
	"time"

	"github.com/IrineSistiana/mosdns/v5/zz_verif/vnet"
	"github.com/miekg/dns"
	"github.com/quic-go/quic-go"
	"github.com/quic-go/quic-go/http3"
)

// ---------------------------------------------------------------------------
// In-memory peers behind the vnet shim. No socket is ever opened: dials get one
// end of a buffered in-memory pipe (c18conn), the QUIC socket is a channel-backed
// PacketConn wired to a quic-go server living in the same process.

// c18hs is one TLS handshake as seen by the fake server.
type c18hs struct {
	Hello bool   `json:"client_hello"`
	SNI   string `json:"sni"`
	OK    bool   `json:"completed"` // the client accepted the certificate (valid ONLY for the reference TLS name)
	Err   string `json:"err,omitempty"`
	done  chan struct{}
}

type c18session struct {
	cfg c18cfg
	exp c18expect

	mu       sync.Mutex
	recs     []vnet.Rec
	writeTo  map[string]int // distinct UDP destinations of the QUIC socket -> datagrams
	resolved map[string]bool
	hs       []*c18hs
	closers  []io.Closer
	answered int
	httpPath []string
	sealed   bool
	stray    int
	redirected bool // via "redirect-first": the first DoH request has been answered with a redirect
	refused  bool // via "refuse-first": the first TCP connect has been refused
	gen      int  // observation epoch (resetObservations)

	wg     sync.WaitGroup
	ctx    context.Context
	cancel context.CancelFunc
	cert   tls.Certificate
}

var c18cur atomic.Pointer[c18session]

func c18newSession(c c18cfg, e c18expect) *c18session {
	s := &c18session{cfg: c, exp: e, writeTo: map[string]int{}, resolved: map[string]bool{}}
	s.ctx, s.cancel = context.WithCancel(context.Background())
	if e.TLSName != "" {
		s.cert = c18leaf(e.TLSName)
	}
	return s
}

// resetObservations forgets what was seen so far (a prologue that is not judged).
func (s *c18session) resetObservations() {
	s.mu.Lock()
	defer s.mu.Unlock()
	s.gen++ // sockets of the prologue may still send (a QUIC close): not observed any more
	s.recs, s.hs, s.httpPath, s.answered = nil, nil, nil, 0
	s.writeTo, s.resolved = map[string]int{}, map[string]bool{}
}

func (s *c18session) add(r vnet.Rec) bool {
	s.mu.Lock()
	defer s.mu.Unlock()
	if s.sealed {
		s.stray++
		return false
	}
	s.recs = append(s.recs, r)
	return true
}

func (s *c18session) track(c io.Closer) {
	s.mu.Lock()
	s.closers = append(s.closers, c)
	s.mu.Unlock()
}

func (s *c18session) newHS() *c18hs {
	h := &c18hs{done: make(chan struct{})}
	s.mu.Lock()
	s.hs = append(s.hs, h)
	s.mu.Unlock()
	return h
}

// teardown closes every fake endpoint and waits for the peer goroutines.
func (s *c18session) teardown() (leaked bool) {
	s.mu.Lock()
	s.sealed = true
	cl := s.closers
	s.closers = nil
	s.mu.Unlock()
	s.cancel()
	for i := len(cl) - 1; i >= 0; i-- {
		cl[i].Close()
	}
	ch := make(chan struct{})
	go func() { s.wg.Wait(); close(ch) }()
	select {
	case <-ch:
	case <-time.After(10 * time.Second): // liveness guard only
		return true
	}
	return false
}

// ---- vnet.Sink -------------------------------------------------------------

type c18sink struct{}

var errC18NoSession = errors.New("c18: network operation outside a session")

func (c18sink) Dial(ctx context.Context, network, addr string) (net.Conn, error) {
	s := c18cur.Load()
	if s == nil || !s.add(vnet.Rec{Kind: "dial", Network: network, Addr: addr}) {
		return nil, errC18NoSession
	}
	if s.cfg.Via == "refuse-first" && strings.HasPrefix(network, "tcp") {
		s.mu.Lock()
		first := !s.refused
		s.refused = true
		s.mu.Unlock()
		if first {
			// connection refused at the configured destination: whatever the upstream tries
			// next is recorded and judged like any other dial
			return nil, errors.New("connect: connection refused (injected)")
		}
	}
	a, b := c18pipe(network, addr)
	s.track(b)
	s.wg.Add(1)
	go func() {
		defer s.wg.Done()
		defer b.Close()
		if s.cfg.Via == "socks5" && addr == c18socksAddr {
			target, err := c18socks5Accept(b)
			if err != nil || !s.add(vnet.Rec{Kind: "socks5-connect", Network: "tcp", Addr: target}) {
				return
			}
		}
		s.serveStream(network, b)
	}()
	return a, nil
}

// c18socks5Accept plays a no-auth SOCKS5 proxy up to the CONNECT reply and
// returns the requested target as host:port.
func c18socks5Accept(c io.ReadWriter) (string, error) {
	var h [4]byte
	if _, err := io.ReadFull(c, h[:2]); err != nil || h[0] != 5 {
		return "", errors.New("socks5: bad greeting")
	}
	if _, err := io.ReadFull(c, make([]byte, h[1])); err != nil {
		return "", err
	}
	if _, err := c.Write([]byte{5, 0}); err != nil {
		return "", err
	}
	if _, err := io.ReadFull(c, h[:]); err != nil || h[0] != 5 || h[1] != 1 {
		return "", errors.New("socks5: not a CONNECT request")
	}
	var host string
	switch h[3] {
	case 1, 4:
		b := make([]byte, map[byte]int{1: 4, 4: 16}[h[3]])
		if _, err := io.ReadFull(c, b); err != nil {
			return "", err
		}
		ip, _ := netip.AddrFromSlice(b)
		host = ip.String()
	case 3:
		var l [1]byte
		if _, err := io.ReadFull(c, l[:]); err != nil {
			return "", err
		}
		b := make([]byte, l[0])
		if _, err := io.ReadFull(c, b); err != nil {
			return "", err
		}
		host = string(b)
	default:
		return "", errors.New("socks5: bad address type")
	}
	var p [2]byte
	if _, err := io.ReadFull(c, p[:]); err != nil {
		return "", err
	}
	if _, err := c.Write([]byte{5, 0, 0, 1, 0, 0, 0, 0, 0, 0}); err != nil {
		return "", err
	}
	return net.JoinHostPort(host, fmt.Sprint(binary.BigEndian.Uint16(p[:]))), nil
}

// DialUDP is the bootstrap resolver's socket: a fake plain-DNS server that
// answers every A question with c18bootAnswer.
func (c18sink) DialUDP(network string, laddr, raddr *net.UDPAddr) (net.Conn, error) {
	s := c18cur.Load()
	if s == nil || !s.add(vnet.Rec{Kind: "bootstrap-dial", Network: network, Addr: raddr.String()}) {
		return nil, errC18NoSession
	}
	a, b := c18pipe(network, raddr.String())
	s.track(b)
	s.wg.Add(1)
	go func() {
		defer s.wg.Done()
		defer b.Close()
		buf := make([]byte, 65535)
		for {
			n, err := b.Read(buf)
			if err != nil {
				return
			}
			q := new(dns.Msg)
			if q.Unpack(buf[:n]) != nil || len(q.Question) != 1 {
				continue
			}
			if !s.add(vnet.Rec{Kind: "bootstrap-query", Network: dns.TypeToString[q.Question[0].Qtype], Addr: q.Question[0].Name}) {
				return
			}
			r := new(dns.Msg)
			r.SetReply(q)
			if s.cfg.Via == "bootstrap-referral" {
				// a referral: no address for the name asked, the name servers of the parent zone
				// in the authority section and their addresses (glue) in the additional section
				r.Ns = append(r.Ns, &dns.NS{Hdr: dns.RR_Header{Name: "c18-parent.test.", Rrtype: dns.TypeNS, Class: dns.ClassINET, Ttl: 600}, Ns: "ns.c18-parent.test."})
				r.Extra = append(r.Extra,
					&dns.A{Hdr: dns.RR_Header{Name: "ns.c18-parent.test.", Rrtype: dns.TypeA, Class: dns.ClassINET, Ttl: 600}, A: net.ParseIP(c18glueAddr)},
					&dns.AAAA{Hdr: dns.RR_Header{Name: "ns.c18-parent.test.", Rrtype: dns.TypeAAAA, Class: dns.ClassINET, Ttl: 600}, AAAA: net.ParseIP("2001:db8:66::66")})
			} else if s.cfg.Via == "bootstrap-two" && strings.EqualFold(q.Question[0].Name, c18otherName+".") {
				if q.Question[0].Qtype == dns.TypeA {
					r.Answer = append(r.Answer, &dns.A{Hdr: dns.RR_Header{Name: q.Question[0].Name, Rrtype: dns.TypeA, Class: dns.ClassINET, Ttl: 600}, A: net.ParseIP(c18otherAnswer)})
				}
			} else if q.Question[0].Qtype == dns.TypeA {
				r.Answer = append(r.Answer, &dns.A{Hdr: dns.RR_Header{Name: q.Question[0].Name, Rrtype: dns.TypeA, Class: dns.ClassINET, Ttl: 600},
					A: net.ParseIP(c18bootAnswer)})
			}
			out, err := r.Pack()
			if err != nil {
				continue
			}
			if _, err := b.Write(out); err != nil {
				return
			}
			if s.cfg.Via == "bootstrap-two" {
				b.Write(out) // the same datagram again
			}
		}
	}()
	return a, nil
}

var c18pktSeq atomic.Uint32

func (c18sink) ListenPacket(ctx context.Context, network, addr string) (net.PacketConn, error) {
	s := c18cur.Load()
	if s == nil || !s.add(vnet.Rec{Kind: "listenpacket", Network: network, Addr: addr}) {
		return nil, errC18NoSession
	}
	n := c18pktSeq.Add(1)
	cl := c18newPkt(s, true, &net.UDPAddr{IP: net.IPv4(10, byte(n>>16), byte(n>>8), byte(n)), Port: 40000})
	sv := c18newPkt(s, false, &net.UDPAddr{IP: net.IPv4(11, byte(n>>16), byte(n>>8), byte(n)), Port: 40001})
	cl.peer, sv.peer = sv, cl
	s.track(cl)
	s.track(sv)
	if err := s.startQuicServer(sv); err != nil {
		return nil, err
	}
	return cl, nil
}

// ResolveUDPAddr: IP literals are converted, every other name "resolves" to a
// fixed synthetic address carrying the port that was asked for.
func (c18sink) ResolveUDPAddr(network, addr string) (*net.UDPAddr, error) {
	s := c18cur.Load()
	if s == nil || !s.add(vnet.Rec{Kind: "resolveudp", Network: network, Addr: addr}) {
		return nil, errC18NoSession
	}
	h, p, err := c18hostport(addr)
	if err != nil || p == 0 {
		return nil, &net.AddrError{Err: "c18: unresolvable", Addr: addr}
	}
	ip, err := netip.ParseAddr(h)
	if err != nil {
		ip = netip.MustParseAddr("198.51.100.53")
	}
	ua := net.UDPAddrFromAddrPort(netip.AddrPortFrom(ip, p))
	s.mu.Lock()
	s.resolved[ua.AddrPort().String()] = true
	s.mu.Unlock()
	return ua, nil
}

// ---- in-memory connection --------------------------------------------------

// c18half is one direction of a pipe: an unbounded queue of written chunks.
// Writes never block (an unbuffered net.Pipe deadlocks when a TLS client sends
// an alert while the server is still writing its flight); one Read returns at
// most one chunk, so datagram boundaries survive.
type c18half struct {
	mu     sync.Mutex
	q      [][]byte
	closed bool
	dl     time.Time
	wake   chan struct{}
}

func (h *c18half) signal() { close(h.wake); h.wake = make(chan struct{}) }

type c18addr struct{ network, addr string }

func (a c18addr) Network() string { return a.network }
func (a c18addr) String() string  { return a.addr }

type c18conn struct {
	rd, wr        *c18half
	local, remote c18addr
}

func c18pipe(network, addr string) (client, server *c18conn) {
	x, y := &c18half{wake: make(chan struct{})}, &c18half{wake: make(chan struct{})}
	l, r := c18addr{network, "c18-local"}, c18addr{network, addr}
	return &c18conn{rd: x, wr: y, local: l, remote: r}, &c18conn{rd: y, wr: x, local: r, remote: l}
}

func (c *c18conn) Read(p []byte) (int, error) {
	h := c.rd
	for {
		h.mu.Lock()
		if len(h.q) > 0 {
			n := copy(p, h.q[0])
			if h.q[0] = h.q[0][n:]; len(h.q[0]) == 0 {
				h.q = h.q[1:]
			}
			h.mu.Unlock()
			return n, nil
		}
		if h.closed {
			h.mu.Unlock()
			return 0, io.EOF
		}
		dl, wake := h.dl, h.wake
		h.mu.Unlock()
		var tc <-chan time.Time
		if !dl.IsZero() {
			d := time.Until(dl)
			if d <= 0 {
				return 0, &net.OpError{Op: "read", Net: c.local.network, Err: os.ErrDeadlineExceeded}
			}
			t := time.NewTimer(d)
			defer t.Stop()
			tc = t.C
		}
		select {
		case <-wake:
		case <-tc:
		}
	}
}

func (c *c18conn) Write(p []byte) (int, error) {
	h := c.wr
	h.mu.Lock()
	defer h.mu.Unlock()
	if h.closed {
		return 0, io.ErrClosedPipe
	}
	h.q = append(h.q, append([]byte(nil), p...))
	h.signal()
	return len(p), nil
}

func (c *c18conn) Close() error {
	for _, h := range []*c18half{c.rd, c.wr} {
		h.mu.Lock()
		h.closed = true
		h.signal()
		h.mu.Unlock()
	}
	return nil
}

func (c *c18conn) LocalAddr() net.Addr                { return c.local }
func (c *c18conn) RemoteAddr() net.Addr               { return c.remote }
func (c *c18conn) SetDeadline(t time.Time) error      { return c.SetReadDeadline(t) }
func (c *c18conn) SetWriteDeadline(t time.Time) error { return nil }
func (c *c18conn) SetReadDeadline(t time.Time) error {
	c.rd.mu.Lock()
	c.rd.dl = t
	c.rd.signal()
	c.rd.mu.Unlock()
	return nil
}

// ---- stream peers ----------------------------------------------------------

// c18answer turns a query into its reply (QR set; TC set when asked).
func c18answer(q []byte, tc bool) []byte {
	r := append([]byte(nil), q...)
	if len(r) > 2 {
		r[2] |= 0x80
		if tc {
			r[2] |= 0x02
		}
	}
	return r
}

func (s *c18session) countAnswer() {
	s.mu.Lock()
	s.answered++
	s.mu.Unlock()
}

func (s *c18session) serveStream(network string, c net.Conn) {
	switch {
	case strings.HasPrefix(network, "udp"):
		// the plain-UDP upstream gets a truncated reply so that its TCP fallback dials as well
		buf := make([]byte, 65535)
		for {
			n, err := c.Read(buf)
			if err != nil {
				return
			}
			if _, err := c.Write(c18answer(buf[:n], s.exp.Transport == "udp")); err != nil {
				return
			}
			s.countAnswer()
		}
	case s.exp.Transport == "tls":
		if tc := s.handshake(c); tc != nil {
			s.serveFramed(tc)
		}
	case s.exp.Transport == "https":
		if tc := s.handshake(c); tc != nil {
			s.serveHTTP1(tc)
		}
	default:
		s.serveFramed(c)
	}
}

// serverTLS: h == nil (QUIC) makes one handshake record per ClientHello.
func (s *c18session) serverTLS(h *c18hs, protos []string) *tls.Config {
	return &tls.Config{
		Certificates:           []tls.Certificate{s.cert},
		NextProtos:             protos,
		SessionTicketsDisabled: true,
		MinVersion:             tls.VersionTLS12,
		GetConfigForClient: func(chi *tls.ClientHelloInfo) (*tls.Config, error) {
			rec := h
			if rec == nil {
				rec = s.newHS()
			}
			s.mu.Lock()
			rec.Hello, rec.SNI = true, chi.ServerName
			s.mu.Unlock()
			return nil, nil
		},
	}
}

func (s *c18session) handshake(c net.Conn) *tls.Conn {
	h := s.newHS()
	defer close(h.done)
	tc := tls.Server(c, s.serverTLS(h, nil))
	err := tc.HandshakeContext(s.ctx)
	s.mu.Lock()
	defer s.mu.Unlock()
	if err != nil {
		h.Err = err.Error()
		return nil
	}
	h.OK = true
	return tc
}

func (s *c18session) serveFramed(c io.ReadWriter) {
	for {
		var l [2]byte
		if _, err := io.ReadFull(c, l[:]); err != nil {
			return
		}
		q := make([]byte, binary.BigEndian.Uint16(l[:]))
		if _, err := io.ReadFull(c, q); err != nil {
			return
		}
		r := c18answer(q, false)
		out := make([]byte, 2+len(r))
		binary.BigEndian.PutUint16(out, uint16(len(r)))
		copy(out[2:], r)
		if _, err := c.Write(out); err != nil {
			return
		}
		s.countAnswer()
	}
}

func (s *c18session) dohReply(req *http.Request) ([]byte, bool) {
	raw, err := base64.RawURLEncoding.DecodeString(req.URL.Query().Get("dns"))
	if err != nil || len(raw) < 12 {
		return nil, false
	}
	s.mu.Lock()
	s.httpPath = append(s.httpPath, req.Host+" "+req.URL.Path)
	s.mu.Unlock()
	return c18answer(raw, false), true
}

// redirectFirst reports (once per session, via "redirect-first" only) that this request is to be redirected.
func (s *c18session) redirectFirst() bool {
	if s.cfg.Via != "redirect-first" {
		return false
	}
	s.mu.Lock()
	defer s.mu.Unlock()
	first := !s.redirected
	s.redirected = true
	return first
}

func (s *c18session) serveHTTP1(c net.Conn) {
	br := bufio.NewReader(c)
	for {
		req, err := http.ReadRequest(br)
		if err != nil {
			return
		}
		if s.redirectFirst() {
			// a DoH server may answer with a redirect to another host; following it is not "the
			// host the user wrote" (the transport's dialer ignores the address it is asked for,
			// so a follow-up would open a second connection to the same server under another name)
			loc := "https://redirected.c18.test" + req.URL.RequestURI()
			io.WriteString(c, "HTTP/1.1 307 Temporary Redirect\r\nLocation: "+loc+"\r\nContent-Length: 0\r\n\r\n")
			continue
		}
		body, ok := s.dohReply(req)
		if !ok {
			io.WriteString(c, "HTTP/1.1 400 Bad Request\r\nContent-Length: 0\r\n\r\n")
			continue
		}
		hdr := fmt.Sprintf("HTTP/1.1 200 OK\r\nContent-Type: application/dns-message\r\nContent-Length: %d\r\n\r\n", len(body))
		if _, err := c.Write(append([]byte(hdr), body...)); err != nil {
			return
		}
		s.countAnswer()
	}
}

// ---- QUIC peer -------------------------------------------------------------

type c18dgram struct {
	b    []byte
	from net.Addr
}

// c18pkt is one end of an in-memory datagram link. The client end records the
// destination of every WriteTo; whatever the destination, the datagram reaches
// the one fake server (the oracle judges the recorded destination).
type c18pkt struct {
	gen    int
	s      *c18session
	client bool
	local  *net.UDPAddr
	peer   *c18pkt
	in     chan c18dgram

	mu      sync.Mutex
	closed  chan struct{}
	isDone  bool
	dl      time.Time
	wake    chan struct{}
	lastDst net.Addr
}

func c18newPkt(s *c18session, client bool, local *net.UDPAddr) *c18pkt {
	s.mu.Lock()
	g := s.gen
	s.mu.Unlock()
	return &c18pkt{gen: g, s: s, client: client, local: local, in: make(chan c18dgram, 512), closed: make(chan struct{}), wake: make(chan struct{})}
}

func (p *c18pkt) LocalAddr() net.Addr { return p.local }

func (p *c18pkt) Close() error {
	p.mu.Lock()
	if !p.isDone {
		p.isDone = true
		close(p.closed)
	}
	p.mu.Unlock()
	return nil
}

func (p *c18pkt) SetDeadline(t time.Time) error      { return p.SetReadDeadline(t) }
func (p *c18pkt) SetWriteDeadline(t time.Time) error { return nil }
func (p *c18pkt) SetReadDeadline(t time.Time) error {
	p.mu.Lock()
	p.dl = t
	close(p.wake)
	p.wake = make(chan struct{})
	p.mu.Unlock()
	return nil
}

func (p *c18pkt) ReadFrom(b []byte) (int, net.Addr, error) {
	for {
		p.mu.Lock()
		dl, wake := p.dl, p.wake
		p.mu.Unlock()
		var tc <-chan time.Time
		if !dl.IsZero() {
			d := time.Until(dl)
			if d <= 0 {
				return 0, nil, &net.OpError{Op: "read", Net: "udp", Addr: p.local, Err: os.ErrDeadlineExceeded}
			}
			t := time.NewTimer(d)
			defer t.Stop()
			tc = t.C
		}
		select {
		case d := <-p.in:
			return copy(b, d.b), d.from, nil
		case <-p.closed:
			return 0, nil, &net.OpError{Op: "read", Net: "udp", Addr: p.local, Err: net.ErrClosed}
		case <-wake:
		case <-tc:
		}
	}
}

func (p *c18pkt) WriteTo(b []byte, addr net.Addr) (int, error) {
	select {
	case <-p.closed:
		return 0, &net.OpError{Op: "write", Net: "udp", Addr: p.local, Err: net.ErrClosed}
	default:
	}
	var from net.Addr = p.local
	if p.client {
		p.s.mu.Lock()
		if !p.s.sealed && p.gen == p.s.gen {
			p.s.writeTo[addr.String()]++
		}
		p.s.mu.Unlock()
		p.mu.Lock()
		p.lastDst = addr
		p.mu.Unlock()
	} else {
		// replies appear to come from the address the client wrote to
		p.peer.mu.Lock()
		if p.peer.lastDst != nil {
			from = p.peer.lastDst
		}
		p.peer.mu.Unlock()
	}
	select {
	case p.peer.in <- c18dgram{b: append([]byte(nil), b...), from: from}:
	default: // full queue: dropped like a real datagram
	}
	return len(b), nil
}

type c18closerFunc func() error

func (f c18closerFunc) Close() error { return f() }

func (s *c18session) startQuicServer(pc *c18pkt) error {
	tr := &quic.Transport{Conn: pc}
	ln, err := tr.Listen(s.serverTLS(nil, []string{"doq", "h3"}), &quic.Config{MaxIdleTimeout: 20 * time.Second})
	if err != nil {
		return err
	}
	s.track(c18closerFunc(func() error { ln.Close(); return tr.Close() }))
	s.wg.Add(1)
	go func() {
		defer s.wg.Done()
		for {
			conn, err := ln.Accept(s.ctx)
			if err != nil {
				return
			}
			// handshake complete: the client accepted the certificate
			s.mu.Lock()
			for _, h := range s.hs {
				if !h.OK {
					h.OK = true
					close(h.done)
					break
				}
			}
			s.mu.Unlock()
			s.wg.Add(1)
			go func() {
				defer s.wg.Done()
				defer conn.CloseWithError(0, "")
				if conn.ConnectionState().TLS.NegotiatedProtocol == "h3" {
					h3 := &http3.Server{Handler: http.HandlerFunc(func(w http.ResponseWriter, r *http.Request) {
						if s.redirectFirst() {
							w.Header().Set("Location", "https://redirected.c18.test"+r.URL.RequestURI())
							w.WriteHeader(307)
							return
						}
						body, ok := s.dohReply(r)
						if !ok {
							w.WriteHeader(400)
							return
						}
						w.Header().Set("Content-Type", "application/dns-message")
						w.Write(body)
						s.countAnswer()
					})}
					h3.ServeQUICConn(conn)
					return
				}
				for {
					st, err := conn.AcceptStream(s.ctx)
					if err != nil {
						return
					}
					s.serveFramed(st)
					st.Close()
				}
			}()
		}
	}()
	return nil
}

// ---- certificates ----------------------------------------------------------

var (
	c18caOnce  sync.Once
	c18caCert  *x509.Certificate
	c18caKey   *ecdsa.PrivateKey
	c18leafKey *ecdsa.PrivateKey
	c18roots   *x509.CertPool
	c18certMu  sync.Mutex
	c18certs   = map[string]tls.Certificate{}
	c18serial  int64
)

func c18initCA() {
	c18caOnce.Do(func() {
		var err error
		if c18caKey, err = ecdsa.GenerateKey(elliptic.P256(), rand.Reader); err != nil {
			panic(err)
		}
		if c18leafKey, err = ecdsa.GenerateKey(elliptic.P256(), rand.Reader); err != nil {
			panic(err)
		}
		tpl := &x509.Certificate{SerialNumber: big.NewInt(1), Subject: pkix.Name{CommonName: "c18 harness CA"},
			NotBefore: time.Now().Add(-time.Hour), NotAfter: time.Now().Add(48 * time.Hour),
			IsCA: true, BasicConstraintsValid: true, KeyUsage: x509.KeyUsageCertSign | x509.KeyUsageDigitalSignature}
		der, err := x509.CreateCertificate(rand.Reader, tpl, tpl, &c18caKey.PublicKey, c18caKey)
		if err != nil {
			panic(err)
		}
		c18caCert, _ = x509.ParseCertificate(der)
		c18roots = x509.NewCertPool()
		c18roots.AddCert(c18caCert)
	})
}

// c18leaf returns a certificate that is valid for exactly one identity: the IP
// address or the host name `name` (anything else gets an unusable dummy name).
func c18leaf(name string) tls.Certificate {
	c18initCA()
	c18certMu.Lock()
	defer c18certMu.Unlock()
	if c, ok := c18certs[name]; ok {
		return c
	}
	c18serial++
	tpl := &x509.Certificate{SerialNumber: big.NewInt(100 + c18serial), Subject: pkix.Name{CommonName: "c18 leaf"},
		NotBefore: time.Now().Add(-time.Hour), NotAfter: time.Now().Add(48 * time.Hour),
		KeyUsage: x509.KeyUsageDigitalSignature, ExtKeyUsage: []x509.ExtKeyUsage{x509.ExtKeyUsageServerAuth}}
	switch c18kind(name) {
	case "ipv4", "ipv6":
		tpl.IPAddresses = []net.IP{net.IP(netip.MustParseAddr(name).AsSlice())}
	case "name":
		tpl.DNSNames = []string{strings.ToLower(strings.TrimSuffix(name, "."))}
	default:
		tpl.DNSNames = []string{"unusable.c18.invalid"}
	}
	der, err := x509.CreateCertificate(rand.Reader, tpl, c18caCert, &c18leafKey.PublicKey, c18caKey)
	if err != nil {
		panic(err)
	}
	c := tls.Certificate{Certificate: [][]byte{der}, PrivateKey: c18leafKey}
	c18certs[name] = c
	return c
}
