package upstream

import (
	"context"
	"crypto/tls"
	"encoding/json"
	"fmt"
	"net/netip"
	"os"
	"os/exec"
	"sort"
	"strconv"
	"strings"

	"github.com/IrineSistiana/mosdns/v5/pkg/pool"
	"testing"
	"time"

	"github.com/IrineSistiana/mosdns/v5/zz_verif/vnet"
	"github.com/IrineSistiana/mosdns/v5/zz_verif/vr"
	"github.com/miekg/dns"
)

// C18: upstreams connect to exactly the address the user configured.
//
// Complete product scheme x host x port x dial_addr x path. Every point is given
// to the real NewUpstream (pkg/upstream built with "net" bound to the vnet shim);
// accepted upstreams perform one real ExchangeContext against in-memory peers.
// Oracle (c18judge): NewUpstream returned an error, or every connection that was
// opened went to the reference host and port, and the TLS name in force is the
// URL host: a name is announced verbatim in the ClientHello, an IP literal is
// not announced, and the client accepted a certificate that is valid for the URL
// host ONLY.

type c18viol struct {
	What string `json:"what"` // dial-host dial-port tls-name accepted-invalid unexpected-op panic
	Desc string `json:"desc"`
}

type c18result struct {
	Cfg       c18cfg         `json:"cfg"`
	Addr      string         `json:"addr"`
	Expect    c18expect      `json:"expect"`
	Rejected  string         `json:"rejected,omitempty"`
	Recs      []vnet.Rec     `json:"ops,omitempty"`
	WriteTo   map[string]int `json:"udp_destinations,omitempty"`
	Handshake []c18hs        `json:"tls,omitempty"`
	HTTP      []string       `json:"http,omitempty"`
	Exchange  string         `json:"exchange"`
	Answered  int            `json:"answered"`
	Class     string         `json:"class"`
	Viol      []c18viol      `json:"violations,omitempty"`
	Infra     string         `json:"infra,omitempty"`
	conns     int
}

var c18query = func() []byte {
	m := new(dns.Msg)
	m.SetQuestion("c18.example.", dns.TypeA)
	m.Id = 0x1234
	b, err := m.Pack()
	if err != nil {
		panic(err)
	}
	return b
}()

const c18guard = 8 * time.Second // liveness guard, never an oracle
const c18referralWait = 150 * time.Millisecond

func c18run(c c18cfg) (r c18result) {
	exp := c18reference(c)
	r = c18result{Cfg: c, Addr: c.addr(), Expect: exp}
	c18initCA()
	s := c18newSession(c, exp)
	c18cur.Store(s)
	var u Upstream
	defer func() {
		if p := recover(); p != nil {
			r.Viol = append(r.Viol, c18viol{"panic", fmt.Sprint(p)})
			r.Class = "panic"
		}
		if u != nil {
			u.Close()
		}
		if s.teardown() {
			r.Infra = "fake peers did not stop within the liveness guard"
		}
		c18cur.Store(nil)
	}()

	var err error
	// every upstream of this process is built from the SAME *tls.Config object: NewUpstream must
	// not leave anything of one upstream (e.g. its server name) behind in the caller's config
	if c18sharedTLS == nil {
		c18sharedTLS = &tls.Config{RootCAs: c18roots}
	}
	opt := Opt{DialAddr: c.Dial, TLSConfig: c18sharedTLS}
	switch c.Via {
	case "socks5":
		opt.Socks5 = c18socksAddr
	case "bootstrap", "bootstrap-referral", "bootstrap-two":
		opt.Bootstrap = c18bootAddr
	}
	if (c.Via == "bootstrap-referral" || c.Via == "bootstrap-two") && (exp.MustReject != "" || c18kind(exp.Host) != "name") {
		// the bootstrap resolver is only consulted for host names
		r.Class = "not-applicable"
		return r
	}
	if c.Via == "bootstrap-two" {
		// another upstream with another host name uses the same bootstrap server first (the server
		// sends every reply twice, as a network may); what it learns is its own business
		c0 := c
		c0.Host, c0.Dial = c18otherName, ""
		if u0, err0 := NewUpstream(c0.addr(), Opt{TLSConfig: &tls.Config{InsecureSkipVerify: true}, Bootstrap: c18bootAddr}); err0 == nil {
			ctx0, cancel0 := context.WithTimeout(context.Background(), c18guard)
			if resp0, _ := u0.ExchangeContext(ctx0, c18query); resp0 != nil {
				pool.ReleaseBuf(resp0)
			}
			cancel0()
			u0.Close()
		}
		s.resetObservations()
	}
	u, err = NewUpstream(r.Addr, opt)
	if err != nil {
		u = nil
		r.Rejected = err.Error()
		r.Class = "rejected"
		return r
	}
	if exp.MustReject != "" {
		r.Viol = append(r.Viol, c18viol{"accepted-invalid", fmt.Sprintf("NewUpstream(%q, dial_addr=%q) accepted an address that cannot be honoured (%s)", r.Addr, c.Dial, exp.MustReject)})
		r.Class = "accepted-invalid"
		return r
	}

	wait := c18guard
	if c.Via == "bootstrap-referral" {
		// the fake bootstrap server never returns an address for the user's name: nothing can be
		// connected, the exchange only ends with its context (what is judged is whether anything
		// was contacted meanwhile, so the length of this wait never turns a pass into a failure)
		wait = c18referralWait
	}
	ctx, cancel := context.WithTimeout(context.Background(), wait)
	resp, xerr := u.ExchangeContext(ctx, c18query)
	cancel()
	switch {
	case xerr != nil:
		r.Exchange = "error: " + xerr.Error()
	case resp == nil || len(*resp) < 12 || (*resp)[2]&0x80 == 0:
		r.Exchange = "error: bad reply"
	default:
		r.Exchange = "ok"
	}

	// stream TLS servers: wait until each handshake attempt has ended
	s.mu.Lock()
	hs := append([]*c18hs(nil), s.hs...)
	s.mu.Unlock()
	if exp.Transport == "tls" || exp.Transport == "https" || r.Exchange == "ok" {
		for _, h := range hs {
			select {
			case <-h.done:
			case <-time.After(c18guard):
				r.Infra = "a fake TLS server did not finish its handshake within the liveness guard"
			}
		}
	}
	s.mu.Lock()
	r.Recs = append([]vnet.Rec(nil), s.recs...)
	r.WriteTo = map[string]int{}
	for k, v := range s.writeTo {
		r.WriteTo[k] = v
	}
	resolved := map[string]bool{}
	for k := range s.resolved {
		resolved[k] = true
	}
	for _, h := range s.hs {
		r.Handshake = append(r.Handshake, c18hs{Hello: h.Hello, SNI: h.SNI, OK: h.OK, Err: h.Err})
	}
	r.HTTP = append([]string(nil), s.httpPath...)
	r.Answered = s.answered
	s.mu.Unlock()

	c18judge(&r, resolved)
	return r
}

// c18judge applies the oracle to the observations of one accepted configuration.
func c18judge(r *c18result, resolved map[string]bool) {
	exp := r.Expect
	bad := func(what, f string, a ...any) { r.Viol = append(r.Viol, c18viol{what, fmt.Sprintf(f, a...)}) }
	usedPort := map[uint16]bool{}
	bootHost := false // a bootstrap query for exactly the user's host name was seen
	checkDest := func(op, dest string) {
		h, p, err := c18splitDest(dest)
		if err != nil {
			bad("dial-host", "%s to %q: not a host:port (user wrote %q, dial_addr %q; expected host %q)", op, dest, r.Addr, r.Cfg.Dial, exp.Host)
			return
		}
		r.conns++
		if bootHost && h == c18bootAnswer {
			// the address our fake bootstrap server returned for the user's name
		} else if !c18sameHost(exp.Host, h) {
			bad("dial-host", "%s to %q but the user wrote %q (dial_addr %q): expected host %q", op, dest, r.Addr, r.Cfg.Dial, exp.Host)
		}
		if !c18hasPort(exp.Ports, p) {
			bad("dial-port", "%s to %q but the user wrote %q (dial_addr %q): expected port %v", op, dest, r.Addr, r.Cfg.Dial, exp.Ports)
		}
		usedPort[p] = true
	}
	quicLike := exp.Transport == "h3" || exp.Transport == "quic"
	for _, op := range r.Recs {
		switch {
		case op.Kind == "dial" && !quicLike && r.Cfg.Via == "socks5" && op.Addr == c18socksAddr:
			// hop to the configured proxy; the CONNECT target is what counts
		case op.Kind == "socks5-connect" && r.Cfg.Via == "socks5":
			checkDest("SOCKS5 CONNECT", op.Addr)
		case op.Kind == "bootstrap-dial" && strings.HasPrefix(r.Cfg.Via, "bootstrap"):
			if op.Addr != c18bootAddr+":53" {
				bad("unexpected-op", "bootstrap resolver contacted at %q, configured %q", op.Addr, c18bootAddr)
			}
		case op.Kind == "bootstrap-query" && strings.HasPrefix(r.Cfg.Via, "bootstrap"):
			// the name handed to the bootstrap resolver must be the one the user wrote
			if !strings.EqualFold(strings.TrimSuffix(op.Addr, "."), strings.TrimSuffix(exp.Host, ".")) {
				bad("dial-host", "bootstrap resolver asked for %q but the user wrote %q (dial_addr %q): expected name %q", op.Addr, r.Addr, r.Cfg.Dial, exp.Host)
			} else if r.Cfg.Via == "bootstrap" || r.Cfg.Via == "bootstrap-two" {
				bootHost = true
			}
		case op.Kind == "dial" && !quicLike:
			checkDest("dial("+op.Network+")", op.Addr)
		case op.Kind == "resolveudp" && quicLike:
			checkDest("ResolveUDPAddr", op.Addr) // the name is handed to the resolver exactly as written
		case op.Kind == "listenpacket" && quicLike:
		default:
			bad("unexpected-op", "unexpected network operation %s(%s, %q) for a %s upstream", op.Kind, op.Network, op.Addr, exp.Transport)
		}
	}
	if quicLike {
		var dests []string
		for d := range r.WriteTo {
			dests = append(dests, d)
		}
		sort.Strings(dests)
		for _, d := range dests {
			if resolved[d] && c18kind(exp.Host) != "ipv4" && c18kind(exp.Host) != "ipv6" {
				r.conns++ // the address our fake resolver returned for the (already checked) name:port
				continue
			}
			checkDest("QUIC datagrams", d)
		}
	}
	if r.Cfg.Via == "bootstrap-referral" && r.conns == 0 && len(r.Viol) == 0 {
		// the resolver was only given a referral (no address for the user's name): nothing to connect to
		r.Class = "no-address-nothing-contacted"
		return
	}
	if r.conns == 0 && len(r.Viol) == 0 {
		r.Infra = "accepted configuration opened no connection (" + r.Exchange + ")"
		return
	}

	// TLS name (when the only connect was refused and nothing was retried there is no handshake to judge)
	refusedOnly := r.Cfg.Via == "refuse-first" && r.Exchange != "ok" && len(r.Handshake) == 0
	if exp.TLSName != "" && c18kind(exp.TLSName) != "literal" && !refusedOnly {
		ipName := c18kind(exp.TLSName) == "ipv4" || c18kind(exp.TLSName) == "ipv6"
		hello, verified := 0, false
		for _, h := range r.Handshake {
			if !h.Hello {
				continue
			}
			hello++
			switch {
			case ipName && h.SNI != "":
				bad("tls-name", "ClientHello announces server name %q but the URL host of %q is the IP literal %q", h.SNI, r.Addr, exp.TLSName)
			case !ipName && !strings.EqualFold(h.SNI, exp.TLSName):
				bad("tls-name", "ClientHello announces server name %q but the URL host of %q is %q", h.SNI, r.Addr, exp.TLSName)
			}
			if h.OK {
				verified = true
			}
		}
		if r.Exchange == "ok" {
			verified = true
		}
		certTrouble := func(s string) bool {
			return strings.Contains(s, "x509") || strings.Contains(s, "certificate")
		}
		if !verified && len(r.Viol) == 0 {
			ev := r.Exchange
			for _, h := range r.Handshake {
				ev += " | server: " + h.Err
			}
			if certTrouble(ev) {
				bad("tls-name", "the client refused a certificate that is valid for the URL host %q only, so it verifies some other name (%s); user wrote %q", exp.TLSName, ev, r.Addr)
			} else if hello == 0 {
				r.Infra = "no ClientHello reached the fake server (" + ev + ")"
			} else {
				r.Infra = "TLS handshake neither completed nor failed on the certificate (" + ev + ")"
			}
		}
	}

	// outcome class
	r.Class = "connected"
	if r.Exchange == "ok" {
		r.Class = "answered"
	}
	if len(exp.Ports) == 2 {
		if usedPort[exp.Ports[0]] {
			r.Class += "+dial_addr-without-port-uses-scheme-default"
		} else {
			r.Class += "+dial_addr-without-port-uses-url-port"
		}
	}
	if len(r.Viol) > 0 {
		r.Class = "VIOLATION"
	}
}

// c18splitDest reads an observed destination "host:port" / "[host]:port" (the
// form every dial API takes): the port follows the last colon.
func c18splitDest(d string) (string, uint16, error) {
	i := strings.LastIndexByte(d, ':')
	if i < 0 {
		return "", 0, fmt.Errorf("no port")
	}
	h := d[:i]
	if len(h) >= 2 && h[0] == '[' && h[len(h)-1] == ']' {
		h = h[1 : len(h)-1]
	}
	n, err := strconv.ParseUint(d[i+1:], 10, 16)
	if err != nil || n == 0 || h == "" {
		return "", 0, fmt.Errorf("bad port or host")
	}
	return h, uint16(n), nil
}

// ---- classes ---------------------------------------------------------------

func c18hostClass(c c18cfg) string {
	k := ""
	auth := c.Host
	if c.Port != "" {
		auth += ":" + c.Port
	}
	uh, _, _ := c18hostport(auth)
	switch {
	case uh != "" && c18kind(uh) == "literal":
		return "ambiguous-literal" // e.g. "::1:65535": neither an IP literal nor host:port
	case strings.HasPrefix(c.Host, "["):
		k = "v6-bracketed"
	case c18kind(c.Host) == "ipv6":
		k = "v6-bare"
	default:
		k = c18kind(c.Host)
	}
	if c.Port != "" {
		k += "+port"
	}
	return k
}

func c18dialClass(c c18cfg) string {
	if c.Dial == "" {
		return "none"
	}
	h, p, err := c18hostport(c.Dial)
	if err != nil {
		return "invalid"
	}
	k := "ip"
	if kk := c18kind(h); kk != "ipv4" && kk != "ipv6" {
		k = kk
	}
	if p != 0 {
		k += "+port"
	}
	return k
}

// c18dialCoarse: none | set (dial_addr without port) | set+port
func c18dialCoarse(c c18cfg) string {
	switch k := c18dialClass(c); {
	case k == "none":
		return k
	case strings.HasSuffix(k, "+port"):
		return "set+port"
	default:
		return "set"
	}
}

func c18schemeName(c c18cfg) string {
	if c.Scheme == "" {
		return "noscheme"
	}
	return c.Scheme
}

func c18sig(r c18result, v c18viol) string {
	tr := r.Expect.Transport
	if tr == "" {
		tr = c18schemeName(r.Cfg)
	}
	d := "none"
	if r.Cfg.Dial != "" {
		d = "set"
	}
	// (via is not part of the signature: the enumeration visits via="" first, so a
	// defect that does not depend on it is reported with the plain configuration)
	return fmt.Sprintf("addr/%s/%s/dial_addr=%s/%s", tr, c18hostClass(r.Cfg), d, v.What)
}

// ---- the enumerated space --------------------------------------------------

type c18space struct{ schemes, hosts, ports, dials, paths, vias []string }

var c18sharedTLS *tls.Config

func c18spaceFor(tier string) c18space {
	sp := c18space{
		schemes: []string{"", "udp", "tcp", "tcp+pipeline", "tls", "tls+pipeline", "https", "h3", "quic", "doq"},
		hosts:   []string{"127.0.0.1", "[::1]", "::1", "[2001:db8::1]", "[2001:db8:0:0:0:0:0:1]", "dns.example.org"},
		ports:   []string{"", "53", "5353", "65535", "65536", "65589"},
		dials:   []string{"", "192.0.2.7", "192.0.2.7:8853", "2001:db8::7", "[2001:db8::7]:8853", "dial.example.net", "dial.example.net:8853"},
		paths:   []string{"", "/dns-query"},
		vias:    []string{"", "socks5", "bootstrap-two", "bootstrap", "refuse-first", "redirect-first", "bootstrap-referral"},
	}
	if tier == "thorough" {
		sp.schemes = append(sp.schemes, "ftp")
		sp.hosts = append(sp.hosts, "192.0.2.1", "2001:db8::1", "2001:db8:0:0:0:0:0:1", "[2001:DB8::1]", "DNS.Example.ORG", "localhost")
		sp.ports = append(sp.ports, "1", "443", "853", "66389")
		sp.dials = append(sp.dials, "192.0.2.7:53", "2001:db8:0:0:0:0:0:7", "[2001:db8::7]:65535", "Dial.Example.NET", "dial.example.net:1")
	}
	return sp
}

func (sp c18space) size() int64 {
	return int64(len(sp.schemes)) * int64(len(sp.hosts)) * int64(len(sp.ports)) * int64(len(sp.dials)) * int64(len(sp.paths)) * int64(len(sp.vias))
}

func (sp c18space) at(i int64) c18cfg {
	var c c18cfg
	c.Path = sp.paths[i%int64(len(sp.paths))]
	i /= int64(len(sp.paths))
	c.Dial = sp.dials[i%int64(len(sp.dials))]
	i /= int64(len(sp.dials))
	c.Port = sp.ports[i%int64(len(sp.ports))]
	i /= int64(len(sp.ports))
	c.Host = sp.hosts[i%int64(len(sp.hosts))]
	i /= int64(len(sp.hosts))
	c.Scheme = sp.schemes[i%int64(len(sp.schemes))]
	i /= int64(len(sp.schemes))
	c.Via = sp.vias[i]
	return c
}

func c18sigs(r c18result) []string {
	var out []string
	for _, v := range r.Viol {
		out = append(out, c18sig(r, v))
	}
	sort.Strings(out)
	return out
}

// c18inFreshProcess runs one configuration alone in a child process and returns its
// violation signatures (sorted, blank separated; "" when none).
func c18inFreshProcess(c c18cfg) string {
	f, err := os.CreateTemp("", "c18cfg*.json")
	if err != nil {
		return "error: " + err.Error()
	}
	defer os.Remove(f.Name())
	b, _ := json.Marshal(map[string]any{"property": "C18", "input": c})
	f.Write(b)
	f.Close()
	cmd := exec.Command(os.Args[0], "-test.run", "^TestVerifC18$", "-test.timeout", "2m")
	cmd.Env = append(os.Environ(), "VERIF_REPLAY="+f.Name(), "VERIF_OUT=")
	out, _ := cmd.CombinedOutput()
	var sigs []string
	for _, l := range strings.Split(string(out), "\n") {
		if i := strings.Index(l, "REPLAY-VIOLATION property=C18 sig="); i >= 0 {
			sigs = append(sigs, strings.TrimSpace(l[i+len("REPLAY-VIOLATION property=C18 sig="):]))
		}
	}
	sort.Strings(sigs)
	return strings.Join(sigs, " ")
}

func TestVerifC18(t *testing.T) {
	os.Setenv("QUIC_GO_DISABLE_RECEIVE_BUFFER_WARNING", "true")
	vnet.SetSink(c18sink{})
	e := vr.GetEnv()

	if in, ok := vr.ReplayInput(); ok {
		var c c18cfg
		if err := json.Unmarshal(in, &c); err != nil {
			fmt.Println("INFRA: bad replay input:", err)
			os.Exit(2)
		}
		r := c18run(c)
		b, _ := json.MarshalIndent(r, "", " ")
		fmt.Println(string(b))
		switch {
		case r.Infra != "":
			fmt.Println("INFRA:", r.Infra)
			os.Exit(2)
		case len(r.Viol) > 0:
			for _, v := range r.Viol {
				fmt.Printf("REPLAY-VIOLATION property=C18 sig=%s\n  %s\n", c18sig(r, v), v.Desc)
			}
		default:
			fmt.Println("REPLAY-OK: NewUpstream(" + r.Addr + ") is " + r.Class + " on the current tree")
		}
		return
	}

	res := vr.New("C18", e)
	sp := c18spaceFor(e.Tier)
	res.Rule = "one evaluation = one point of the complete product scheme x host x port x dial_addr x path given to the real NewUpstream " +
		"(+ one real ExchangeContext against in-memory peers when accepted); outcome class = scheme / host form / dial_addr form / " +
		"{rejected, answered, connected} (+ which port a port-less dial_addr got when the URL has an explicit one)"
	res.Bounds["schemes"] = sp.schemes
	res.Bounds["hosts"] = sp.hosts
	res.Bounds["ports"] = sp.ports
	res.Bounds["dial_addr"] = sp.dials
	res.Bounds["paths"] = sp.paths
	res.Bounds["via"] = map[string]any{"values": sp.vias, "socks5": c18socksAddr, "bootstrap": c18bootAddr}
	res.Bounds["product_size"] = sp.size()
	res.Notes = append(res.Notes,
		"observation seam: import \"net\" of pkg/upstream is bound to harness/C18/vnet; Dialer.DialContext, ListenConfig.ListenPacket and ResolveUDPAddr are recording fakes, every other socket/resolver entry point of net is absent from the shim (use = build failure)",
		"tls/https: the ClientHello is read by a crypto/tls server on the other end of the pipe; IP literals are never announced as SNI, so the TLS name is additionally pinned by a server certificate valid ONLY for the URL host (handshake completes <=> the client verifies exactly that name)",
		"URL hosts that are neither an IP literal nor a syntactically valid name (e.g. '::1:65535', a bare IPv6 literal followed by a port) are only required to be rejected or dialled verbatim; no TLS name is defined for them",
		"quic/doq/h3: a real quic-go server is driven over an in-memory PacketConn, so destination of every datagram, SNI and certificate acceptance are all checked (no destination-only fallback was needed)",
		"udp: the fake server answers truncated, so the TCP fallback dial of the same upstream is checked too",
		"dial_addr without port on a URL with an explicit non-default port: property text and Opt.DialAddr comment disagree, both the URL port and the scheme default are admitted; the outcome class records which one the code uses",
		"via=socks5 (thorough): Opt.Socks5 is set; a dial to the proxy is admitted and the target of the SOCKS5 CONNECT request read by a fake proxy is judged like a dial. via=bootstrap (thorough): Opt.Bootstrap is set; the question the fake bootstrap server receives must be the user's host name and connections must go to the address it answered, on the reference port",
		"without bootstrap, names go to the dialer / ResolveUDPAddr verbatim and that string is what is checked (no resolver is modelled)",
		"not covered: SO_MARK/SO_BINDTODEVICE control functions (never invoked by the fake dialer), port 0, zone identifiers, BootstrapVer 6")

	start := time.Now()
	var done int64
	for i := int64(0); i < sp.size(); i++ {
		if !e.Mine(i) {
			continue
		}
		if e.Expired() {
			res.Exhaustive = false
			res.Notes = append(res.Notes, fmt.Sprintf("shard %d: budget used up after %d of its configurations (enumeration index %d of %d)", e.Shard, done, i, sp.size()))
			break
		}
		c := sp.at(i)
		r := c18run(c)
		done++
		res.Evaluations++
		res.States++
		res.Transitions += int64(r.conns)
		if r.Infra != "" {
			// once more before giving up: infra trouble must be reproducible to stop the run
			if r2 := c18run(c); r2.Infra != "" {
				b, _ := json.Marshal(r2)
				res.Infra = fmt.Sprintf("configuration %s: %s\n%s", r.Addr, r2.Infra, b)
				break
			} else {
				r = r2
			}
		}
		if len(r.Viol) > 0 {
			// a violation must reproduce with the same signatures 3/3
			want := strings.Join(c18sigs(r), " ")
			for k := 0; k < 2; k++ {
				if got := strings.Join(c18sigs(c18run(c)), " "); got != want {
					res.Infra = fmt.Sprintf("configuration %s: verdict not reproducible (%q then %q)", r.Addr, want, got)
				}
			}
			if res.Infra != "" {
				// the code under test may keep state across upstreams of one process: what counts then is
				// the verdict of this configuration alone in a fresh process, three times the same
				n := 0
				for k := 0; k < 3; k++ {
					if c18inFreshProcess(c) == want {
						n++
					}
				}
				if n == 3 {
					res.Notes = append(res.Notes, res.Infra+"; confirmed three times in a fresh process")
					res.Infra = ""
				} else {
					break
				}
			}
			for _, v := range r.Viol {
				b, _ := json.Marshal(r)
				res.ViolateInput(c18sig(r, v), v.Desc+"\n"+string(b), c)
			}
		}
		cls := r.Class
		if cls == "rejected" && r.Expect.MustReject != "" {
			cls = "rejected-as-required"
		}
		if c.Via != "" {
			cls = "via-" + c.Via + ":" + cls
		}
		res.Outcome(fmt.Sprintf("%s/%s/dial_addr=%s/%s", c18schemeName(c), strings.TrimSuffix(c18hostClass(c), "+port"), c18dialCoarse(c), cls))
		if r.Class != "rejected" && len(res.Samples) < 6 && (done%7 == 1) {
			res.Sample(map[string]any{"addr": r.Addr, "dial_addr": c.Dial, "ops": r.Recs, "udp_destinations": r.WriteTo, "tls": r.Handshake, "exchange": r.Exchange, "class": r.Class})
		}
	}
	res.Bounds["wall_s"] = time.Since(start).Seconds()
	res.Write(e)
}

var _ = netip.Addr{}
