package upstream

import (
	"errors"
	"net/netip"
	"strconv"
	"strings"
)

// ---------------------------------------------------------------------------
// C18 reference model: what the user wrote -> where every connection must go.
// Deliberately naive (net/netip + strings only); shares no code with
// pkg/upstream, net.SplitHostPort or net/url.

// c18cfg is one point of the enumerated space (also the replay input).
type c18cfg struct {
	Scheme string `json:"scheme"`    // "" = no "scheme://" prefix
	Host   string `json:"host"`      // as written, e.g. "[::1]"
	Port   string `json:"port"`      // "" = none
	Dial   string `json:"dial_addr"` // "" = none
	Path   string `json:"path"`      // "" or "/dns-query"
	Via    string `json:"via,omitempty"` // "" | "socks5" (Opt.Socks5 set) | "bootstrap" (Opt.Bootstrap set)
}

const (
	c18socksAddr  = "192.0.2.99:1080" // Opt.Socks5 when via=socks5
	c18bootAddr   = "192.0.2.53"      // Opt.Bootstrap when via=bootstrap (port 53 implied)
	c18bootAnswer = "198.51.100.77"   // the A record the fake bootstrap server returns for every name
	c18otherName   = "other.c18.test" // via=bootstrap-two: the host of another upstream that uses the same bootstrap server first
	c18otherAnswer = "198.51.100.99"  // its address
	c18glueAddr   = "203.0.113.66"    // glue address in the referral of via=bootstrap-referral: the address of some name server, never of the user's host
)

func (c c18cfg) addr() string {
	s := c.Host
	if c.Scheme != "" {
		s = c.Scheme + "://" + s
	}
	if c.Port != "" {
		s += ":" + c.Port
	}
	return s + c.Path
}

// c18hostport reads "host", "host:port", "[v6]", "[v6]:port" or a bare IP
// literal. port 0 = not written. A bare IPv6 literal is taken whole (a port can
// only be recognised where it is unambiguous); text with several colons that is
// not an IP literal is taken whole as well.
func c18hostport(s string) (host string, port uint16, err error) {
	host, ps := s, ""
	switch {
	case strings.HasPrefix(s, "["):
		i := strings.IndexByte(s, ']')
		if i < 0 {
			return "", 0, errors.New("missing ]")
		}
		host, ps = s[1:i], s[i+1:]
		if _, e := netip.ParseAddr(host); e != nil {
			return "", 0, errors.New("brackets around something that is not an IP address")
		}
		if ps != "" {
			if ps[0] != ':' || len(ps) == 1 {
				return "", 0, errors.New("junk after ]")
			}
			ps = ps[1:]
		}
	case c18isIP(s):
	case strings.Count(s, ":") == 1:
		i := strings.IndexByte(s, ':')
		host, ps = s[:i], s[i+1:]
		if ps == "" {
			return "", 0, errors.New("empty port")
		}
	}
	if host == "" {
		return "", 0, errors.New("empty host")
	}
	if ps == "" {
		return host, 0, nil
	}
	n, e := strconv.ParseUint(ps, 10, 32)
	if e != nil || n < 1 || n > 65535 {
		return host, 0, errors.New("port not in 1..65535") // the host is still known
	}
	return host, uint16(n), nil
}

func c18isIP(s string) bool { _, err := netip.ParseAddr(s); return err == nil }

type c18expect struct {
	MustReject string   `json:"must_reject,omitempty"` // non-empty: the address cannot be honoured at all
	Transport  string   `json:"transport"`             // udp tcp tls https h3 quic
	Host       string   `json:"host"`                  // every connection goes to this host ...
	Ports      []uint16 `json:"ports"`                 // ... and one of these ports (two only in the case documented below)
	TLSName    string   `json:"tls_name,omitempty"`    // URL host; "" for udp/tcp
}

var c18schemes = map[string]struct {
	transport string
	port      uint16
}{
	"": {"udp", 53}, "udp": {"udp", 53}, "tcp": {"tcp", 53}, "tcp+pipeline": {"tcp", 53},
	"tls": {"tls", 853}, "tls+pipeline": {"tls", 853}, "https": {"https", 443}, "h3": {"h3", 443},
	"quic": {"quic", 853}, "doq": {"quic", 853},
}

// c18reference: scheme default port when none is written; dial_addr replaces
// the host and, when it carries one, the port; the TLS name is the URL host.
// dial_addr WITHOUT port on a URL WITH an explicit port: the property text ("the
// port the user wrote") and the Opt.DialAddr comment ("overwriting the address
// inferred from upstream url ... Port is optional") disagree, so both the URL
// port and the scheme default are admitted (set-valued oracle).
func c18reference(c c18cfg) c18expect {
	sc, ok := c18schemes[c.Scheme]
	if !ok {
		return c18expect{MustReject: "unsupported scheme"}
	}
	auth := c.Host
	if c.Port != "" {
		auth += ":" + c.Port
	}
	uh, up, err := c18hostport(auth)
	if err != nil && (uh == "" || c.Dial == "") {
		// (an impossible URL port next to a dial_addr is never used for a connection:
		// accepting it alters nothing, so only the URL host matters in that case)
		return c18expect{MustReject: "url host: " + err.Error()}
	}
	e := c18expect{Transport: sc.transport, Host: uh, Ports: []uint16{sc.port}}
	if up != 0 {
		e.Ports = []uint16{up}
	}
	if sc.transport != "udp" && sc.transport != "tcp" {
		e.TLSName = uh
	}
	if c.Dial != "" {
		dh, dp, err := c18hostport(c.Dial)
		if err != nil {
			return c18expect{MustReject: "dial_addr: " + err.Error()}
		}
		e.Host = dh
		switch {
		case dp != 0:
			e.Ports = []uint16{dp}
		case up != 0 && up != sc.port:
			e.Ports = []uint16{sc.port, up}
		}
	}
	return e
}

// c18kind classifies a host text: ipv4 | ipv6 | name | literal (neither an IP
// literal nor a syntactically valid host name; it can only be used verbatim).
func c18kind(h string) string {
	if a, err := netip.ParseAddr(h); err == nil {
		if a.Is4() {
			return "ipv4"
		}
		return "ipv6"
	}
	if h == "" || len(h) > 253 {
		return "literal"
	}
	for _, l := range strings.Split(strings.TrimSuffix(h, "."), ".") {
		if l == "" || len(l) > 63 || l[0] == '-' || l[len(l)-1] == '-' {
			return "literal"
		}
		for _, r := range l {
			if !(r >= 'a' && r <= 'z' || r >= 'A' && r <= 'Z' || r >= '0' && r <= '9' || r == '-' || r == '_') {
				return "literal"
			}
		}
	}
	return "name"
}

// c18sameHost: IP literals are compared as addresses (so "2001:db8:0:0:0:0:0:1"
// and "2001:db8::1" are the same destination), names case-insensitively.
func c18sameHost(want, got string) bool {
	a, e1 := netip.ParseAddr(want)
	b, e2 := netip.ParseAddr(got)
	if e1 == nil || e2 == nil {
		return e1 == nil && e2 == nil && a.Unmap() == b.Unmap() && a.Zone() == b.Zone()
	}
	return strings.EqualFold(want, got)
}

func c18hasPort(ps []uint16, p uint16) bool {
	for _, x := range ps {
		if x == p {
			return true
		}
	}
	return false
}
