package domain

import (
	"encoding/json"
	"fmt"
	"io"
	"strings"
	"testing"
	"testing/iotest"

	"github.com/IrineSistiana/mosdns/v5/zz_verif/vr"
)

// C12 part "bulk": long rule lists. The main enumeration loads texts of at most
// three rules; here lists of 1 .. 6000 lines (a few bytes up to ~200 KiB, i.e.
// across the 4 KiB initial and the 64 KiB maximal buffer of a line scanner) are
// loaded through the real text loader under four ways of delivering the bytes,
// and EVERY rule of the list is then checked: the name only it describes must
// match with its own value, a name no rule describes must not match.
//
// Rule i is, by i mod 4, "full:f<i>x.bulk.test", "domain:d<i>x.bulk.test",
// "keyword:k<i>x", "regexp:^g<i>x\.": the token <letter><i>x makes every rule
// match exactly one probe name of the list.

func c12bulkRule(i int) (rule, probe string) {
	switch i % 4 {
	case 0:
		return fmt.Sprintf("full:f%dx.bulk.test", i), fmt.Sprintf("f%dx.bulk.test.", i)
	case 1:
		return fmt.Sprintf("domain:d%dx.bulk.test", i), fmt.Sprintf("sub.d%dx.bulk.test", i)
	case 2:
		return fmt.Sprintf("keyword:k%dx", i), fmt.Sprintf("zz.k%dx.bulk.test", i)
	}
	return fmt.Sprintf(`regexp:^g%dx\.`, i), fmt.Sprintf("g%dx.bulk.test", i)
}

func c12bulkText(n int, decorate bool) string {
	var b strings.Builder
	for i := 0; i < n; i++ {
		r, _ := c12bulkRule(i)
		if decorate && i%7 == 3 {
			b.WriteString("# a comment line\n\n")
		}
		fmt.Fprintf(&b, "%s %d", r, i)
		if decorate && i%5 == 1 {
			b.WriteString("   # trailing comment")
		}
		if i%11 == 4 {
			b.WriteString("\r\n")
		} else {
			b.WriteString("\n")
		}
	}
	return b.String()
}

type c12chunkReader struct {
	s   string
	max int
}

func (r *c12chunkReader) Read(p []byte) (int, error) {
	if len(r.s) == 0 {
		return 0, io.EOF
	}
	n := len(p)
	if n > r.max {
		n = r.max
	}
	if n > len(r.s) {
		n = len(r.s)
	}
	copy(p, r.s[:n])
	r.s = r.s[n:]
	return n, nil
}

var c12bulkDeliveries = []string{"whole", "one-byte-reads", "4096-byte-reads", "1000-byte-reads", "whole-no-final-newline"}

func c12bulkReader(text, how string) io.Reader {
	if how == "whole-no-final-newline" {
		text = strings.TrimSuffix(strings.TrimSuffix(text, "\n"), "\r") // the last rule is not terminated
	}
	switch how {
	case "one-byte-reads":
		return iotest.OneByteReader(strings.NewReader(text))
	case "4096-byte-reads":
		return &c12chunkReader{s: text, max: 4096}
	case "1000-byte-reads":
		return &c12chunkReader{s: text, max: 1000}
	}
	return strings.NewReader(text)
}

type c12bulkIn struct {
	N        int    `json:"rules"`
	Delivery string `json:"delivery"`
	Decorate bool   `json:"decorate"`
}

func c12bulkRun(in c12bulkIn) (evals int64, sig, why string) {
	text := c12bulkText(in.N, in.Decorate)
	m := NewMixMatcher[int]()
	if err := LoadFromTextReader[int](m, c12bulkReader(text, in.Delivery), c12ParseValue); err != nil {
		return 1, "bulk/load-error", fmt.Sprintf("loading %d well-formed rules (%d bytes, %s) failed: %v", in.N, len(text), in.Delivery, err)
	}
	wrongMatch, wrongValue, first := 0, 0, ""
	for i := 0; i < in.N; i++ {
		rule, probe := c12bulkRule(i)
		evals++
		v, ok := m.Match(probe)
		if !ok {
			wrongMatch++
			if first == "" {
				first = fmt.Sprintf("rule %d %q does not match %q", i, rule, probe)
			}
		} else if v != i {
			wrongValue++
			if first == "" {
				first = fmt.Sprintf("rule %d %q: %q returns value %d", i, rule, probe, v)
			}
		}
	}
	for _, stranger := range []string{"nobody.bulk.test", "f0.bulk.test", fmt.Sprintf("f%dx.bulk.test", in.N+4), "bulk.test", "x"} {
		evals++
		if v, ok := m.Match(stranger); ok {
			return evals, "bulk/false-positive", fmt.Sprintf("list of %d rules (%d bytes, %s): %q matches (value %d) although no rule describes it", in.N, len(text), in.Delivery, stranger, v)
		}
	}
	switch {
	case wrongMatch > 0:
		return evals, "bulk/false-negative", fmt.Sprintf("list of %d rules (%d bytes, %s): %d rules do not match the name they describe, %d return another rule's value; first: %s", in.N, len(text), in.Delivery, wrongMatch, wrongValue, first)
	case wrongValue > 0:
		return evals, "bulk/wrong-value", fmt.Sprintf("list of %d rules (%d bytes, %s): %d rules return another value; first: %s", in.N, len(text), in.Delivery, wrongValue, first)
	}
	return evals, "", ""
}

func TestVerifC12Bulk(t *testing.T) {
	e := vr.GetEnv()
	if raw, ok := vr.ReplayInput(); ok {
		var in c12bulkIn
		if err := json.Unmarshal(raw, &in); err != nil {
			t.Fatal(err)
		}
		_, sig, why := c12bulkRun(in)
		fmt.Printf("replay %+v: sig=%q %s\n", in, sig, why)
		return
	}
	res := vr.New("C12", e)
	res.Rule = "bulk pass: one evaluation = one Match on a MixMatcher loaded by LoadFromTextReader from a list of n rules (rotating full/domain/keyword/regexp, each with its own value) delivered in one of four ways; every rule's own probe name and five strangers are queried; outcome class = size class x delivery"
	sizes := []int{1, 2, 50, 150, 170, 200, 600, 2000, 2600, 6000}
	if e.Tier == "thorough" {
		sizes = nil
		for n := 1; n <= 400; n++ {
			sizes = append(sizes, n)
		}
		sizes = append(sizes, 600, 1000, 2000, 2500, 2600, 2700, 3000, 6000, 12000, 30000)
	}
	res.Bounds["bulk.sizes"] = sizes
	res.Bounds["bulk.deliveries"] = c12bulkDeliveries
	idx := int64(0)
	for _, n := range sizes {
		for _, how := range c12bulkDeliveries {
			for _, dec := range []bool{false, true} {
				idx++
				if !e.Mine(idx) {
					continue
				}
				in := c12bulkIn{n, how, dec}
				ev, sig, why := c12bulkRun(in)
				res.Evaluations += ev
				res.Transitions += ev
				res.States++
				cls := "<=4KiB"
				if l := len(c12bulkText(n, dec)); l > 65536 {
					cls = ">64KiB"
				} else if l > 4096 {
					cls = "4..64KiB"
				}
				res.Outcome("bulk/" + cls + "/" + how)
				if sig != "" {
					res.ViolateInput(sig, why, in)
				}
			}
		}
	}
	res.Sample(map[string]any{"rules": 2000, "delivery": "whole", "first_lines": c12bulkText(3, true)})
	res.Write(e)
}
