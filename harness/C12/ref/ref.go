// Package c12ref is the reference model and the input universes of check C12
// (domain rules match exactly the names they describe). It is harness code,
// mounted virtually at zz_verif/c12ref; it does not import any mosdns package.
//
// Reference (exactly the statement, set-valued where it says "a matching ..."):
//
//	ok    <=> some rule describes the name
//	value in  {values of matching full rules}                        if any, else
//	          {values of the matching domain rules with most labels} if any, else
//	          {values of matching regexp rules}                      if any, else
//	          {values of matching keyword rules}
//
// Rules that normalise to the same key (full:a / full:A.) may return either value.
package c12ref

import (
	"fmt"
	"regexp"
	"strings"
)

const (
	Full = iota
	Domain
	Regexp
	Keyword
	NoPrefix
)

var KindName = [...]string{"full", "domain", "regexp", "keyword", ""}

type Rule struct {
	Kind int    `json:"kind"` // Full.. ; NoPrefix = rule written without "type:" prefix
	Pat  string `json:"pat"`  // pattern exactly as written in the rule
}

func (r Rule) Text() string {
	if r.Kind == NoPrefix {
		return r.Pat
	}
	return KindName[r.Kind] + ":" + r.Pat
}

// Norm: lower-case (the alphabets are ASCII) and strip ONE trailing dot.
func Norm(s string) string {
	if len(s) > 0 && s[len(s)-1] == '.' {
		s = s[:len(s)-1]
	}
	b := []byte(s)
	for i, c := range b {
		if 'A' <= c && c <= 'Z' {
			b[i] = c + ('a' - 'A')
		}
	}
	return string(b)
}

// RuleMatches: does a rule of effective kind k with written pattern pat describe
// the normalised name nn?
func RuleMatches(k int, pat string, nn string) bool {
	switch k {
	case Full:
		return Norm(pat) == nn
	case Domain:
		rl := strings.Split(Norm(pat), ".")
		nl := strings.Split(nn, ".")
		if len(rl) > len(nl) {
			return false
		}
		off := len(nl) - len(rl)
		for i := range rl {
			if rl[i] != nl[off+i] {
				return false
			}
		}
		return true
	case Keyword:
		kw := Norm(pat)
		for i := 0; i+len(kw) <= len(nn); i++ {
			if nn[i:i+len(kw)] == kw {
				return true
			}
		}
		return false
	case Regexp:
		return regexp.MustCompile(pat).MatchString(nn) // the statement defines regexp rules by Go's regexp
	}
	panic("kind")
}

// Space: a rule universe and a name set, with the per-(rule, effective type, name)
// reference verdicts cached (the verdict of one rule on one name does not
// depend on the other rules of the set).
type Space struct {
	Rules   []Rule
	Names   []string
	NormN   []string    // normalised names
	Tbl     [][4][]bool // [rule][effective kind][name]; only the rule's own kind is filled unless it has no prefix
	labels  []int       // labels of the normalised pattern, per rule
	normPat []string
	nlab    []int // labels of the normalised name
}

func NewSpace(rules []Rule, names []string) *Space {
	sp := &Space{Rules: rules, Names: names}
	for _, n := range names {
		sp.NormN = append(sp.NormN, Norm(n))
		sp.nlab = append(sp.nlab, len(strings.Split(Norm(n), ".")))
	}
	sp.Tbl = make([][4][]bool, len(rules))
	for ri, r := range rules {
		sp.normPat = append(sp.normPat, Norm(r.Pat))
		sp.labels = append(sp.labels, len(strings.Split(Norm(r.Pat), ".")))
		for k := 0; k < 4; k++ {
			if r.Kind != NoPrefix && r.Kind != k {
				continue
			}
			if k == Regexp {
				if _, err := regexp.Compile(r.Pat); err != nil {
					panic("harness universe contains an invalid regexp: " + r.Pat)
				}
			}
			row := make([]bool, len(names))
			for ni := range names {
				row[ni] = RuleMatches(k, r.Pat, sp.NormN[ni])
			}
			sp.Tbl[ri][k] = row
		}
	}
	return sp
}

func (sp *Space) EffKind(ri, def int) int {
	if k := sp.Rules[ri].Kind; k != NoPrefix {
		return k
	}
	return def
}

type Verdict struct {
	Kind     int    // winning kind, -1 = no rule matches
	Accept   uint32 // bitmask of sequence positions whose value may be returned
	lower    bool   // a rule of a lower-precedence type matches as well
	exact    bool   // domain: the winning rule equals the whole name
	shadow   bool   // domain: a shorter domain rule matches too
	normNeed bool   // normalisation was needed on the name or on an accepted rule
	nearMiss bool   // nomatch: the pattern of a full/domain rule is a string suffix of the name (off a label boundary / not the whole name)
	deeper   bool   // nomatch: a full/domain rule names a subdomain of the query name
	noprefix bool   // an accepted rule had no prefix
}

// Decide is the reference verdict for rule sequence seq (indices into the
// universe; position = value) with default type def (-1 unset) on name ni.
func (sp *Space) Decide(seq []int, def int, ni int) Verdict {
	var byKind [4]uint32
	maxLab := 0
	var domAtMax, anyDom uint32
	for pos, ri := range seq {
		k := sp.EffKind(ri, def)
		if !sp.Tbl[ri][k][ni] {
			continue
		}
		byKind[k] |= 1 << pos
		if k == Domain {
			anyDom |= 1 << pos
			l := sp.labels[ri]
			if l > maxLab {
				maxLab, domAtMax = l, 0
			}
			if l == maxLab {
				domAtMax |= 1 << pos
			}
		}
	}
	v := Verdict{Kind: -1}
	switch {
	case byKind[Full] != 0:
		v.Kind, v.Accept = Full, byKind[Full]
		v.lower = byKind[Domain]|byKind[Regexp]|byKind[Keyword] != 0
	case byKind[Domain] != 0:
		v.Kind, v.Accept = Domain, domAtMax
		v.shadow = anyDom != domAtMax
		v.lower = byKind[Regexp]|byKind[Keyword] != 0
		v.exact = maxLab == sp.nlab[ni]
	case byKind[Regexp] != 0:
		v.Kind, v.Accept = Regexp, byKind[Regexp]
		v.lower = byKind[Keyword] != 0
	case byKind[Keyword] != 0:
		v.Kind, v.Accept = Keyword, byKind[Keyword]
	}
	if sp.Names[ni] != sp.NormN[ni] {
		v.normNeed = true
	}
	if v.Kind >= 0 {
		for pos, ri := range seq {
			if v.Accept&(1<<pos) != 0 {
				if sp.Rules[ri].Kind == NoPrefix {
					v.noprefix = true
				}
				if v.Kind != Regexp && sp.normPat[ri] != sp.Rules[ri].Pat {
					v.normNeed = true
				}
			}
		}
	} else {
		for _, ri := range seq {
			k := sp.EffKind(ri, def)
			if k == Full || k == Domain {
				p := sp.normPat[ri]
				if strings.HasSuffix(sp.NormN[ni], p) {
					v.nearMiss = true
				}
				if strings.HasSuffix(p, "."+sp.NormN[ni]) {
					v.deeper = true
				}
			}
		}
	}
	return v
}

// Key packs the outcome class of a verdict into a small integer < 1024 (the class
// string is only built once per class, at the end of a run).
func (v Verdict) Key(seqLen int) uint16 {
	var k uint16
	switch v.Kind {
	case -1:
		k = 4
		switch {
		case seqLen == 0:
			k |= 0 << 3
		case v.nearMiss:
			k |= 1 << 3
		case v.deeper:
			k |= 2 << 3
		default:
			k |= 3 << 3
		}
	default:
		k = uint16(v.Kind)
		if v.exact {
			k |= 1 << 3
		}
		if v.shadow {
			k |= 1 << 5
		}
		if v.noprefix {
			k |= 1 << 6
		}
		if v.lower {
			k |= 1 << 7
		}
		if Popcount(v.Accept) > 1 {
			k |= 1 << 8
		}
	}
	if v.normNeed {
		k |= 1 << 9
	}
	return k
}

func ClassName(k uint16) string {
	var sb strings.Builder
	kind := int(k & 7)
	switch kind {
	case 4:
		sb.WriteString("nomatch")
		sb.WriteString([]string{"/empty-set", "/string-suffix-but-no-rule-describes", "/only-a-deeper-rule", "/unrelated"}[(k>>3)&3])
	case Domain:
		if k&(1<<3) != 0 {
			sb.WriteString("domain/self")
		} else {
			sb.WriteString("domain/subdomain")
		}
		if k&(1<<5) != 0 {
			sb.WriteString("+longest-of-nested")
		}
	default:
		sb.WriteString(KindName[kind])
	}
	if k&(1<<6) != 0 {
		sb.WriteString("+via-default-type")
	}
	if k&(1<<7) != 0 {
		sb.WriteString("+beats-lower-type")
	}
	if k&(1<<8) != 0 {
		sb.WriteString("+duplicate-any-value")
	}
	if k&(1<<9) != 0 {
		sb.WriteString("+normalised")
	}
	return sb.String()
}

func (v Verdict) Class(seqLen int) string { return ClassName(v.Key(seqLen)) }

func Popcount(x uint32) int {
	n := 0
	for ; x != 0; x &= x - 1 {
		n++
	}
	return n
}

func Bits(m uint32) []int {
	out := []int{}
	for i := 0; i < 32; i++ {
		if m&(1<<i) != 0 {
			out = append(out, i)
		}
	}
	return out
}

// ---------------------------------------------------------------------------
// universes

var Labels = []string{"a", "b", "ab"}

// BaseNames: all names of 1..maxLabels labels, shortest first.
func BaseNames(maxLabels int) []string {
	var out []string
	level := []string{""}
	for l := 1; l <= maxLabels; l++ {
		var next []string
		for _, p := range level {
			for _, lab := range Labels {
				s := lab
				if p != "" {
					s = p + "." + lab
				}
				next = append(next, s)
			}
		}
		out = append(out, next...)
		level = next
	}
	return out
}

var FormNames = []string{"as is", "trailing dot", "upper case"}

func Forms(s string) []string { return []string{s, s + ".", strings.ToUpper(s)} }

func QueryNames(maxLabels int) []string {
	var out []string
	for _, b := range BaseNames(maxLabels) {
		out = append(out, Forms(b)...)
	}
	return out
}

// FqdnQueryNames: the forms a DNS question can carry (always fully qualified).
func FqdnQueryNames(maxLabels int) []string {
	var out []string
	for _, b := range BaseNames(maxLabels) {
		out = append(out, b+".", strings.ToUpper(b)+".")
	}
	return out
}

var KeywordFragments = []string{".", ".a", "b.", "ba"}
var Regexps = []string{`^a\.`, `b$`, `a.b`, `A\.B`, `(?i)A\.B`, `^ab\.b$`, `\.$`, `^[ab]+$`, `b\.a`}

// Universe: full:/domain: patterns = names of <= patLabels labels x 3 forms;
// keyword: = (names of <= 2 labels + fragments) x 3 forms; regexps as written;
// no prefix = names of <= 2 labels x 3 forms + the regexps. Simplest first.
func Universe(patLabels int) []Rule {
	var u []Rule
	n2 := BaseNames(2)
	for _, p := range BaseNames(patLabels) {
		for _, f := range Forms(p) {
			u = append(u, Rule{Full, f}, Rule{Domain, f})
		}
	}
	for _, p := range append(append([]string{}, n2...), KeywordFragments...) {
		for _, f := range Forms(p) {
			u = append(u, Rule{Keyword, f})
		}
	}
	for _, x := range Regexps {
		u = append(u, Rule{Regexp, x})
	}
	for _, p := range n2 {
		for _, f := range Forms(p) {
			u = append(u, Rule{NoPrefix, f})
		}
	}
	for _, x := range Regexps {
		u = append(u, Rule{NoPrefix, x})
	}
	return u
}

func DescribeUniverse(patLabels int) string {
	return fmt.Sprintf("%d rules: full:/domain: x names of <=%d labels x 3 forms; keyword: x (names of <=2 labels + %q) x 3 forms; regexp: %q; no prefix x (names of <=2 labels x 3 forms + the regexps)",
		len(Universe(patLabels)), patLabels, KeywordFragments, Regexps)
}

// SmallUniverse: for the deepest sequences: nested chains and one form variant each.
func SmallUniverse() []Rule {
	var u []Rule
	for _, p := range []string{"a", "b", "b.a", "a.b", "a.b.a", "b.b.a", "A.", "B.A"} {
		u = append(u, Rule{Full, p}, Rule{Domain, p})
	}
	for _, p := range []string{"a", "B.A.", "a.b.a"} {
		u = append(u, Rule{NoPrefix, p})
	}
	for _, p := range []string{"b.a", ".", "B.", "ba"} {
		u = append(u, Rule{Keyword, p})
	}
	for _, p := range []string{`^a\.`, `b$`, `(?i)A\.B`} {
		u = append(u, Rule{Regexp, p})
	}
	u = append(u, Rule{NoPrefix, `a.b`})
	return u
}

// Defaults to enumerate for a sequence: all four when a rule without prefix is
// present, otherwise "unset" (-1: typed rules must not need a default).
func (sp *Space) Defaults(seq []int) []int {
	for _, ri := range seq {
		if sp.Rules[ri].Kind == NoPrefix {
			return []int{Full, Domain, Regexp, Keyword}
		}
	}
	return []int{-1}
}

func DefName(def int) string {
	if def < 0 {
		return ""
	}
	return KindName[def]
}

func (sp *Space) Texts(seq []int) []string {
	out := []string{}
	for _, ri := range seq {
		out = append(out, sp.Rules[ri].Text())
	}
	return out
}

// DecoratedText renders rule lines for the text loaders: comment line, blank
// lines, leading blanks/tabs, trailing comment, CRLF, a commented-out rule,
// last line without newline. value(pos) is appended as a second field when it
// returns a non-empty string.
func DecoratedText(rules []string, value func(pos int) string) string {
	return DecoratedTextFrom(0, rules, value)
}

// DecoratedTextFrom is DecoratedText for rules that sit at positions
// first, first+1, ... of a sequence (decoration style and value follow the position).
func DecoratedTextFrom(first int, rules []string, value func(pos int) string) string {
	var sb strings.Builder
	sb.WriteString("# rules generated by the C12 harness\n\n")
	for i, r := range rules {
		pos := first + i
		line := r
		sep := " "
		if pos%3 == 1 {
			sep = "\t"
		}
		if value != nil {
			if v := value(pos); v != "" {
				line += sep + v
			}
		}
		switch pos % 3 {
		case 0:
			fmt.Fprintf(&sb, "  %s   # comment after rule %d\n", line, pos)
		case 1:
			fmt.Fprintf(&sb, "\t%s\r\n   \n#full:a 9\n", line)
		case 2:
			sb.WriteString(line) // possibly the last line, without newline
			if i != len(rules)-1 {
				sb.WriteString("\n")
			}
		}
	}
	return sb.String()
}

const TextDecoration = "comment line, blank lines, leading blanks/tabs, trailing comment, CRLF, commented-out rule, last line without newline"

// Input is the replay record of one case.
type Input struct {
	Rules   []Rule `json:"rules"`
	Default string `json:"default"`
	Name    string `json:"name"`
	Path    string `json:"path"`
}

func (sp *Space) Input(seq []int, def int, ni int, path string) Input {
	in := Input{Default: DefName(def), Name: sp.Names[ni], Path: path, Rules: []Rule{}}
	for _, ri := range seq {
		in.Rules = append(in.Rules, sp.Rules[ri])
	}
	return in
}

// Judge compares one real result with the reference verdict. got is the
// position decoded from the returned value (-1 when it could not be decoded).
// It returns "" when they agree, else the signature suffix and a description.
func (sp *Space) Judge(seq []int, def int, ni int, want Verdict, got int, ok bool) (string, string) {
	if want.Kind == -1 && !ok {
		return "", ""
	}
	if want.Kind >= 0 && ok && got >= 0 && got < len(seq) && want.Accept&(1<<got) != 0 {
		return "", ""
	}
	name := sp.Names[ni]
	cls := ClassName(want.Key(len(seq)) & 0x3f) // signature: winning type / self|subdomain / nested / nomatch flavour only
	rule := func(pos int) string {
		if pos < 0 || pos >= len(seq) {
			return "?"
		}
		return sp.Rules[seq[pos]].Text()
	}
	switch {
	case want.Kind == -1 && got < 0:
		return "false-match/" + cls, fmt.Sprintf("rules %q (default type %q): %q is reported as matched, but no rule describes %q",
			sp.Texts(seq), DefName(def), name, sp.NormN[ni])
	case want.Kind == -1:
		return "false-match/" + cls, fmt.Sprintf("rules %q (default type %q): matching %q returned the value of rule #%d %q, but no rule describes %q",
			sp.Texts(seq), DefName(def), name, got, rule(got), sp.NormN[ni])
	case !ok:
		return "missed/" + cls, fmt.Sprintf("rules %q (default type %q): matching %q found nothing, but rule(s) at %v describe %q (a %s match is expected)",
			sp.Texts(seq), DefName(def), name, Bits(want.Accept), sp.NormN[ni], KindName[want.Kind])
	default:
		return "wrong-value/" + cls, fmt.Sprintf("rules %q (default type %q): matching %q returned the value of rule #%d %q; the statement demands the value of one of the rules at %v (%s match has precedence)",
			sp.Texts(seq), DefName(def), name, got, rule(got), Bits(want.Accept), KindName[want.Kind])
	}
}

// Cost orders counterexamples: shorter sequences first, then universe order
// (the driver keeps the cheapest violation per signature across shards).
func Cost(seq []int) int {
	c := len(seq)
	for _, i := range seq {
		c = c*1024 + i
	}
	return c
}
