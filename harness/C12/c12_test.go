package domain

// C12 - domain rules match exactly the names they describe (part 0: pkg/matcher/domain).
//
// Bounded-exhaustive enumeration: every rule sequence (length <= bound) over a
// finite rule universe x every query name of a finite name set is run on the
// real MixMatcher (built by Add, and built by LoadFromTextReader from a
// decorated text) and compared with the naive reference of zz_verif/c12ref,
// which tests every rule against the normalised name.

import (
	"encoding/json"
	"fmt"
	"sort"
	"strconv"
	"strings"
	"testing"

	ref "github.com/IrineSistiana/mosdns/v5/zz_verif/c12ref"
	"github.com/IrineSistiana/mosdns/v5/zz_verif/vr"
)

type c12Runner struct {
	res *vr.Result
	sp  *ref.Space
	// measured
	inputs, calls, evals int64
	verbose              bool
	classes              [2][1024]int64 // [0] mix/text paths, [1] single sub-matchers
}

func c12ParseValue(s string) (string, int, error) {
	f := strings.Fields(s)
	if len(f) != 2 {
		return "", 0, fmt.Errorf("want 2 fields, got %d in %q", len(f), s)
	}
	v, err := strconv.Atoi(f[1])
	return f[0], v, err
}

func (rn *c12Runner) build(seq []int, def int, path string) (*MixMatcher[int], error) {
	m := NewMixMatcher[int]()
	if def >= 0 {
		m.SetDefaultMatcher(ref.KindName[def])
		rn.calls++
	}
	switch path {
	case "mix":
		for pos, ri := range seq {
			rn.calls++
			if err := m.Add(rn.sp.Rules[ri].Text(), pos); err != nil {
				return nil, err
			}
		}
	case "text":
		rn.calls++
		text := ref.DecoratedText(rn.sp.Texts(seq), func(pos int) string { return strconv.Itoa(pos) })
		if err := LoadFromTextReader[int](m, strings.NewReader(text), c12ParseValue); err != nil {
			return nil, err
		}
	}
	return m, nil
}

// evalSeq runs one rule sequence under one default type through the given
// paths against every name of the space.
func (rn *c12Runner) evalSeq(seq []int, def int, paths []string) {
	sp := rn.sp
	rn.inputs += int64(len(sp.Names))
	var ms [2]*MixMatcher[int]
	for pi, path := range paths {
		m, err := rn.build(seq, def, path)
		if err != nil {
			rn.res.ViolateInput(path+"/load-error", fmt.Sprintf("loading valid rules %q (default type %q) failed: %v", sp.Texts(seq), ref.DefName(def), err),
				sp.Input(seq, def, 0, path))
			return
		}
		ms[pi] = m
	}
	for ni := range sp.Names {
		want := sp.Decide(seq, def, ni)
		rn.classes[0][want.Key(len(seq))]++
		for pi, path := range paths {
			rn.calls++
			rn.evals++
			got, ok := ms[pi].Match(sp.Names[ni])
			rn.compare(seq, def, ni, path, want, got, ok)
		}
	}
}

func (rn *c12Runner) compare(seq []int, def int, ni int, path string, want ref.Verdict, got int, ok bool) {
	sig, desc := rn.sp.Judge(seq, def, ni, want, got, ok)
	if rn.verbose {
		verdict := "agree"
		if sig != "" {
			verdict = "DISAGREE"
		}
		fmt.Printf("  path=%-4s Match(%q) = (%d,%v)  reference: class %s, acceptable rule positions %v : %s\n", path, rn.sp.Names[ni], got, ok, want.Class(len(seq)), ref.Bits(want.Accept), verdict)
	}
	if sig != "" {
		c12Violate(rn.res, path+"/"+sig, desc, rn.sp.Input(seq, def, ni, path), ref.Cost(seq))
	}
}

// c12Violate records a violation; cost = sequence length, so that the merged
// report shows the shortest counterexample found by any shard.
func c12Violate(res *vr.Result, sig, desc string, in any, cost int) {
	n := len(res.Violations)
	res.ViolateInput(sig, desc, in)
	if len(res.Violations) > n {
		res.Violations[n].Cost = cost
	}
}

func (rn *c12Runner) evalAllDefaults(seq []int, paths []string) {
	for _, d := range rn.sp.Defaults(seq) {
		rn.evalSeq(seq, d, paths)
	}
}

// single sub-matchers used directly (SubDomainMatcher, FullMatcher, ...): one rule, value 0.
func (rn *c12Runner) evalSub(ri int) {
	sp := rn.sp
	r := sp.Rules[ri]
	var m WriteableMatcher[int]
	switch r.Kind {
	case ref.Full:
		m = NewFullMatcher[int]()
	case ref.Domain:
		m = NewSubDomainMatcher[int]()
	case ref.Regexp:
		m = NewRegexMatcher[int]()
	case ref.Keyword:
		m = NewKeywordMatcher[int]()
	default:
		return
	}
	rn.calls++
	if err := m.Add(r.Pat, 0); err != nil {
		rn.res.ViolateInput("sub/load-error", fmt.Sprintf("%s matcher: Add(%q) failed: %v", ref.KindName[r.Kind], r.Pat, err), sp.Input([]int{ri}, -1, 0, "sub"))
		return
	}
	rn.inputs += int64(len(sp.Names))
	for ni := range sp.Names {
		want := sp.Decide([]int{ri}, -1, ni)
		rn.classes[1][want.Key(1)&^(1<<9)]++
		rn.calls++
		rn.evals++
		got, ok := m.Match(sp.Names[ni])
		rn.compare([]int{ri}, -1, ni, "sub", want, got, ok)
	}
}

func TestVerifC12(t *testing.T) {
	e := vr.GetEnv()
	if raw, ok := vr.ReplayInput(); ok {
		c12Replay(t, raw)
		return
	}
	res := vr.New("C12", e)
	res.Rule = "one evaluation = one Match(name) call on a real matcher built from one rule sequence (part 0: MixMatcher.Add in order, and LoadFromTextReader from a decorated text; " +
		"part 1: domain_set, hosts and redirect plugins built from args/files), compared with the reference verdict; inputs are enumerated as rule sequences (shortest first, universe order) " +
		"x default type x all names; outcome class = winning rule type of the reference (full / domain self|subdomain / regexp / keyword / nomatch with or without a misleading string suffix) " +
		"+ whether nested domain rules, lower-precedence matches, duplicate keys, the default type or normalisation were involved"

	nameLabels, patLabels := 3, 3
	if e.Tier == "thorough" {
		nameLabels, patLabels = 4, 4
	}
	names := ref.QueryNames(nameLabels)
	big := ref.NewSpace(ref.Universe(patLabels), names)
	small := ref.NewSpace(ref.SmallUniverse(), names)
	mid := ref.NewSpace(ref.Universe(2), ref.QueryNames(3)) // thorough: 3-sets

	res.Bounds["labels"] = ref.Labels
	res.Bounds["name_labels_max"] = nameLabels
	res.Bounds["names"] = len(names)
	res.Bounds["name_forms"] = ref.FormNames
	res.Bounds["p0_rule_universe_U"] = ref.DescribeUniverse(patLabels)
	res.Bounds["default_types"] = "unset for sequences of typed rules; all of full/domain/regexp/keyword for every sequence containing a rule without prefix"
	res.Bounds["p0_U_sequences"] = "all ordered sequences with repetition of length 0..2 over U (distinct value per position), paths mix+text, all names"
	res.Bounds["p0_small_universe_S"] = fmt.Sprintf("%d rules (nested chains a / b.a / a.b.a / b.b.a, spellings, keyword/regexp/no-prefix): %q", len(small.Rules), small.Texts(seqAll(len(small.Rules))))
	res.Bounds["p0_S_sequences"] = "all ordered sequences of 3 distinct rules over S, paths mix+text, all names"
	if e.Tier == "thorough" {
		res.Bounds["p0_S4_sequences"] = "all ordered sequences of 4 distinct rules over S, path mix, all names"
		res.Bounds["p0_U3_sets"] = fmt.Sprintf("all sets of 3 distinct rules over U built with patterns of <=2 labels (%d rules), added in ascending and in descending universe order, path mix, names of <=3 labels (%d)", len(mid.Rules), len(mid.Names))
	}
	res.Bounds["text_decoration"] = ref.TextDecoration

	both := []string{"mix", "text"}
	mixOnly := []string{"mix"}
	var unit int64
	expired := false
	stage := ""
	completed := []string{}
	check := func() bool {
		if !expired && e.Expired() {
			expired = true
		}
		return expired
	}
	rn := &c12Runner{res: res, sp: big}

	// stage 0: NormalizeDomain itself + single sub-matchers
	stage = "normalize+single-matchers"
	for ni, n := range names {
		if e.Mine(unit) {
			rn.calls++
			rn.evals++
			rn.inputs++
			if got := NormalizeDomain(n); got != big.NormN[ni] {
				res.ViolateInput("normalize/wrong", fmt.Sprintf("NormalizeDomain(%q) = %q, want %q", n, got, big.NormN[ni]), ref.Input{Name: n, Path: "normalize", Rules: []ref.Rule{}})
			}
			if n != big.NormN[ni] {
				res.Outcome("normalize/changed")
			} else {
				res.Outcome("normalize/identity")
			}
		}
		unit++
	}
	for ri := range big.Rules {
		if e.Mine(unit) {
			rn.evalSub(ri)
		}
		unit++
	}
	completed = append(completed, stage)

	// stage 1: sequences of length 0,1,2 over U
	stage = "U sequences of length<=2"
	if e.Mine(unit) {
		rn.evalSeq([]int{}, -1, both)
		for d := 0; d < 4; d++ { // the empty set under every default type as well
			rn.evalSeq([]int{}, d, both)
		}
	}
	unit++
	for i := range big.Rules {
		if e.Mine(unit) {
			rn.evalAllDefaults([]int{i}, both)
		}
		unit++
	}
	for i := range big.Rules {
		if check() {
			break
		}
		if e.Mine(unit) {
			for j := range big.Rules {
				rn.evalAllDefaults([]int{i, j}, both)
			}
		}
		unit++
	}
	if !expired {
		completed = append(completed, stage)
	}

	// stage 2: ordered triples of distinct rules over S
	if !expired {
		stage = "S ordered triples"
		rn.sp = small
		n := len(small.Rules)
	s2:
		for i := 0; i < n; i++ {
			for j := 0; j < n; j++ {
				if j == i {
					continue
				}
				if check() {
					break s2
				}
				if e.Mine(unit) {
					for k := 0; k < n; k++ {
						if k != i && k != j {
							rn.evalAllDefaults([]int{i, j, k}, both)
						}
					}
				}
				unit++
			}
		}
		if !expired {
			completed = append(completed, stage)
		}
	}

	if e.Tier == "thorough" && !expired {
		// stage 3: ordered 4-sequences of distinct rules over S
		stage = "S ordered 4-sequences"
		rn.sp = small
		n := len(small.Rules)
	s3:
		for i := 0; i < n; i++ {
			for j := 0; j < n; j++ {
				if j == i {
					continue
				}
				if check() {
					break s3
				}
				if e.Mine(unit) {
					for k := 0; k < n; k++ {
						if k == i || k == j {
							continue
						}
						for l := 0; l < n; l++ {
							if l != i && l != j && l != k {
								rn.evalAllDefaults([]int{i, j, k, l}, mixOnly)
							}
						}
					}
				}
				unit++
			}
		}
		if !expired {
			completed = append(completed, stage)
		}
	}
	if e.Tier == "thorough" && !expired {
		// stage 4: all 3-sets over U3, ascending and descending insertion order
		stage = "U3 sets of 3"
		rn.sp = mid
		n := len(mid.Rules)
	s4:
		for i := 0; i < n; i++ {
			for j := i + 1; j < n; j++ {
				if check() {
					break s4
				}
				if e.Mine(unit) {
					for k := j + 1; k < n; k++ {
						rn.evalAllDefaults([]int{i, j, k}, mixOnly)
						rn.evalAllDefaults([]int{k, j, i}, mixOnly)
					}
				}
				unit++
			}
		}
		if !expired {
			completed = append(completed, stage)
		}
	}
	if expired {
		res.Exhaustive = false
		res.Notes = append(res.Notes, fmt.Sprintf("part 0: budget expired in stage %q; stages fully covered: %v", stage, completed))
	}
	res.Bounds["p0_stages_completed"] = completed
	for k, n := range rn.classes[0] {
		if n > 0 {
			res.Outcomes[ref.ClassName(uint16(k))] += n
		}
	}
	for k, n := range rn.classes[1] {
		if n > 0 {
			res.Outcomes["single-matcher:"+ref.ClassName(uint16(k))] += n
		}
	}
	res.States = rn.inputs
	res.Transitions = rn.calls
	res.Evaluations = rn.evals
	// samples: a few concrete cases, recomputed deterministically (same in every shard)
	for _, s := range [][]int{{0}, {1, 7}, {3, 0}} {
		for _, ni := range []int{0, 4} {
			want := big.Decide(s, -1, ni)
			res.Sample(map[string]any{"rules": big.Texts(s), "name": big.Names[ni], "reference_class": want.Class(len(s)), "acceptable_rule_positions": ref.Bits(want.Accept)})
		}
	}
	res.Write(e)
	for _, v := range res.Violations {
		t.Logf("violation %s: %s", v.Sig, v.Desc)
	}
}

func seqAll(n int) []int {
	s := make([]int, n)
	for i := range s {
		s[i] = i
	}
	return s
}

func c12Replay(t *testing.T, raw json.RawMessage) {
	var in ref.Input
	if err := json.Unmarshal(raw, &in); err != nil {
		fmt.Println("INFRA: bad replay input:", err)
		t.FailNow()
	}
	res := vr.New("C12", vr.GetEnv())
	fmt.Printf("replay: rules=%v default=%q name=%q (recorded path %s)\n", in.Rules, in.Default, in.Name, in.Path)
	if in.Path == "normalize" {
		got := NormalizeDomain(in.Name)
		fmt.Printf("  NormalizeDomain(%q) = %q, reference %q\n", in.Name, got, ref.Norm(in.Name))
		if got != ref.Norm(in.Name) {
			fmt.Printf("REPLAY-VIOLATION property=C12 sig=normalize/wrong\n")
		} else {
			fmt.Println("REPLAY-OK: this input does not violate the property on the current tree")
		}
		return
	}
	sp := ref.NewSpace(in.Rules, []string{in.Name})
	rn := &c12Runner{res: res, sp: sp, verbose: true}
	def := -1
	for k := 0; k < 4; k++ {
		if in.Default == ref.KindName[k] {
			def = k
		}
	}
	seq := seqAll(len(in.Rules))
	fmt.Printf("  normalised name %q\n", sp.NormN[0])
	for pos, r := range in.Rules {
		if k := sp.EffKind(pos, def); k >= 0 {
			fmt.Printf("  rule #%d %-22q effective type %-8s describes the name: %v\n", pos, r.Text(), ref.KindName[k], sp.Tbl[pos][k][0])
		}
	}
	if in.Path == "sub" && len(seq) == 1 {
		rn.evalSub(0)
	} else {
		rn.evalSeq(seq, def, []string{"mix", "text"})
	}
	if len(res.Violations) > 0 {
		sort.Slice(res.Violations, func(i, j int) bool { return res.Violations[i].Sig < res.Violations[j].Sig })
		for _, v := range res.Violations {
			fmt.Printf("REPLAY-VIOLATION property=C12 sig=%s\n  %s\n", v.Sig, v.Desc)
		}
		return
	}
	fmt.Println("REPLAY-OK: this input does not violate the property on the current tree")
}
