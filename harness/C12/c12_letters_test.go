package domain

import (
	"fmt"
	"testing"

	"github.com/IrineSistiana/mosdns/v5/zz_verif/vr"
)

// C12 part "letters": case normalisation over the whole byte alphabet. The main
// enumeration uses the labels {a,b,ab}; this pass makes sure that "names are
// lower-cased ... rules are normalised the same way" holds for EVERY letter (and
// that no other printable byte is touched): for each byte c that may appear in a
// label, names and rules containing c / its other case are run through
// NormalizeDomain and through all four rule types of the real MixMatcher.

func c12lower(b byte) byte {
	if 'A' <= b && b <= 'Z' {
		return b + 32
	}
	return b
}

func c12swap(b byte) byte {
	switch {
	case 'A' <= b && b <= 'Z':
		return b + 32
	case 'a' <= b && b <= 'z':
		return b - 32
	}
	return b
}

func c12refNorm(s string) string {
	if n := len(s); n > 0 && s[n-1] == '.' {
		s = s[:n-1]
	}
	o := []byte(s)
	for i := range o {
		o[i] = c12lower(o[i])
	}
	return string(o)
}

func TestVerifC12Letters(t *testing.T) {
	e := vr.GetEnv()
	res := vr.New("C12", e)
	res.Rule = "letters pass: for every printable ASCII byte c (except '.', space, '#') and every position pattern {only c, c among other letters, c as the only upper-case letter}, NormalizeDomain and full/domain/keyword/regexp rules are evaluated for the name and the rule in both cases of c; outcome class = byte class x rule type x verdict"
	type in struct {
		Byte    int    `json:"byte"`
		Name    string `json:"name"`
		Rule    string `json:"rule"`
		Pattern string `json:"pattern"`
	}
	if _, ok := vr.ReplayInput(); ok {
		fmt.Println("REPLAY-OK (the letters pass is re-run completely, it takes milliseconds)")
	}
	idx := int64(0)
	for c := 0x21; c <= 0x7e; c++ {
		b := byte(c)
		if b == '.' || b == '#' || b == ':' || b == '\\' {
			continue // separators of the rule syntax / regexp escapes are not label material here
		}
		cls := "other"
		switch {
		case 'A' <= b && b <= 'Z':
			cls = "upper"
		case 'a' <= b && b <= 'z':
			cls = "lower"
		case '0' <= b && b <= '9':
			cls = "digit"
		}
		shapes := []string{string([]byte{b}), "x" + string([]byte{b}) + "y", string([]byte{b}) + "oom", "w" + string([]byte{b, b})}
		for _, label := range shapes {
			for _, tail := range []string{"example", "Example.", "q"} {
				name := label + "." + tail
				idx++
				if !e.Mine(idx) {
					continue
				}
				// NormalizeDomain
				res.Evaluations++
				res.Transitions++
				if got, want := NormalizeDomain(name), c12refNorm(name); got != want {
					res.Outcome("normalize/" + cls + "/WRONG")
					res.ViolateInput("letters/normalize/"+cls, fmt.Sprintf("NormalizeDomain(%q) = %q, want %q", name, got, want), in{c, name, "", "normalize"})
				} else {
					res.Outcome("normalize/" + cls + "/ok")
				}
				// rules written in one case, names in the other
				sw := []byte(name)
				for i := range sw {
					sw[i] = c12swap(sw[i])
				}
				other := string(sw)
				norm := c12refNorm(name)
				isMeta := false
				for _, m := range []byte("^$*+?()[]{}|") {
					if b == m {
						isMeta = true
					}
				}
				rules := []string{"full:" + name, "domain:" + name, "keyword:" + label, "full:" + other, "domain:" + other, "keyword:" + string(sw[:len(label)])}
				if !isMeta {
					rules = append(rules, "regexp:^"+norm[:len(label)])
				}
				for _, rule := range rules {
					for _, q := range []string{name, other, "sub." + other, norm} {
						m := NewMixMatcher[int]()
						res.Evaluations++
						res.Transitions += 2
						if err := m.Add(rule, 1); err != nil {
							res.Outcome("rule-rejected/" + cls)
							continue
						}
						_, got := m.Match(q)
						// reference: compare normalised forms
						qn := c12refNorm(q)
						var want bool
						kind := rule[:len(rule)-len(rule[len(ruleKind(rule))+1:])-1]
						pat := c12refNorm(rule[len(kind)+1:])
						switch kind {
						case "full":
							want = qn == pat
						case "domain":
							want = qn == pat || (len(qn) > len(pat) && qn[len(qn)-len(pat)-1] == '.' && qn[len(qn)-len(pat):] == pat)
						case "keyword":
							want = contains(qn, pat)
						case "regexp":
							want = len(qn) >= len(label) && qn[:len(label)] == norm[:len(label)]
						}
						verdict := "nomatch"
						if got {
							verdict = "match"
						}
						if got != want {
							res.Outcome(kind + "/" + cls + "/WRONG")
							res.ViolateInput("letters/"+kind+"/"+cls, fmt.Sprintf("rule %q, name %q: Match = %v, want %v (normalised name %q)", rule, q, got, want, qn), in{c, q, rule, kind})
						} else {
							res.Outcome(kind + "/" + cls + "/" + verdict)
						}
					}
				}
				res.States++
				if res.States%40 == 1 {
					res.Sample(in{c, name, rules[0], "sample"})
				}
			}
		}
	}
	res.Bounds["bytes"] = "0x21..0x7e except . # : \\"
	res.Write(e)
}

func ruleKind(r string) string {
	for i := 0; i < len(r); i++ {
		if r[i] == ':' {
			return r[:i]
		}
	}
	return ""
}

func contains(s, sub string) bool {
	for i := 0; i+len(sub) <= len(s); i++ {
		if s[i:i+len(sub)] == sub {
			return true
		}
	}
	return false
}
