package h_c12

// C12 "nested sets" pass: domain sets that reference other sets ("sets:"). A set
// matches a name iff some rule of its own or of a set it references (directly or
// through another set) describes it - whatever else has been built from the
// same sets before or after. All small reference graphs are enumerated: a base
// set with 0..1 own rule and 0..4 referenced leaves, and 1..3 consumer sets that
// reference the base (first or last) plus one leaf of their own, with or without
// an own rule; after EVERY construction step every set built so far is probed
// with every leaf name (history: a later set must not change an earlier one).

import (
	"encoding/json"
	"fmt"
	"testing"

	"github.com/IrineSistiana/mosdns/v5/coremain"
	"github.com/IrineSistiana/mosdns/v5/plugin/data_provider/domain_set"
	"github.com/IrineSistiana/mosdns/v5/zz_verif/vr"
)

type nestedIn struct {
	BaseOwn   bool `json:"base_own_rule"`
	BaseRefs  int  `json:"base_refs"`
	Consumers int  `json:"consumers"`
	ConsOwn   bool `json:"consumers_own_rule"`
	BaseFirst bool `json:"base_listed_first"`
}

const nestedLeaves = 8

func nestedName(i int) string { return fmt.Sprintf("n%d.nested.test.", i) }
func nestedRule(i int) string { return fmt.Sprintf("full:n%d.nested.test", i) }

func nestedRun(in nestedIn) (evals int64, sig, why string) {
	plugins := map[string]any{}
	m := coremain.NewTestMosdnsWithPlugins(plugins)
	want := map[string]map[int]bool{} // set tag -> leaf indices it must match
	var order []string
	build := func(tag string, own []int, refs []string) (string, string) {
		args := &domain_set.Args{Sets: refs}
		w := map[int]bool{}
		for _, i := range own {
			args.Exps = append(args.Exps, nestedRule(i))
			w[i] = true
		}
		for _, r := range refs {
			for i := range want[r] {
				w[i] = true
			}
		}
		ds, err := domain_set.NewDomainSet(coremain.NewBP(tag, m), args)
		if err != nil {
			return "nested/build-error", fmt.Sprintf("building set %q (own %v, sets %v) failed: %v", tag, own, refs, err)
		}
		plugins[tag] = ds
		want[tag] = w
		order = append(order, tag)
		// probe every set built so far
		for _, t := range order {
			mt := plugins[t].(*domain_set.DomainSet).GetDomainMatcher()
			for i := 0; i < nestedLeaves; i++ {
				evals++
				_, got := mt.Match(nestedName(i))
				if got != want[t][i] {
					kind := "false-negative"
					if got {
						kind = "false-positive"
					}
					return "nested/" + kind, fmt.Sprintf("after building %q: set %q Match(%q) = %v, want %v (its rules and referenced sets describe leaves %v)", tag, t, nestedName(i), got, want[t][i], keysOf(want[t]))
				}
			}
		}
		return "", ""
	}
	// leaves 0..3 are referenced by the base, 4..6 by the consumers, 7 is the base's own rule
	for i := 0; i < 7; i++ {
		if s, w := build(fmt.Sprintf("leaf%d", i), []int{i}, nil); s != "" {
			return evals, s, w
		}
	}
	var baseRefs []string
	for i := 0; i < in.BaseRefs; i++ {
		baseRefs = append(baseRefs, fmt.Sprintf("leaf%d", i))
	}
	var baseOwn []int
	if in.BaseOwn {
		baseOwn = []int{7}
	}
	if s, w := build("base", baseOwn, baseRefs); s != "" {
		return evals, s, w
	}
	for c := 0; c < in.Consumers; c++ {
		refs := []string{"base", fmt.Sprintf("leaf%d", 4+c)}
		if !in.BaseFirst {
			refs[0], refs[1] = refs[1], refs[0]
		}
		var own []int
		if in.ConsOwn {
			own = []int{3} // a rule the base may reference as well: duplicates are harmless
		}
		if s, w := build(fmt.Sprintf("consumer%d", c), own, refs); s != "" {
			return evals, s, w
		}
	}
	return evals, "", ""
}

func keysOf(m map[int]bool) []int {
	var out []int
	for i := 0; i < nestedLeaves; i++ {
		if m[i] {
			out = append(out, i)
		}
	}
	return out
}

func TestVerifC12Nested(t *testing.T) {
	e := vr.GetEnv()
	if raw, ok := vr.ReplayInput(); ok {
		var in nestedIn
		if err := json.Unmarshal(raw, &in); err != nil {
			t.Fatal(err)
		}
		_, sig, why := nestedRun(in)
		fmt.Printf("replay %+v: sig=%q %s\n", in, sig, why)
		return
	}
	res := vr.New("C12", e)
	res.Rule = "nested pass: one evaluation = one Match on a domain_set that references other sets; graphs: base (0..1 own rule, 0..4 referenced leaves) and 1..3 consumers (base first/last + one leaf, 0..1 own rule); every set is probed with every leaf name after every construction step; outcome class = graph shape"
	idx := int64(0)
	for _, bo := range []bool{false, true} {
		for br := 0; br <= 4; br++ {
			for cons := 1; cons <= 3; cons++ {
				for _, co := range []bool{false, true} {
					for _, bf := range []bool{true, false} {
						idx++
						if !e.Mine(idx) {
							continue
						}
						in := nestedIn{bo, br, cons, co, bf}
						ev, sig, why := nestedRun(in)
						res.Evaluations += ev
						res.Transitions += ev
						res.States++
						res.Outcome(fmt.Sprintf("nested/base%d+%v/consumers%d", br, bo, cons))
						if sig != "" {
							res.ViolateInput(sig, why, in)
						}
					}
				}
			}
		}
	}
	res.Sample(nestedIn{false, 3, 2, false, true})
	res.Write(e)
}
