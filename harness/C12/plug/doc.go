// Package h_c12 hosts the plugin-level part of check C12 (test files only).
package h_c12
