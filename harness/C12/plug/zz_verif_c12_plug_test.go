package h_c12

// C12 part 1: the same reference, through the plugin entry points that load
// user rules: domain_set (args "exps" + "files", default type domain, no values),
// hosts (entries/files "rule ip", default type full, value = address) and
// redirect (rules "rule target", default type full, value = target name).

import (
	"context"
	"encoding/json"
	"fmt"
	"net/netip"
	"os"
	"path/filepath"
	"sort"
	"strconv"
	"strings"
	"testing"

	"github.com/IrineSistiana/mosdns/v5/pkg/query_context"
	"github.com/IrineSistiana/mosdns/v5/plugin/data_provider/domain_set"
	"github.com/IrineSistiana/mosdns/v5/plugin/executable/hosts"
	"github.com/IrineSistiana/mosdns/v5/plugin/executable/redirect"
	"github.com/IrineSistiana/mosdns/v5/plugin/executable/sequence"
	ref "github.com/IrineSistiana/mosdns/v5/zz_verif/c12ref"
	"github.com/IrineSistiana/mosdns/v5/zz_verif/vr"
	"github.com/miekg/dns"
)

type plugRunner struct {
	res                  *vr.Result
	dir                  string     // scratch directory (t.TempDir()) holding one pre-generated file per (rule, position, plugin)
	spA                  *ref.Space // all three name forms (domain_set takes any string)
	spQ                  *ref.Space // fqdn forms only (names carried by a DNS question)
	inputs, calls, evals int64
	verbose              bool
	classes              [3][1024]int64
}

var plugNames = [...]string{"domain_set", "hosts", "redirect"}

func (rn *plugRunner) fail(path, what string, seq []int, def int, err error) {
	rn.res.ViolateInput(path+"/load-error", fmt.Sprintf("%s: loading valid rules %q failed: %v", what, rn.spA.Texts(seq), err), rn.spA.Input(seq, def, 0, path))
}

const plugMaxLen = 2

func (rn *plugRunner) fileName(kind string, ri, pos int) string {
	return filepath.Join(rn.dir, fmt.Sprintf("%s_%d_%d.txt", kind, ri, pos))
}

// genFiles writes, once, a decorated one-rule file for every rule of the
// universe at every sequence position (the decoration style and, for hosts,
// the value depend on the position). Sequences are then loaded as lists of files.
func (rn *plugRunner) genFiles() {
	for ri, r := range rn.spA.Rules {
		for pos := 0; pos < plugMaxLen; pos++ {
			for kind, val := range map[string]func(int) string{"ds": nil, "hosts": hostAddr} {
				text := ref.DecoratedTextFrom(pos, []string{r.Text()}, val)
				if err := os.WriteFile(rn.fileName(kind, ri, pos), []byte(text), 0o644); err != nil {
					panic(err)
				}
			}
		}
	}
}

func (rn *plugRunner) files(kind string, seq []int) []string {
	out := []string{}
	for pos, ri := range seq {
		out = append(out, rn.fileName(kind, ri, pos))
	}
	return out
}

func (rn *plugRunner) report(sp *ref.Space, plug int, path string, seq []int, def int, ni int, want ref.Verdict, got int, ok bool) {
	sig, desc := sp.Judge(seq, def, ni, want, got, ok)
	if rn.verbose {
		verdict := "agree"
		if sig != "" {
			verdict = "DISAGREE"
		}
		fmt.Printf("  path=%-18s name %q -> (rule position %d, matched %v)  reference: class %s, acceptable %v : %s\n", path, sp.Names[ni], got, ok, want.Class(len(seq)), ref.Bits(want.Accept), verdict)
	}
	if sig != "" {
		n := len(rn.res.Violations)
		rn.res.ViolateInput(path+"/"+sig, plugNames[plug]+" plugin: "+desc, sp.Input(seq, def, ni, path))
		if len(rn.res.Violations) > n {
			rn.res.Violations[n].Cost = ref.Cost(seq) // the merged report keeps the shortest, simplest counterexample
		}
	}
}

// domain_set: boolean membership. Variant "exps": all rules in args.exps;
// variant "files": every rule from its own decorated file (args.files).
func (rn *plugRunner) evalDomainSet(seq []int) {
	sp := rn.spA
	texts := sp.Texts(seq)
	rn.inputs += int64(len(sp.Names))
	var sets [2]*domain_set.DomainSet
	var err error
	rn.calls++
	if sets[0], err = domain_set.NewDomainSet(nil, &domain_set.Args{Exps: texts}); err != nil {
		rn.fail("domain_set/exps", "domain_set", seq, ref.Domain, err)
		return
	}
	rn.calls++
	if sets[1], err = domain_set.NewDomainSet(nil, &domain_set.Args{Files: rn.files("ds", seq)}); err != nil {
		rn.fail("domain_set/files", "domain_set", seq, ref.Domain, err)
		return
	}
	for ni := range sp.Names {
		want := sp.Decide(seq, ref.Domain, ni)
		rn.classes[0][want.Key(len(seq))&0x3f]++ // coarse class: winning type, self/subdomain, nested, nomatch flavour
		for vi, path := range [...]string{"domain_set/exps", "domain_set/files"} {
			rn.calls++
			rn.evals++
			_, ok := sets[vi].GetDomainMatcher().Match(sp.Names[ni])
			got := -1
			if ok && want.Kind >= 0 { // a set carries no values: any matching rule is as good as another
				got = ref.Bits(want.Accept)[0]
			}
			rn.report(sp, 0, path, seq, ref.Domain, ni, want, got, ok)
		}
	}
}

// hostAddr: the value of the entry at position pos. Entries behind the first one
// carry two addresses of the same family, the first of which is the first entry's
// address: values that begin alike are still different values.
func hostAddr(pos int) string {
	if pos == 0 {
		return "192.0.2.1"
	}
	return "192.0.2.1 192.0.2." + strconv.Itoa(pos+1)
}

// hosts: value = IPv4 address of the entry. Variant "entries" and variant "files".
func (rn *plugRunner) evalHosts(seq []int) {
	sp := rn.spQ
	texts := sp.Texts(seq)
	rn.inputs += int64(len(sp.Names))
	entries := make([]string, len(texts))
	for pos, s := range texts {
		entries[pos] = s + " " + hostAddr(pos)
	}
	var hs [2]*hosts.Hosts
	var err error
	rn.calls++
	if hs[0], err = hosts.NewHosts(&hosts.Args{Entries: entries}); err != nil {
		rn.fail("hosts/entries", "hosts", seq, ref.Full, err)
		return
	}
	rn.calls++
	if hs[1], err = hosts.NewHosts(&hosts.Args{Files: rn.files("hosts", seq)}); err != nil {
		rn.fail("hosts/files", "hosts", seq, ref.Full, err)
		return
	}
	for ni := range sp.Names {
		want := sp.Decide(seq, ref.Full, ni)
		rn.classes[1][want.Key(len(seq))&0x3f]++ // coarse class: winning type, self/subdomain, nested, nomatch flavour
		for vi, path := range [...]string{"hosts/entries", "hosts/files"} {
			q := plugQuestion(sp.Names[ni])
			rn.calls++
			rn.evals++
			r := hs[vi].Response(q)
			got, ok := -1, r != nil
			if ok && len(r.Answer) >= 1 && len(r.Answer) <= 2 {
				// the entry is named by its last address; the list must be exactly the entry's
				var list []string
				for _, rr := range r.Answer {
					if a, isA := rr.(*dns.A); isA {
						list = append(list, a.A.String())
					}
				}
				if a, isA := r.Answer[len(r.Answer)-1].(*dns.A); isA {
					if ip, good := netip.AddrFromSlice(a.A.To4()); good {
						b := ip.As4()
						if b[0] == 192 && b[1] == 0 && b[2] == 2 && strings.Join(list, " ") == hostAddr(int(b[3])-1) {
							got = int(b[3]) - 1
						}
					}
				}
			}
			rn.report(sp, 1, path, seq, ref.Full, ni, want, got, ok)
		}
	}
}

// redirect: value = target name "t<pos>."; observed as the CNAME the plugin
// puts in front of the (pre-set, empty) response.
func (rn *plugRunner) evalRedirect(seq []int) {
	sp := rn.spQ
	texts := sp.Texts(seq)
	rn.inputs += int64(len(sp.Names))
	rules := make([]string, len(texts))
	for pos, s := range texts {
		rules[pos] = s + " t" + strconv.Itoa(pos)
	}
	rn.calls++
	rd, err := redirect.NewRedirect(&redirect.Args{Rules: rules})
	if err != nil {
		rn.fail("redirect/rules", "redirect", seq, ref.Full, err)
		return
	}
	for ni := range sp.Names {
		want := sp.Decide(seq, ref.Full, ni)
		rn.classes[2][want.Key(len(seq))&0x3f]++ // coarse class: winning type, self/subdomain, nested, nomatch flavour
		qCtx := query_context.NewContext(plugQuestion(sp.Names[ni]))
		qCtx.SetResponse(new(dns.Msg))
		rn.calls++
		rn.evals++
		if err := rd.Exec(context.Background(), qCtx, sequence.ChainWalker{}); err != nil {
			panic(err)
		}
		got, ok := -1, false
		if r := qCtx.R(); r != nil && len(r.Answer) > 0 {
			ok = true
			if c, isC := r.Answer[0].(*dns.CNAME); isC && strings.HasPrefix(c.Target, "t") && strings.HasSuffix(c.Target, ".") {
				if n, err := strconv.Atoi(c.Target[1 : len(c.Target)-1]); err == nil {
					got = n
				}
			}
		}
		rn.report(sp, 2, "redirect/rules", seq, ref.Full, ni, want, got, ok)
	}
}

// plugQuestion: an A/IN question for name (fixed message id: no entropy is consumed).
func plugQuestion(name string) *dns.Msg {
	q := new(dns.Msg)
	q.Id = 0x1212
	q.RecursionDesired = true
	q.Question = []dns.Question{{Name: name, Qtype: dns.TypeA, Qclass: dns.ClassINET}}
	return q
}

func (rn *plugRunner) evalSeq(seq []int) {
	rn.evalDomainSet(seq)
	rn.evalHosts(seq)
	rn.evalRedirect(seq)
}

func TestVerifC12Plug(t *testing.T) {
	e := vr.GetEnv()
	dir := t.TempDir()
	if raw, ok := vr.ReplayInput(); ok {
		plugReplay(t, raw, dir)
		return
	}
	res := vr.New("C12", e)
	nameLabels, patLabels := 3, 2
	if e.Tier == "thorough" {
		nameLabels, patLabels = 4, 3
	}
	rules := ref.Universe(patLabels)
	rn := &plugRunner{res: res, dir: dir,
		spA: ref.NewSpace(rules, ref.QueryNames(nameLabels)), spQ: ref.NewSpace(rules, ref.FqdnQueryNames(nameLabels))}
	res.Bounds["p1_rule_universe"] = ref.DescribeUniverse(patLabels)
	res.Bounds["p1_sequences"] = "all ordered sequences with repetition of length 0..2; default type fixed by the plugin (domain_set: domain; hosts, redirect: full)"
	res.Bounds["p1_names"] = fmt.Sprintf("domain_set: %d names (<=%d labels x 3 forms); hosts/redirect: %d fully qualified question names (<=%d labels x lower/upper)", len(rn.spA.Names), nameLabels, len(rn.spQ.Names), nameLabels)
	res.Bounds["p1_paths"] = "domain_set exps | files; hosts entries | files; redirect rules (files: one decorated file per rule: " + ref.TextDecoration + ")"
	rn.genFiles()

	var unit int64
	expired := false
	if e.Mine(unit) {
		rn.evalSeq([]int{})
	}
	unit++
	for i := range rules {
		if e.Mine(unit) {
			rn.evalSeq([]int{i})
		}
		unit++
	}
	for i := range rules {
		if e.Expired() {
			expired = true
			break
		}
		if e.Mine(unit) {
			for j := range rules {
				rn.evalSeq([]int{i, j})
			}
		}
		unit++
	}
	if expired {
		res.Exhaustive = false
		res.Notes = append(res.Notes, "part 1 (plugins): budget expired inside the sequences of length 2; length <=1 fully covered")
	}
	for p := range rn.classes {
		for k, n := range rn.classes[p] {
			if n > 0 {
				res.Outcomes[plugNames[p]+":"+ref.ClassName(uint16(k))] += n
			}
		}
	}
	res.States = rn.inputs
	res.Transitions = rn.calls
	res.Evaluations = rn.evals
	res.Write(e)
	for _, v := range res.Violations {
		t.Logf("violation %s: %s", v.Sig, v.Desc)
	}
}

func plugReplay(t *testing.T, raw json.RawMessage, dir string) {
	var in ref.Input
	if err := json.Unmarshal(raw, &in); err != nil {
		fmt.Println("INFRA: bad replay input:", err)
		t.FailNow()
	}
	res := vr.New("C12", vr.GetEnv())
	fmt.Printf("replay: rules=%v default=%q name=%q (recorded path %s)\n", in.Rules, in.Default, in.Name, in.Path)
	sp := ref.NewSpace(in.Rules, []string{in.Name})
	rn := &plugRunner{res: res, dir: dir, spA: sp, spQ: sp, verbose: true}
	rn.genFiles()
	seq := make([]int, len(in.Rules))
	for i := range seq {
		seq[i] = i
	}
	fmt.Printf("  normalised name %q\n", sp.NormN[0])
	switch {
	case strings.HasPrefix(in.Path, "domain_set"):
		rn.evalDomainSet(seq)
	case strings.HasPrefix(in.Path, "hosts"):
		rn.evalHosts(seq)
	default:
		rn.evalRedirect(seq)
	}
	if len(res.Violations) > 0 {
		sort.Slice(res.Violations, func(i, j int) bool { return res.Violations[i].Sig < res.Violations[j].Sig })
		for _, v := range res.Violations {
			fmt.Printf("REPLAY-VIOLATION property=C12 sig=%s\n  %s\n", v.Sig, v.Desc)
		}
		return
	}
	fmt.Println("REPLAY-OK: this input does not violate the property on the current tree")
}
