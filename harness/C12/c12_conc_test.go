package domain

import (
	"fmt"
	"strings"
	"testing"

	"github.com/IrineSistiana/mosdns/v5/zz_verif/vr"
	"github.com/IrineSistiana/mosdns/v5/zz_verif/vs"
)

// C12 part "conc": lookups are concurrent in mosdns (every query is a
// goroutine) while a set, once built, is only read. 2-3 threads x 2 lookups on
// one MixMatcher holding rules of all four types (three regexp rules among
// them; the order in which a matcher walks a map of rules is a choice of the explorer); every interleaving within the deviation bound. Every lookup must give
// what the same lookup gives on a freshly built matcher used by one thread
// (names are chosen so that at most one rule of the winning type matches, the
// value is unique); race detector on every field of the package.

var c12concRules = []string{
	"full:exact.example.com", "domain:example.org", "keyword:kw",
	"regexp:^b[0-9]+\\.re\\.test$", "regexp:^c[0-9]+\\.re\\.test$",
}

var c12concNames = []string{"b1.re.test.", "c22.re.test.", "none.re.test.", "x.example.org.", "EXACT.example.com", "haskw.net."}

// the names the concurrent lookups choose from (the others are only asked afterwards)
var c12concMenu = []string{"b1.re.test.", "c22.re.test."}

func c12concBuild() *MixMatcher[int] {
	m := NewMixMatcher[int]()
	for i, r := range c12concRules {
		if err := m.Add(r, i+1); err != nil {
			panic(err)
		}
	}
	return m
}

type c12concObs struct {
	name string
	v    int
	ok   bool
}

func c12concScenario(name string, threads, d int) vr.Scenario {
	var obs [][]c12concObs
	want := map[string]c12concObs{}
	body := func() {
		ref := c12concBuild()
		for _, n := range c12concNames {
			v, ok := ref.Match(n)
			want[n] = c12concObs{n, v, ok}
		}
		m := c12concBuild()
		obs = make([][]c12concObs, threads)
		var wg vs.WaitGroup
		for t := 0; t < threads; t++ {
			t := t
			wg.Add(1)
			vs.GoNamed(fmt.Sprintf("q%d", t), func() {
				defer wg.Done()
				for k := 0; k < 2; k++ {
					n := c12concMenu[vs.Choose(len(c12concMenu))]
					v, ok := m.Match(n)
					obs[t] = append(obs[t], c12concObs{n, v, ok})
				}
			})
		}
		wg.Wait()
		// and afterwards, alone
		for _, n := range c12concMenu {
			v, ok := m.Match(n)
			obs[0] = append(obs[0], c12concObs{n, v, ok})
		}
	}
	check := func(x *vs.Exec) (string, *vs.Violation) {
		V := func(o, why string) (string, *vs.Violation) {
			return o, &vs.Violation{Sig: name + "/" + o, Desc: why + fmt.Sprintf("\nrules %v\nlookups per thread (the last %d of thread 0 ran alone afterwards): %+v", c12concRules, len(c12concMenu), obs)}
		}
		if x.Panic != "" {
			return V("panic", x.Panic)
		}
		if len(x.Races) > 0 {
			return V("data-race", "unsynchronised accesses: "+strings.Join(x.Races, "; "))
		}
		if len(x.Blocked) > 0 {
			return V("stuck", fmt.Sprintf("parked: %v", x.Blocked))
		}
		var key []string
		for t, os := range obs {
			for _, o := range os {
				w := want[o.name]
				switch {
				case w.ok && !o.ok:
					return V("missed", fmt.Sprintf("thread %d: Match(%q) = no match; a fresh matcher used by one thread says rule #%d (%s)", t, o.name, w.v, c12concRules[w.v-1]))
				case !w.ok && o.ok:
					return V("false-positive", fmt.Sprintf("thread %d: Match(%q) = rule #%d; a fresh matcher used by one thread says no match", t, o.name, o.v))
				case w.ok && o.v != w.v:
					return V("wrong-value", fmt.Sprintf("thread %d: Match(%q) = value %d; a fresh matcher used by one thread says %d", t, o.name, o.v, w.v))
				}
			}
			if t < len(obs) && len(os) >= 2 {
				key = append(key, os[0].name+"+"+os[1].name)
			}
		}
		return strings.Join(key, "|"), nil
	}
	return vr.Scenario{Name: name, P: d, D: d, Body: body, Check: check}
}

func TestVerifC12Conc(t *testing.T) {
	e := vr.GetEnv()
	scs := []vr.Scenario{c12concScenario("mix-2threads", 2, 2)}
	if e.Tier == "thorough" {
		scs = []vr.Scenario{c12concScenario("mix-2threads", 2, 3), c12concScenario("mix-3threads", 3, 1)}
	}
	vr.RunScenarios("C12", scs)
}
